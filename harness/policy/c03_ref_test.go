//go:build verif

package policy

// Reference model for C03, written from website/content/docs/concepts/policies.mdx (and, for pagination,
// community/rfcs/acl-paginated-lists.mdx + release notes 2.6.0). It does not call or copy acl.go.
//
// The order in which list/scan consult the path and the path without its trailing slash is pinned to the
// staged reading (see Decide). Where the documentation is otherwise silent the model returns "unclear" (the
// real decision is then only subject to the implementation-only relations: order independence,
// Capabilities() agreement, deny monotonicity). The places are marked with "DOCS SILENT".

import (
	"fmt"
	"sort"
	"strconv"
	"strings"
	"time"
)

// ---- description of a case (what the generator draws; rendered to HCL for the real parser)

type c03KV struct {
	Key  string
	Vals []any // for a request: exactly one value
}

type c03Stanza struct {
	Pattern    string // as written in the policy (relative to the policy's namespace)
	LeadSlash  bool   // written with a leading '/' (the parser strips one: paths start after the '/' of the API path)
	Caps       []string
	HasAllowed bool
	Allowed    []c03KV
	HasDenied  bool
	Denied     []c03KV
	Required   []string
	MinTTL     int // seconds, 0 = not set
	MaxTTL     int // seconds, 0 = not set
	Pagination int // 0 = not set
	Expiry     int // 0 none, 1 far in the past, 2 far in the future, 3 lapses between parsing the policy and building the ACL
	ExpiryAt   time.Time
	Comment    bool
}

type c03Policy struct {
	NS      string // "" or "ns1/"
	Stanzas []c03Stanza
}

type c03Req struct {
	NS   string
	Path string // relative to NS
	Data []c03KV
	Wrap int // seconds, 0 = response wrapping not requested
}

func c03HCLValue(v any) string {
	switch x := v.(type) {
	case string:
		return fmt.Sprintf("%q", x)
	case bool:
		return strconv.FormatBool(x)
	case int:
		return strconv.Itoa(x)
	}
	panic(fmt.Sprintf("c03: unsupported value %T", v))
}

func c03HCLMap(sb *strings.Builder, name string, m []c03KV) {
	fmt.Fprintf(sb, "  %s = {\n", name)
	for _, kv := range m {
		vs := make([]string, len(kv.Vals))
		for i, v := range kv.Vals {
			vs[i] = c03HCLValue(v)
		}
		fmt.Fprintf(sb, "    %q = [%s]\n", kv.Key, strings.Join(vs, ", "))
	}
	sb.WriteString("  }\n")
}

func c03TTLString(s int) string {
	if s%60 == 0 {
		return fmt.Sprintf("%dm", s/60)
	}
	return fmt.Sprintf("%ds", s)
}

func (p c03Policy) HCL() string {
	var sb strings.Builder
	for _, s := range p.Stanzas {
		written := s.Pattern
		if s.LeadSlash {
			written = "/" + written
		}
		fmt.Fprintf(&sb, "path %q {\n", written)
		q := make([]string, len(s.Caps))
		for i, c := range s.Caps {
			q[i] = fmt.Sprintf("%q", c)
		}
		fmt.Fprintf(&sb, "  capabilities = [%s]\n", strings.Join(q, ", "))
		if s.HasAllowed {
			c03HCLMap(&sb, "allowed_parameters", s.Allowed)
		}
		if s.HasDenied {
			c03HCLMap(&sb, "denied_parameters", s.Denied)
		}
		if len(s.Required) > 0 {
			r := make([]string, len(s.Required))
			for i, c := range s.Required {
				r[i] = fmt.Sprintf("%q", c)
			}
			fmt.Fprintf(&sb, "  required_parameters = [%s]\n", strings.Join(r, ", "))
		}
		if s.MinTTL > 0 {
			fmt.Fprintf(&sb, "  min_wrapping_ttl = %q\n", c03TTLString(s.MinTTL))
		}
		if s.MaxTTL > 0 {
			fmt.Fprintf(&sb, "  max_wrapping_ttl = %q\n", c03TTLString(s.MaxTTL))
		}
		if s.Pagination > 0 {
			fmt.Fprintf(&sb, "  pagination_limit = %d\n", s.Pagination)
		}
		switch s.Expiry {
		case 1:
			sb.WriteString("  expiration = \"2001-01-02T15:04:05Z\"\n")
		case 2:
			sb.WriteString("  expiration = \"2999-01-02T15:04:05Z\"\n")
		case 3:
			fmt.Fprintf(&sb, "  expiration = %q\n", s.ExpiryAt.UTC().Format(time.RFC3339Nano))
		}
		if s.Comment {
			sb.WriteString("  comment = \"see TRACKER-12345\"\n")
		}
		sb.WriteString("}\n")
	}
	return sb.String()
}

// ---- the reference evaluator

type c03Verdict int

const (
	c03Deny c03Verdict = iota
	c03Allow
	c03Unclear
)

func (v c03Verdict) String() string { return [...]string{"deny", "allow", "unclear"}[v] }

type c03Ref struct {
	V   c03Verdict
	Why string // which rule decided / why unclear
	// pattern selection
	PatternClear  bool   // always true since the staged fallback order is pinned
	FallbackOrder string // non-empty: another consultation order of the list/scan fallback would pick another pattern
	Pattern       string // the winning (namespace-qualified) pattern, "" = none matches
	NMatch        int    // distinct patterns matching the request path (or, for list/scan, the path without its trailing slash)
	NGroup        int    // stanzas merged for the winning pattern
	Deny          bool
	Caps          map[string]bool
	Constraint    bool // a parameter / pagination / wrapping-TTL rule decided, or rewrote limit
	// expectation on req.Data["limit"] after an allowed list/scan: 0 none, 1 must equal LimitEq, 2 unchanged
	LimitMode int
	LimitEq   string
	// if >0: when the real decision is "allowed", the effective limit must be an integer in [1, GuardMax]
	GuardMax int
}

type c03Rule struct {
	full string
	st   *c03Stanza
}

func c03ActiveRules(pols []c03Policy) []c03Rule {
	var out []c03Rule
	for pi := range pols {
		for si := range pols[pi].Stanzas {
			st := &pols[pi].Stanzas[si]
			if st.Expiry == 1 || st.Expiry == 3 {
				continue // "automatically remove access at a point in time"
			}
			out = append(out, c03Rule{full: pols[pi].NS + st.Pattern, st: st})
		}
	}
	return out
}

// A pattern is special when it contains a '+' segment or the trailing '*'. Literal segments are free of both.
func c03Special(p string) bool { return strings.ContainsAny(p, "+*") }

// c03Match: character walk. '+' (a whole segment) stands for any number of characters within one
// segment; a trailing '*' stands for any rest ("prefix match"); everything else is literal.
func c03Match(pat, path string) bool {
	glob := strings.HasSuffix(pat, "*")
	if glob {
		pat = pat[:len(pat)-1]
	}
	i, j := 0, 0
	for i < len(pat) {
		segStart := i == 0 || pat[i-1] == '/'
		segEnd := i+1 == len(pat) || pat[i+1] == '/'
		if pat[i] == '+' && segStart && segEnd {
			for j < len(path) && path[j] != '/' {
				j++
			}
			i++
			continue
		}
		if j >= len(path) || path[j] != pat[i] {
			return false
		}
		i++
		j++
	}
	return glob || j == len(path)
}

func c03PlusSegments(p string) int {
	n := 0
	for _, s := range strings.Split(strings.TrimSuffix(p, "*"), "/") {
		if s == "+" {
			n++
		}
	}
	return n
}

// c03Lower: "P1 is lower priority than P2", the five documented rules in order.
func c03Lower(p1, p2 string) bool {
	// 1. If the first wildcard (+) or glob (*) occurs earlier in P1, P1 is lower priority
	f1, f2 := strings.IndexAny(p1, "+*"), strings.IndexAny(p2, "+*")
	if f1 != f2 {
		return f1 < f2
	}
	// 2. If P1 ends in * and P2 doesn't, P1 is lower priority
	e1, e2 := strings.HasSuffix(p1, "*"), strings.HasSuffix(p2, "*")
	if e1 != e2 {
		return e1
	}
	// 3. If P1 has more + (wildcard) segments, P1 is lower priority
	n1, n2 := c03PlusSegments(p1), c03PlusSegments(p2)
	if n1 != n2 {
		return n1 > n2
	}
	// 4. If P1 is shorter, it is lower priority
	if len(p1) != len(p2) {
		return len(p1) < len(p2)
	}
	// 5. If P1 is smaller lexicographically, it is lower priority
	return p1 < p2
}

type c03Index struct {
	rules    []c03Rule
	patterns []string // distinct, sorted
}

func c03NewIndex(pols []c03Policy) *c03Index {
	ix := &c03Index{rules: c03ActiveRules(pols)}
	seen := map[string]bool{}
	for _, r := range ix.rules {
		if !seen[r.full] {
			seen[r.full] = true
			ix.patterns = append(ix.patterns, r.full)
		}
	}
	sort.Strings(ix.patterns)
	return ix
}

func (ix *c03Index) exact(path string) (string, bool) {
	for _, p := range ix.patterns {
		if !c03Special(p) && p == path {
			return p, true
		}
	}
	return "", false
}

func (ix *c03Index) nonExactMatches(path string) []string {
	var out []string
	for _, p := range ix.patterns {
		if c03Special(p) && c03Match(p, path) {
			out = append(out, p)
		}
	}
	return out
}

func c03Best(cands []string) (string, bool) {
	if len(cands) == 0 {
		return "", false
	}
	best := cands[0]
	for _, c := range cands[1:] {
		if c03Lower(best, c) {
			best = c
		}
	}
	return best, true
}

// selectPattern under one consultation order of the list/scan fallback (order 0 "staged" is the pinned,
// asserted one; 1 and 2 only serve to count how often the order matters):
//
//	0 "staged"  exact(P), exact(P'), best non-exact of P, best non-exact of P'
//	1 "p-first" exact(P), best non-exact of P, exact(P'), best non-exact of P'
//	2 "pooled"  exact(P), exact(P'), best non-exact among the matches of P and of P' together
//
// where P' is P without its trailing slash (list/scan only). For other operations all readings coincide.
func (ix *c03Index) selectPattern(path string, listish bool, reading int) string {
	alt := ""
	hasAlt := false
	if listish && strings.HasSuffix(path, "/") {
		alt, hasAlt = strings.TrimSuffix(path, "/"), true
	}
	if p, ok := ix.exact(path); ok {
		return p
	}
	switch reading {
	case 0:
		if hasAlt {
			if p, ok := ix.exact(alt); ok {
				return p
			}
		}
		if p, ok := c03Best(ix.nonExactMatches(path)); ok {
			return p
		}
		if hasAlt {
			if p, ok := c03Best(ix.nonExactMatches(alt)); ok {
				return p
			}
		}
	case 1:
		if p, ok := c03Best(ix.nonExactMatches(path)); ok {
			return p
		}
		if hasAlt {
			if p, ok := ix.exact(alt); ok {
				return p
			}
			if p, ok := c03Best(ix.nonExactMatches(alt)); ok {
				return p
			}
		}
	case 2:
		if hasAlt {
			if p, ok := ix.exact(alt); ok {
				return p
			}
		}
		c := ix.nonExactMatches(path)
		if hasAlt {
			for _, q := range ix.nonExactMatches(alt) {
				dup := false
				for _, e := range c {
					dup = dup || e == q
				}
				if !dup {
					c = append(c, q)
				}
			}
		}
		if p, ok := c03Best(c); ok {
			return p
		}
	}
	return ""
}

func (ix *c03Index) countMatches(path string, listish bool) int {
	seen := map[string]bool{}
	add := func(p string) {
		if q, ok := ix.exact(p); ok {
			seen[q] = true
		}
		for _, q := range ix.nonExactMatches(p) {
			seen[q] = true
		}
	}
	add(path)
	if listish && strings.HasSuffix(path, "/") {
		add(strings.TrimSuffix(path, "/"))
	}
	return len(seen)
}

func (ix *c03Index) group(pattern string) []*c03Stanza {
	var out []*c03Stanza
	for _, r := range ix.rules {
		if r.full == pattern {
			out = append(out, r.st)
		}
	}
	return out
}

var c03OpCap = map[string]string{"create": "create", "read": "read", "update": "update", "delete": "delete", "list": "list", "scan": "scan", "patch": "patch"}

func c03StringGlobMatch(item, val string) bool {
	// "Globbing is enabled by prepending or appending a splat (*) to the value"
	switch {
	case len(item) > 1 && strings.HasSuffix(item, "*"):
		return strings.HasPrefix(val, item[:len(item)-1])
	case len(item) > 1 && strings.HasPrefix(item, "*"):
		return strings.HasSuffix(val, item[1:])
	}
	return item == val
}

func c03ValueIn(v any, list []any) bool {
	for _, el := range list {
		es, eok := el.(string)
		vs, vok := v.(string)
		if eok && vok {
			if c03StringGlobMatch(es, vs) {
				return true
			}
			continue
		}
		if eok != vok {
			continue // [false, "false"] in the docs: a string and a non-string are different values
		}
		if el == v {
			return true
		}
	}
	return false
}

func c03Lookup(m []c03KV, key string) ([]any, bool) {
	// later duplicates of a key are not generated
	for _, kv := range m {
		if kv.Key == key {
			return kv.Vals, true
		}
	}
	return nil, false
}

// c03ParamsPass: do the request parameters satisfy ONE stanza's required/denied/allowed parameters?
func c03ParamsPass(st *c03Stanza, data []c03KV) bool {
	// required_parameters - "A list of parameters that must be specified."
	for _, r := range st.Required {
		if _, ok := c03Lookup(data, r); !ok {
			return false
		}
	}
	for _, kv := range data {
		v := kv.Vals[0]
		// denied_parameters take precedence over allowed_parameters
		if st.HasDenied {
			if _, ok := c03Lookup(st.Denied, "*"); ok {
				return false // "Setting to "*" will deny any parameter."
			}
			if list, ok := c03Lookup(st.Denied, kv.Key); ok {
				if len(list) == 0 || c03ValueIn(v, list) {
					return false
				}
			}
		}
		// "If any keys are specified, all non-specified parameters will be denied unless the parameter "*" is set to an empty array"
		if st.HasAllowed && len(st.Allowed) > 0 {
			list, ok := c03Lookup(st.Allowed, kv.Key)
			if ok {
				if len(list) > 0 && !c03ValueIn(v, list) {
					return false
				}
			} else if _, all := c03Lookup(st.Allowed, "*"); !all {
				return false
			}
		}
	}
	return true
}

// c03Accumulate: one of the readings of "merged stanzas": keys are united, value lists concatenated, an
// empty list ("any value") absorbs, required parameters are united.
func c03Accumulate(g []*c03Stanza) *c03Stanza {
	acc := &c03Stanza{}
	merge := func(dst *[]c03KV, src []c03KV) {
		for _, kv := range src {
			found := false
			for i := range *dst {
				if (*dst)[i].Key == kv.Key {
					found = true
					if len(kv.Vals) == 0 || len((*dst)[i].Vals) == 0 {
						(*dst)[i].Vals = []any{}
					} else {
						(*dst)[i].Vals = append(append([]any{}, (*dst)[i].Vals...), kv.Vals...)
					}
				}
			}
			if !found {
				*dst = append(*dst, c03KV{Key: kv.Key, Vals: append([]any{}, kv.Vals...)})
			}
		}
	}
	for _, st := range g {
		if st.HasAllowed && len(st.Allowed) > 0 {
			acc.HasAllowed = true
			merge(&acc.Allowed, st.Allowed)
		}
		if st.HasDenied && len(st.Denied) > 0 {
			acc.HasDenied = true
			merge(&acc.Denied, st.Denied)
		}
		for _, r := range st.Required {
			if !c03Contains(acc.Required, r) {
				acc.Required = append(acc.Required, r)
			}
		}
	}
	return acc
}

func c03HasParamRules(st *c03Stanza) bool {
	return len(st.Required) > 0 || (st.HasDenied && len(st.Denied) > 0) || (st.HasAllowed && len(st.Allowed) > 0)
}

// c03ParseLimit: 0 = integer (val), 1 = "max", 2 = something else
func c03ParseLimit(v any) (int, int) {
	switch x := v.(type) {
	case int:
		return x, 0
	case string:
		if x == "max" {
			return 0, 1
		}
		if n, err := strconv.Atoi(x); err == nil {
			return n, 0
		}
	}
	return 0, 2
}

func (ix *c03Index) evalGroup(pattern string, req c03Req, op string) c03Ref {
	ref := c03Ref{PatternClear: true, Pattern: pattern, Caps: map[string]bool{}}
	if pattern == "" {
		ref.V, ref.Why = c03Deny, "default-deny"
		return ref
	}
	g := ix.group(pattern)
	ref.NGroup = len(g)
	// "If the same pattern appears in multiple policies, we take the union of the capabilities";
	// "deny - Disallows access. This always takes precedence regardless of any other defined capabilities, including sudo."
	for _, st := range g {
		for _, c := range st.Caps {
			if c == "deny" {
				ref.Deny = true
			}
			ref.Caps[c] = true
		}
	}
	if ref.Deny {
		ref.Caps = map[string]bool{"deny": true}
		ref.V, ref.Why = c03Deny, "deny-capability"
		return ref
	}
	if !ref.Caps[c03OpCap[op]] {
		ref.V, ref.Why = c03Deny, "capability-missing"
		return ref
	}
	listish := op == "list" || op == "scan"
	unclear := ""
	deny := ""

	// ---- wrapping TTL: "if paths are merged from different stanzas, the lowest value specified for each is the value that will result"
	minTTL, maxTTL := 0, 0
	for _, st := range g {
		if st.MinTTL > 0 && (minTTL == 0 || st.MinTTL < minTTL) {
			minTTL = st.MinTTL
		}
		if st.MaxTTL > 0 && (maxTTL == 0 || st.MaxTTL < maxTTL) {
			maxTTL = st.MaxTTL
		}
	}
	if minTTL > 0 && req.Wrap < minTTL {
		deny = "min-wrapping-ttl" // includes "not wrapped": a minimum makes wrapping mandatory
	}
	if maxTTL > 0 {
		if req.Wrap > maxTTL {
			deny = "max-wrapping-ttl"
		} else if req.Wrap == 0 && minTTL == 0 {
			// DOCS SILENT: only a maximum is set and the client does not ask for wrapping at all.
			unclear = "max-ttl-without-wrapping"
		}
	}

	// ---- request parameters
	allPass, nonePass, anyRules := true, true, false
	for _, st := range g {
		anyRules = anyRules || c03HasParamRules(st)
		if c03ParamsPass(st, req.Data) {
			nonePass = false
		} else {
			allPass = false
		}
	}
	if !allPass {
		switch {
		case listish || op == "delete":
			// DOCS SILENT on whether parameter constraints apply to delete/list/scan requests.
			if unclear == "" {
				unclear = "params-on-" + op
			}
		case len(g) > 1:
			// DOCS SILENT on how allowed/denied/required parameters of different stanzas for the same pattern
			// combine. Readings: every stanza must pass / one passing stanza is enough / the constraints are
			// accumulated into one stanza. Denied only if all three deny.
			if nonePass && !c03ParamsPass(c03Accumulate(g), req.Data) {
				deny = "parameters-under-every-merge-reading"
			} else if unclear == "" {
				unclear = "param-merge"
			}
		default:
			deny = "parameters"
		}
	}

	// ---- pagination (list/scan only)
	if listish {
		limits := []int{}
		unlimited := 0
		for _, st := range g {
			if st.Pagination > 0 {
				limits = append(limits, st.Pagination)
			} else {
				unlimited++
			}
		}
		lv, present := c03Lookup(req.Data, "limit")
		switch {
		case len(limits) == 0:
			// no pagination_limit: "translate the value limit=max to ... limit=0 if no value was set"
			if present {
				if _, kind := c03ParseLimit(lv[0]); kind == 1 {
					ref.LimitMode, ref.LimitEq = 1, "0"
				} else {
					ref.LimitMode = 2
				}
			}
		case len(g) == 1:
			L := limits[0]
			if !present {
				if c03Contains(g[0].Required, "limit") {
					deny = "pagination-limit-required"
				} else {
					ref.LimitMode, ref.LimitEq = 1, strconv.Itoa(L) // RFC: "we silently update the request to include the maximum allowed limit value"
					ref.Constraint = true
				}
			} else {
				n, kind := c03ParseLimit(lv[0])
				switch {
				case kind == 1:
					ref.LimitMode, ref.LimitEq = 1, strconv.Itoa(L)
					ref.Constraint = true
				case kind == 2:
					// DOCS SILENT: a limit that is neither an integer nor "max"
					if unclear == "" {
						unclear = "limit-not-a-number"
					}
				case n >= 1 && n <= L:
					ref.LimitMode = 2
				default:
					// too large, zero or negative: the docs say the number of results "is limited to the value of
					// pagination_limit" (reject or clamp are both readings); release notes 2.6.0: 0 / negative must not bypass.
					ref.GuardMax = L
					if unclear == "" {
						unclear = "limit-out-of-range"
					}
				}
			}
		default:
			// DOCS SILENT on how pagination_limit of different stanzas for the same pattern combine
			// (the implementation takes the lowest). Assert only what every reading gives.
			lo, hi := limits[0], limits[0]
			for _, l := range limits {
				if l < lo {
					lo = l
				}
				if l > hi {
					hi = l
				}
			}
			n, kind := 0, 2
			if present {
				n, kind = c03ParseLimit(lv[0])
			}
			switch {
			case present && kind == 0 && n >= 1 && n <= lo:
				ref.LimitMode = 2
			case present && kind == 0 && unlimited == 0 && (n > hi || n < 1):
				ref.GuardMax = hi
				if unclear == "" {
					unclear = "limit-out-of-range"
				}
			default:
				if present && kind == 1 && unlimited == 0 {
					ref.GuardMax = hi
				}
				if unclear == "" {
					unclear = "pagination-merge"
				}
			}
		}
	}

	switch {
	case deny != "":
		ref.V, ref.Why, ref.Constraint = c03Deny, deny, true
		ref.LimitMode, ref.GuardMax = 0, 0
	case unclear != "":
		ref.V, ref.Why = c03Unclear, unclear
		ref.LimitMode = 0
	default:
		ref.V, ref.Why = c03Allow, "capability"
		if anyRules || minTTL > 0 || maxTTL > 0 {
			ref.Why = "capability+constraints-satisfied"
		}
	}
	return ref
}

func c03Contains(s []string, x string) bool {
	for _, e := range s {
		if e == x {
			return true
		}
	}
	return false
}

// Decide evaluates one operation of one request against the attached policies.
//
// PINNED READING (coordinator decision): the documented principle "an exact match wins over any glob /
// wildcard match" applies to the list/scan fallback as well, i.e. the staged order
// exact(P) > exact(P without trailing slash) > best non-exact(P) > best non-exact(P without trailing slash)
// is asserted (basis: policies.mdx priority note + the comment above the second fallback in acl.go).
// The other two orders are only evaluated to count how often the order matters.
func (ix *c03Index) Decide(req c03Req, op string) c03Ref {
	path := req.NS + req.Path
	listish := op == "list" || op == "scan"
	p0 := ix.selectPattern(path, listish, 0)
	r0 := ix.evalGroup(p0, req, op)
	r0.NMatch = ix.countMatches(path, listish)
	r0.FallbackOrder = ix.fallbackOrderMatters(path, listish, p0)
	return r0
}

// fallbackOrderMatters: "" when every consultation order picks the same pattern, otherwise which conflict it is.
func (ix *c03Index) fallbackOrderMatters(path string, listish bool, p0 string) string {
	if !listish || !strings.HasSuffix(path, "/") {
		return ""
	}
	if ix.selectPattern(path, listish, 1) != p0 {
		return "exact-without-slash-vs-nonexact-with-slash"
	}
	if ix.selectPattern(path, listish, 2) != p0 {
		return "nonexact-with-slash-vs-higher-priority-nonexact-without-slash"
	}
	return ""
}

// CapsFor: the capability set for a path when looked up the way list/scan look it up (ACL.Capabilities is
// documented, in its own comment, to do so), under the pinned staged reading.
func (ix *c03Index) CapsFor(path string) (caps []string, pattern string, orderMatters string) {
	p0 := ix.selectPattern(path, true, 0)
	orderMatters = ix.fallbackOrderMatters(path, true, p0)
	set := map[string]bool{}
	for _, st := range ix.group(p0) {
		for _, c := range st.Caps {
			set[c] = true
		}
	}
	if set["deny"] || len(set) == 0 {
		return []string{"deny"}, p0, orderMatters
	}
	for c := range set {
		caps = append(caps, c)
	}
	sort.Strings(caps)
	return caps, p0, orderMatters
}
