//go:build verif

package policy

import (
	"testing"
)

func TestVerif_C03_Scratch(t *testing.T) {
	mk := func(name, vals string) *Policy {
		p, err := ParseACLPolicy(c03NSOf(""), `path "a" { capabilities = ["update"] allowed_parameters = { "k1" = [`+vals+`] } }`)
		if err != nil {
			t.Fatal(err)
		}
		p.Name = name
		return p
	}
	p1 := mk("p1", `"zz"`)
	p2 := mk("p2", `"x", "xy", "yx"`)
	p3 := mk("p3", `"q"`)
	t.Logf("p2 slice len=%d cap=%d", len(p2.Paths[0].Permissions.AllowedParameters["k1"]), cap(p2.Paths[0].Permissions.AllowedParameters["k1"]))
	aclA := c03Build(t, []*Policy{p1, p2})
	req := c03Req{Path: "a", Data: []c03KV{{Key: "k1", Vals: []any{"zz"}}}}
	before := c03Ask(aclA, req, "update")
	aclB := c03Build(t, []*Policy{p3, p2})
	after := c03Ask(aclA, req, "update")
	reqq := c03Req{Path: "a", Data: []c03KV{{Key: "k1", Vals: []any{"q"}}}}
	t.Logf("aclA zz before=%v after=%v; aclA q after=%v; aclB q=%v", before.Allowed, after.Allowed, c03Ask(aclA, reqq, "update").Allowed, c03Ask(aclB, reqq, "update").Allowed)
}
