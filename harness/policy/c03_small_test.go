//go:build verif

package policy

import (
	"context"
	"fmt"
	"strings"
	"testing"

	"github.com/openbao/openbao/sdk/v2/helper/verifx"
	"github.com/openbao/openbao/sdk/v2/logical"
	"github.com/openbao/openbao/v2/internal/helper/namespace"
)

// ---------------------------------------------------------------- small-scope exhaustive enumeration

// c03SmallPatterns: every pattern of depth <= 2 over the literals a, bb and the '+' segment, in every
// documented shape (exact, trailing slash, glob glued to a literal incl. mid-segment, "/*"), plus "*".
func c03SmallPatterns() []string {
	segs := []string{"a", "bb", "+"}
	var out []string
	shapes := func(prefix, last string) {
		p := prefix + last
		out = append(out, p, p+"/", p+"/*")
		if last != "+" {
			out = append(out, p+"*")
			if len(last) > 1 {
				out = append(out, prefix+last[:1]+"*")
			}
		}
	}
	for _, x := range segs {
		shapes("", x)
	}
	for _, x := range segs {
		for _, y := range segs {
			shapes(x+"/", y)
		}
	}
	return append(out, "*")
}

var c03SmallPaths = []string{"a", "a/", "bb", "bb/", "ab", "bbx", "a/a", "a/bb", "a/bb/", "bb/a", "a/bbx", "a/ab", "ab/a", "a/a/bb", "a/bb/a", "a/bb/a/", "bb/bb/"}

type c03SmallLevel struct {
	name     string
	patterns []string
	caps     []string
	// shape: stanzas per policy, e.g. {2} one policy with two stanzas, {1,1}, {2,1}, {2,2}
	shape []int
}

func TestVerif_C03_SmallScope(t *testing.T) {
	rec := verifx.NewRecorder("C03", "acl-small-scope", "exhaustive: every multiset of 2 stanzas (49 patterns of depth<=2 over a, bb, '+' in all shapes x 9 capability singletons) as one policy and as two policies; 3 stanzas (2+1) over 10 patterns x {read,list,deny,sudo}; 4 stanzas (2+2) over 6 patterns x {read,list,deny}; each against 17 request paths x 7 operations, both attach orders; the quick tier and each thorough shard take a 1/n slice; non-trivial = >=2 different patterns match the path or the winning pattern is written twice")
	defer rec.Flush()
	all := c03SmallPatterns()
	mid := []string{"a", "a/bb", "a/*", "a/+", "+/bb", "a/bb*", "+/*", "a/bb/", "+", "*"}
	few := []string{"a/bb", "a/*", "a/+", "+/bb", "a/b*", "+/+"}
	levels := []c03SmallLevel{
		{"2-stanzas-1-policy", all, c03AllCaps, []int{2}},
		{"2-stanzas-2-policies", all, c03AllCaps, []int{1, 1}},
		{"3-stanzas-2-policies", mid, []string{"read", "list", "deny", "sudo"}, []int{2, 1}},
		{"4-stanzas-2-policies", few, []string{"read", "list", "deny"}, []int{2, 2}},
	}
	// slice of the enumeration taken by this process
	stride, offset := 1, 0
	if verifx.Thorough() {
		stride, offset = verifx.EnvInt("VERIF_NSHARDS", 1), verifx.EnvInt("VERIF_SHARD", 0)
	} else {
		stride, offset = 97, int(verifx.Seed()%97)
	}
	counter := 0
	for _, lv := range levels {
		type stz struct{ pat, cap string }
		var stanzas []stz
		for _, p := range lv.patterns {
			for _, c := range lv.caps {
				stanzas = append(stanzas, stz{p, c})
			}
		}
		total := 0
		for _, n := range lv.shape {
			total += n
		}
		idx := make([]int, total)
		var enum func(k int)
		enum = func(k int) {
			if k == total {
				counter++
				if counter%stride != offset {
					return
				}
				var pols []c03Policy
				pos := 0
				for _, n := range lv.shape {
					p := c03Policy{}
					for j := 0; j < n; j++ {
						s := stanzas[idx[pos]]
						p.Stanzas = append(p.Stanzas, c03Stanza{Pattern: s.pat, Caps: []string{s.cap}})
						pos++
					}
					pols = append(pols, p)
				}
				ix := c03NewIndex(pols)
				parsed := c03Parse(t, pols)
				acl := c03Build(t, parsed)
				for _, path := range c03SmallPaths {
					c03CheckCaseWith(t, rec, c03Case{Pols: pols, Req: c03Req{Path: path}}, ix, parsed, acl, len(pols) == 1)
				}
				rec.Class("small-scope:"+lv.name, 1)
				return
			}
			// stanzas inside one policy and the two single-stanza policies are unordered: enumerate multisets there
			start := 0
			if k > 0 && (total == 2 || k == 1 || k == 3) {
				start = idx[k-1]
			}
			for i := start; i < len(stanzas); i++ {
				idx[k] = i
				enum(k + 1)
			}
		}
		enum(0)
	}
	rec.Set("policy_sets_enumerated_in_all_slices", counter)
	rec.Set("slice", fmt.Sprintf("%d of %d", offset, stride))
}

// ---------------------------------------------------------------- the root policy

func TestVerif_C03_Root(t *testing.T) {
	rec := verifx.NewRecorder("C03", "acl-root", "the built-in root policy attached in each of 5 namespaces, requests from each of 5 namespaces x 7 operations x 3 paths: everything is allowed with root privileges from the token's namespace and its descendants, nothing from elsewhere; Capabilities() is [root]; root together with another policy is refused; non-trivial = request namespace differs from the token namespace")
	defer rec.Flush()
	nss := []*namespace.Namespace{
		namespace.RootNamespace,
		{ID: "n1", Path: "ns1/", CustomMetadata: map[string]string{}},
		{ID: "n1s", Path: "ns1/sub/", CustomMetadata: map[string]string{}},
		{ID: "n10", Path: "ns10/", CustomMetadata: map[string]string{}},
		{ID: "n2", Path: "ns2/", CustomMetadata: map[string]string{}},
	}
	for _, tok := range nss {
		rootPol := &Policy{Name: "root", Type: TypeACL, Namespace: tok}
		tctx := namespace.ContextWithNamespace(context.Background(), tok)
		acl, err := NewACL(tctx, []*Policy{rootPol})
		if err != nil {
			t.Fatalf("harness: NewACL(root): %v", err)
		}
		other, err := ParseACLPolicy(tok, `path "a" { capabilities = ["read"] }`)
		if err != nil {
			t.Fatalf("harness: %v", err)
		}
		other.Name = "other"
		if _, err := NewACL(tctx, []*Policy{rootPol, other}); err == nil {
			rec.Violation(t, "root-with-other-policy-accepted", map[string]any{"namespace": tok.Path}, "NewACL accepted the root policy together with another policy")
		}
		for _, rq := range nss {
			rctx := namespace.ContextWithNamespace(context.Background(), rq)
			inside := tok.Path == "" || rq.Path == tok.Path || strings.HasPrefix(rq.Path, tok.Path)
			for _, path := range []string{"a", "sys/raw/x", "a/bb/"} {
				for _, op := range c03Ops {
					res := acl.AllowOperation(rctx, &logical.Request{Operation: c03LogicalOp[op], Path: path}, false)
					rec.Case(fmt.Sprintf("inside=%v", inside), tok.Path != rq.Path, verifx.Digest("root", tok.Path, rq.Path, path, op), func() any {
						return map[string]any{"token_namespace": tok.Path, "request_namespace": rq.Path, "path": path, "op": op, "allowed": res.Allowed}
					})
					if res.Allowed != inside || res.RootPrivs != inside {
						rec.Violation(t, "root-policy-namespace-scope", map[string]any{"token_namespace": tok.Path, "request_namespace": rq.Path, "path": path, "op": op},
							"root policy of namespace %q, %s %q in namespace %q: allowed=%v rootprivs=%v, want %v", tok.Path, op, path, rq.Path, res.Allowed, res.RootPrivs, inside)
					}
				}
				caps := acl.Capabilities(rctx, path)
				want := "deny"
				if inside {
					want = "root"
				}
				if len(caps) != 1 || caps[0] != want {
					rec.Violation(t, "root-policy-capabilities", map[string]any{"token_namespace": tok.Path, "request_namespace": rq.Path, "path": path},
						"root policy of namespace %q: Capabilities(%q) in namespace %q = %v, want [%s]", tok.Path, path, rq.Path, caps, want)
				}
			}
		}
	}
}
