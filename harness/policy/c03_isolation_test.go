//go:build verif

package policy

import (
	"fmt"
	"testing"

	"github.com/openbao/openbao/sdk/v2/helper/verifx"
	"pgregory.net/rapid"
)

// TestVerif_C03_Isolation: the decision of an ACL is a function of the policies it was built from and of
// the request. The policy store hands the same cached *Policy objects to every NewACL call, so building a
// second ACL (another token) from an overlapping set of policy objects must not change what the first
// one answers. No reference evaluator is involved: the oracle is the first ACL's own earlier answers and
// an ACL built from freshly parsed, unshared copies of the same policies.
func TestVerif_C03_Isolation(t *testing.T) {
	rec := verifx.NewRecorder("C03", "acl-isolation", "2-4 policies with one stanza each on the same path (update/create/read; allowed_parameters, denied_parameters on k1 with 0-6 values, required_parameters 0-3 keys), parsed once; ACL A from an ordered subset, its answers for 40 requests recorded; ACL B from another ordered subset of the same parsed objects; A asked again and compared with its earlier answers and with an ACL from fresh copies; non-trivial = A and B share a policy object and both have >= 2 policies")
	defer rec.Flush()
	values := []string{"v0", "v1", "v2", "v3", "v4", "v5", "v6", "v7"}
	keys := []string{"k1", "k2", "k3", "k4", "k5"}
	rapid.Check(t, func(rt *rapid.T) {
		n := rapid.IntRange(2, 4).Draw(rt, "npolicies")
		pols := make([]c03Policy, n)
		caseKind := rapid.IntRange(0, 2).Draw(rt, "caseKind")
		if k := verifx.EnvInt("VERIF_C03_ISOLATION_KIND", -1); k >= 0 {
			caseKind = k // development aid: 0 allowed_parameters, 1 denied_parameters, 2 required_parameters only
		}
		// HCL-decoded lists of 3, 5 or 6 elements have spare capacity; short lists fit into it
		sizes := []int{1, 1, 2, 3, 3, 3, 5, 6}
		for i := range pols {
			st := c03Stanza{Pattern: "a", Caps: []string{"update", "create", "read"}}
			kind := caseKind
			if rapid.IntRange(0, 5).Draw(rt, "otherKind") == 0 && verifx.EnvInt("VERIF_C03_ISOLATION_KIND", -1) < 0 {
				kind = rapid.IntRange(0, 2).Draw(rt, "kind")
			}
			nv := rapid.SampledFrom(sizes).Draw(rt, "nvalues")
			switch kind {
			case 0:
				vs := rapid.SliceOfNDistinct(rapid.SampledFrom(values), nv, nv, func(s string) string { return s }).Draw(rt, "allowedValues")
				kv := c03KV{Key: "k1"}
				for _, v := range vs {
					kv.Vals = append(kv.Vals, v)
				}
				st.HasAllowed, st.Allowed = true, []c03KV{kv, {Key: "*", Vals: []any{}}}
			case 1:
				vs := rapid.SliceOfNDistinct(rapid.SampledFrom(values), nv, nv, func(s string) string { return s }).Draw(rt, "deniedValues")
				kv := c03KV{Key: "k1"}
				for _, v := range vs {
					kv.Vals = append(kv.Vals, v)
				}
				st.HasDenied, st.Denied = true, []c03KV{kv}
			case 2:
				if nv > 3 {
					nv = 3
				}
				st.Required = rapid.SliceOfNDistinct(rapid.SampledFrom(keys), nv, nv, func(s string) string { return s }).Draw(rt, "required")
			}
			pols[i] = c03Policy{Stanzas: []c03Stanza{st}}
		}
		idx := make([]int, n)
		for i := range idx {
			idx[i] = i
		}
		sa := rapid.Permutation(idx).Draw(rt, "orderA")[:rapid.IntRange(1, n).Draw(rt, "sizeA")]
		sb := rapid.Permutation(idx).Draw(rt, "orderB")[:rapid.IntRange(1, n).Draw(rt, "sizeB")]
		pick := func(parsed []*Policy, sel []int) []*Policy {
			out := make([]*Policy, len(sel))
			for i, j := range sel {
				out[i] = parsed[j]
			}
			return out
		}
		var reqs []c03Req
		for _, v := range values {
			reqs = append(reqs, c03Req{Path: "a", Data: []c03KV{{Key: "k1", Vals: []any{v}}, {Key: "k2", Vals: []any{"x"}}, {Key: "k3", Vals: []any{"x"}}}})
		}
		for mask := 0; mask < 1<<len(keys); mask++ {
			r := c03Req{Path: "a"}
			for b, k := range keys {
				if mask&(1<<b) != 0 {
					r.Data = append(r.Data, c03KV{Key: k, Vals: []any{"zz"}})
				}
			}
			reqs = append(reqs, r)
		}
		shared := c03Parse(rt, pols)
		fresh := c03Parse(rt, pols)
		aclA := c03Build(rt, pick(shared, sa))
		aclFresh := c03Build(rt, pick(fresh, sa))
		before := make([]bool, len(reqs))
		for i, r := range reqs {
			before[i] = c03Ask(aclA, r, "update").Allowed
		}
		_ = c03Build(rt, pick(shared, sb))
		share := false
		for _, a := range sa {
			for _, b := range sb {
				share = share || a == b
			}
		}
		detail := func(i int) map[string]any {
			h := make([]string, len(pols))
			for j, p := range pols {
				h[j] = p.HCL()
			}
			return map[string]any{"policies": h, "acl_A_policy_order": fmt.Sprint(sa), "acl_B_policy_order": fmt.Sprint(sb), "request_data": fmt.Sprint(reqs[i].Data)}
		}
		rec.Case(fmt.Sprintf("share=%v", share), share && len(sa) >= 2 && len(sb) >= 2, verifx.Digest(fmt.Sprint(pols), fmt.Sprint(sa), fmt.Sprint(sb)), func() any { return detail(0) })
		for i, r := range reqs {
			after := c03Ask(aclA, r, "update").Allowed
			want := c03Ask(aclFresh, r, "update").Allowed
			if before[i] != want {
				rec.Violation(rt, "acl-differs-from-acl-of-fresh-copies", detail(i),
					"update a %v: ACL A answers allowed=%v, an ACL built from fresh copies of the same policies in the same order answers %v", r.Data, before[i], want)
				return
			}
			if after != before[i] {
				rec.Violation(rt, "acl-decision-changed-by-building-another-acl", detail(i),
					"update a %v: ACL A (policies %v) answered allowed=%v; after NewACL for another token (policies %v) from the same cached policy objects it answers allowed=%v",
					r.Data, sa, before[i], sb, after)
				return
			}
		}
	})
}
