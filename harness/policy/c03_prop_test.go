//go:build verif

package policy

import (
	"context"
	"fmt"
	"sort"
	"strings"
	"testing"
	"time"

	"github.com/openbao/openbao/sdk/v2/helper/verifx"
	"github.com/openbao/openbao/sdk/v2/logical"
	"github.com/openbao/openbao/v2/internal/helper/namespace"
	"pgregory.net/rapid"
)

const c03RuleText = "1-4 policies x 1-4 path stanzas as HCL text through the real ParseACLPolicy (patterns over literals a/bb/ccc, '+' segments, trailing '*', '/*', mid-segment glob, trailing '/', an optional leading '/', duplicates across policies; capability subsets incl. deny/sudo; half of the cases with allowed/denied/required parameters, min/max wrapping TTL, pagination_limit, expiration; 1 in 5 cases with policies and requests in root and ns1/), one request (path derived from a pattern or random; parameters; wrap TTL) decided for all 7 operations against a reference evaluator of policies.mdx, then every permutation of the policy list, Capabilities(), and one extra deny-only policy; non-trivial = >=2 different patterns match the request path, or the winning pattern is written in >=2 stanzas, or a parameter/pagination/TTL rule decided, or the list/scan fallback order decided. PINNED READING: for list/scan on a path with trailing slash the order exact(path) > exact(path without slash) > non-exact(path) > non-exact(path without slash) is asserted (exact wins over any glob, also in the fallback); classes fallback-order-decides:* count where another order would pick another pattern"

var (
	c03Ops     = []string{"create", "read", "update", "delete", "list", "scan", "patch"}
	c03AllCaps = []string{"create", "read", "update", "delete", "list", "scan", "patch", "sudo", "deny"}
	c03Lits    = []string{"a", "bb", "ccc"}
	c03ReqSegs = []string{"a", "bb", "ccc", "bbx", "ab", "cc"}
	c03NS1     = &namespace.Namespace{ID: "ns1id", Path: "ns1/", CustomMetadata: map[string]string{}}
)

func c03NSOf(path string) *namespace.Namespace {
	if path == "" {
		return namespace.RootNamespace
	}
	return c03NS1
}

// ---------------------------------------------------------------- generator

// c03GenPattern draws a pattern relative to the policy namespace polNS. Most patterns are generalisations of
// the request path (so that several different patterns match it and the priority rules are exercised), some
// repeat an earlier namespace-qualified pattern (merge), the rest are random.
func c03GenPattern(t *rapid.T, pool []string, nsMode bool, polNS string, reqFull string) string {
	kind := rapid.IntRange(0, 9).Draw(t, "patKind")
	if kind < 2 && len(pool) > 0 {
		full := rapid.SampledFrom(pool).Draw(t, "dupOf")
		if strings.HasPrefix(full, polNS) {
			if rel := strings.TrimPrefix(full, polNS); rel != "" {
				return rel
			}
		}
	}
	if kind < 8 && strings.HasPrefix(reqFull, polNS) && len(reqFull) > len(polNS) {
		base := strings.TrimPrefix(reqFull, polNS)
		hadSlash := strings.HasSuffix(base, "/")
		if hadSlash && rapid.IntRange(0, 4).Draw(t, "exactNoSlash") == 0 {
			// the exact rule for the path without its trailing slash: with a glob elsewhere this is the
			// list/scan fallback-order conflict (exact without slash vs non-exact with slash)
			return strings.TrimSuffix(base, "/")
		}
		segs := strings.Split(strings.TrimSuffix(base, "/"), "/")
		k := rapid.IntRange(1, len(segs)).Draw(t, "keep")
		parts := make([]string, k)
		for i := range parts {
			switch w := rapid.IntRange(0, 11).Draw(t, "gen"); {
			case w < 4:
				parts[i] = "+"
			case w == 4:
				parts[i] = rapid.SampledFrom(c03Lits).Draw(t, "other")
			default:
				parts[i] = segs[i]
			}
		}
		p := strings.Join(parts, "/")
		switch rapid.IntRange(0, 5).Draw(t, "tail") {
		case 2:
			p += "/*"
		case 3:
			if last := parts[k-1]; last != "+" {
				cut := rapid.IntRange(1, len(last)).Draw(t, "cut")
				p = p[:len(p)-len(last)+cut] + "*"
			} else {
				p += "/*"
			}
		case 4:
			p += "/"
		case 5:
			if k == len(segs) && hadSlash {
				p += "/"
			}
		}
		return p
	}
	n := rapid.IntRange(1, 3).Draw(t, "nseg")
	parts := make([]string, n)
	for i := range parts {
		if rapid.IntRange(0, 3).Draw(t, "wc") == 0 {
			parts[i] = "+"
		} else {
			parts[i] = rapid.SampledFrom(c03Lits).Draw(t, "seg")
		}
	}
	p := strings.Join(parts, "/")
	switch rapid.IntRange(0, 7).Draw(t, "tail") {
	case 0:
		p += "/*"
	case 1:
		if last := parts[n-1]; last != "+" {
			// glob glued to a literal, possibly in the middle of it ("bb*", "b*")
			cut := rapid.IntRange(1, len(last)).Draw(t, "cut")
			p = p[:len(p)-len(last)+cut] + "*"
		}
	case 2:
		p += "/"
	case 3:
		if rapid.IntRange(0, 5).Draw(t, "star") == 0 {
			p = "*"
		}
	}
	if nsMode && polNS == "" && rapid.Bool().Draw(t, "nsPrefix") {
		p = "ns1/" + p
	}
	return p
}

var c03ParamValues = []any{"x", "xy", "yx", "x*", "*x", true, false, "false", 5, 7}
var c03ReqValues = []any{"x", "xy", "yx", "zz", true, false, "false", "true", 5, 7, "5"}

func c03GenParamMap(t *rapid.T, label string) []c03KV {
	keys := rapid.SliceOfNDistinct(rapid.SampledFrom([]string{"k1", "k2", "limit", "*"}), 0, 3, func(s string) string { return s }).Draw(t, label+"Keys")
	out := make([]c03KV, 0, len(keys))
	for _, k := range keys {
		kv := c03KV{Key: k, Vals: []any{}}
		if k != "*" { // "the only value that can be used with the * parameter is []"
			n := rapid.IntRange(0, 3).Draw(t, label+"N")
			seen := map[string]bool{}
			for i := 0; i < n; i++ {
				v := rapid.SampledFrom(c03ParamValues).Draw(t, label+"V")
				if d := fmt.Sprintf("%T:%v", v, v); !seen[d] {
					seen[d] = true
					kv.Vals = append(kv.Vals, v)
				}
			}
		}
		out = append(out, kv)
	}
	return out
}

func c03GenConstraints(t *rapid.T, st *c03Stanza) {
	if rapid.IntRange(0, 9).Draw(t, "cAllowed") < 3 {
		st.HasAllowed, st.Allowed = true, c03GenParamMap(t, "al")
	}
	if rapid.IntRange(0, 9).Draw(t, "cDenied") < 3 {
		st.HasDenied, st.Denied = true, c03GenParamMap(t, "dn")
	}
	if rapid.IntRange(0, 9).Draw(t, "cRequired") < 3 {
		st.Required = rapid.SliceOfNDistinct(rapid.SampledFrom([]string{"k1", "k2", "limit"}), 1, 2, func(s string) string { return s }).Draw(t, "required")
	}
	if rapid.IntRange(0, 19).Draw(t, "cMin") < 3 {
		st.MinTTL = rapid.SampledFrom([]int{1, 5, 30}).Draw(t, "minTTL")
	}
	if rapid.IntRange(0, 19).Draw(t, "cMax") < 3 {
		// "If both are specified, the minimum value must be less than the maximum"
		st.MaxTTL = rapid.SampledFrom([]int{10, 60, 120}).Draw(t, "maxTTL")
		if st.MinTTL >= st.MaxTTL {
			st.MaxTTL = 120
		}
	}
	if rapid.IntRange(0, 9).Draw(t, "cPag") < 5 {
		st.Pagination = rapid.SampledFrom([]int{1, 3, 5, 10}).Draw(t, "pagination")
	}
	if rapid.IntRange(0, 9).Draw(t, "cExp") < 1 {
		st.Expiry = rapid.IntRange(1, 2).Draw(t, "expiry")
		if rapid.IntRange(0, 11).Draw(t, "expiresWhileCached") == 0 {
			// a time-boxed grant that is still valid when the policy is parsed (and cached) and has lapsed when
			// the ACL is built from the cached policy
			st.Expiry, st.ExpiryAt = 3, time.Now().Add(20*time.Millisecond)
		}
	}
	st.Comment = rapid.IntRange(0, 19).Draw(t, "cComment") == 0
}

func c03GenCaps(t *rapid.T, rich bool) []string {
	if rich {
		// stanzas that carry constraints: mostly many capabilities, so that the constraints get to decide
		switch k := rapid.IntRange(0, 9).Draw(t, "richCaps"); {
		case k < 3:
			return []string{"create", "read", "update", "delete", "list", "scan", "patch"}
		case k < 8:
			return rapid.SliceOfNDistinct(rapid.SampledFrom(c03AllCaps[:8]), 3, 6, func(s string) string { return s }).Draw(t, "caps")
		}
	}
	if rapid.IntRange(0, 19).Draw(t, "allCaps") == 0 {
		return []string{"create", "read", "update", "delete", "list", "scan", "patch"}
	}
	return rapid.SliceOfNDistinct(rapid.SampledFrom(c03AllCaps), 1, 3, func(s string) string { return s }).Draw(t, "caps")
}

// c03GenPath returns a namespace-qualified request path.
func c03GenPath(t *rapid.T, nsMode bool) string {
	n := rapid.IntRange(1, 4).Draw(t, "n")
	parts := make([]string, n)
	for i := range parts {
		parts[i] = rapid.SampledFrom(c03ReqSegs).Draw(t, "s")
	}
	p := strings.Join(parts, "/")
	if nsMode && rapid.IntRange(0, 3).Draw(t, "inNS1") > 0 {
		p = "ns1/" + p
	}
	if rapid.IntRange(0, 2).Draw(t, "slash") == 0 {
		p += "/"
	}
	return p
}

type c03Case struct {
	Pols    []c03Policy
	Req     c03Req
	DenyPol c03Policy
	NSMode  bool
	Constr  bool
}

func c03GenCase(t *rapid.T) c03Case {
	var c c03Case
	c.NSMode = rapid.IntRange(0, 4).Draw(t, "nsMode") == 0
	c.Constr = rapid.Bool().Draw(t, "constrained")
	full := c03GenPath(t, c.NSMode)
	if c.NSMode && strings.HasPrefix(full, "ns1/") && len(full) > 4 && rapid.Bool().Draw(t, "reqInNS1") {
		c.Req.NS, c.Req.Path = "ns1/", full[4:]
	} else {
		c.Req.Path = full
	}
	// focus: few stanzas, all written for exactly the request path with (nearly) all capabilities, so that
	// parameters / pagination / wrapping TTL are what decides
	focus := c.Constr && rapid.IntRange(0, 3).Draw(t, "focus") == 0
	np := rapid.IntRange(1, 4).Draw(t, "npolicies")
	var pool []string
	for i := 0; i < np; i++ {
		p := c03Policy{}
		if c.NSMode && rapid.Bool().Draw(t, "polNS") {
			p.NS = "ns1/"
		}
		ns := rapid.IntRange(1, 4).Draw(t, "nstanzas")
		if focus {
			ns = 1
			if i >= 2 {
				break
			}
		}
		for j := 0; j < ns; j++ {
			st := c03Stanza{Pattern: c03GenPattern(t, pool, c.NSMode, p.NS, full)}
			rich := c.Constr && rapid.IntRange(0, 2).Draw(t, "withConstraints") > 0
			if focus && strings.HasPrefix(full, p.NS) && len(full) > len(p.NS) {
				st.Pattern, rich = strings.TrimPrefix(full, p.NS), true
			}
			st.Caps = c03GenCaps(t, rich)
			st.LeadSlash = rapid.IntRange(0, 7).Draw(t, "leadingSlash") == 0
			if rich {
				c03GenConstraints(t, &st)
			}
			pool = append(pool, p.NS+st.Pattern)
			p.Stanzas = append(p.Stanzas, st)
		}
		c.Pols = append(c.Pols, p)
	}
	if c.Constr {
		for _, k := range []string{"k1", "k2"} {
			if rapid.IntRange(0, 2).Draw(t, "has-"+k) == 0 {
				c.Req.Data = append(c.Req.Data, c03KV{Key: k, Vals: []any{rapid.SampledFrom(c03ReqValues).Draw(t, "val-"+k)}})
			}
		}
		if rapid.IntRange(0, 2).Draw(t, "hasLimit") > 0 {
			var lv any
			switch k := rapid.IntRange(0, 9).Draw(t, "limitKind"); {
			case k < 5:
				lv = rapid.IntRange(-2, 13).Draw(t, "limit")
			case k < 7:
				lv = fmt.Sprint(rapid.IntRange(-2, 13).Draw(t, "limit"))
			case k < 9:
				lv = "max"
			default:
				lv = rapid.SampledFrom([]any{"abc", true, "1x", ""}).Draw(t, "limit")
			}
			c.Req.Data = append(c.Req.Data, c03KV{Key: "limit", Vals: []any{lv}})
		}
		if rapid.Bool().Draw(t, "wrapped") {
			c.Req.Wrap = rapid.SampledFrom([]int{1, 4, 5, 10, 11, 30, 60, 61, 120, 200}).Draw(t, "wrapTTL")
		}
	}
	// the extra deny-only policy of the monotonicity relation
	c.DenyPol = c03Policy{}
	if c.NSMode && rapid.Bool().Draw(t, "denyNS") {
		c.DenyPol.NS = "ns1/"
	}
	nd := rapid.IntRange(1, 2).Draw(t, "ndeny")
	for j := 0; j < nd; j++ {
		c.DenyPol.Stanzas = append(c.DenyPol.Stanzas, c03Stanza{Pattern: c03GenPattern(t, pool, c.NSMode, c.DenyPol.NS, full), Caps: []string{"deny"}})
	}
	return c
}

// ---------------------------------------------------------------- running the real ACL

type c03Got struct {
	Allowed   bool
	RootPrivs bool
	HasLimit  bool
	Limit     string
	Panic     any
}

func (g c03Got) String() string {
	return fmt.Sprintf("allowed=%v rootprivs=%v limit=%v/%q", g.Allowed, g.RootPrivs, g.HasLimit, g.Limit)
}

var c03LogicalOp = map[string]logical.Operation{
	"create": logical.CreateOperation, "read": logical.ReadOperation, "update": logical.UpdateOperation, "delete": logical.DeleteOperation,
	"list": logical.ListOperation, "scan": logical.ScanOperation, "patch": logical.PatchOperation,
}

func c03Ctx(ns string) context.Context {
	return namespace.ContextWithNamespace(context.Background(), c03NSOf(ns))
}

// c03Ask builds a fresh request (AllowOperation rewrites req.Data["limit"]) and asks the ACL.
func c03Ask(acl *ACL, req c03Req, op string) (got c03Got) {
	lr := &logical.Request{Operation: c03LogicalOp[op], Path: req.Path}
	if len(req.Data) > 0 {
		lr.Data = make(map[string]any, len(req.Data))
		for _, kv := range req.Data {
			lr.Data[kv.Key] = kv.Vals[0]
		}
	}
	if req.Wrap > 0 {
		lr.WrapInfo = &logical.RequestWrapInfo{TTL: time.Duration(req.Wrap) * time.Second}
	}
	var res *ACLResults
	if p := verifx.Try(func() { res = acl.AllowOperation(c03Ctx(req.NS), lr, false) }); p != nil {
		return c03Got{Panic: p}
	}
	got.Allowed, got.RootPrivs = res.Allowed, res.RootPrivs
	if v, ok := lr.Data["limit"]; ok {
		got.HasLimit, got.Limit = true, fmt.Sprint(v)
	}
	return got
}

func c03Parse(tb verifx.TB, pols []c03Policy) []*Policy {
	out := make([]*Policy, len(pols))
	for i, p := range pols {
		pp, err := ParseACLPolicy(c03NSOf(p.NS), p.HCL())
		if err != nil {
			tb.Fatalf("harness: generated policy does not parse: %v\n%s", err, p.HCL())
		}
		pp.Name = fmt.Sprintf("p%d", i)
		out[i] = pp
	}
	// stanzas that lapse while the parsed policy is held: wait until they have
	var latest time.Time
	for _, p := range pols {
		for _, st := range p.Stanzas {
			if st.Expiry == 3 && st.ExpiryAt.After(latest) {
				latest = st.ExpiryAt
			}
		}
	}
	if !latest.IsZero() {
		if d := time.Until(latest) + 2*time.Millisecond; d > 0 {
			time.Sleep(d)
		}
	}
	return out
}

func c03Build(tb verifx.TB, parsed []*Policy) *ACL {
	acl, err := NewACL(c03Ctx(""), parsed)
	if err != nil {
		tb.Fatalf("harness: NewACL: %v", err)
	}
	return acl
}

func c03Permutations(n int, f func(perm []int)) {
	perm := make([]int, n)
	for i := range perm {
		perm[i] = i
	}
	var rec func(k int)
	rec = func(k int) {
		if k == n {
			f(perm)
			return
		}
		for i := k; i < n; i++ {
			perm[k], perm[i] = perm[i], perm[k]
			rec(k + 1)
			perm[k], perm[i] = perm[i], perm[k]
		}
	}
	rec(0)
}

func c03Describe(c c03Case) map[string]any {
	pols := make([]map[string]any, len(c.Pols))
	for i, p := range c.Pols {
		pols[i] = map[string]any{"namespace": p.NS, "hcl": p.HCL()}
	}
	data := map[string]any{}
	for _, kv := range c.Req.Data {
		data[kv.Key] = kv.Vals[0]
	}
	return map[string]any{"policies": pols, "request_namespace": c.Req.NS, "request_path": c.Req.Path, "request_data": data, "wrap_ttl_s": c.Req.Wrap,
		"deny_only_policy": map[string]any{"namespace": c.DenyPol.NS, "hcl": c.DenyPol.HCL()}}
}

func c03LimitString(req c03Req) (string, bool) {
	if v, ok := c03Lookup(req.Data, "limit"); ok {
		return fmt.Sprint(v[0]), true
	}
	return "", false
}

// c03CheckCase is the property: one case, all operations, all relations.
func c03CheckCase(tb verifx.TB, rec *verifx.Recorder, c c03Case, light bool) {
	parsed := c03Parse(tb, c.Pols)
	c03CheckCaseWith(tb, rec, c, c03NewIndex(c.Pols), parsed, c03Build(tb, parsed), light)
}

func c03CheckCaseWith(tb verifx.TB, rec *verifx.Recorder, c c03Case, ix *c03Index, parsed []*Policy, acl0 *ACL, light bool) {
	detail := func(extra map[string]any) map[string]any {
		d := c03Describe(c)
		for k, v := range extra {
			d[k] = v
		}
		return d
	}

	nt := false
	class := "no-match"
	rank := map[string]int{"no-match": 0, "single-pattern": 1, "exact-over-nonexact": 2, "priority-among-nonexact": 3, "list-fallback": 4, "merged-union": 5, "merged-deny": 6, "constraint-decided": 7, "list-fallback-order-decides": 8}
	bump := func(cl string) {
		if rank[cl] > rank[class] {
			class = cl
		}
	}
	first := make([]c03Got, len(c03Ops))
	fallbackOrder := ""
	full := c.Req.NS + c.Req.Path
	for oi, op := range c03Ops {
		got := c03Ask(acl0, c.Req, op)
		first[oi] = got
		if got.Panic != nil {
			rec.Violation(tb, "allowoperation-panic", detail(map[string]any{"op": op}), "AllowOperation(%s %q) panicked: %v", op, full, got.Panic)
			return
		}
		ref := ix.Decide(c.Req, op)
		rec.Class("decision:"+ref.V.String()+":"+ref.Why, 1)
		if ref.FallbackOrder != "" {
			rec.Class("fallback-order-decides:"+op+":"+ref.FallbackOrder, 1)
			fallbackOrder = ref.FallbackOrder
		}
		if ref.NMatch >= 2 || ref.NGroup >= 2 || ref.Constraint {
			nt = true
		}
		if ref.V != c03Unclear {
			switch {
			case ref.Constraint:
				bump("constraint-decided")
			case ref.NGroup >= 2 && ref.Deny:
				bump("merged-deny")
			case ref.NGroup >= 2:
				bump("merged-union")
			case (op == "list" || op == "scan") && ref.Pattern != "" && !c03Match(ref.Pattern, full):
				bump("list-fallback")
			case ref.NMatch >= 2 && c03Special(ref.Pattern):
				bump("priority-among-nonexact")
			case ref.NMatch >= 2:
				bump("exact-over-nonexact")
			case ref.Pattern != "":
				bump("single-pattern")
			}
		}
		// (1) the decision
		switch ref.V {
		case c03Allow:
			if !got.Allowed {
				rec.Violation(tb, "denied-but-docs-allow:"+ref.Why+c03OrderTag(ref), detail(map[string]any{"op": op, "winning_pattern": ref.Pattern}),
					"%s %q: ACL denies, documented semantics allow (winning pattern %q, %d stanza(s), rule %s)", op, full, ref.Pattern, ref.NGroup, ref.Why)
				return
			}
		case c03Deny:
			if got.Allowed {
				rec.Violation(tb, "allowed-but-docs-deny:"+ref.Why+c03OrderTag(ref), detail(map[string]any{"op": op, "winning_pattern": ref.Pattern}),
					"%s %q: ACL allows, documented semantics deny (winning pattern %q, %d stanza(s), rule %s)", op, full, ref.Pattern, ref.NGroup, ref.Why)
				return
			}
		}
		// sudo / root privileges
		if ref.PatternClear && ref.V != c03Unclear {
			sudo := ref.Caps["sudo"] && !ref.Deny
			if got.RootPrivs && !sudo {
				rec.Violation(tb, "rootprivs-without-sudo"+c03OrderTag(ref), detail(map[string]any{"op": op, "winning_pattern": ref.Pattern}),
					"%s %q: RootPrivs reported but the winning pattern %q does not grant sudo (caps %v)", op, full, ref.Pattern, c03Keys(ref.Caps))
				return
			}
			if got.Allowed && sudo && !got.RootPrivs {
				rec.Violation(tb, "sudo-not-reported"+c03OrderTag(ref), detail(map[string]any{"op": op, "winning_pattern": ref.Pattern}),
					"%s %q: allowed by pattern %q which grants sudo, but RootPrivs is false", op, full, ref.Pattern)
				return
			}
		}
		// pagination: the effective limit handed on to the backend
		if got.Allowed {
			orig, had := c03LimitString(c.Req)
			if ref.LimitMode != 0 {
				rec.Class(fmt.Sprintf("pagination:effective-limit-checked:mode%d", ref.LimitMode), 1)
			}
			if ref.GuardMax > 0 {
				rec.Class("pagination:allowed-out-of-range-limit-was-clamped", 1)
			}
			switch ref.LimitMode {
			case 1:
				if !got.HasLimit || got.Limit != ref.LimitEq {
					rec.Violation(tb, "limit-not-rewritten", detail(map[string]any{"op": op, "winning_pattern": ref.Pattern}),
						"%s %q with limit=%v (present=%v): effective limit is %q (present=%v), documented %q", op, full, orig, had, got.Limit, got.HasLimit, ref.LimitEq)
					return
				}
			case 2:
				if got.HasLimit != had || got.Limit != orig {
					rec.Violation(tb, "limit-changed", detail(map[string]any{"op": op, "winning_pattern": ref.Pattern}),
						"%s %q with limit=%q within the allowed range: effective limit became %q", op, full, orig, got.Limit)
					return
				}
			}
			if ref.GuardMax > 0 {
				n, kind := 0, 2
				if got.HasLimit {
					n, kind = c03ParseLimit(got.Limit)
				}
				if kind != 0 || n < 1 || n > ref.GuardMax {
					rec.Violation(tb, "pagination-limit-bypassed", detail(map[string]any{"op": op, "winning_pattern": ref.Pattern}),
						"%s %q with limit=%q is allowed with effective limit %q, pagination_limit is at most %d", op, full, orig, got.Limit, ref.GuardMax)
					return
				}
			}
		}
	}

	// (3) Capabilities() against the reference and against the per-operation decisions
	constraintFree := true
	for _, p := range c.Pols {
		for _, st := range p.Stanzas {
			if st.MinTTL > 0 || st.MaxTTL > 0 || len(st.Required) > 0 {
				constraintFree = false
			}
		}
	}
	var capsGot []string
	if p := verifx.Try(func() { capsGot = acl0.Capabilities(c03Ctx(c.Req.NS), c.Req.Path) }); p != nil {
		rec.Violation(tb, "capabilities-panic", detail(nil), "Capabilities(%q) panicked: %v", full, p)
		return
	}
	capsSorted := append([]string(nil), capsGot...)
	sort.Strings(capsSorted)
	want, pat, capOrder := ix.CapsFor(full)
	if capOrder != "" {
		rec.Class("fallback-order-decides:capabilities:"+capOrder, 1)
	}
	if strings.Join(want, ",") != strings.Join(capsSorted, ",") {
		sig := "capabilities-differ-from-docs"
		if capOrder != "" {
			sig = "capabilities-list-fallback-order:" + capOrder
		}
		rec.Violation(tb, sig, detail(map[string]any{"winning_pattern": pat}),
			"Capabilities(%q) = %v, documented semantics give %v (pattern %q)", full, capsSorted, want, pat)
		return
	}
	if constraintFree {
		bare := c03Req{NS: c.Req.NS, Path: c.Req.Path}
		for _, op := range c03Ops {
			if strings.HasSuffix(full, "/") && op != "list" && op != "scan" {
				// DOCS SILENT: Capabilities() looks a path up the way list/scan do (fallback to the path without the
				// trailing slash), so for "x/" it can report read/update/... which those operations on "x/" do not get.
				if g := c03Ask(acl0, bare, op); !g.Allowed && c03Contains(capsGot, op) {
					rec.Class("observation:capabilities-lists-a-capability-whose-operation-is-denied-on-this-trailing-slash-path", 1)
				}
				continue
			}
			g := c03Ask(acl0, bare, op)
			if g.Allowed != c03Contains(capsGot, op) {
				rec.Violation(tb, "capabilities-disagree-with-decision", detail(map[string]any{"op": op, "capabilities": capsGot}),
					"Capabilities(%q) = %v but a bare %s request is allowed=%v", full, capsGot, op, g.Allowed)
				return
			}
		}
	}
	if fallbackOrder != "" || capOrder != "" {
		bump("list-fallback-order-decides")
		nt = true
	}
	if light {
		rec.Case(class, nt, verifx.Digest(fmt.Sprint(c.Pols), fmt.Sprint(c.Req)), func() any { return c03Describe(c) })
		return
	}

	// (2) order independence: every permutation of the attached policy list
	bitmap0 := c03Bitmap(acl0, c.Req)
	nperm := 0
	var failed bool
	c03Permutations(len(parsed), func(perm []int) {
		if failed {
			return
		}
		identity := true
		for i, p := range perm {
			identity = identity && i == p
		}
		if identity {
			return
		}
		nperm++
		pp := make([]*Policy, len(perm))
		for i, p := range perm {
			pp[i] = parsed[p]
		}
		acl := c03Build(tb, pp)
		for oi, op := range c03Ops {
			if g := c03Ask(acl, c.Req, op); g != first[oi] {
				failed = true
				rec.Violation(tb, "order-dependent-decision", detail(map[string]any{"op": op, "order": fmt.Sprint(perm)}),
					"%s %q: policies attached in order %v give %v, in the original order %v", op, full, perm, g, first[oi])
				return
			}
		}
		if b := c03Bitmap(acl, c.Req); b != bitmap0 {
			failed = true
			rec.Violation(tb, "order-dependent-capabilities", detail(map[string]any{"order": fmt.Sprint(perm)}),
				"%q: capability bitmap %#x with policy order %v, %#x in the original order", full, b, perm, bitmap0)
		}
	})
	if failed {
		return
	}
	rec.Class("permutations-checked", int64(nperm))

	// (4) monotonicity: one more policy that only denies can never turn a denial into a permission,
	// and can only change a decision to "denied".
	var denyParsed *Policy
	fronts := []bool{false, true}
	if len(c.DenyPol.Stanzas) > 0 {
		denyParsed = c03Parse(tb, []c03Policy{c.DenyPol})[0]
		denyParsed.Name = "denyonly"
	} else {
		fronts = nil
	}
	for _, front := range fronts {
		var pp []*Policy
		if front {
			pp = append([]*Policy{denyParsed}, parsed...)
		} else {
			pp = append(append([]*Policy(nil), parsed...), denyParsed)
		}
		acl := c03Build(tb, pp)
		for oi, op := range c03Ops {
			g := c03Ask(acl, c.Req, op)
			if g.Allowed && !first[oi].Allowed {
				rec.Violation(tb, "deny-only-policy-grants", detail(map[string]any{"op": op, "deny_first": front}),
					"%s %q: denied before, allowed after attaching a policy that contains only deny stanzas", op, full)
				return
			}
			if g.Allowed && g != first[oi] {
				rec.Violation(tb, "deny-only-policy-changes-result", detail(map[string]any{"op": op, "deny_first": front}),
					"%s %q: attaching a deny-only policy changed an allowed result from %v to %v", op, full, first[oi], g)
				return
			}
			if !g.Allowed && first[oi].Allowed {
				rec.Class("monotonicity:deny-policy-took-effect", 1)
			}
		}
	}

	// isolation: building other ACLs from the same parsed (cached) policy objects must not change this ACL
	for oi, op := range c03Ops {
		if g := c03Ask(acl0, c.Req, op); g != first[oi] {
			rec.Violation(tb, "acl-changed-by-later-newacl", detail(map[string]any{"op": op}),
				"%s %q: the first ACL answered %v, and %v after other ACLs were built from the same policy objects", op, full, first[oi], g)
			return
		}
	}
	rec.Case(class, nt, verifx.Digest(fmt.Sprint(c.Pols), fmt.Sprint(c.Req)), func() any { return c03Describe(c) })
}

func c03OrderTag(ref c03Ref) string {
	if ref.FallbackOrder != "" {
		return ":list-fallback-order"
	}
	return ""
}

func c03Bitmap(acl *ACL, req c03Req) uint32 {
	lr := &logical.Request{Operation: logical.ListOperation, Path: req.Path}
	return acl.AllowOperation(c03Ctx(req.NS), lr, true).CapabilitiesBitmap
}

func c03Keys(m map[string]bool) []string {
	var out []string
	for k := range m {
		out = append(out, k)
	}
	sort.Strings(out)
	return out
}

func c03Property(rec *verifx.Recorder) func(*rapid.T) {
	return func(rt *rapid.T) {
		c := c03GenCase(rt)
		c03CheckCase(rt, rec, c, false)
	}
}

func TestVerif_C03_ACL(t *testing.T) {
	rec := verifx.NewRecorder("C03", "acl-random", c03RuleText)
	defer rec.Flush()
	rapid.Check(t, c03Property(rec))
}

// FuzzVerif_C03_ACL drives the same property from the native fuzzer's bytes.
func FuzzVerif_C03_ACL(f *testing.F) {
	rec := verifx.NewRecorder("C03", "acl-fuzz", c03RuleText)
	// not flushed: the driver counts the fuzzer's execs itself (coordinator and workers are separate processes)
	// rapid reads 8 bytes per draw and gives up on a case when the bytes run out; without seeds (the driver's
	// binary has no coverage instrumentation) the fuzzer would only ever try inputs that are too short.
	// Deterministic seeds from a fixed xorshift generator.
	x := uint64(0x9E3779B97F4A7C15)
	for i := 0; i < 48; i++ {
		buf := make([]byte, 6144)
		for j := 0; j < len(buf); j += 8 {
			x ^= x << 13
			x ^= x >> 7
			x ^= x << 17
			for k := 0; k < 8; k++ {
				buf[j+k] = byte(x >> (8 * k))
			}
		}
		f.Add(buf)
	}
	f.Fuzz(rapid.MakeFuzz(c03Property(rec)))
}
