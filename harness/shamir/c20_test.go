//go:build verif

package shamir

import (
	"bytes"
	"fmt"
	"sync"
	"sort"
	"testing"

	"github.com/openbao/openbao/sdk/v2/helper/verifx"
	"pgregory.net/rapid"
)

// ---- independent GF(2^8) reference: carry-less product reduced modulo x^8+x^4+x^3+x+1

func refMul(a, b uint8) uint8 {
	var prod uint16
	for i := 0; i < 8; i++ {
		if b&(1<<uint(i)) != 0 {
			prod ^= uint16(a) << uint(i)
		}
	}
	for bit := 15; bit >= 8; bit-- {
		if prod&(1<<uint(bit)) != 0 {
			prod ^= 0x11b << uint(bit-8)
		}
	}
	return uint8(prod)
}

var refInvTable = func() [256]uint8 {
	var t [256]uint8
	for a := 1; a < 256; a++ {
		for b := 1; b < 256; b++ {
			if refMul(uint8(a), uint8(b)) == 1 {
				t[a] = uint8(b)
				break
			}
		}
	}
	return t
}()

func refEval(coeffs []uint8, x uint8) uint8 {
	// sum c_i x^i, powers computed explicitly (not Horner)
	var out uint8
	pow := uint8(1)
	for _, c := range coeffs {
		out ^= refMul(c, pow)
		pow = refMul(pow, x)
	}
	return out
}

// refInterpolateAt evaluates the unique polynomial of degree < len(xs) through the points at x.
func refInterpolateAt(xs, ys []uint8, x uint8) uint8 {
	var res uint8
	for i := range xs {
		num, den := uint8(1), uint8(1)
		for j := range xs {
			if i == j {
				continue
			}
			num = refMul(num, x^xs[j])
			den = refMul(den, xs[i]^xs[j])
		}
		res ^= refMul(ys[i], refMul(num, refInvTable[den]))
	}
	return res
}

func TestVerif_C20_Field(t *testing.T) {
	rec := verifx.NewRecorder("C20", "field", "all 65536 pairs (a,b) for add/mult/div/inverse against an independent carry-less GF(2^8); random triples for associativity/distributivity (all 2^24 triples in the thorough tier); non-trivial = both operands non-zero")
	defer rec.Flush()
	for a := 0; a < 256; a++ {
		for b := 0; b < 256; b++ {
			x, y := uint8(a), uint8(b)
			nt := a != 0 && b != 0
			rec.Case("pair", nt, verifx.Digest("p", a, b), func() any { return map[string]any{"a": a, "b": b, "mult": mult(x, y)} })
			if got, want := mult(x, y), refMul(x, y); got != want {
				rec.Violation(t, "field-mult", map[string]any{"a": a, "b": b}, "mult(%d,%d)=%d, reference %d", a, b, got, want)
			}
			if add(x, y) != x^y {
				rec.Violation(t, "field-add", map[string]any{"a": a, "b": b}, "add(%d,%d)=%d", a, b, add(x, y))
			}
			if b != 0 {
				want := refMul(x, refInvTable[y])
				if got := div(x, y); got != want {
					rec.Violation(t, "field-div", map[string]any{"a": a, "b": b}, "div(%d,%d)=%d, reference %d", a, b, got, want)
				}
				if mult(div(x, y), y) != x {
					rec.Violation(t, "field-div-inverse", map[string]any{"a": a, "b": b}, "div(%d,%d)*%d != %d", a, b, b, a)
				}
			}
		}
		if a != 0 {
			if got := inverse(uint8(a)); got != refInvTable[a] {
				rec.Violation(t, "field-inverse", map[string]any{"a": a}, "inverse(%d)=%d, reference %d", a, got, refInvTable[a])
			}
		}
	}
	check3 := func(a, b, c uint8) {
		if mult(mult(a, b), c) != mult(a, mult(b, c)) {
			rec.Violation(t, "field-assoc", []uint8{a, b, c}, "mult not associative on %d,%d,%d", a, b, c)
		}
		if mult(a, add(b, c)) != add(mult(a, b), mult(a, c)) {
			rec.Violation(t, "field-distrib", []uint8{a, b, c}, "mult does not distribute on %d,%d,%d", a, b, c)
		}
		if mult(a, b) != mult(b, a) {
			rec.Violation(t, "field-commut", []uint8{a, b}, "mult not commutative on %d,%d", a, b)
		}
	}
	if verifx.Thorough() && verifx.EnvInt("VERIF_SHARD", 0) == 0 {
		for a := 0; a < 256; a++ {
			for b := 0; b < 256; b++ {
				for c := 0; c < 256; c++ {
					check3(uint8(a), uint8(b), uint8(c))
				}
			}
			rec.Case("triple-block", a != 0, verifx.Digest("tb", a), nil)
		}
		rec.Set("triples_exhaustive", true)
	} else {
		rapid.Check(t, func(rt *rapid.T) {
			a, b, c := rapid.Byte().Draw(rt, "a"), rapid.Byte().Draw(rt, "b"), rapid.Byte().Draw(rt, "c")
			rec.Case("triple", a != 0 && b != 0 && c != 0, verifx.Digest("t", a, b, c), nil)
			check3(a, b, c)
		})
	}
}

func subsetsOfSize(n, k int, f func(idx []int)) {
	idx := make([]int, k)
	var rec func(start, d int)
	rec = func(start, d int) {
		if d == k {
			f(idx)
			return
		}
		for i := start; i < n; i++ {
			idx[d] = i
			rec(i+1, d+1)
		}
	}
	rec(0, 0)
}

func TestVerif_C20_SplitCombine(t *testing.T) {
	rec := verifx.NewRecorder("C20", "split-combine", "Split(secret,n,t) for generated secrets (1..64 bytes), all 2<=t<=n<=6 dense plus n up to 255; every subset of size >= t (n<=6) or sampled subsets must Combine to the secret, x-coordinates distinct non-zero, share length = len+1; t-1 shares of a >=16-byte secret must not combine to it; recovered top coefficient must vary; non-trivial = a subset of size exactly t or exactly t-1 was combined")
	defer rec.Flush()
	topCoeffSeen := map[uint8]bool{}
	subShareSeen := map[uint8]bool{}
	rapid.Check(t, func(rt *rapid.T) {
		small := rapid.IntRange(0, 9).Draw(rt, "small") < 7
		var n, th int
		if small {
			n = rapid.IntRange(2, 6).Draw(rt, "n")
			th = rapid.IntRange(2, n).Draw(rt, "t")
		} else {
			n = rapid.IntRange(2, 255).Draw(rt, "n")
			th = rapid.IntRange(2, n).Draw(rt, "t")
		}
		var secret []byte
		switch rapid.IntRange(0, 3).Draw(rt, "secretKind") {
		case 0:
			secret = []byte{rapid.Byte().Draw(rt, "s0")}
		case 1:
			secret = []byte{rapid.Byte().Draw(rt, "s0"), rapid.Byte().Draw(rt, "s1")}
		default:
			secret = rapid.SliceOfN(rapid.Byte(), 16, 64).Draw(rt, "secret")
		}
		var shares [][]byte
		var err error
		if p := verifx.Try(func() { shares, err = Split(secret, n, th) }); p != nil {
			rec.Violation(rt, "split-panic", map[string]any{"n": n, "t": th, "len": len(secret)}, "Split panicked on valid input: %v", p)
			return
		}
		if err != nil {
			rec.Violation(rt, "split-error", map[string]any{"n": n, "t": th, "len": len(secret)}, "Split failed on valid input: %v", err)
			return
		}
		if len(shares) != n {
			rec.Violation(rt, "split-count", nil, "Split returned %d shares, want %d", len(shares), n)
		}
		seenX := map[uint8]bool{}
		for i, s := range shares {
			if len(s) != len(secret)+ShareOverhead {
				rec.Violation(rt, "share-length", nil, "share %d has length %d, want %d", i, len(s), len(secret)+1)
			}
			x := s[len(s)-1]
			if x == 0 || seenX[x] {
				rec.Violation(rt, "share-x", map[string]any{"x": x}, "share %d has zero or duplicate x-coordinate %d", i, x)
			}
			seenX[x] = true
		}
		combineIdx := func(idx []int) []byte {
			parts := make([][]byte, len(idx))
			for i, j := range idx {
				parts[i] = shares[j]
			}
			var out []byte
			var err error
			if p := verifx.Try(func() { out, err = Combine(parts) }); p != nil {
				rec.Violation(rt, "combine-panic", map[string]any{"n": n, "t": th, "idx": fmt.Sprint(idx)}, "Combine panicked on valid shares: %v", p)
				return nil
			}
			if err != nil {
				rec.Violation(rt, "combine-error", map[string]any{"n": n, "t": th, "idx": fmt.Sprint(idx)}, "Combine failed on %d valid shares: %v", len(idx), err)
				return nil
			}
			return out
		}
		exact, below := 0, 0
		checkAtLeast := func(idx []int) {
			if len(idx) == th {
				exact++
			}
			got := combineIdx(idx)
			if !bytes.Equal(got, secret) {
				rec.Violation(rt, "combine-wrong", map[string]any{"n": n, "t": th, "subset": fmt.Sprint(idx), "secret": fmt.Sprintf("%x", secret), "got": fmt.Sprintf("%x", got)},
					"subset %v of size %d (threshold %d) reconstructs %x, secret is %x", idx, len(idx), th, got, secret)
			}
			// independent reconstruction with the reference field
			xs := make([]uint8, len(idx))
			ys := make([]uint8, len(idx))
			for b := range secret {
				if len(idx) > 12 && b >= 2 {
					break
				}
				for i, j := range idx {
					xs[i] = shares[j][len(secret)]
					ys[i] = shares[j][b]
				}
				if v := refInterpolateAt(xs, ys, 0); v != secret[b] {
					rec.Violation(rt, "shares-not-on-polynomial", map[string]any{"n": n, "t": th, "subset": fmt.Sprint(idx), "byte": b},
						"reference interpolation of subset %v gives %d for byte %d, secret has %d", idx, v, b, secret[b])
				}
			}
		}
		checkBelow := func(idx []int) {
			below++
			if len(idx) < 2 {
				return
			}
			if len(secret) >= 16 {
				got := combineIdx(idx)
				if bytes.Equal(got, secret) {
					rec.Violation(rt, "below-threshold-reconstructs", map[string]any{"n": n, "t": th, "subset": fmt.Sprint(idx)},
						"%d shares (threshold %d) reconstruct the %d-byte secret", len(idx), th, len(secret))
				}
			}
		}
		if n <= 6 {
			for k := th; k <= n; k++ {
				subsetsOfSize(n, k, checkAtLeast)
			}
			subsetsOfSize(n, th-1, checkBelow)
		} else {
			perm := rapid.Permutation(seq(n)).Draw(rt, "perm")
			k := rapid.IntRange(th, n).Draw(rt, "k")
			a := append([]int(nil), perm[:th]...)
			checkAtLeast(a)
			b := append([]int(nil), perm[:k]...)
			checkAtLeast(b)
			checkBelow(append([]int(nil), perm[:th-1]...))
		}
		// the polynomial behind byte 0 has degree exactly t-1 in general: recover its top coefficient from t shares
		if th <= 8 {
			xs := make([]uint8, th)
			ys := make([]uint8, th)
			for i := 0; i < th; i++ {
				xs[i] = shares[i][len(secret)]
				ys[i] = shares[i][0]
			}
			topCoeffSeen[topCoefficient(xs, ys)] = true
		}
		subShareSeen[shares[0][0]] = true
		// every share lies on the polynomial through the first t shares (consistency of all n evaluations)
		{
			xs := make([]uint8, th)
			ys := make([]uint8, th)
			for b := range secret {
				if th > 12 && b >= 2 {
					break
				}
				for i := 0; i < th; i++ {
					xs[i], ys[i] = shares[i][len(secret)], shares[i][b]
				}
				for j := th; j < n && j < th+4; j++ {
					if v := refInterpolateAt(xs, ys, shares[j][len(secret)]); v != shares[j][b] {
						rec.Violation(rt, "share-off-polynomial", map[string]any{"n": n, "t": th, "share": j}, "share %d byte %d is not on the degree-%d polynomial of the first %d shares", j, b, th-1, th)
					}
				}
			}
		}
		rec.Case(fmt.Sprintf("n<=6:%v len:%d", n <= 6, lenClass(len(secret))), exact > 0 || below > 0,
			verifx.Digest("sc", n, th, secret, shares[0]), func() any {
				return map[string]any{"n": n, "t": th, "secret_hex": fmt.Sprintf("%x", secret), "share0_hex": fmt.Sprintf("%x", shares[0]), "subsets_exact_t": exact, "subsets_t_minus_1": below}
			})
	})
	if ev := rec.ClassCount("nontrivial"); ev >= 3000 {
		if len(topCoeffSeen) < 200 {
			rec.Violation(t, "top-coefficient-not-random", len(topCoeffSeen), "over %d splits the highest polynomial coefficient took only %d distinct values", ev, len(topCoeffSeen))
		}
		if len(subShareSeen) < 200 {
			rec.Violation(t, "share-values-not-random", len(subShareSeen), "over %d splits the first share byte took only %d distinct values", ev, len(subShareSeen))
		}
	}
	rec.Set("distinct_top_coefficients", len(topCoeffSeen))
}

// topCoefficient returns the coefficient of x^(len-1) of the interpolating polynomial.
func topCoefficient(xs, ys []uint8) uint8 {
	var c uint8
	for i := range xs {
		den := uint8(1)
		for j := range xs {
			if i != j {
				den = refMul(den, xs[i]^xs[j])
			}
		}
		c ^= refMul(ys[i], refInvTable[den])
	}
	return c
}

func seq(n int) []int {
	s := make([]int, n)
	for i := range s {
		s[i] = i
	}
	return s
}

func lenClass(n int) int {
	switch {
	case n <= 2:
		return n
	default:
		return 16
	}
}

func TestVerif_C20_CombineRejects(t *testing.T) {
	rec := verifx.NewRecorder("C20", "combine-rejects", "malformed share sets built from a valid split: duplicate share, truncated share, unequal lengths, fewer than two parts, 1-byte parts; Combine must return an error and Split must refuse invalid (n,t,secret); non-trivial = the malformed set had >= threshold shares")
	defer rec.Flush()
	rapid.Check(t, func(rt *rapid.T) {
		n := rapid.IntRange(2, 10).Draw(rt, "n")
		th := rapid.IntRange(2, n).Draw(rt, "t")
		secret := rapid.SliceOfN(rapid.Byte(), 1, 40).Draw(rt, "secret")
		var shares [][]byte
		var err error
		if p := verifx.Try(func() { shares, err = Split(secret, n, th) }); p != nil {
			rec.Violation(rt, "split-panic", nil, "Split panicked on valid input: %v", p)
			return
		}
		if err != nil {
			rec.Violation(rt, "split-error", nil, "Split failed: %v", err)
			return
		}
		kind := rapid.SampledFrom([]string{"dup", "short", "unequal", "single", "none", "onebyte", "badsplit"}).Draw(rt, "kind")
		var parts [][]byte
		for _, s := range shares {
			parts = append(parts, append([]byte(nil), s...))
		}
		switch kind {
		case "dup":
			i := rapid.IntRange(0, n-1).Draw(rt, "i")
			j := rapid.IntRange(0, n-1).Draw(rt, "j")
			if i == j {
				parts = append(parts, append([]byte(nil), parts[i]...))
			} else {
				// same x coordinate, possibly different y
				parts[j][len(secret)] = parts[i][len(secret)]
			}
		case "short":
			i := rapid.IntRange(0, n-1).Draw(rt, "i")
			parts[i] = parts[i][:rapid.IntRange(0, len(parts[i])-1).Draw(rt, "cut")]
		case "unequal":
			i := rapid.IntRange(0, n-1).Draw(rt, "i")
			parts[i] = append(parts[i], rapid.SliceOfN(rapid.Byte(), 1, 3).Draw(rt, "ext")...)
		case "single":
			parts = parts[:1]
		case "none":
			parts = nil
		case "onebyte":
			for i := range parts {
				parts[i] = parts[i][len(parts[i])-1:]
			}
		case "badsplit":
			bn := rapid.SampledFrom([]int{-1, 0, 1, 256, 300, n}).Draw(rt, "bn")
			bt := rapid.SampledFrom([]int{-1, 0, 1, 256, n + 1}).Draw(rt, "bt")
			sec := secret
			if rapid.Bool().Draw(rt, "empty") {
				sec = nil
			}
			valid := len(sec) > 0 && bt >= 2 && bt <= 255 && bn >= bt && bn <= 255
			out, err := Split(sec, bn, bt)
			rec.Case("badsplit", true, verifx.Digest("bs", bn, bt, len(sec)), func() any { return map[string]any{"kind": kind, "n": bn, "t": bt, "len": len(sec)} })
			if !valid && err == nil {
				rec.Violation(rt, "split-accepts-invalid", map[string]any{"n": bn, "t": bt, "len": len(sec)}, "Split(len=%d, n=%d, t=%d) returned %d shares without error", len(sec), bn, bt, len(out))
			}
			return
		}
		rec.Case(kind, len(parts) >= th, verifx.Digest("cr", kind, n, th, fmt.Sprint(parts)), func() any {
			return map[string]any{"kind": kind, "n": n, "t": th, "parts_hex": fmt.Sprintf("%x", parts)}
		})
		var out []byte
		if p := verifx.Try(func() { out, err = Combine(parts) }); p != nil {
			rec.Violation(rt, "combine-panics-on-malformed:"+kind, map[string]any{"kind": kind, "parts": fmt.Sprintf("%x", parts)}, "Combine panicked on a malformed share set (%s): %v", kind, p)
			return
		}
		if err == nil {
			rec.Violation(rt, "combine-accepts-malformed:"+kind, map[string]any{"kind": kind, "parts": fmt.Sprintf("%x", parts)}, "Combine accepted a malformed share set (%s) and returned %x", kind, out)
		}
	})
}

// TestVerif_C20_Independence is the executable form of "fewer than t shares are consistent with every
// secret": for a fixed set S of t-1 distinct non-zero x-coordinates and a fixed intercept, the map
// (random coefficients) -> (evaluations at S), computed with the package's own polynomial.evaluate, is a
// bijection. Uniform coefficients therefore give the same (uniform) distribution of the t-1 share values
// whatever the secret byte is.
func TestVerif_C20_Independence(t *testing.T) {
	rec := verifx.NewRecorder("C20", "independence", "for t=2: every x in 1..255 and every intercept 0..255 (exhaustive): coefficient -> share value is a bijection; for t=3: generated pairs of distinct x and intercepts, all 65536 coefficient pairs; makePolynomial keeps the intercept and has degree+1 coefficients; non-trivial = every case (a complete bijection check)")
	defer rec.Flush()
	// makePolynomial structure
	for deg := 1; deg <= 6; deg++ {
		for _, ic := range []uint8{0, 1, 0x53, 0xff} {
			p, err := makePolynomial(ic, uint8(deg))
			if err != nil || len(p.coefficients) != deg+1 || p.coefficients[0] != ic {
				rec.Violation(t, "makePolynomial-shape", map[string]any{"deg": deg, "intercept": ic}, "makePolynomial(%d,%d) = %v, %v", ic, deg, p.coefficients, err)
			}
		}
	}
	// evaluate agrees with the reference on random polynomials (so evaluate uses every coefficient)
	rapid.Check(t, func(rt *rapid.T) {
		coeffs := rapid.SliceOfN(rapid.Byte(), 1, 8).Draw(rt, "coeffs")
		x := uint8(rapid.IntRange(1, 255).Draw(rt, "x"))
		p := polynomial{coefficients: coeffs}
		rec.Case("evaluate", len(coeffs) >= 2, verifx.Digest("ev", coeffs, x), nil)
		if got, want := p.evaluate(x), refEval(coeffs, x); got != want {
			rec.Violation(rt, "evaluate-wrong", map[string]any{"coeffs": fmt.Sprint(coeffs), "x": x}, "evaluate(%v, x=%d)=%d, reference %d", coeffs, x, got, want)
		}
	})
	// t = 2, exhaustive
	for x := 1; x < 256; x++ {
		for ic := 0; ic < 256; ic++ {
			var seen [256]bool
			for c := 0; c < 256; c++ {
				p := polynomial{coefficients: []uint8{uint8(ic), uint8(c)}}
				v := p.evaluate(uint8(x))
				if seen[v] {
					rec.Violation(t, "independence-t2", map[string]any{"x": x, "intercept": ic}, "t=2: two coefficients give the same share value at x=%d for intercept %d", x, ic)
				}
				seen[v] = true
			}
		}
		rec.Case("t2-x", true, verifx.Digest("t2", x), func() any { return map[string]any{"t": 2, "x": x, "intercepts": 256, "coefficients": 256} })
	}
	// t = 3: pairs of x, generated; intercepts generated
	pairs := verifx.Scale(40, 400)
	rapid.Check(t, func(rt *rapid.T) {
		if rec.ClassCount("t3-pair") >= int64(pairs) {
			return
		}
		x1 := uint8(rapid.IntRange(1, 255).Draw(rt, "x1"))
		x2 := uint8(rapid.IntRange(1, 255).Draw(rt, "x2"))
		if x1 == x2 {
			return
		}
		ic := rapid.Byte().Draw(rt, "intercept")
		seen := make([]bool, 65536)
		for c1 := 0; c1 < 256; c1++ {
			for c2 := 0; c2 < 256; c2++ {
				p := polynomial{coefficients: []uint8{ic, uint8(c1), uint8(c2)}}
				k := int(p.evaluate(x1))<<8 | int(p.evaluate(x2))
				if seen[k] {
					rec.Violation(rt, "independence-t3", map[string]any{"x1": x1, "x2": x2, "intercept": ic}, "t=3: two coefficient pairs give the same two share values at x=(%d,%d), intercept %d", x1, x2, ic)
				}
				seen[k] = true
			}
		}
		rec.Case("t3-pair", true, verifx.Digest("t3", x1, x2, ic), func() any { return map[string]any{"t": 3, "x1": x1, "x2": x2, "intercept": ic, "coefficient_pairs": 65536} })
	})
	// black-box: one share of a t=2 split of a fixed secret byte takes (nearly) all 256 values over many splits,
	// for two different secrets: catches coefficients that are constant or drawn from a small set.
	for _, sb := range []uint8{0x00, 0xa7} {
		seen := map[uint8]bool{}
		for i := 0; i < 6000; i++ {
			var sh [][]byte
			var err error
			if p := verifx.Try(func() { sh, err = Split([]byte{sb}, 2, 2) }); p != nil {
				rec.Violation(t, "split-panic", nil, "Split panicked on valid input: %v", p)
			}
			if err != nil {
				rec.Violation(t, "split-error", nil, "Split failed: %v", err)
			}
			// normalise by x: y = s + c*x  =>  c = (y+s)/x
			c := div(sh[0][0]^sb, sh[0][1])
			seen[c] = true
		}
		vals := make([]int, 0, len(seen))
		for v := range seen {
			vals = append(vals, int(v))
		}
		sort.Ints(vals)
		rec.Case("blackbox-coeff-spread", true, verifx.Digest("bb", sb), func() any { return map[string]any{"secret_byte": sb, "splits": 6000, "distinct_coefficients": len(vals)} })
		// every field element, zero included, must be possible: a coefficient drawn from a subset (e.g. "re-draw until
		// non-zero", which looks like a way to guarantee the degree) lets t-1 shares exclude candidate secrets.
		// P(some value missing from 6000 uniform draws) < 256*exp(-23) ~ 2e-8 per run.
		if len(vals) < 256 {
			missing := []int{}
			have := map[int]bool{}
			for _, v := range vals {
				have[v] = true
			}
			for v := 0; v < 256 && len(missing) < 5; v++ {
				if !have[v] {
					missing = append(missing, v)
				}
			}
			if !have[0] {
				rec.Violation(t, "coefficient-never-zero", map[string]any{"secret": sb, "distinct": len(vals)}, "6000 splits of byte %d never used the degree-1 coefficient 0 (missing values %v): fewer than t shares rule out candidate secrets", sb, missing)
			}
		}
		if len(vals) < 250 {
			rec.Violation(t, "coefficients-not-uniform", map[string]any{"secret": sb, "distinct": len(vals)}, "6000 splits of byte %d used only %d distinct degree-1 coefficients", sb, len(vals))
		}
	}
}

// TestVerif_C20_CoefficientsPerByte: the polynomials of different secret bytes must be drawn independently. If two
// bytes k and j of the secret were split with the same non-constant coefficients, every share i satisfies
// share[i][k] ^ share[i][j] == secret[k] ^ secret[j]: one share alone then reveals a relation between secret bytes.
// With independent coefficients this happens for all t shares at once with probability 256^-(t-1); the check is
// applied for t >= 9 only (probability below 2^-64 per pair).
func TestVerif_C20_CoefficientsPerByte(t *testing.T) {
	rec := verifx.NewRecorder("C20", "coefficients-per-byte", "Split of random secrets of 33-160 bytes with thresholds 9..40 (half of them with t-1 dividing 256: 9, 17, 33, where a block-wise random source would wrap around) into t..t+3 shares; oracle: for no pair of secret byte positions k != j do all shares agree on share[k]^share[j] (which would mean the two polynomials share their non-constant coefficients, so that one share reveals secret[k]^secret[j]); non-trivial = every case")
	defer rec.Flush()
	rapid.Check(t, func(rt *rapid.T) {
		th := rapid.SampledFrom([]int{9, 17, 33, 9, 17, 33, 10, 12, 16, 20, 31, 32, 34, 40}).Draw(rt, "threshold")
		n := th + rapid.IntRange(0, 3).Draw(rt, "extraShares")
		secret := rapid.SliceOfN(rapid.Byte(), 33, 160).Draw(rt, "secret")
		shares, err := Split(secret, n, th)
		if err != nil {
			rt.Fatalf("harness: Split(%d bytes, %d, %d): %v", len(secret), n, th, err)
		}
		L := len(secret)
		reused := 0
		var first string
		for k := 0; k < L; k++ {
			for j := k + 1; j < L; j++ {
				d := shares[0][k] ^ shares[0][j]
				same := true
				for i := 1; i < len(shares); i++ {
					if shares[i][k]^shares[i][j] != d {
						same = false
						break
					}
				}
				if same {
					reused++
					if first == "" {
						first = fmt.Sprintf("bytes %d and %d: every one of the %d shares has share[%d]^share[%d] = %#02x = secret[%d]^secret[%d] (%#02x)", k, j, len(shares), k, j, d, k, j, secret[k]^secret[j])
					}
				}
			}
		}
		rec.Case(fmt.Sprintf("t=%d", th), true, verifx.Digest(th, n, L, secret), func() any { return map[string]any{"threshold": th, "shares": n, "secret_len": L} })
		if reused > 0 {
			rec.Violation(rt, "coefficients-reused-across-secret-bytes", map[string]any{"threshold": th, "shares": n, "secret_len": L, "pairs": reused, "first": first},
				"Split(%d bytes, n=%d, t=%d): %d pairs of secret bytes were split with the same polynomial coefficients, e.g. %s - a single share reveals the XOR of those secret bytes", L, n, th, reused, first)
		}
	})
}

// Splits overlapping in time: the server does not serialise them (legacy rekey, root rotation and the creation of a
// sealed namespace run under different locks), so every one of several concurrent Splits, and a quiet Split after
// them, must hand out distinct non-zero x-coordinates and shares every threshold subset of which recombines.
func TestVerif_C20_ConcurrentSplits(t *testing.T) {
	rec := verifx.NewRecorder("C20", "concurrent-splits", "2..8 goroutines call Split concurrently (generated secrets, n in 2..255, 2<=t<=n, 1..5 rounds each), then one more Split runs alone; every returned share set: n shares, x-coordinates non-zero and pairwise distinct, two generated subsets of size t and (n<=16) the full set combine to the secret; non-trivial = at least 2 rounds per goroutine")
	defer rec.Flush()
	rapid.Check(t, func(rt *rapid.T) {
		workers := rapid.IntRange(2, 8).Draw(rt, "workers")
		rounds := rapid.IntRange(1, 5).Draw(rt, "rounds")
		type job struct {
			secret []byte
			n, th  int
			pick   []int
			shares [][]byte
			err    error
			pan    any
		}
		mk := func(label string) *job {
			n := rapid.IntRange(2, 8).Draw(rt, label+"n")
			if rapid.IntRange(0, 11).Draw(rt, label+"large") == 0 {
				n = rapid.IntRange(9, 255).Draw(rt, label+"nLarge")
			}
			th := rapid.IntRange(2, n).Draw(rt, label+"t")
			return &job{secret: rapid.SliceOfN(rapid.Byte(), 1, 32).Draw(rt, label+"secret"), n: n, th: th,
				pick: rapid.Permutation(c20Range(n)).Draw(rt, label+"perm")}
		}
		jobs := make([][]*job, workers)
		for w := range jobs {
			for r := 0; r < rounds; r++ {
				jobs[w] = append(jobs[w], mk(fmt.Sprintf("w%dr%d", w, r)))
			}
		}
		last := mk("after")
		var wg sync.WaitGroup
		start := make(chan struct{})
		for w := range jobs {
			wg.Add(1)
			go func(js []*job) {
				defer wg.Done()
				<-start
				for _, j := range js {
					j.pan = verifx.Try(func() { j.shares, j.err = Split(j.secret, j.n, j.th) })
				}
			}(jobs[w])
		}
		close(start)
		wg.Wait()
		last.pan = verifx.Try(func() { last.shares, last.err = Split(last.secret, last.n, last.th) })
		check := func(j *job, when string) {
			d := map[string]any{"when": when, "n": j.n, "t": j.th, "workers": workers, "rounds": rounds}
			if j.pan != nil || j.err != nil {
				rec.Violation(rt, "split-error:"+when, d, "Split(n=%d,t=%d) %s failed: %v %v", j.n, j.th, when, j.err, j.pan)
				return
			}
			if len(j.shares) != j.n {
				rec.Violation(rt, "split-count:"+when, d, "Split(n=%d,t=%d) %s returned %d shares", j.n, j.th, when, len(j.shares))
				return
			}
			seen := map[byte]int{}
			for i, s := range j.shares {
				x := s[len(s)-1]
				if prev, dup := seen[x]; dup || x == 0 {
					rec.Violation(rt, "share-x:"+when, d, "Split(n=%d,t=%d) %s: shares %d and %d have the x-coordinate %d (zero or duplicate)", j.n, j.th, when, prev, i, x)
					return
				}
				seen[x] = i
			}
			subsets := [][]int{j.pick[:j.th], j.pick[j.n-j.th:]}
			if j.n <= 16 {
				subsets = append(subsets, j.pick)
			}
			for _, idx := range subsets {
				parts := make([][]byte, len(idx))
				for i, k := range idx {
					parts[i] = j.shares[k]
				}
				var out []byte
				var err error
				if p := verifx.Try(func() { out, err = Combine(parts) }); p != nil || err != nil || !bytes.Equal(out, j.secret) {
					rec.Violation(rt, "combine-mismatch:"+when, d, "Split(n=%d,t=%d) %s: %d of its shares do not combine to the secret (err=%v panic=%v)", j.n, j.th, when, len(idx), err, p)
					return
				}
			}
		}
		for _, js := range jobs {
			for _, j := range js {
				check(j, "concurrent")
			}
		}
		check(last, "after-concurrent")
		rec.Case(fmt.Sprintf("workers=%d", workers), rounds >= 2, verifx.Digest(workers, rounds, last.secret, last.n, last.th), func() any {
			return map[string]any{"workers": workers, "rounds": rounds, "last_n": last.n, "last_t": last.th}
		})
	})
}

func c20Range(n int) []int {
	out := make([]int, n)
	for i := range out {
		out[i] = i
	}
	return out
}
