package verifx

import (
	"bytes"
	"context"
	"errors"
	"fmt"
	"runtime"
	"strconv"
	"sync"
	"sync/atomic"

	log "github.com/hashicorp/go-hclog"
	"github.com/openbao/openbao/sdk/v2/physical"
	"github.com/openbao/openbao/sdk/v2/physical/inmem"
)

// GoID returns the id of the calling goroutine.
func GoID() int64 {
	var buf [64]byte
	n := runtime.Stack(buf[:], false)
	f := bytes.Fields(buf[:n])
	if len(f) < 2 {
		return -1
	}
	id, _ := strconv.ParseInt(string(f[1]), 10, 64)
	return id
}

// Op is one storage operation seen by the recording backend.
type Op struct {
	Seq   int64
	G     int64  // goroutine id
	Task  string // scheduler task name, if the goroutine is registered
	Kind  string // get put delete list listpage begintx beginrotx commit rollback
	Key   string
	Val   []byte
	Tx    int64 // 0 = outside a transaction
	After string
	Limit int
	Err   error
	Hit   bool // get: entry found
}

func (o *Op) String() string {
	s := fmt.Sprintf("#%d %s %s", o.Seq, o.Kind, o.Key)
	if o.Tx != 0 {
		s += fmt.Sprintf(" tx%d", o.Tx)
	}
	if o.Task != "" {
		s += " [" + o.Task + "]"
	}
	if o.Err != nil {
		s += " ERR=" + o.Err.Error()
	}
	return s
}

// Mutating reports whether the operation changes the store when it succeeds.
func (o *Op) Mutating() bool {
	return (o.Kind == "put" || o.Kind == "delete") && o.Tx == 0 || o.Kind == "commit"
}

// ErrInjected is the error returned by injected faults.
var ErrInjected = errors.New("verif: injected storage fault")

type mutation struct {
	del bool
	key string
	val []byte
}

// Rec is a recording, fault-injecting, gateable physical backend.
type Rec struct {
	Inner physical.Backend
	mu    sync.Mutex
	seq   int64
	txseq int64
	log   []*Op
	// muts is the history of committed mutation groups since creation (a plain
	// put/delete is a group of one; a committed transaction is one group).
	muts    [][]mutation
	Logging bool
	// Fault decides whether an operation fails with an injected error; called
	// with the lock held, before the operation reaches the inner backend.
	Fault func(o *Op) error
	// Gate is called (without lock) before every operation, in the goroutine
	// performing it. The scheduler parks registered goroutines here.
	Gate func(o *Op)
	// TaskOf maps goroutine ids to task names (set by the scheduler).
	TaskOf func(g int64) string
	// GateAfter is called (without lock) after an operation came back from the inner backend, before its result is
	// handed to the caller: a second scheduling point, for layers that do something with a result after reading it.
	GateAfter func(o *Op)
}

// RecTx is Rec for a transactional inner backend.
type RecTx struct {
	*Rec
}

// NewRec wraps inner; the result implements physical.TransactionalBackend iff inner does.
func NewRec(inner physical.Backend) physical.Backend {
	r := &Rec{Inner: inner, Logging: true}
	if _, ok := inner.(physical.TransactionalBackend); ok {
		return &RecTx{Rec: r}
	}
	return r
}

// RecOf extracts the *Rec from a backend created by NewRec.
func RecOf(b physical.Backend) *Rec {
	switch v := b.(type) {
	case *Rec:
		return v
	case *RecTx:
		return v.Rec
	}
	return nil
}

// NewInmem builds an in-memory physical backend (transactional or not).
func NewInmem(transactional bool) physical.Backend {
	conf := map[string]string{}
	if !transactional {
		conf["disable_transactions"] = "true"
	}
	b, err := inmem.NewInmem(conf, log.NewNullLogger())
	if err != nil {
		panic(err)
	}
	return b
}

func (r *Rec) begin(kind, key string, val []byte, tx int64) (*Op, error) {
	o := &Op{Kind: kind, Key: key, Tx: tx, G: GoID()}
	if val != nil {
		o.Val = append([]byte(nil), val...)
	}
	if r.TaskOf != nil {
		o.Task = r.TaskOf(o.G)
	}
	if g := r.Gate; g != nil {
		g(o)
	}
	r.mu.Lock()
	r.seq++
	o.Seq = r.seq
	var ferr error
	if r.Fault != nil {
		ferr = r.Fault(o)
	}
	if r.Logging {
		r.log = append(r.log, o)
	}
	r.mu.Unlock()
	if ferr != nil {
		o.Err = ferr
	}
	return o, ferr
}

func (r *Rec) finish(o *Op, err error) {
	if err != nil {
		r.mu.Lock()
		o.Err = err
		r.mu.Unlock()
	}
	if g := r.GateAfter; g != nil {
		g(o)
	}
}

func (r *Rec) recordMut(ms ...mutation) {
	r.mu.Lock()
	r.muts = append(r.muts, ms)
	r.mu.Unlock()
}

func (r *Rec) Put(ctx context.Context, e *physical.Entry) error {
	o, ferr := r.begin("put", e.Key, e.Value, 0)
	if ferr != nil {
		return ferr
	}
	err := r.Inner.Put(ctx, e)
	r.finish(o, err)
	if err == nil {
		r.recordMut(mutation{key: e.Key, val: o.Val})
	}
	return err
}

func (r *Rec) Get(ctx context.Context, key string) (*physical.Entry, error) {
	o, ferr := r.begin("get", key, nil, 0)
	if ferr != nil {
		return nil, ferr
	}
	e, err := r.Inner.Get(ctx, key)
	o.Hit = e != nil
	r.finish(o, err)
	return e, err
}

func (r *Rec) Delete(ctx context.Context, key string) error {
	o, ferr := r.begin("delete", key, nil, 0)
	if ferr != nil {
		return ferr
	}
	err := r.Inner.Delete(ctx, key)
	r.finish(o, err)
	if err == nil {
		r.recordMut(mutation{del: true, key: key})
	}
	return err
}

func (r *Rec) List(ctx context.Context, prefix string) ([]string, error) {
	o, ferr := r.begin("list", prefix, nil, 0)
	if ferr != nil {
		return nil, ferr
	}
	l, err := r.Inner.List(ctx, prefix)
	r.finish(o, err)
	return l, err
}

func (r *Rec) ListPage(ctx context.Context, prefix, after string, limit int) ([]string, error) {
	o, ferr := r.begin("listpage", prefix, nil, 0)
	o.After, o.Limit = after, limit
	if ferr != nil {
		return nil, ferr
	}
	l, err := r.Inner.ListPage(ctx, prefix, after, limit)
	r.finish(o, err)
	return l, err
}

// ---- transactions

type recTxn struct {
	r      *Rec
	id     int64
	inner  physical.Transaction
	writes []mutation
}

func (r *RecTx) BeginReadOnlyTx(ctx context.Context) (physical.Transaction, error) {
	return r.beginTx(ctx, true)
}

func (r *RecTx) BeginTx(ctx context.Context) (physical.Transaction, error) {
	return r.beginTx(ctx, false)
}

func (r *RecTx) beginTx(ctx context.Context, ro bool) (physical.Transaction, error) {
	id := atomic.AddInt64(&r.txseq, 1)
	kind := "begintx"
	if ro {
		kind = "beginrotx"
	}
	o, ferr := r.begin(kind, "", nil, id)
	if ferr != nil {
		return nil, ferr
	}
	tb := r.Inner.(physical.TransactionalBackend)
	var inner physical.Transaction
	var err error
	if ro {
		inner, err = tb.BeginReadOnlyTx(ctx)
	} else {
		inner, err = tb.BeginTx(ctx)
	}
	r.finish(o, err)
	if err != nil {
		return nil, err
	}
	return &recTxn{r: r.Rec, id: id, inner: inner}, nil
}

func (t *recTxn) Put(ctx context.Context, e *physical.Entry) error {
	o, ferr := t.r.begin("put", e.Key, e.Value, t.id)
	if ferr != nil {
		return ferr
	}
	err := t.inner.Put(ctx, e)
	t.r.finish(o, err)
	if err == nil {
		t.writes = append(t.writes, mutation{key: e.Key, val: o.Val})
	}
	return err
}

func (t *recTxn) Get(ctx context.Context, key string) (*physical.Entry, error) {
	o, ferr := t.r.begin("get", key, nil, t.id)
	if ferr != nil {
		return nil, ferr
	}
	e, err := t.inner.Get(ctx, key)
	o.Hit = e != nil
	t.r.finish(o, err)
	return e, err
}

func (t *recTxn) Delete(ctx context.Context, key string) error {
	o, ferr := t.r.begin("delete", key, nil, t.id)
	if ferr != nil {
		return ferr
	}
	err := t.inner.Delete(ctx, key)
	t.r.finish(o, err)
	if err == nil {
		t.writes = append(t.writes, mutation{del: true, key: key})
	}
	return err
}

func (t *recTxn) List(ctx context.Context, prefix string) ([]string, error) {
	o, ferr := t.r.begin("list", prefix, nil, t.id)
	if ferr != nil {
		return nil, ferr
	}
	l, err := t.inner.List(ctx, prefix)
	t.r.finish(o, err)
	return l, err
}

func (t *recTxn) ListPage(ctx context.Context, prefix, after string, limit int) ([]string, error) {
	o, ferr := t.r.begin("listpage", prefix, nil, t.id)
	o.After, o.Limit = after, limit
	if ferr != nil {
		return nil, ferr
	}
	l, err := t.inner.ListPage(ctx, prefix, after, limit)
	t.r.finish(o, err)
	return l, err
}

func (t *recTxn) Commit(ctx context.Context) error {
	o, ferr := t.r.begin("commit", "", nil, t.id)
	if ferr != nil {
		// an injected commit failure must not leave the inner transaction open
		_ = t.inner.Rollback(ctx)
		return ferr
	}
	err := t.inner.Commit(ctx)
	t.r.finish(o, err)
	if err == nil && len(t.writes) > 0 {
		t.r.recordMut(t.writes...)
	}
	return err
}

func (t *recTxn) Rollback(ctx context.Context) error {
	o, _ := t.r.begin("rollback", "", nil, t.id)
	// rollbacks are never failed by injection: they are the cleanup path
	o.Err = nil
	err := t.inner.Rollback(ctx)
	t.r.finish(o, err)
	return err
}

// ---- inspection

// Seq returns the sequence number of the latest operation.
func (r *Rec) Seq() int64 {
	r.mu.Lock()
	defer r.mu.Unlock()
	return r.seq
}

// OpsSince returns a copy of the logged operations with Seq > seq.
func (r *Rec) OpsSince(seq int64) []*Op {
	r.mu.Lock()
	defer r.mu.Unlock()
	var out []*Op
	for i := len(r.log) - 1; i >= 0; i-- {
		if r.log[i].Seq <= seq {
			break
		}
		out = append(out, r.log[i])
	}
	for i, j := 0, len(out)-1; i < j; i, j = i+1, j-1 {
		out[i], out[j] = out[j], out[i]
	}
	return out
}

// ClearLog drops the op log (mutation history is kept).
func (r *Rec) ClearLog() {
	r.mu.Lock()
	r.log = nil
	r.mu.Unlock()
}

// SetFault installs (or clears, with nil) the fault decision function.
func (r *Rec) SetFault(f func(o *Op) error) {
	r.mu.Lock()
	r.Fault = f
	r.mu.Unlock()
}

// MutationCount is the number of committed mutation groups since creation.
func (r *Rec) MutationCount() int {
	r.mu.Lock()
	defer r.mu.Unlock()
	return len(r.muts)
}

// MutationKeys describes mutation group i (for samples and replays).
func (r *Rec) MutationKeys(i int) []string {
	r.mu.Lock()
	defer r.mu.Unlock()
	var out []string
	for _, m := range r.muts[i] {
		if m.del {
			out = append(out, "DEL "+m.key)
		} else {
			out = append(out, "PUT "+m.key)
		}
	}
	return out
}

// Materialize returns a fresh in-memory backend holding the store as it was
// after the first k committed mutation groups: "the disk after a crash".
func (r *Rec) Materialize(k int, transactional bool) physical.Backend {
	r.mu.Lock()
	ms := r.muts
	if k < len(ms) {
		ms = ms[:k]
	}
	r.mu.Unlock()
	b := NewInmem(transactional)
	ctx := context.Background()
	for _, g := range ms {
		for _, m := range g {
			if m.del {
				_ = b.Delete(ctx, m.key)
			} else {
				_ = b.Put(ctx, &physical.Entry{Key: m.key, Value: append([]byte(nil), m.val...)})
			}
		}
	}
	return b
}

// ForkAt returns a new recording backend over a fresh in-memory store holding the state after the
// first k mutation groups; its own mutation history starts with those k groups, so positions in the
// history stay comparable between a store and its forks.
func (r *Rec) ForkAt(k int, transactional bool) physical.Backend {
	inner := r.Materialize(k, transactional)
	r.mu.Lock()
	if k > len(r.muts) {
		k = len(r.muts)
	}
	pre := append([][]mutation(nil), r.muts[:k]...)
	r.mu.Unlock()
	nb := NewRec(inner)
	RecOf(nb).muts = pre
	return nb
}

// Fork is ForkAt the current end of the history.
func (r *Rec) Fork(transactional bool) physical.Backend {
	return r.ForkAt(r.MutationCount(), transactional)
}

// FailNth returns a fault function failing the n-th (1-based) operation that
// matches pred, once; fired reports whether it triggered.
func FailNth(pred func(o *Op) bool, n int) (f func(o *Op) error, fired func() *Op) {
	var cnt int
	var hit *Op
	return func(o *Op) error {
			if hit != nil || !pred(o) {
				return nil
			}
			cnt++
			if cnt == n {
				hit = o
				return ErrInjected
			}
			return nil
		}, func() *Op {
			return hit
		}
}

// Dump lists every key of a backend (recursive listing).
func Dump(ctx context.Context, b physical.Backend) (map[string][]byte, error) {
	out := map[string][]byte{}
	var walk func(prefix string) error
	walk = func(prefix string) error {
		ks, err := b.List(ctx, prefix)
		if err != nil {
			return err
		}
		for _, k := range ks {
			if len(k) > 0 && k[len(k)-1] == '/' {
				if err := walk(prefix + k); err != nil {
					return err
				}
				continue
			}
			e, err := b.Get(ctx, prefix+k)
			if err != nil {
				return err
			}
			if e != nil {
				out[prefix+k] = e.Value
			}
		}
		return nil
	}
	return out, walk("")
}
