package verifx

import (
	"bytes"
	"fmt"
	"runtime"
	"strconv"
	"sync"
	"time"
)

var stackBuf = make([]byte, 4<<20)
var stackMu sync.Mutex

// goroutineState returns the scheduler wait state of goroutine id as printed by the
// runtime ("running", "sync.Mutex.Lock", "chan receive", ...), "" if not found.
func goroutineState(id int64) string {
	stackMu.Lock()
	defer stackMu.Unlock()
	n := runtime.Stack(stackBuf, true)
	needle := []byte("goroutine " + strconv.FormatInt(id, 10) + " [")
	b := stackBuf[:n]
	for {
		i := bytes.Index(b, needle)
		if i < 0 {
			return ""
		}
		if i == 0 || b[i-1] == '\n' {
			rest := b[i+len(needle):]
			j := bytes.IndexAny(rest, "],")
			if j < 0 {
				return ""
			}
			return string(rest[:j])
		}
		b = b[i+len(needle):]
	}
}

func lockBlockedState(st string) bool {
	switch {
	case len(st) >= 10 && st[:10] == "sync.Mutex", len(st) >= 12 && st[:12] == "sync.RWMutex", st == "semacquire":
		return true
	}
	return false
}

// Sched owns the interleaving of a set of tasks (goroutines) at the granularity
// of storage operations: a registered goroutine parks before every operation
// it sends to a Rec backend and continues only when the scheduler releases it.
type Sched struct {
	mu    sync.Mutex
	tasks map[int64]*Task
	all   []*Task
	Grace time.Duration // how long to wait for a released task to park again before treating it as lock-blocked
	Trace []string
	// AfterOps: tasks also park after each operation came back from the backend (before the layer above sees the result)
	AfterOps bool
}

// Task is one scheduled goroutine.
type Task struct {
	Name     string
	s        *Sched
	parked   chan *Op
	resume   chan struct{}
	done     chan struct{}
	Ops      int  // operations released so far
	Done     bool // finished
	InFlight bool // released, has neither parked again nor finished (blocked on a lock or still computing)
	At       *Op  // operation it is parked at (nil before the first operation)
	free     bool // no longer gated (runs to completion on its own)
	gid      int64
	Blocked  int // how often a release ended with the task blocked on a lock
}

// NewSched creates a scheduler and hooks it into the backend.
func NewSched(r *Rec) *Sched {
	s := &Sched{tasks: map[int64]*Task{}, Grace: 3 * time.Second}
	r.Gate = s.gate
	r.GateAfter = func(o *Op) {
		if !s.AfterOps || o.Kind == "rollback" {
			return
		}
		s.gate(&Op{Seq: o.Seq, G: o.G, Kind: "after-" + o.Kind, Key: o.Key, Tx: o.Tx})
	}
	r.TaskOf = func(g int64) string {
		s.mu.Lock()
		defer s.mu.Unlock()
		if t := s.tasks[g]; t != nil {
			return t.Name
		}
		return ""
	}
	return s
}

func (s *Sched) gate(o *Op) {
	s.mu.Lock()
	t := s.tasks[o.G]
	s.mu.Unlock()
	if t == nil || t.free {
		return
	}
	o.Task = t.Name
	t.parked <- o
	<-t.resume
}

// Park is an extra scheduling point for harness-made hooks (e.g. around an in-memory cache of the code under test): the
// calling goroutine, if it is a registered task, parks as if it were about to perform a storage operation of that kind.
func (s *Sched) Park(kind, key string) {
	s.gate(&Op{G: GoID(), Kind: kind, Key: key})
}

// Spawn starts f in a new registered goroutine, parked before its first instruction.
func (s *Sched) Spawn(name string, f func()) *Task {
	t := &Task{Name: name, s: s, parked: make(chan *Op), resume: make(chan struct{}), done: make(chan struct{})}
	ready := make(chan struct{})
	go func() {
		id := GoID()
		t.gid = id
		s.mu.Lock()
		s.tasks[id] = t
		s.mu.Unlock()
		close(ready)
		t.parked <- nil
		<-t.resume
		defer func() {
			s.mu.Lock()
			delete(s.tasks, id)
			s.mu.Unlock()
			close(t.done)
		}()
		f()
	}()
	<-ready
	<-t.parked
	s.all = append(s.all, t)
	return t
}

// Tasks returns the spawned tasks in spawn order.
func (s *Sched) Tasks() []*Task { return s.all }

// poll updates the state of an in-flight task without blocking longer than d.
func (t *Task) poll(d time.Duration) {
	if !t.InFlight {
		return
	}
	var timer <-chan time.Time
	if d > 0 {
		tm := time.NewTimer(d)
		defer tm.Stop()
		timer = tm.C
	} else {
		c := make(chan time.Time)
		close(c)
		timer = c
	}
	select {
	case o := <-t.parked:
		t.InFlight = false
		t.At = o
	case <-t.done:
		t.InFlight = false
		t.Done = true
	case <-timer:
	}
}

// Step releases a parked task for exactly one storage operation and waits until it
// parks again, finishes, or the grace period passes (then it is in flight: blocked
// on a lock another task holds, and will park or finish later).
func (t *Task) Step() {
	if t.Done || t.InFlight {
		return
	}
	at := "start"
	if t.At != nil {
		at = t.At.Kind + " " + t.At.Key
	}
	t.s.Trace = append(t.s.Trace, t.Name+":"+at)
	t.Ops++
	t.InFlight = true
	t.resume <- struct{}{}
	// Wait until the task parks again or finishes. A task that runs into a lock held by another
	// (parked) task is recognised by its goroutine wait state and left in flight.
	deadline := time.Now().Add(t.s.Grace)
	blockedSamples := 0
	for i := 0; t.InFlight; i++ {
		t.poll(300 * time.Microsecond)
		if !t.InFlight {
			return
		}
		if i%4 == 3 {
			if lockBlockedState(goroutineState(t.gid)) {
				blockedSamples++
				if blockedSamples >= 2 {
					t.Blocked++
					return
				}
			} else {
				blockedSamples = 0
			}
		}
		if time.Now().After(deadline) {
			return
		}
	}
}

// Free stops gating the task; it runs on its own from now on. Wait for it with Join.
func (t *Task) Free() {
	t.free = true
	if !t.Done && !t.InFlight {
		t.InFlight = true
		t.resume <- struct{}{}
	}
}

// Join waits for the task to finish (it must be free or in flight); false on timeout.
func (t *Task) Join(d time.Duration) bool {
	if t.Done {
		return true
	}
	deadline := time.Now().Add(d)
	for !t.Done {
		if !t.InFlight {
			// parked again although freed: release
			t.InFlight = true
			t.resume <- struct{}{}
		}
		rem := time.Until(deadline)
		if rem <= 0 {
			return false
		}
		if rem > 50*time.Millisecond {
			rem = 50 * time.Millisecond
		}
		t.poll(rem)
	}
	return true
}

// Run drives all tasks to completion. choose picks among the indexes (into
// Tasks()) of the tasks that are parked; it is called once per step. Returns
// an error if the tasks deadlock (nothing parked, nothing finishes).
func (s *Sched) Run(choose func(parked []int) int) error {
	stall := 0
	for {
		var parked []int
		inflight, alive := 0, 0
		for i, t := range s.all {
			t.poll(0)
			if t.Done {
				continue
			}
			alive++
			if t.InFlight {
				inflight++
			} else {
				parked = append(parked, i)
			}
		}
		if alive == 0 {
			return nil
		}
		if len(parked) == 0 {
			// everything alive is in flight: wait for one of them
			for _, t := range s.all {
				t.poll(20 * time.Millisecond)
			}
			stall++
			if stall > 1500 {
				return fmt.Errorf("scheduler: tasks made no progress for 30s (deadlock?) trace=%v", s.Trace)
			}
			continue
		}
		stall = 0
		i := choose(parked)
		s.all[i].Step()
	}
}

// RunToEnd releases every task and waits for all of them (used after the interesting
// part of a schedule has been played).
func (s *Sched) RunToEnd(d time.Duration) bool {
	ok := true
	for _, t := range s.all {
		t.Free()
	}
	for _, t := range s.all {
		if !t.Join(d) {
			ok = false
		}
	}
	return ok
}
