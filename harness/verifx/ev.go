// Package verifx is the shared support library of the /verif harnesses. It is
// not part of openbao: the driver (/verif/check) places it into the build by a
// go build overlay at sdk/helper/verifx, so that both the sdk module and the
// main module can import it.
package verifx

import (
	"encoding/binary"
	"encoding/json"
	"fmt"
	"hash/fnv"
	"os"
	"path/filepath"
	"sort"
	"strconv"
	"strings"
	"sync"
	"time"
)

// TB is the subset of testing.TB / *rapid.T that the recorder needs.
type TB interface {
	Helper()
	Fatalf(format string, args ...any)
}

type knownFinding struct {
	Property  string `json:"property"`
	ID        string `json:"id"`
	Signature string `json:"signature"`
	What      string `json:"what"`
}

type knownFile struct {
	Findings []knownFinding `json:"findings"`
}

// Recorder collects what one test function of one check actually explored and
// writes it as a partial evidence file that the driver merges.
type Recorder struct {
	mu        sync.Mutex
	ID        string
	Unit      string
	Rule      string
	start     time.Time
	evals     int64
	classes   map[string]int64
	digests   map[uint64]struct{}
	samples   []any
	sampleCap int
	lateSeen  int64
	violCount int64
	lastViol  map[string]any
	firstViol map[string]any
	knownHits map[string]int64
	known     map[string]knownFinding
	notes     []string
	extra     map[string]any
	flushed   bool
}

// Tier returns "quick" or "thorough".
func Tier() string {
	if os.Getenv("VERIF_TIER") == "thorough" {
		return "thorough"
	}
	return "quick"
}

// Thorough reports whether the thorough tier is running.
func Thorough() bool { return Tier() == "thorough" }

// Scale picks a size by tier.
func Scale(quick, thorough int) int {
	if Thorough() {
		return thorough
	}
	return quick
}

// EnvInt reads an integer environment variable with a default.
func EnvInt(name string, def int) int {
	if v := os.Getenv(name); v != "" {
		if n, err := strconv.Atoi(v); err == nil {
			return n
		}
	}
	return def
}

// Seed returns the PRNG value handed to this process by the driver (never 0).
func Seed() int64 {
	n := EnvInt("VERIF_PROC_SEED", 1)
	if n == 0 {
		n = 1
	}
	return int64(n)
}

// NewRecorder creates the recorder of one unit (test function) of a check.
func NewRecorder(id, unit, rule string) *Recorder {
	r := &Recorder{
		ID: id, Unit: unit, Rule: rule, start: time.Now(),
		classes: map[string]int64{}, digests: map[uint64]struct{}{},
		sampleCap: 6, knownHits: map[string]int64{}, known: map[string]knownFinding{},
		extra: map[string]any{},
	}
	if p := os.Getenv("VERIF_KNOWN"); p != "" {
		if b, err := os.ReadFile(p); err == nil {
			var kf knownFile
			if json.Unmarshal(b, &kf) == nil {
				for _, f := range kf.Findings {
					if f.Property == id {
						r.known[f.Signature] = f
					}
				}
			}
		}
	}
	return r
}

// Digest hashes a canonical description of a case.
func Digest(parts ...any) uint64 {
	h := fnv.New64a()
	for _, p := range parts {
		fmt.Fprintf(h, "%v\x00", p)
	}
	return h.Sum64()
}

// Case records one executed case. class feeds the histogram; nontrivial says
// whether the per-property rule held; digest identifies the case for the
// distinct count; sample (may be nil) renders the case for the evidence file
// and is only called when the sample is kept.
func (r *Recorder) Case(class string, nontrivial bool, digest uint64, sample func() any) {
	r.mu.Lock()
	defer r.mu.Unlock()
	r.evals++
	r.classes[class]++
	if nontrivial {
		r.classes["nontrivial"]++
		if len(r.digests) < 4_000_000 {
			r.digests[digest] = struct{}{}
		}
	}
	if sample != nil && nontrivial {
		if len(r.samples) < r.sampleCap {
			r.samples = append(r.samples, sample())
		} else {
			// deterministic reservoir: replace a slot at exponentially rarer intervals
			r.lateSeen++
			if r.lateSeen&(r.lateSeen-1) == 0 {
				r.samples[int(r.lateSeen%3)+3] = sample()
			}
		}
	}
}

// Class bumps a histogram counter without counting a case.
func (r *Recorder) Class(class string, n int64) {
	r.mu.Lock()
	r.classes[class] += n
	r.mu.Unlock()
}

// ClassCount reads a histogram counter.
func (r *Recorder) ClassCount(class string) int64 {
	r.mu.Lock()
	defer r.mu.Unlock()
	return r.classes[class]
}

// Set stores an extra key in the coverage object.
func (r *Recorder) Set(key string, v any) {
	r.mu.Lock()
	r.extra[key] = v
	r.mu.Unlock()
}

// Note appends a free-text note to the evidence.
func (r *Recorder) Note(format string, args ...any) {
	r.mu.Lock()
	if len(r.notes) < 50 {
		r.notes = append(r.notes, fmt.Sprintf(format, args...))
	}
	r.mu.Unlock()
}

// IsKnown reports whether a violation signature is a listed known finding; if
// so the hit is counted and the caller must treat the case as passing so the
// search continues behind it.
func (r *Recorder) IsKnown(sig string) bool {
	r.mu.Lock()
	defer r.mu.Unlock()
	if _, ok := r.known[sig]; ok {
		r.knownHits[sig]++
		return true
	}
	return false
}

// Violation reports a property violation with signature sig. A listed known
// finding is counted and false is returned (the caller carries on); otherwise
// the violation is recorded and the test fails through t.Fatalf.
func (r *Recorder) Violation(t TB, sig string, detail any, format string, args ...any) bool {
	t.Helper()
	if r.IsKnown(sig) {
		return false
	}
	msg := fmt.Sprintf(format, args...)
	r.mu.Lock()
	r.violCount++
	v := map[string]any{"property": r.ID, "unit": r.Unit, "signature": sig, "message": msg, "detail": detail}
	if r.firstViol == nil {
		r.firstViol = v
	}
	r.lastViol = v
	r.mu.Unlock()
	t.Fatalf("VERIF-VIOLATION property=%s sig=%s: %s", r.ID, sig, msg)
	return true
}

// Flush writes the partial evidence. Safe to call more than once.
func (r *Recorder) Flush() {
	r.mu.Lock()
	defer r.mu.Unlock()
	dir := os.Getenv("VERIF_OUT")
	if dir == "" {
		return
	}
	_ = os.MkdirAll(dir, 0o755)
	base := filepath.Join(dir, fmt.Sprintf("%s.%s.%s", r.ID, sanitize(r.Unit), os.Getenv("VERIF_SHARD")))
	ds := make([]uint64, 0, len(r.digests))
	for d := range r.digests {
		ds = append(ds, d)
	}
	sort.Slice(ds, func(i, j int) bool { return ds[i] < ds[j] })
	buf := make([]byte, 8*len(ds))
	for i, d := range ds {
		binary.LittleEndian.PutUint64(buf[8*i:], d)
	}
	_ = os.WriteFile(base+".digests", buf, 0o644)
	out := map[string]any{
		"property_id": r.ID, "unit": r.Unit, "rule": r.Rule,
		"evaluations": r.evals, "distinct_nontrivial": len(ds),
		"classes": r.classes, "samples": r.samples,
		"violations": r.violCount, "first_violation": r.firstViol, "last_violation": r.lastViol,
		"known_hits": r.knownHits, "notes": r.notes, "extra": r.extra,
		"wall_s": time.Since(r.start).Seconds(),
	}
	b, err := json.MarshalIndent(out, "", " ")
	if err != nil {
		b, _ = json.Marshal(map[string]any{"property_id": r.ID, "unit": r.Unit, "marshal_error": err.Error(),
			"evaluations": r.evals, "distinct_nontrivial": len(ds), "violations": r.violCount, "classes": r.classes})
	}
	_ = os.WriteFile(base+".json", b, 0o644)
	r.flushed = true
}

func sanitize(s string) string {
	return strings.Map(func(c rune) rune {
		if c >= 'a' && c <= 'z' || c >= 'A' && c <= 'Z' || c >= '0' && c <= '9' || c == '_' || c == '-' {
			return c
		}
		return '_'
	}, s)
}

// Trunc shortens a string for samples.
func Trunc(s string, n int) string {
	if len(s) <= n {
		return s
	}
	return s[:n] + fmt.Sprintf("…(+%d)", len(s)-n)
}

// Try runs f and returns the recovered panic value, if any. Only calls into the
// code under test may be wrapped (rapid's own Fatalf unwinds with a panic).
func Try(f func()) (p any) {
	defer func() {
		if r := recover(); r != nil {
			p = r
		}
	}()
	f()
	return nil
}
