//go:build verif

package vault

import (
	"context"
	"encoding/json"
	"errors"
	"fmt"
	"strings"
	"sync"
	"testing"
	"time"

	"github.com/openbao/openbao/sdk/v2/helper/verifx"
	"github.com/openbao/openbao/sdk/v2/logical"
	"github.com/openbao/openbao/v2/internal/audit"
	"github.com/openbao/openbao/v2/internal/helper/namespace"
	"github.com/openbao/openbao/v2/internal/vault/routing"
	"pgregory.net/rapid"
)

// scripted audit devices (E4)

type c11Event struct {
	seq     int64
	dev     string
	phase   string // req / resp
	path    string
	outcome string // accept / error / panic
	clear   bool   // the raw input handed to the device carried the canary (devices format/HMAC themselves)
}

type c11Hub struct {
	mu     sync.Mutex
	events []c11Event
	// script[dev][phase] for the request currently under test; absent => accept
	script map[string]map[string]string
	active bool
	// the form of the backend's answer to the request under test (backend-relative path answerPath)
	answer     string
	answerPath string
}

type c11Dev struct {
	name string
	hub  *c11Hub
}

// c11BE is the recording backend with one more degree of freedom: the form of its answer. A backend may answer a
// request with data, with an error response, with a Go error, or with several of these at once (a response - data
// included - together with an error); the core hands such a pair on as it is. Which form the request under test
// gets is drawn per case (c11Hub.answer); everything else is the recording backend's behaviour.
type c11BE struct {
	logical.Backend
	ah *c11Hub
}

var c11Answers = []string{"as-is", "as-is", "response+error", "response+sentinel-error", "error-response-with-data", "error-response-with-data+error", "error-response", "nil+error"}

func (b *c11BE) HandleRequest(ctx context.Context, req *logical.Request) (*logical.Response, error) {
	resp, err := b.Backend.HandleRequest(ctx, req)
	switch req.Operation {
	case logical.RevokeOperation, logical.RenewOperation, logical.RollbackOperation, logical.HelpOperation:
		return resp, err
	}
	b.ah.mu.Lock()
	answer := "as-is"
	if b.ah.active && b.ah.answerPath == req.Path {
		answer = b.ah.answer
	}
	b.ah.mu.Unlock()
	if err != nil || answer == "as-is" {
		return resp, err
	}
	withError := func(r *logical.Response) *logical.Response {
		if r == nil {
			return logical.ErrorResponse("recbe: the operation was only partly carried out")
		}
		// an error response holds an "error" element alone or together with a "data" element (Response.IsError)
		if len(r.Data) == 0 {
			r.Data = map[string]any{"error": "recbe: the operation was only partly carried out"}
		} else {
			r.Data = map[string]any{"error": "recbe: the operation was only partly carried out", "data": r.Data}
		}
		return r
	}
	switch answer {
	case "response+error":
		return resp, errors.New("recbe: a problem was found after the answer had been produced")
	case "response+sentinel-error":
		return resp, logical.ErrInvalidRequest
	case "error-response-with-data":
		return withError(resp), nil
	case "error-response-with-data+error":
		return withError(resp), errors.New("recbe: a problem was found after the answer had been produced")
	case "error-response":
		return logical.ErrorResponse("recbe: refused"), nil
	case "nil+error":
		return nil, errors.New("recbe: failed")
	}
	return resp, err
}

func (d *c11Dev) log(phase string, in *logical.LogInput) error {
	h := d.hub
	h.mu.Lock()
	out := "accept"
	if h.active && in.Request != nil && strings.HasPrefix(in.Request.Path, "rb/") {
		if s, ok := h.script[d.name][phase]; ok {
			out = s
		}
		h.events = append(h.events, c11Event{seq: nextSeq(), dev: d.name, phase: phase, path: in.Request.Path, outcome: out})
	}
	h.mu.Unlock()
	switch out {
	case "error":
		return errors.New("scripted audit device failure")
	case "panic":
		panic("scripted audit device panic")
	}
	return nil
}

func (d *c11Dev) LogRequest(ctx context.Context, in *logical.LogInput) error  { return d.log("req", in) }
func (d *c11Dev) LogResponse(ctx context.Context, in *logical.LogInput) error { return d.log("resp", in) }
func (d *c11Dev) LogTestMessage(ctx context.Context, in *logical.LogInput, cfg map[string]string) error {
	return nil
}
func (d *c11Dev) GetHash(ctx context.Context, s string) (string, error) { return "hmac:" + s, nil }
func (d *c11Dev) Reload(ctx context.Context) error                      { return nil }
func (d *c11Dev) Invalidate(ctx context.Context)                        {}

type c11Env struct {
	ns1  *namespace.Namespace
	nsTok string
	tc   *tcore
	hub  *recHub
	ah   *c11Hub
	devs []string
	tok  string
	n    int
}

func newC11Env(t *testing.T, ndev int) *c11Env {
	hub := newRecHub()
	ah := &c11Hub{script: map[string]map[string]string{}}
	factories := map[string]audit.Factory{}
	for i := 0; i < 3; i++ {
		name := fmt.Sprintf("d%d", i)
		factories["scripted-"+name] = func(ctx context.Context, cfg *audit.BackendConfig) (audit.Backend, error) {
			return &c11Dev{name: name, hub: ah}, nil
		}
	}
	tc := mustBoot(t, coreOpts{transactional: true, audits: factories,
		logical: map[string]logical.Factory{"recbe": func(ctx context.Context, conf *logical.BackendConfig) (logical.Backend, error) {
			inner, err := hub.factory("recbe", logical.TypeLogical)(ctx, conf)
			if err != nil {
				return nil, err
			}
			return &c11BE{Backend: inner, ah: ah}, nil
		}}})
	tc.mount("rb", "recbe", nil)
	tc.writePolicy("c11", `path "rb/*" { capabilities = ["create","read","update","delete","list"] }`)
	e := &c11Env{tc: tc, hub: hub, ah: ah}
	for i := 0; i < ndev; i++ {
		name := fmt.Sprintf("d%d", i)
		// API creation of audit devices is disabled by default (declarative configuration): enable in-package
		if err := tc.c.enableAudit(tc.ctx, &routing.MountEntry{Table: auditTableType, Path: name + "/", Type: "scripted-" + name}, true); err != nil {
			t.Fatalf("harness: enable audit %s: %v", name, err)
		}
		e.devs = append(e.devs, name)
	}
	e.tok, _, _ = tc.createToken(tc.root, map[string]any{"policies": []string{"default", "c11"}, "ttl": "1h"})
	if e.tok == "" {
		t.Fatalf("harness: token")
	}
	// the same backend and a token inside a child namespace: audit devices are global, requests of every namespace
	// go through them
	tc.mustOK(tc.req(logical.UpdateOperation, "sys/namespaces/ns1", tc.root, nil), "namespace")
	ns1, err := tc.c.namespaceStore.GetNamespaceByPath(tc.ctx, "ns1/")
	if err != nil || ns1 == nil {
		t.Fatalf("harness: namespace lookup: %v", err)
	}
	e.ns1 = ns1
	tc.mustOK(tc.reqNS(ns1, logical.UpdateOperation, "sys/mounts/rb", tc.root, map[string]any{"type": "recbe"}), "mount in ns1")
	tc.mustOK(tc.reqNS(ns1, logical.UpdateOperation, "sys/policy/c11", tc.root, map[string]any{"policy": `path "rb/*" { capabilities = ["create","read","update","delete","list"] }`}), "policy in ns1")
	tr := tc.reqNS(ns1, logical.UpdateOperation, "auth/token/create", tc.root, map[string]any{"policies": []string{"default", "c11"}, "ttl": "1h"})
	if !tr.ok() || tr.resp == nil || tr.resp.Auth == nil {
		t.Fatalf("harness: token in ns1: %v", tr)
	}
	e.nsTok = tr.resp.Auth.ClientToken
	return e
}

func TestVerif_C11_BrokerOrder(t *testing.T) {
	rec := verifx.NewRecorder("C11", "broker-order", "a core with 1-3 scripted audit devices and a recording backend; each request (echo returning a canary, kv read of a canary, leased secret, kv write, list) draws for every device and for both phases (request entry, response entry) one of accept / error / panic; oracle on a global logical clock: a backend invocation implies an earlier accepted request entry of that request; response data reaching the client implies an accepted response entry; if every device failed the request entry there is no invocation and the client gets an error without the canary; if every device failed the response entry the client gets an error without the canary; with at least one accept and a panic either outcome is allowed; the backend's answer to the request has a drawn form (its data as it is; the response together with a Go error; an error response that still holds the data, with or without a Go error; a bare error response; a bare error) and the canary is searched in everything the caller gets back (whole response and error text); in a third of the cases the client's context ends before the request, inside the existence check (between token check and request audit) or inside the handler (before the response audit): the same implications must hold; non-trivial = at least one failing device in either phase, or an ended client context")
	defer rec.Flush()
	envs := map[int]*c11Env{}
	defer func() {
		for _, e := range envs {
			e.tc.shutdown()
		}
	}()
	rapid.Check(t, func(rt *rapid.T) {
		ndev := 1 + fairIndex(rt, "devices", 3)
		if envs[ndev] == nil || envs[ndev].n >= 300 {
			if envs[ndev] != nil {
				envs[ndev].tc.shutdown()
			}
			envs[ndev] = newC11Env(t, ndev)
		}
		e := envs[ndev]
		e.n++
		tc := e.tc
		canary := "CNRY" + rapid.StringMatching("[A-Za-z0-9]{20}").Draw(rt, "canary")
		kind := []string{"echo", "kvread", "secret", "kvwrite", "list"}[fairIndex(rt, "kind", 5)]
		script := map[string]map[string]string{}
		failing := false
		for _, d := range e.devs {
			script[d] = map[string]string{}
			for _, ph := range []string{"req", "resp"} {
				o := []string{"accept", "accept", "error", "panic", "accept", "error"}[fairIndex(rt, d+"-"+ph, 6)]
				script[d][ph] = o
				if o != "accept" {
					failing = true
				}
			}
		}
		// the form of the backend's answer: data, an error response, a Go error, or several at once
		answer := c11Answers[fairIndex(rt, "backendAnswer", len(c11Answers))]
		inNS := fairIndex(rt, "requestInChildNamespace", 3) == 0
		if kind == "kvread" {
			// seed the value without faults
			if inNS {
				tc.mustOK(tc.reqNS(e.ns1, logical.UpdateOperation, "rb/kv/c", tc.root, map[string]any{"v": canary}), "seed")
			} else {
				tc.mustOK(tc.req(logical.UpdateOperation, "rb/kv/c", tc.root, map[string]any{"v": canary}), "seed")
			}
		}
		var req *logical.Request
		switch kind {
		case "echo":
			req = &logical.Request{Operation: logical.UpdateOperation, Path: "rb/echo/a", ClientToken: e.tok, Data: map[string]any{"marker": canary}}
		case "kvread":
			req = &logical.Request{Operation: logical.ReadOperation, Path: "rb/kv/c", ClientToken: e.tok}
		case "secret":
			req = &logical.Request{Operation: logical.UpdateOperation, Path: "rb/creds/a", ClientToken: e.tok, Data: map[string]any{"marker": canary}}
		case "kvwrite":
			req = &logical.Request{Operation: logical.UpdateOperation, Path: "rb/kv/w", ClientToken: e.tok, Data: map[string]any{"v": canary}}
		case "list":
			req = &logical.Request{Operation: logical.ListOperation, Path: "rb/kv/", ClientToken: e.tok}
		}
		// the client may go away while its request is being processed: its context ends before the request, inside
		// the backend's existence check (i.e. between the token check and the request audit) or inside the handler
		// (before the response audit). None of this may let a request through unaudited.
		cancelAt := []string{"never", "never", "never", "exist", "handle", "before"}[fairIndex(rt, "clientContextEnds", 6)]
		baseCtx := tc.ctx
		if inNS {
			baseCtx = namespace.ContextWithNamespace(context.Background(), e.ns1)
			req.ClientToken = e.nsTok
			if fairIndex(rt, "parentNamespaceToken", 3) == 0 {
				req.ClientToken = tc.root
			}
			rec.Class("request-in-child-namespace", 1)
		}
		ctx, cancel := context.WithCancel(baseCtx)
		defer cancel()
		if cancelAt == "before" {
			cancel()
		}
		cancelled := false
		e.hub.mu.Lock()
		e.hub.hook = func(stage string, bctx context.Context, r *logical.Request) {
			if stage != cancelAt || !strings.HasPrefix(r.Path, strings.TrimPrefix(req.Path, "rb/")) {
				return
			}
			cancel()
			cancelled = true
			// wait until the cancellation has reached the context the core runs the request with
			select {
			case <-bctx.Done():
			case <-time.After(2 * time.Second):
			}
		}
		e.hub.mu.Unlock()
		e.ah.mu.Lock()
		e.ah.script, e.ah.events, e.ah.active = script, nil, true
		e.ah.answer, e.ah.answerPath = answer, strings.TrimPrefix(req.Path, "rb/")
		e.ah.mu.Unlock()
		callsBefore := len(e.hub.handlerCalls())
		res := tc.doCtx(ctx, req)
		e.hub.mu.Lock()
		e.hub.hook = nil
		e.hub.mu.Unlock()
		if cancelAt == "before" || cancelled {
			rec.Class("client-context-ended:"+cancelAt, 1)
		} else {
			cancelAt = "never"
		}
		e.ah.mu.Lock()
		e.ah.active = false
		events := append([]c11Event(nil), e.ah.events...)
		e.ah.mu.Unlock()
		calls := e.hub.handlerCalls()[callsBefore:]
		var invoked []recCall
		for _, c := range calls {
			if !c.Revoke && !c.Renew {
				invoked = append(invoked, c)
			}
		}
		// the canary anywhere in what the caller of Core.HandleRequest gets back: the whole response (data, warnings,
		// headers, secret, auth, wrap info) and the error text
		leaked := false
		if res.resp != nil {
			b, jerr := json.Marshal(res.resp)
			if jerr != nil {
				b, _ = json.Marshal(res.resp.Data)
			}
			leaked = strings.Contains(string(b), canary) || strings.Contains(fmt.Sprintf("%v %v %v", res.resp.Data, res.resp.Warnings, res.resp.Headers), canary)
		}
		if res.err != nil && strings.Contains(res.err.Error(), canary) {
			leaked = true
		}
		if answer != "as-is" {
			rec.Class("backend-answer:"+answer, 1)
		}
		// summarise
		acc := map[string]int{}
		pan := map[string]int{}
		firstAccept := map[string]int64{}
		for _, ev := range events {
			switch ev.outcome {
			case "accept":
				acc[ev.phase]++
				if firstAccept[ev.phase] == 0 {
					firstAccept[ev.phase] = ev.seq
				}
			case "panic":
				pan[ev.phase]++
			}
		}
		evs := make([]string, len(events))
		for i, ev := range events {
			evs[i] = fmt.Sprintf("#%d %s %s %s", ev.seq, ev.dev, ev.phase, ev.outcome)
		}
		detail := map[string]any{"devices": ndev, "kind": kind, "backend_answer": answer, "in_child_namespace": inNS, "client_context_ended": cancelAt, "script": fmt.Sprint(script), "audit_events": evs, "invocations": len(invoked), "result": res.String(), "canary_in_response": leaked}
		carries := kind == "echo" || kind == "kvread" || kind == "secret"
		rec.Case(fmt.Sprintf("devs=%d", ndev), failing || cancelAt != "never", verifx.Digest(ndev, kind, answer, cancelAt, inNS, fmt.Sprint(script)), func() any { return detail })
		// (1) invocation implies an earlier accepted request entry
		for _, c := range invoked {
			if acc["req"] == 0 || firstAccept["req"] > c.Seq {
				rec.Violation(rt, "routed-before-request-audited", detail, "the backend handler ran (logical time %d) although no audit device had accepted the request entry before (first accept at %d, accepts %d) | %v", c.Seq, firstAccept["req"], acc["req"], detail)
			}
		}
		// (2) response data reaching the client implies an accepted response entry
		if carries && leaked && acc["resp"] == 0 {
			rec.Violation(rt, "disclosed-without-response-audit", detail, "response data reached the client although no audit device accepted the response entry | %v", detail)
		}
		if !carries && res.ok() && acc["resp"] == 0 && len(invoked) > 0 {
			rec.Violation(rt, "success-without-response-audit", detail, "the client got a success response although no audit device accepted the response entry | %v", detail)
		}
		// (3) all devices failed the request entry => no invocation, error, no canary
		allReqFailed := true
		allRespFailed := true
		for _, d := range e.devs {
			if script[d]["req"] == "accept" {
				allReqFailed = false
			}
			if script[d]["resp"] == "accept" {
				allRespFailed = false
			}
		}
		if allReqFailed {
			if len(invoked) > 0 || res.ok() || leaked {
				rec.Violation(rt, "request-served-with-all-audit-devices-failing", detail, "every device failed the request entry but the request was served (invocations %d, ok %v) | %v", len(invoked), res.ok(), detail)
			}
		} else if allRespFailed {
			if res.ok() || leaked {
				rec.Violation(rt, "response-returned-with-all-audit-devices-failing", detail, "every device failed the response entry but the client received a successful response | %v", detail)
			}
		}
		// (4) no failure scripted at all => the request must succeed (an always-refuse broker cannot pass)
		// (a backend that answers with an error makes the request fail by itself; it must still have been invoked)
		if !failing && cancelAt == "never" && ((answer == "as-is" && !res.ok()) || len(invoked) != 1) {
			rec.Violation(rt, "request-refused-although-audit-ok", detail, "all devices accept but the request failed (%v, invocations %d) | %v", res, len(invoked), detail)
		}
		if allRespFailed && !allReqFailed && answer != "as-is" && len(invoked) > 0 {
			rec.Class("all-response-entries-failed+backend-answer-with-error", 1)
		}
		if pan["req"]+pan["resp"] > 0 {
			rec.Class("with-panic", 1)
		}
		if allReqFailed {
			rec.Class("all-request-entries-failed", 1)
		} else if allRespFailed {
			rec.Class("all-response-entries-failed", 1)
		}
	})
}
