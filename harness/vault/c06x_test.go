//go:build verif

package vault

// C06, shared machinery of the fault-enumeration unit:
//
//   - c06Inj attributes storage operations to ONE REQUEST rather than to one goroutine: an operation belongs to the
//     request when it starts inside the request's time window (from the call of HandleRequest until the request has
//     returned and every operation it started has come back from the store) on the request goroutine or on a goroutine
//     that the request started, directly or through further goroutines (the runtime records the creator of every
//     goroutine; the chain is read from the goroutine's own traceback, for intermediate goroutines from one dump of all
//     goroutines). Every goroutine that is alive when the window opens - the long-lived workers of the core (expiration,
//     rollback manager), which the test goroutine itself started when it booted the core - is excluded.
//     The injector fails the operation with a given identity (kind, class of key, occurrence), which is stable when
//     helper goroutines reorder the operations of a request.
//   - c06Lat is a storage layer between the recording backend and the in-memory store that models a latency spike:
//     while a spike is armed, a Put of the request on a lease or token record (sys/expire/..., sys/token/..., in any
//     namespace) is accepted but completes late - it is held until the request has returned, or until the request
//     has not started another storage operation for a while (nothing is left that could overtake it), whichever is
//     first - and it completes whether or not the caller's context has been cancelled meanwhile (a write that has been
//     submitted to a remote store is not taken back when the client goes away). All writes that one request issues to
//     one key from one goroutine are sequential, so for a sequential implementation a spike only slows the case down.
//   - the partial-record oracle lists the raw physical keys below the expiration manager's and the token store's
//     prefixes in all namespaces before the request and after it has drained, and judges what a FAILED request added.

import (
	"bytes"
	"context"
	"fmt"
	"runtime"
	"sort"
	"strconv"
	"strings"
	"sync"
	"sync/atomic"
	"time"

	"github.com/openbao/openbao/sdk/v2/helper/jsonutil"
	"github.com/openbao/openbao/sdk/v2/helper/verifx"
	"github.com/openbao/openbao/sdk/v2/logical"
	"github.com/openbao/openbao/sdk/v2/physical"
	"github.com/openbao/openbao/v2/internal/helper/namespace"
)

// ---------------------------------------------------------------- goroutine ancestry

// c06ParseCreator extracts N from the trailing "created by f in goroutine N" line of one goroutine's traceback.
func c06ParseCreator(tr []byte) int64 {
	i := bytes.LastIndex(tr, []byte("\ncreated by "))
	if i < 0 {
		return 0
	}
	line := tr[i+1:]
	if j := bytes.IndexByte(line, '\n'); j >= 0 {
		line = line[:j]
	}
	k := bytes.LastIndex(line, []byte(" in goroutine "))
	if k < 0 {
		return 0
	}
	id, _ := strconv.ParseInt(string(bytes.TrimSpace(line[k+len(" in goroutine "):])), 10, 64)
	return id
}

// c06GoCreator returns the id of the goroutine that started the calling goroutine (0 = unknown).
func c06GoCreator() int64 {
	buf := make([]byte, 64<<10)
	for {
		n := runtime.Stack(buf, false)
		if n < len(buf) || len(buf) >= 8<<20 {
			return c06ParseCreator(buf[:n])
		}
		buf = make([]byte, 4*len(buf))
	}
}

// c06AllCreators maps every live goroutine to its creator (one dump of all goroutines).
func c06AllCreators() map[int64]int64 {
	buf := make([]byte, 1<<20)
	for {
		n := runtime.Stack(buf, true)
		if n < len(buf) || len(buf) >= 64<<20 {
			buf = buf[:n]
			break
		}
		buf = make([]byte, 4*len(buf))
	}
	out := map[int64]int64{}
	for _, blk := range bytes.Split(buf, []byte("\n\n")) {
		if !bytes.HasPrefix(blk, []byte("goroutine ")) {
			continue
		}
		rest := blk[len("goroutine "):]
		sp := bytes.IndexByte(rest, ' ')
		if sp < 0 {
			continue
		}
		id, err := strconv.ParseInt(string(rest[:sp]), 10, 64)
		if err != nil {
			continue
		}
		out[id] = c06ParseCreator(blk)
	}
	return out
}

// ---------------------------------------------------------------- the injector

// c06OpID is the identity of one storage operation of a request: stable under reordering between goroutines.
type c06OpID struct {
	Cls   string // kind + " " + class of the key
	Occ   int    // 1-based occurrence of Cls within the request
	Kind  string
	Key   string
	Seq   int64
	Write bool
	OnReq bool // performed by the request goroutine itself
}

func (o c06OpID) String() string { return fmt.Sprintf("%s #%d", o.Cls, o.Occ) }

type c06Inj struct {
	mu           sync.Mutex
	g            int64
	rel          map[int64]bool // goroutine -> belongs to the request
	dumps        int
	creators     map[int64]int64
	open         bool
	ops          []c06OpID
	occ          map[string]int
	target       *c06OpID // operation to fail (nil = none)
	hit          *verifx.Op
	custom       func(in *c06Inj, o *verifx.Op, n int) error // alternative fault rule (called for attributed operations)
	spike        bool
	quiet        time.Duration // a held write of the request goroutine: nothing but helper goroutines can overtake it
	quietHelper  time.Duration // a held write of a helper goroutine: the request goroutine may go on and return
	maxHold      time.Duration
	lastProgress time.Time
	inflight     int
	held         int // writes that were held by the spike
	heldLate     int // held writes released by the return of the request (they completed after it)
	helperOps    int // attributed operations on goroutines other than the request goroutine
	unattributed int
	returned     chan struct{}
	atReturn     map[string]bool // raw records at the moment the request returned, if something it started was still in flight
}

// newC06Inj opens the window of a request that is about to start on goroutine g (the calling goroutine). Every
// goroutine that is alive now - the workers of the core, which the test goroutine started when it booted the core -
// does not belong to the request; goroutines that appear later belong to it if their chain of creators leads to g.
func newC06Inj(g int64) *c06Inj {
	in := &c06Inj{g: g, rel: map[int64]bool{}, occ: map[string]int{}, open: true, returned: make(chan struct{}),
		quiet: 5 * time.Millisecond, quietHelper: 50 * time.Millisecond, maxHold: 150 * time.Millisecond, lastProgress: time.Now()}
	for id := range c06AllCreators() {
		if id != g {
			in.rel[id] = false
		}
	}
	return in
}

// belongs decides whether goroutine G (the CALLING goroutine) belongs to the request. in.mu is held.
func (in *c06Inj) belongs(G int64) bool {
	if G == in.g {
		return true
	}
	if v, ok := in.rel[G]; ok {
		return v
	}
	v := in.resolve(c06GoCreator())
	in.rel[G] = v
	return v
}

func (in *c06Inj) resolve(p int64) bool {
	if p == 0 {
		return false
	}
	if p == in.g {
		return true
	}
	if v, ok := in.rel[p]; ok {
		return v
	}
	if in.creators == nil || in.dumps < 8 {
		in.creators = c06AllCreators()
		in.dumps++
	}
	var chain []int64
	res := false
	for cur, depth := p, 0; depth < 64; depth++ {
		if cur == in.g {
			res = true
			break
		}
		if v, ok := in.rel[cur]; ok {
			res = v
			break
		}
		chain = append(chain, cur)
		nxt, ok := in.creators[cur]
		if !ok || nxt == 0 {
			break
		}
		cur = nxt
	}
	for _, c := range chain {
		in.rel[c] = res
	}
	return res
}

// c06KeyClass: class of a physical key; the namespace storage prefix is kept as a marker, long segments are wildcards.
func c06KeyClass(k string) string {
	nsPfx, rest := c06SplitNS(k)
	c := keyClass(rest)
	if nsPfx != "" {
		c = "ns:" + c
	}
	return c
}

// fault is installed as the recording backend's fault function (called in the goroutine of the operation).
func (in *c06Inj) fault(o *verifx.Op) error {
	in.mu.Lock()
	defer in.mu.Unlock()
	if !in.open {
		return nil
	}
	if !in.belongs(o.G) {
		in.unattributed++
		return nil
	}
	in.lastProgress = time.Now()
	if o.G != in.g {
		in.helperOps++
	}
	cls := o.Kind + " " + c06KeyClass(o.Key)
	in.occ[cls]++
	id := c06OpID{Cls: cls, Occ: in.occ[cls], Kind: o.Kind, Key: o.Key, Seq: o.Seq, OnReq: o.G == in.g,
		Write: o.Kind == "put" || o.Kind == "delete" || o.Kind == "commit"}
	in.ops = append(in.ops, id)
	if in.custom != nil {
		return in.custom(in, o, len(in.ops))
	}
	if in.hit == nil && in.target != nil && o.Kind != "rollback" && in.target.Cls == id.Cls && in.target.Occ == id.Occ {
		in.hit = o
		return verifx.ErrInjected
	}
	return nil
}

// enter / leave bracket a mutating operation of the request at the latency layer.
func (in *c06Inj) enter() bool {
	in.mu.Lock()
	defer in.mu.Unlock()
	if !in.open || !in.belongs(verifx.GoID()) {
		return false
	}
	in.inflight++
	return true
}

func (in *c06Inj) leave() {
	in.mu.Lock()
	in.inflight--
	in.lastProgress = time.Now()
	in.mu.Unlock()
}

// hold parks a write of the request: until the request has returned, or the request has not started another storage
// operation for a while (in.quiet / in.quietHelper), or in.maxHold has passed.
func (in *c06Inj) hold() {
	quietFor := in.quiet
	if verifx.GoID() != in.g {
		quietFor = in.quietHelper
	}
	in.mu.Lock()
	in.held++
	in.mu.Unlock()
	start := time.Now()
	tick := time.NewTicker(time.Millisecond)
	defer tick.Stop()
	for {
		select {
		case <-in.returned:
			in.mu.Lock()
			in.heldLate++
			in.mu.Unlock()
			return
		case <-tick.C:
		}
		in.mu.Lock()
		quiet := time.Since(in.lastProgress) > quietFor
		in.mu.Unlock()
		if quiet || time.Since(start) > in.maxHold {
			return
		}
	}
}

// finish is called when the request has returned: releases held writes and waits until everything the request started
// has come back from the store and nothing new of it arrives; then closes the window.
func (in *c06Inj) finish() {
	close(in.returned)
	deadline := time.Now().Add(5 * time.Second)
	for time.Now().Before(deadline) {
		in.mu.Lock()
		idle := in.inflight == 0 && time.Since(in.lastProgress) > 1500*time.Microsecond
		in.mu.Unlock()
		if idle {
			break
		}
		time.Sleep(200 * time.Microsecond)
	}
	in.mu.Lock()
	in.open = false
	in.mu.Unlock()
}

func (in *c06Inj) opList() []c06OpID {
	in.mu.Lock()
	defer in.mu.Unlock()
	return append([]c06OpID(nil), in.ops...)
}

// ---------------------------------------------------------------- the latency layer

type c06Lat struct {
	physical.Backend
	cur atomic.Pointer[c06Inj]
}

type c06LatTx struct {
	*c06Lat
	tb physical.TransactionalBackend
}

func (l *c06LatTx) BeginTx(ctx context.Context) (physical.Transaction, error) { return l.tb.BeginTx(ctx) }
func (l *c06LatTx) BeginReadOnlyTx(ctx context.Context) (physical.Transaction, error) {
	return l.tb.BeginReadOnlyTx(ctx)
}

// c06InstallLat puts the latency layer below a recording backend (before a core is started on it).
func c06InstallLat(b physical.Backend) *c06Lat {
	rec := verifx.RecOf(b)
	l := &c06Lat{Backend: rec.Inner}
	if tb, ok := rec.Inner.(physical.TransactionalBackend); ok {
		rec.Inner = &c06LatTx{c06Lat: l, tb: tb}
	} else {
		rec.Inner = l
	}
	return l
}

// c06IsRecordKey: lease records, lease index records and token records, in any namespace.
func c06IsRecordKey(k string) bool {
	_, rest := c06SplitNS(k)
	return strings.HasPrefix(rest, "sys/expire/") || strings.HasPrefix(rest, "sys/token/")
}

func (l *c06Lat) Put(ctx context.Context, e *physical.Entry) error {
	in := l.cur.Load()
	if in == nil || !in.enter() {
		return l.Backend.Put(ctx, e)
	}
	defer in.leave()
	if in.spike && c06IsRecordKey(e.Key) {
		in.hold()
		// the write was accepted by the store when it was submitted
		return l.Backend.Put(context.WithoutCancel(ctx), e)
	}
	return l.Backend.Put(ctx, e)
}

func (l *c06Lat) Delete(ctx context.Context, key string) error {
	in := l.cur.Load()
	if in == nil || !in.enter() {
		return l.Backend.Delete(ctx, key)
	}
	defer in.leave()
	return l.Backend.Delete(ctx, key)
}

// ---------------------------------------------------------------- raw records and the partial-record oracle

// c06SplitNS splits a physical key into the storage prefix of its namespace ("" = root) and the rest.
func c06SplitNS(k string) (string, string) {
	if strings.HasPrefix(k, "namespaces/") {
		rest := k[len("namespaces/"):]
		if i := strings.IndexByte(rest, '/'); i >= 0 {
			return k[:len("namespaces/")+i+1], rest[i+1:]
		}
	}
	return "", k
}

const (
	c06PfxLease    = "sys/expire/id/"
	c06PfxIndex    = "sys/expire/token/"
	c06PfxTokID    = "sys/token/id/"
	c06PfxTokAcc   = "sys/token/accessor/"
	c06PfxTokChild = "sys/token/parent/"
)

var c06RecordPrefixes = []string{c06PfxLease, c06PfxIndex, c06PfxTokID, c06PfxTokAcc, c06PfxTokChild}

// records lists the raw physical keys of all lease, lease-index and token records, in all namespaces.
func (w *c06World) records() map[string]bool {
	all, err := verifx.Dump(w.tc.ctx, w.tc.rec.Inner)
	if err != nil {
		w.t.Fatalf("harness: dump: %v", err)
	}
	out := map[string]bool{}
	for k := range all {
		_, rest := c06SplitNS(k)
		for _, p := range c06RecordPrefixes {
			if strings.HasPrefix(rest, p) {
				out[k] = true
			}
		}
	}
	return out
}

// nsOfPrefix maps a namespace storage prefix to the namespace (nil = a namespace this world does not know).
func (w *c06World) nsOfPrefix(nsPfx string) *namespace.Namespace {
	if nsPfx == "" {
		return namespace.RootNamespace
	}
	if w.ns1 != nil && nsPfx == "namespaces/"+w.ns1.UUID+"/" {
		return w.ns1
	}
	return nil
}

func (w *c06World) prefixOfNSID(id string) (string, *namespace.Namespace) {
	if id == "" || id == namespace.RootNamespaceID {
		return "", namespace.RootNamespace
	}
	if w.ns1 != nil && id == w.ns1.ID {
		return "namespaces/" + w.ns1.UUID + "/", w.ns1
	}
	return "?", nil
}

func lastSegment(k string) string {
	if i := strings.LastIndexByte(k, '/'); i >= 0 {
		return k[i+1:]
	}
	return k
}

// leaseRecordOfToken: the raw key of the lease record of the token with this salted id, "" if there is none. The lease
// of a token lives below sys/expire/id/<creation path>/ under the token's salted id (plus ".<namespace id>").
func c06LeaseRecordOfToken(recs map[string]bool, nsPfx, salted, nsID string) string {
	for _, k := range sortedKeys(recs) {
		p, rest := c06SplitNS(k)
		if p != nsPfx || !strings.HasPrefix(rest, c06PfxLease) {
			continue
		}
		last := lastSegment(rest)
		if last == salted || (nsID != "" && last == salted+"."+nsID) {
			return k
		}
	}
	return ""
}

// readToken reads a token entry from storage without any of the side effects of a lookup.
func (w *c06World) readToken(ns *namespace.Namespace, salted string) *logical.TokenEntry {
	ctx := namespace.ContextWithNamespace(context.Background(), ns)
	raw, err := w.tc.c.tokenStore.idView(ns).Get(ctx, salted)
	if err != nil || raw == nil {
		return nil
	}
	te := new(logical.TokenEntry)
	if err := jsonutil.DecodeJSON(raw.Value, te); err != nil {
		return nil
	}
	if te.NamespaceID == "" {
		te.NamespaceID = namespace.RootNamespaceID
	}
	return te
}

// alive: the token store accepts the token as the client token of a request. This is the lookup every request starts
// with; unlike a probe request it does not depend on the token's policies and does not consume one of its uses.
func (w *c06World) alive(te *logical.TokenEntry) bool { return w.aliveID(te.ID) }

func (w *c06World) aliveID(id string) bool {
	var te *logical.TokenEntry
	var err error
	if p := verifx.Try(func() { te, err = w.tc.c.tokenStore.Lookup(namespace.RootContext(context.Background()), id) }); p != nil {
		return false
	}
	return err == nil && te != nil
}

func c06DescribeToken(te *logical.TokenEntry) string {
	return fmt.Sprintf("policies=%v ttl=%v period=%v explicit_max_ttl=%v num_uses=%d parent=%v path=%s namespace=%s", te.Policies, te.TTL, te.Period, te.ExplicitMaxTTL, te.NumUses, te.Parent != "", te.Path, te.NamespaceID)
}

// c06Remnant is what a failed request left behind without it being a violation of the statement (see leftovers).
type c06Remnant struct {
	Key  string
	What string
}

// leftovers judges the records that a request added to storage. before = records() taken before the request; the
// request has returned and drained. failed = the client received an error and no credentials.
//
// Violations (whatever the outcome of the request):
//   - a token record that the request added (found through the id, accessor or parent records; the client need not know
//     the id) belongs to a token that authenticates requests and has no lease record;
//   - a lease record that the request added belongs to a secret whose revocation the issuing backend has seen;
//   - a lease-index record that the request added names a lease that has no record.
//
// After a failed request additionally: an accessor or parent record that names a token without entry.
// Everything else that a failed request added and that is not covered by a lease is returned as remnants.
func (w *c06World) leftovers(before map[string]bool, failed bool) (sig, msg string, rem []c06Remnant) {
	ts, exp := w.tc.c.tokenStore, w.tc.c.expiration
	after := w.records()
	var added []string
	for _, k := range sortedKeys(after) {
		if !before[k] {
			added = append(added, k)
		}
	}
	if len(added) == 0 {
		return "", "", nil
	}
	type tokRef struct {
		nsPfx, salted, via string
	}
	var toks []tokRef
	seenTok := map[string]bool{}
	keyTok := map[string]string{} // added token record -> token it belongs to
	addTok := func(k, nsPfx, salted, via string) {
		keyTok[k] = nsPfx + salted
		if !seenTok[nsPfx+salted] {
			seenTok[nsPfx+salted] = true
			toks = append(toks, tokRef{nsPfx, salted, via})
		}
	}
	for _, k := range added {
		nsPfx, rest := c06SplitNS(k)
		ns := w.nsOfPrefix(nsPfx)
		if ns == nil {
			continue
		}
		nctx := namespace.ContextWithNamespace(context.Background(), ns)
		switch {
		case strings.HasPrefix(rest, c06PfxLease):
			leaseID := strings.TrimPrefix(rest, c06PfxLease)
			raw, err := exp.leaseView(ns).Get(nctx, leaseID)
			if err != nil || raw == nil {
				continue
			}
			le, err := decodeLeaseEntry(raw.Value)
			if err != nil || le == nil {
				continue
			}
			if le.Secret != nil {
				id, _ := le.Secret.InternalData["id"].(string)
				w.hub.mu.Lock()
				revoked := id != "" && w.hub.revoked[id] > 0
				w.hub.mu.Unlock()
				if revoked {
					return "lease-record-of-revoked-secret", fmt.Sprintf("the lease record %s is in storage although its secret %s has been revoked at the backend that issued it", k, id), nil
				}
			}
			if le.Auth != nil && failed {
				salted := lastSegment(leaseID)
				if i := strings.IndexByte(salted, '.'); i >= 0 {
					salted = salted[:i]
				}
				if !after[nsPfx+c06PfxTokID+salted] {
					rem = append(rem, c06Remnant{k, "lease record of a token that has no entry"})
				}
			}
		case strings.HasPrefix(rest, c06PfxIndex):
			raw, err := exp.tokenIndexView(ns).Get(nctx, strings.TrimPrefix(rest, c06PfxIndex))
			if err != nil || raw == nil {
				continue
			}
			leaseID := string(raw.Value)
			_, lnsID := namespace.SplitIDFromString(leaseID)
			lpfx, lns := w.prefixOfNSID(lnsID)
			if lns == nil {
				continue
			}
			if !after[lpfx+c06PfxLease+leaseID] {
				return "index-record-without-lease", fmt.Sprintf("the lease index record %s names the lease %s, which has no record", k, leaseID), nil
			}
		case strings.HasPrefix(rest, c06PfxTokID):
			addTok(k, nsPfx, strings.TrimPrefix(rest, c06PfxTokID), "its entry")
		case strings.HasPrefix(rest, c06PfxTokAcc):
			raw, err := ts.accessorView(ns).Get(nctx, strings.TrimPrefix(rest, c06PfxTokAcc))
			if err != nil || raw == nil {
				continue
			}
			var ae accessorEntry
			if err := jsonutil.DecodeJSON(raw.Value, &ae); err != nil {
				// accessor records written before the entry format hold the bare token id
				ae.TokenID = string(raw.Value)
			}
			salted, err := ts.SaltID(nctx, ae.TokenID)
			if err != nil {
				continue
			}
			if after[nsPfx+c06PfxTokID+salted] {
				addTok(k, nsPfx, salted, "the accessor index")
			} else if failed {
				rem = append(rem, c06Remnant{k, "accessor record of a token that has no entry"})
			}
		case strings.HasPrefix(rest, c06PfxTokChild):
			child := lastSegment(rest)
			child, cnsID := namespace.SplitIDFromString(child)
			cpfx, cns := w.prefixOfNSID(cnsID)
			if cns == nil {
				continue
			}
			if after[cpfx+c06PfxTokID+child] {
				addTok(k, cpfx, child, "the parent index")
			} else if failed {
				rem = append(rem, c06Remnant{k, "parent index record of a token that has no entry"})
			}
		}
	}
	unleased := map[string]string{}
	for _, tr := range toks {
		ns := w.nsOfPrefix(tr.nsPfx)
		te := w.readToken(ns, tr.salted)
		if te == nil {
			continue
		}
		nsID := ""
		if ns.ID != namespace.RootNamespaceID {
			nsID = ns.ID
		}
		lease := c06LeaseRecordOfToken(after, tr.nsPfx, tr.salted, nsID)
		if lease != "" {
			continue // tracked: it expires or is revoked through its lease
		}
		if w.alive(te) {
			return "usable-token-without-lease", fmt.Sprintf("the request added a token (found through %s; %s) that authenticates requests and has no lease record", tr.via, c06DescribeToken(te)), nil
		}
		unleased[tr.nsPfx+tr.salted] = c06DescribeToken(te)
	}
	if failed {
		for _, k := range added {
			if d, ok := unleased[keyTok[k]]; ok {
				rem = append(rem, c06Remnant{k, "record of a token without lease that is refused on use (" + d + ")"})
			}
		}
	}
	if len(rem) > 0 {
		// what the use of the token cleaned up is not a remnant
		now := w.records()
		var still []c06Remnant
		for _, r := range rem {
			if now[r.Key] {
				still = append(still, r)
			}
		}
		rem = still
	}
	sort.Slice(rem, func(i, j int) bool { return rem[i].Key < rem[j].Key })
	return "", "", rem
}

// durableAtReturn: the lease record of what the client received existed in storage at the moment the request returned
// (atReturn; nil = nothing of the request was in flight then, the state after the request is the state at return).
func (w *c06World) durableAtReturn(r rr, atReturn map[string]bool) (string, string) {
	if atReturn == nil || r.resp == nil {
		return "", ""
	}
	ts := w.tc.c.tokenStore
	tokenLease := func(tok, what string) (string, string) {
		te, err := ts.Lookup(namespace.RootContext(context.Background()), tok)
		if err != nil || te == nil || te.Type == logical.TokenTypeBatch {
			return "", ""
		}
		pfx, ns := w.prefixOfNSID(te.NamespaceID)
		if ns == nil {
			return "", ""
		}
		salted, err := ts.SaltID(namespace.ContextWithNamespace(context.Background(), ns), te.ID)
		if err != nil {
			return "", ""
		}
		nsID := ""
		if ns.ID != namespace.RootNamespaceID {
			nsID = ns.ID
		}
		if c06LeaseRecordOfToken(atReturn, pfx, salted, nsID) == "" {
			return "lease-not-durable-at-return", fmt.Sprintf("the client received %s while its lease record was not in storage yet (a write of the request was still in flight when the request returned)", what)
		}
		return "", ""
	}
	if r.resp.WrapInfo != nil && r.resp.WrapInfo.Token != "" {
		return tokenLease(r.resp.WrapInfo.Token, "a wrapping token")
	}
	if r.resp.Secret != nil && r.resp.Secret.LeaseID != "" {
		_, nsID := namespace.SplitIDFromString(r.resp.Secret.LeaseID)
		pfx, ns := w.prefixOfNSID(nsID)
		if ns != nil && !atReturn[pfx+c06PfxLease+r.resp.Secret.LeaseID] {
			return "lease-not-durable-at-return", fmt.Sprintf("the client received a secret with lease id %s while the lease record was not in storage yet (a write of the request was still in flight when the request returned)", r.resp.Secret.LeaseID)
		}
	}
	if r.resp.Auth != nil && r.resp.Auth.ClientToken != "" && r.resp.Auth.TokenType != logical.TokenTypeBatch {
		return tokenLease(r.resp.Auth.ClientToken, "a service token")
	}
	return "", ""
}
