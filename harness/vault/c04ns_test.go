//go:build verif

package vault

import (
	"context"
	"fmt"
	"sort"
	"strings"
	"testing"
	"time"

	"github.com/openbao/openbao/sdk/v2/helper/verifx"
	"github.com/openbao/openbao/sdk/v2/logical"
	"github.com/openbao/openbao/v2/internal/helper/namespace"
	"pgregory.net/rapid"
)

// Token trees that span namespaces: root, n1 and n1/n2. A token of namespace A may create children in A and in the
// namespaces below A; revoking it must take all of them with it, wherever they live.

const c04nsPolicy = `
path "rb/*" { capabilities = ["create","read","update","delete","list"] }
path "auth/token/create" { capabilities = ["update"] }
path "+/rb/*" { capabilities = ["create","read","update","delete","list"] }
path "+/auth/token/create" { capabilities = ["update","sudo"] }
path "+/+/rb/*" { capabilities = ["create","read","update","delete","list"] }
path "+/+/auth/token/create" { capabilities = ["update","sudo"] }
`

type c04nsTok struct {
	name     string
	id, acc  string
	ns       int // index into world.nss
	parent   int
	alive    bool
	cubbyKey string
	leases   []c04Lease
}

type c04nsWorld struct {
	t    *testing.T
	tc   *tcore
	hub  *recHub
	nss  []*namespace.Namespace
	toks []*c04nsTok
	log  []string
}

func (w *c04nsWorld) logf(format string, a ...any) { w.log = append(w.log, fmt.Sprintf(format, a...)) }

func (w *c04nsWorld) ctx(ns int) context.Context {
	return namespace.ContextWithNamespace(context.Background(), w.nss[ns])
}

func (w *c04nsWorld) reqIn(ns int, op logical.Operation, path, token string, data map[string]any) rr {
	return w.tc.doCtx(w.ctx(ns), &logical.Request{Operation: op, Path: path, ClientToken: token, Data: data})
}

func (w *c04nsWorld) loadNamespaces() {
	w.nss = []*namespace.Namespace{namespace.RootNamespace}
	for _, p := range []string{"n1/", "n1/n2/"} {
		ns, err := w.tc.c.namespaceStore.GetNamespaceByPath(w.tc.ctx, p)
		if err != nil || ns == nil {
			w.t.Fatalf("harness: namespace %s: %v", p, err)
		}
		w.nss = append(w.nss, ns)
	}
}

func newC04nsWorld(t *testing.T, transactional bool) *c04nsWorld {
	hub := newRecHub()
	tc := mustBoot(t, coreOpts{transactional: transactional, cacheOff: true,
		logical: map[string]logical.Factory{"recbe": hub.factory("recbe", logical.TypeLogical)}})
	w := &c04nsWorld{t: t, tc: tc, hub: hub}
	tc.mustOK(tc.req(logical.UpdateOperation, "sys/namespaces/n1", tc.root, nil), "namespace n1")
	tc.mustOK(tc.req(logical.UpdateOperation, "n1/sys/namespaces/n2", tc.root, nil), "namespace n1/n2")
	w.loadNamespaces()
	for i := range w.nss {
		tc.mustOK(w.reqIn(i, logical.UpdateOperation, "sys/mounts/rb", tc.root, map[string]any{"type": "recbe"}), "mount rb")
		tc.mustOK(w.reqIn(i, logical.UpdateOperation, "sys/policy/c04", tc.root, map[string]any{"policy": c04nsPolicy}), "policy")
	}
	return w
}

// below reports whether namespace b is a or lies below a.
func (w *c04nsWorld) below(a, b int) bool { return strings.HasPrefix(w.nss[b].Path, w.nss[a].Path) }

func (w *c04nsWorld) create(parent, ns int, orphan bool) (*c04nsTok, rr) {
	ptok := w.tc.root
	if parent >= 0 {
		ptok = w.toks[parent].id
	}
	data := map[string]any{"policies": []string{"default", "c04"}, "ttl": "1h"}
	if parent < 0 && orphan {
		data["no_parent"] = true
	}
	r := w.reqIn(ns, logical.UpdateOperation, "auth/token/create", ptok, data)
	if !r.ok() || r.resp == nil || r.resp.Auth == nil {
		return nil, r
	}
	tk := &c04nsTok{name: fmt.Sprintf("t%d@%s", len(w.toks), w.nss[ns].Path), id: r.resp.Auth.ClientToken, acc: r.resp.Auth.Accessor, ns: ns, parent: parent, alive: true}
	w.toks = append(w.toks, tk)
	return tk, r
}

func (w *c04nsWorld) subtree(i int) []int {
	in := map[int]bool{i: true}
	for changed := true; changed; {
		changed = false
		for j, tk := range w.toks {
			if !in[j] && tk.parent >= 0 && in[tk.parent] {
				in[j] = true
				changed = true
			}
		}
	}
	var out []int
	for j := range in {
		out = append(out, j)
	}
	sort.Ints(out)
	return out
}

func (w *c04nsWorld) aliveIdx() []int {
	var out []int
	for i, tk := range w.toks {
		if tk.alive {
			out = append(out, i)
		}
	}
	return out
}

// revoke issues the revocation in namespace reqNS (the token's own or one above it).
func (w *c04nsWorld) revoke(kind string, i, reqNS int) rr {
	tk := w.toks[i]
	switch kind {
	case "revoke":
		return w.reqIn(reqNS, logical.UpdateOperation, "auth/token/revoke", w.tc.root, map[string]any{"token": tk.id})
	case "revoke-self":
		return w.reqIn(tk.ns, logical.UpdateOperation, "auth/token/revoke-self", tk.id, nil)
	case "revoke-accessor":
		return w.reqIn(reqNS, logical.UpdateOperation, "auth/token/revoke-accessor", w.tc.root, map[string]any{"accessor": tk.acc})
	case "revoke-orphan":
		return w.reqIn(reqNS, logical.UpdateOperation, "auth/token/revoke-orphan", w.tc.root, map[string]any{"token": tk.id})
	}
	panic(kind)
}

func (w *c04nsWorld) checkAll() (string, string) {
	for _, tk := range w.toks {
		lr := w.reqIn(tk.ns, logical.ReadOperation, "auth/token/lookup-self", tk.id, nil)
		alive := lr.ok() && lr.resp != nil
		before := w.hub.callCount()
		pr := w.reqIn(tk.ns, logical.ReadOperation, "rb/echo/probe", tk.id, nil)
		reach := pr.ok() && w.hub.callCount() > before
		if tk.alive {
			if !alive || !reach {
				return "live-token-rejected", fmt.Sprintf("token %s should be usable but lookup-self=%v (%v) backend-reached=%v (%v)", tk.name, alive, lr, reach, pr)
			}
			continue
		}
		if alive || reach {
			return "revoked-token-usable", fmt.Sprintf("token %s is revoked (or a descendant of a revoked token) but lookup-self=%v backend-reached=%v", tk.name, alive, reach)
		}
		if tk.cubbyKey != "" {
			e, err := w.tc.rec.Inner.Get(w.tc.ctx, tk.cubbyKey)
			if err == nil && e != nil {
				return "cubbyhole-remains", fmt.Sprintf("cubbyhole entry %s of revoked token %s still in storage", tk.cubbyKey, tk.name)
			}
		}
		for _, l := range tk.leases {
			le, err := w.tc.c.expiration.loadEntry(w.ctx(l.ns), l.leaseID)
			if err != nil {
				continue
			}
			if le != nil && le.ExpireTime.After(time.Now()) && !le.isIrrevocable() {
				w.hub.mu.Lock()
				rv := w.hub.revoked[l.secretID]
				w.hub.mu.Unlock()
				if rv == 0 {
					sig := "lease-not-revoked"
					if l.ns != tk.ns {
						sig = "lease-not-revoked:lease-in-namespace-below-the-token's"
					}
					return sig, fmt.Sprintf("lease %s issued under revoked token %s is still stored with expiry %v in the future and was not revoked at the backend", l.leaseID, tk.name, le.ExpireTime)
				}
			}
		}
	}
	return "", ""
}

func (w *c04nsWorld) shape() string {
	var sb strings.Builder
	for i, tk := range w.toks {
		fmt.Fprintf(&sb, "%d@%s<-%d%s ", i, w.nss[tk.ns].Path, tk.parent, map[bool]string{true: "", false: "x"}[tk.alive])
	}
	return sb.String()
}

func TestVerif_C04_Namespaces(t *testing.T) {
	rec := verifx.NewRecorder("C04", "namespaces", "rapid state machine on a fresh core with the namespaces root, n1/ and n1/n2/ (a recording secrets backend and the same policy in each): create a token in a generated namespace under a generated live parent of that namespace or of a namespace above it (or as root-created child / orphan), write its cubbyhole, obtain a leased secret in its namespace or in one below it, revoke (by id / by accessor / revoke-orphan issued in the token's namespace or one above it, or revoke-self), restart on the same storage; after every action every token of the model is probed in its own namespace (lookup-self, request to the recording backend, cubbyhole key in physical storage, lease entries); non-trivial = a successful revocation of a token whose subtree spans more than one namespace")
	defer rec.Flush()
	rapid.Check(t, func(rt *rapid.T) {
		defer recoverWedged(rec)
		w := newC04nsWorld(t, rapid.Bool().Draw(rt, "transactionalStorage"))
		defer func() { w.tc.shutdown() }()
		nontrivial := false
		restarts := 0
		crossCreated := 0
		crossLeases := 0
		fail := func(sig, msg string) {
			rec.Violation(rt, sig, map[string]any{"history": w.log, "tree": w.shape()}, "%s; history=%v", msg, w.log)
		}
		pickAlive := func(label string) int {
			a := w.aliveIdx()
			if len(a) == 0 {
				return -1
			}
			return a[rapid.IntRange(0, len(a)-1).Draw(rt, label)]
		}
		rt.Repeat(map[string]func(*rapid.T){
			"create": func(rt *rapid.T) {
				if len(w.toks) >= 10 {
					rt.Skip("enough tokens")
				}
				parent := -1
				if rapid.IntRange(0, 3).Draw(rt, "underToken") > 0 {
					parent = pickAlive("parent")
				}
				// a namespace at or below the parent's
				var cands []int
				for n := range w.nss {
					if parent < 0 || w.below(w.toks[parent].ns, n) {
						cands = append(cands, n)
					}
				}
				ns := cands[fairIndex(rt, "ns", len(cands))]
				orphan := parent < 0 && rapid.Bool().Draw(rt, "orphan")
				tk, r := w.create(parent, ns, orphan)
				w.logf("create parent=%d ns=%s orphan=%v -> %v", parent, w.nss[ns].Path, orphan, r)
				if tk == nil {
					fail("create-failed", fmt.Sprintf("token creation in %q under live parent %d failed: %v", w.nss[ns].Path, parent, r))
					return
				}
				if parent >= 0 && w.toks[parent].ns != ns {
					crossCreated++
				}
			},
			"cubby": func(rt *rapid.T) {
				i := pickAlive("tok")
				if i < 0 {
					rt.Skip("no live token")
				}
				tk := w.toks[i]
				seq := w.tc.rec.Seq()
				r := w.reqIn(tk.ns, logical.UpdateOperation, "cubbyhole/secret", tk.id, map[string]any{"v": "cubby-" + tk.name})
				if r.ok() {
					for _, o := range w.tc.rec.OpsSince(seq) {
						if o.Kind == "put" && strings.Contains(o.Key, "logical/") && o.Err == nil {
							tk.cubbyKey = o.Key
						}
					}
				}
				w.logf("cubby %d -> %v key=%s", i, r, verifx.Trunc(tk.cubbyKey, 60))
			},
			"lease": func(rt *rapid.T) {
				i := pickAlive("tok")
				if i < 0 {
					rt.Skip("no live token")
				}
				tk := w.toks[i]
				// in the token's namespace or in one below it
				var cands []int
				for n := range w.nss {
					if w.below(tk.ns, n) {
						cands = append(cands, n)
					}
				}
				lns := cands[fairIndex(rt, "leaseNS", len(cands))]
				r := w.reqIn(lns, logical.ReadOperation, "rb/creds/x", tk.id, nil)
				if r.ok() && r.resp != nil && r.resp.Secret != nil && r.resp.Secret.LeaseID != "" {
					sid, _ := r.resp.Data["secret_id"].(string)
					tk.leases = append(tk.leases, c04Lease{leaseID: r.resp.Secret.LeaseID, secretID: sid, ns: lns})
					if lns != tk.ns {
						crossLeases++
					}
				}
				w.logf("lease %d in %q -> %v", i, w.nss[lns].Path, r)
			},
			"revoke": func(rt *rapid.T) {
				if len(w.toks) == 0 {
					rt.Skip("no token")
				}
				i := rapid.IntRange(0, len(w.toks)-1).Draw(rt, "tok")
				if rapid.Bool().Draw(rt, "preferSpanning") {
					// prefer a live token whose live subtree spans more than one namespace, if there is one
					var sp []int
					for j, tk := range w.toks {
						if !tk.alive {
							continue
						}
						nsSeen := map[int]bool{}
						for _, x := range w.subtree(j) {
							if w.toks[x].alive {
								nsSeen[w.toks[x].ns] = true
							}
						}
						if len(nsSeen) > 1 {
							sp = append(sp, j)
						}
					}
					if len(sp) > 0 {
						i = sp[i%len(sp)]
					}
				}
				kind := rapid.SampledFrom([]string{"revoke", "revoke", "revoke-self", "revoke-accessor", "revoke-accessor", "revoke-orphan"}).Draw(rt, "kind")
				if !w.toks[i].alive && (kind == "revoke-self" || kind == "revoke-orphan") {
					kind = "revoke"
				}
				// the request is issued in the token's namespace or in one above it
				var cands []int
				for n := range w.nss {
					if w.below(n, w.toks[i].ns) {
						cands = append(cands, n)
					}
				}
				reqNS := cands[fairIndex(rt, "requestNS", len(cands))]
				sub := w.subtree(i)
				spans := map[int]bool{}
				for _, j := range sub {
					if w.toks[j].alive {
						spans[w.toks[j].ns] = true
					}
				}
				r := w.revoke(kind, i, reqNS)
				w.logf("%s %d (request in %q) -> %v", kind, i, w.nss[reqNS].Path, r)
				if r.ok() {
					if w.toks[i].alive {
						if kind == "revoke-orphan" {
							w.toks[i].alive = false
							for _, tk := range w.toks {
								if tk.parent == i {
									tk.parent = -1
								}
							}
						} else {
							for _, j := range sub {
								w.toks[j].alive = false
							}
							if len(spans) > 1 {
								nontrivial = true
							}
						}
					}
				} else if w.toks[i].alive && reqNS == w.toks[i].ns {
					fail("revoke-failed", fmt.Sprintf("%s of live token %d in its own namespace failed without any fault: %v", kind, i, r))
				}
			},
			"restart": func(rt *rapid.T) {
				if restarts >= 2 {
					rt.Skip("enough restarts")
				}
				restarts++
				w.tc.shutdown()
				n, err := w.tc.restartOn(w.tc.phys)
				if err != nil {
					t.Fatalf("harness: restart failed: %v", err)
				}
				w.tc = n
				w.loadNamespaces()
				w.logf("restart")
			},
			"": func(rt *rapid.T) {
				if sig, msg := w.checkAll(); sig != "" {
					fail(sig+":namespaces", msg)
				}
			},
		})
		rec.Class("cross-namespace-children", int64(crossCreated))
		rec.Class("leases-taken-in-a-namespace-below-the-token's", int64(crossLeases))
		rec.Case(fmt.Sprintf("restarts=%d,cross=%v", restarts, crossCreated > 0), nontrivial, verifx.Digest(w.log), func() any { return map[string]any{"history": w.log, "tree": w.shape()} })
	})
}
