//go:build verif

package vault

import (
	"context"
	"fmt"
	"sort"
	"strings"
	"testing"
	"time"

	"github.com/openbao/openbao/sdk/v2/helper/verifx"
	"github.com/openbao/openbao/sdk/v2/logical"
	"github.com/openbao/openbao/v2/internal/helper/namespace"
	"pgregory.net/rapid"
)

// ---- reference authoriser (documented semantics restricted to exact paths and trailing-'*' globs)

type c02Stanza struct {
	pattern string // relative to the policy's namespace
	caps    []string
}

type c02Policy struct {
	ns      string // "" or "ns1/"
	stanzas []c02Stanza
}

func (p c02Policy) hcl() string {
	var sb strings.Builder
	for _, s := range p.stanzas {
		q := make([]string, len(s.caps))
		for i, c := range s.caps {
			q[i] = `"` + c + `"`
		}
		fmt.Fprintf(&sb, "path %q { capabilities = [%s] }\n", s.pattern, strings.Join(q, ","))
	}
	return sb.String()
}

// c02Decide returns the capability set that applies to the namespace-qualified path for the given
// policies: exact pattern first, else the longest matching prefix glob; stanzas with the winning pattern are
// merged (union; deny wins). For list operations the path has a trailing slash and is matched as is.
func c02Decide(pols []c02Policy, qpath string) map[string]bool {
	type cand struct {
		pat   string
		exact bool
		caps  []string
	}
	var cands []cand
	for _, p := range pols {
		for _, s := range p.stanzas {
			pat := p.ns + s.pattern
			if strings.HasSuffix(pat, "*") {
				if strings.HasPrefix(qpath, strings.TrimSuffix(pat, "*")) {
					cands = append(cands, cand{pat, false, s.caps})
				}
			} else if pat == qpath {
				cands = append(cands, cand{pat, true, s.caps})
			}
		}
	}
	if len(cands) == 0 {
		return nil
	}
	best := cands[0]
	for _, c := range cands[1:] {
		switch {
		case c.exact && !best.exact:
			best = c
		case c.exact == best.exact && len(c.pat) > len(best.pat):
			best = c
		}
	}
	out := map[string]bool{}
	for _, c := range cands {
		if c.pat == best.pat && c.exact == best.exact {
			for _, k := range c.caps {
				out[k] = true
			}
		}
	}
	if out["deny"] {
		return map[string]bool{"deny": true}
	}
	return out
}

// ---- world

type c02Tok struct {
	name     string
	id       string
	acc      string
	ns       string // namespace the token lives in
	policies []string
	alive    bool
	uses     int  // 0 = unlimited; otherwise remaining uses
	cidr     bool // bound to 10.0.0.0/8
	batch    bool
	root     bool
	entity   string // identity entity the token is bound to ("" = none)
	entityOff bool  // that entity is currently disabled
	// identity-derived policies: those attached to the entity and to a group the entity is a member of apply to every
	// request of the token in addition to its own, unless the token was created with no_identity_policies
	identityPols []string
	noIdentity   bool
}

type c02World struct {
	t      *testing.T
	tc     *tcore
	hub    *recHub
	ns1    *namespace.Namespace
	pols   map[string]c02Policy // key: ns + name
	toks   []*c02Tok
	exists map[string]bool // qualified kv path -> exists in the backend
	log    []string
	mounts map[string]string // qualified mount path -> physical storage prefix
}

func (w *c02World) logf(f string, a ...any) { w.log = append(w.log, fmt.Sprintf(f, a...)) }

func (w *c02World) nsCtx(ns string) context.Context {
	if ns == "" {
		return w.tc.ctx
	}
	return namespace.ContextWithNamespace(context.Background(), w.ns1)
}

func newC02World(t *testing.T, transactional bool) *c02World {
	hub := newRecHub()
	tc := mustBoot(t, coreOpts{transactional: transactional, cacheOff: true,
		logical: map[string]logical.Factory{"recbe": hub.factory("recbe", logical.TypeLogical)}})
	hub.physSeq = tc.rec.Seq
	w := &c02World{t: t, tc: tc, hub: hub, pols: map[string]c02Policy{}, exists: map[string]bool{}, mounts: map[string]string{}}
	tc.mount("rb", "recbe", nil)
	tc.mount("rc", "recbe", nil)
	tc.mustOK(tc.req(logical.UpdateOperation, "sys/namespaces/ns1", tc.root, nil), "create namespace")
	ns, err := tc.c.namespaceStore.GetNamespaceByPath(tc.ctx, "ns1/")
	if err != nil || ns == nil {
		t.Fatalf("harness: namespace lookup: %v", err)
	}
	w.ns1 = ns
	r := tc.doCtx(w.nsCtx("ns1/"), &logical.Request{Operation: logical.UpdateOperation, Path: "sys/mounts/rb", ClientToken: tc.root, Data: map[string]any{"type": "recbe"}})
	tc.mustOK(r, "mount in ns1")
	for _, ns := range []string{"", "ns1/"} {
		r := tc.doCtx(w.nsCtx(ns), &logical.Request{Operation: logical.UpdateOperation, Path: "auth/token/roles/cidr", ClientToken: tc.root,
			Data: map[string]any{"token_bound_cidrs": "10.0.0.0/8", "allowed_policies": "p1,p2,p3", "orphan": true, "token_no_default_policy": true}})
		tc.mustOK(r, "token role")
	}
	return w
}

var c02Patterns = []string{"rb/kv/x", "rb/kv/*", "rb/kv/*", "rb/kv/", "rb/*", "rb/*", "rb/echo/e", "rb/root/r", "rb/root/*", "rc/*", "rc/kv/x", "*", "rb/kv/sub/*"}
var c02Caps = []string{"create", "read", "update", "delete", "list", "sudo", "deny"}

func c02GenPolicy(rt *rapid.T, ns string) c02Policy {
	n := rapid.IntRange(1, 3).Draw(rt, "stanzas")
	p := c02Policy{ns: ns}
	seen := map[string]bool{}
	for i := 0; i < n; i++ {
		pat := rapid.SampledFrom(c02Patterns).Draw(rt, "pattern")
		if ns == "" && rapid.IntRange(0, 5).Draw(rt, "intoChild") == 0 {
			pat = "ns1/" + pat
		}
		if seen[pat] {
			continue
		}
		seen[pat] = true
		var caps []string
		for _, c := range c02Caps {
			w := 1
			if c == "deny" {
				w = 11
			}
			if c == "sudo" {
				w = 2
			}
			if rapid.IntRange(0, w).Draw(rt, "cap-"+c) == 0 {
				caps = append(caps, c)
			}
		}
		if len(caps) == 0 {
			caps = []string{"read"}
		}
		p.stanzas = append(p.stanzas, c02Stanza{pattern: pat, caps: caps})
	}
	return p
}

type c02Req struct {
	ns     string // namespace of the request context
	viaPfx bool   // namespace given as path prefix in the root context instead of by context
	op     logical.Operation
	path   string // mount-relative: e.g. rb/kv/x
	mut    string // "", "trailing-slash", "double-slash", "dotdot", "dot"
	tok    int    // index into toks, -1 none, -2 garbage, -3 mutated valid
	remote string
}

var c02Paths = []string{"rb/kv/x", "rb/kv/x", "rb/kv/sub/z", "rb/echo/e", "rb/root/r", "rb/unauth/u", "rc/kv/x"}

func (w *c02World) liveTokenPolicies(tk *c02Tok) []c02Policy {
	var out []c02Policy
	names := append([]string(nil), tk.policies...)
	if tk.entity != "" && !tk.noIdentity {
		names = append(names, tk.identityPols...)
	}
	seen := map[string]bool{}
	for _, n := range names {
		if seen[n] {
			continue
		}
		seen[n] = true
		if p, ok := w.pols[tk.ns+n]; ok {
			out = append(out, p)
		}
	}
	return out
}

func TestVerif_C02_Authz(t *testing.T) {
	rec := verifx.NewRecorder("C02", "authz", "rapid state machine on a real core with recording backends mounted at rb/ and rc/ (root namespace) and rb/ in child namespace ns1: write/delete policies (exact and trailing-glob patterns, capability subsets incl. deny and sudo, root policies reaching into ns1), create tokens (policy subsets, num_uses, bound CIDR, batch, in root or ns1), revoke, and requests (read/update/delete/list; valid, absent, garbage, mutated, revoked, exhausted, wrong-namespace, CIDR-mismatched, batch and root tokens; paths with trailing/doubled slashes and relative segments; namespace by context or by path prefix); oracle: reference authoriser + token model decide allowed/denied; denied => error, no handler invocation, no write under the mount's storage prefix; allowed => exactly one handler invocation with the routed path; non-trivial = a request whose expected outcome differs from the previous one for the same (token,path,op) because of an intervening policy/token change, or a denied request on a routable path")
	defer rec.Flush()
	rapid.Check(t, func(rt *rapid.T) {
		w := newC02World(t, rapid.Bool().Draw(rt, "transactionalStorage"))
		defer func() { w.tc.shutdown() }()
		tc := w.tc
		nontrivial := false
		denyRoutable, stale, allowedN, deniedN := 0, 0, 0, 0
		last := map[string]bool{}
		fail := func(sig, msg string) {
			rec.Violation(rt, sig, map[string]any{"history": w.log}, "%s; history=%v", msg, w.log)
		}
		// a root-namespace root token entry for the model
		w.toks = append(w.toks, &c02Tok{name: "root", id: tc.root, ns: "", alive: true, root: true})
		var request func(rt *rapid.T)
		var lastReq *c02Req
		// initial configuration: two policies and two tokens, so that requests have something to be decided by
		for i, name := range []string{"p1", "p2"} {
			p := c02GenPolicy(rt, "")
			if i == 0 {
				p.stanzas = append([]c02Stanza{{pattern: "rb/*", caps: []string{"create", "read", "update", "delete", "list"}}}, p.stanzas...)
				// de-duplicate the pattern
				for j := 1; j < len(p.stanzas); j++ {
					if p.stanzas[j].pattern == "rb/*" {
						p.stanzas = append(p.stanzas[:j], p.stanzas[j+1:]...)
						j--
					}
				}
			}
			if r := tc.req(logical.UpdateOperation, "sys/policy/"+name, tc.root, map[string]any{"policy": p.hcl()}); !r.ok() {
				t.Fatalf("harness: %v", r)
			}
			w.pols[name] = p
			w.logf("policy %s = %s", name, strings.ReplaceAll(p.hcl(), "\n", " "))
			r := tc.req(logical.UpdateOperation, "auth/token/create", tc.root, map[string]any{"policies": []string{name}, "no_default_policy": true, "ttl": "1h"})
			if !r.ok() || r.resp == nil || r.resp.Auth == nil {
				t.Fatalf("harness: %v", r)
			}
			w.toks = append(w.toks, &c02Tok{name: fmt.Sprintf("t%d", i+1), id: r.resp.Auth.ClientToken, acc: r.resp.Auth.Accessor, policies: []string{name}, alive: true})
			w.logf("token t%d policies=[%s]", i+1, name)
		}
		request = func(rt *rapid.T) {
			q := c02Req{
				ns:   rapid.SampledFrom([]string{"", "", "ns1/"}).Draw(rt, "reqNS"),
				path: rapid.SampledFrom(c02Paths).Draw(rt, "path"),
				op:   rapid.SampledFrom([]logical.Operation{logical.ReadOperation, logical.UpdateOperation, logical.DeleteOperation, logical.ListOperation}).Draw(rt, "op"),
				mut:  rapid.SampledFrom([]string{"", "", "", "", "", "", "", "", "trailing-slash", "double-slash", "dotdot", "dot"}).Draw(rt, "mutation"),
			}
			switch rapid.IntRange(0, 9).Draw(rt, "tokKind") {
			case 0:
				q.tok = -1
			case 1:
				q.tok = -2
			case 2:
				q.tok = -3
			default:
				q.tok = rapid.IntRange(0, len(w.toks)-1).Draw(rt, "tok")
				if q.tok == 0 && len(w.toks) > 1 && rapid.IntRange(0, 3).Draw(rt, "notRoot") > 0 {
					q.tok = rapid.IntRange(1, len(w.toks)-1).Draw(rt, "tok2")
				}
			}
			q.viaPfx = q.ns != "" && rapid.Bool().Draw(rt, "viaPrefix")
			q.remote = rapid.SampledFrom([]string{"10.1.1.1", "10.1.1.1", "10.1.1.1", "192.168.0.9", ""}).Draw(rt, "remote") // "": a connection without a remote address (unix socket listener)
			if q.ns == "ns1/" && strings.HasPrefix(q.path, "rc/") {
				q.path = "rb/kv/x" // rc/ is not mounted in ns1
			}
			lastReq = &q
			w.doRequest(rt, rec, q, last, &nontrivial, &denyRoutable, &stale, &allowedN, &deniedN, fail)
		}
		actions := map[string]func(*rapid.T){
			// grant or deny exactly what the last request asked for, through one of its token's policies, then repeat it:
			// "policy and token changes are honoured by the very next request"
			"toggle-and-repeat": func(rt *rapid.T) {
				if lastReq == nil || lastReq.tok < 1 || lastReq.mut != "" {
					rt.Skip("no suitable last request")
				}
				tk := w.toks[lastReq.tok]
				if !strings.HasPrefix(lastReq.ns, tk.ns) || len(tk.policies) == 0 {
					rt.Skip("token cannot be granted this namespace")
				}
				name := tk.policies[rapid.IntRange(0, len(tk.policies)-1).Draw(rt, "which")]
				path := lastReq.path
				if lastReq.op == logical.ListOperation {
					path = path[:strings.LastIndex(path, "/")+1]
				}
				pat := strings.TrimPrefix(lastReq.ns, tk.ns) + path
				caps := []string{"create", "read", "update", "delete", "list", "sudo"}
				// mostly flip the previous outcome
				prevAllowed := last[fmt.Sprintf("%s|%s|%s|%s", tk.name, lastReq.ns, lastReq.path, lastReq.op)]
				if prevAllowed != (fairIndex(rt, "sameAgain", 8) == 0) {
					caps = []string{"deny"}
				}
				p := w.pols[tk.ns+name]
				p.ns = tk.ns
				found := false
				for i := range p.stanzas {
					if p.stanzas[i].pattern == pat {
						p.stanzas[i].caps = caps
						found = true
					}
				}
				if !found {
					p.stanzas = append(append([]c02Stanza(nil), p.stanzas...), c02Stanza{pattern: pat, caps: caps})
				}
				r := tc.doCtx(w.nsCtx(tk.ns), &logical.Request{Operation: logical.UpdateOperation, Path: "sys/policy/" + name, ClientToken: tc.root, Data: map[string]any{"policy": p.hcl()}})
				if !r.ok() {
					t.Fatalf("harness: policy write failed: %v", r)
				}
				w.pols[tk.ns+name] = p
				w.logf("policy %s%s = %s", tk.ns, name, strings.ReplaceAll(p.hcl(), "\n", " "))
				q := *lastReq
				w.doRequest(rt, rec, q, last, &nontrivial, &denyRoutable, &stale, &allowedN, &deniedN, fail)
			},
			// a policy write whose storage write fails: the API reports an error and the previous policy must stay in force
			"policy-write-fault": func(rt *rapid.T) {
				name := []string{"p1", "p2", "p3"}[fairIndex(rt, "name", 3)]
				p := c02GenPolicy(rt, "")
				if fairIndex(rt, "broad", 2) == 0 {
					p.stanzas = []c02Stanza{{pattern: "*", caps: []string{"create", "read", "update", "delete", "list", "sudo"}}}
				}
				g := verifx.GoID()
				f, fired := verifx.FailNth(func(o *verifx.Op) bool {
					return o.G == g && (o.Kind == "put" || o.Kind == "commit") && (strings.Contains(o.Key, "sys/policy/") || o.Kind == "commit")
				}, 1)
				tc.rec.SetFault(f)
				r := tc.req(logical.UpdateOperation, "sys/policy/"+name, tc.root, map[string]any{"policy": p.hcl()})
				tc.rec.SetFault(nil)
				if r.ok() {
					if fired() != nil {
						fail("policy-write-reported-success-despite-fault", fmt.Sprintf("policy write of %s reported success although its storage write failed", name))
					}
					w.pols[name] = p
					w.logf("policy %s = %s (no fault hit)", name, strings.ReplaceAll(p.hcl(), "\n", " "))
				} else {
					w.logf("policy %s write FAILED by storage fault (%v): previous version stays; rejected text: %s", name, r, strings.ReplaceAll(p.hcl(), "\n", " "))
					nontrivial = true
				}
			},
			"policy": func(rt *rapid.T) {
				ns := rapid.SampledFrom([]string{"", "", "ns1/"}).Draw(rt, "ns")
				name := rapid.SampledFrom([]string{"p2", "p3", "p2", "p1"}).Draw(rt, "name")
				p := c02GenPolicy(rt, ns)
				r := tc.doCtx(w.nsCtx(ns), &logical.Request{Operation: logical.UpdateOperation, Path: "sys/policy/" + name, ClientToken: tc.root, Data: map[string]any{"policy": p.hcl()}})
				if !r.ok() {
					t.Fatalf("harness: policy write failed: %v\n%s", r, p.hcl())
				}
				w.pols[ns+name] = p
				w.logf("policy %s%s = %s", ns, name, strings.ReplaceAll(p.hcl(), "\n", " "))
			},
			"policy-delete": func(rt *rapid.T) {
				ns := rapid.SampledFrom([]string{"", "ns1/"}).Draw(rt, "ns")
				name := rapid.SampledFrom([]string{"p3", "p2", "p1"}).Draw(rt, "name")
				r := tc.doCtx(w.nsCtx(ns), &logical.Request{Operation: logical.DeleteOperation, Path: "sys/policy/" + name, ClientToken: tc.root})
				if !r.ok() {
					t.Fatalf("harness: policy delete failed: %v", r)
				}
				delete(w.pols, ns+name)
				w.logf("policy-delete %s%s", ns, name)
			},
			"token": func(rt *rapid.T) {
				if len(w.toks) >= 7 {
					rt.Skip("enough tokens")
				}
				ns := rapid.SampledFrom([]string{"", "", "ns1/"}).Draw(rt, "ns")
				var pols []string
				for _, n := range []string{"p1", "p2", "p3"} {
					if rapid.Bool().Draw(rt, "has-"+n) {
						pols = append(pols, n)
					}
				}
				if len(pols) == 0 {
					pols = []string{"p1"}
				}
				tk := &c02Tok{name: fmt.Sprintf("t%d", len(w.toks)), ns: ns, policies: pols, alive: true}
				data := map[string]any{"policies": pols, "no_default_policy": true, "ttl": "1h"}
				switch rapid.IntRange(0, 5).Draw(rt, "flavour") {
				case 0:
					tk.uses = rapid.IntRange(1, 3).Draw(rt, "uses")
					data["num_uses"] = tk.uses
				case 1:
					tk.cidr = true
					data["bound_cidrs"] = []string{"10.0.0.0/8"}
				case 2:
					tk.batch = true
					data["type"] = "batch"
				}
				createPath := "auth/token/create"
				if tk.cidr {
					createPath = "auth/token/create/cidr"
					delete(data, "bound_cidrs")
				}
				r := tc.doCtx(w.nsCtx(ns), &logical.Request{Operation: logical.UpdateOperation, Path: createPath, ClientToken: tc.root, Data: data, Connection: &logical.Connection{RemoteAddr: "10.1.1.1"}})
				if !r.ok() || r.resp == nil || r.resp.Auth == nil {
					t.Fatalf("harness: token create failed: %v", r)
				}
				tk.id, tk.acc = r.resp.Auth.ClientToken, r.resp.Auth.Accessor
				w.toks = append(w.toks, tk)
				w.logf("token %s ns=%q policies=%v uses=%d cidr=%v batch=%v", tk.name, ns, pols, tk.uses, tk.cidr, tk.batch)
			},
			// a token bound to an identity entity; the entity can be disabled and enabled again
			"entity-token": func(rt *rapid.T) {
				if len(w.toks) >= 7 {
					return
				}
				var entPols, grpPols []string
				if rapid.Bool().Draw(rt, "entityHasPolicy") {
					entPols = []string{[]string{"p1", "p2", "p3"}[rapid.IntRange(0, 2).Draw(rt, "entityPolicy")]}
				}
				if rapid.Bool().Draw(rt, "entityInGroupWithPolicy") {
					grpPols = []string{[]string{"p1", "p2", "p3"}[rapid.IntRange(0, 2).Draw(rt, "groupPolicy")]}
				}
				noIdentity := rapid.IntRange(0, 2).Draw(rt, "noIdentityPolicies") == 0
				er, err := tc.c.identityStore.HandleRequest(tc.ctx, &logical.Request{Operation: logical.UpdateOperation, Path: "entity",
					Data: map[string]any{"name": fmt.Sprintf("ent%d", len(w.toks)), "policies": entPols}})
				if err != nil || er == nil || er.IsError() {
					t.Fatalf("harness: entity: %v %v", er, err)
				}
				id, _ := er.Data["id"].(string)
				if len(grpPols) > 0 {
					gr, err := tc.c.identityStore.HandleRequest(tc.ctx, &logical.Request{Operation: logical.UpdateOperation, Path: "group",
						Data: map[string]any{"name": fmt.Sprintf("grp%d", len(w.toks)), "policies": grpPols, "member_entity_ids": []string{id}}})
					if err != nil || gr == nil || gr.IsError() {
						t.Fatalf("harness: group: %v %v", gr, err)
					}
				}
				pol := []string{"p1", "p2"}[fairIndex(rt, "pol", 2)]
				// no_identity_policies is what the OIDC provider's token endpoint sets on the access tokens it hands to relying parties
				te := &logical.TokenEntry{Path: "test", Policies: []string{pol}, EntityID: id, TTL: time.Hour, NoIdentityPolicies: noIdentity}
				testMakeTokenDirectly(t, tc.ctx, tc.c.tokenStore, te)
				w.toks = append(w.toks, &c02Tok{name: fmt.Sprintf("t%d", len(w.toks)), id: te.ID, acc: te.Accessor, policies: []string{pol}, alive: true, entity: id,
					identityPols: append(entPols, grpPols...), noIdentity: noIdentity})
				w.logf("token t%d policies=[%s] bound to entity (entity policies %v, group policies %v, no_identity_policies=%v)", len(w.toks)-1, pol, entPols, grpPols, noIdentity)
			},
			"entity-toggle": func(rt *rapid.T) {
				var c []*c02Tok
				for _, tk := range w.toks {
					if tk.entity != "" {
						c = append(c, tk)
					}
				}
				if len(c) == 0 {
					return
				}
				tk := c[fairIndex(rt, "which", len(c))]
				tk.entityOff = !tk.entityOff
				r, err := tc.c.identityStore.HandleRequest(tc.ctx, &logical.Request{Operation: logical.UpdateOperation, Path: "entity/id/" + tk.entity,
					Data: map[string]any{"disabled": tk.entityOff}})
				if err != nil || (r != nil && r.IsError()) {
					t.Fatalf("harness: entity update: %v %v", r, err)
				}
				w.logf("entity of %s disabled=%v", tk.name, tk.entityOff)
			},
			// let a token's lifetime run out: its lease is moved into the past (instead of waiting for the clock)
			"expire": func(rt *rapid.T) {
				var c []*c02Tok
				for _, tk := range w.toks[1:] {
					if tk.alive && !tk.batch && tk.ns == "" {
						c = append(c, tk)
					}
				}
				if len(c) == 0 {
					return
				}
				tk := c[fairIndex(rt, "which", len(c))]
				te, err := tc.c.tokenStore.Lookup(tc.ctx, tk.id)
				if err != nil || te == nil {
					return
				}
				le, err := tc.c.expiration.FetchLeaseTimesByToken(tc.ctx, te)
				if err != nil || le == nil {
					return
				}
				full, err := tc.c.expiration.loadEntry(tc.ctx, le.LeaseID)
				if err != nil || full == nil {
					return
				}
				full.ExpireTime = time.Now().Add(-2 * time.Second)
				if err := tc.c.expiration.persistEntry(tc.ctx, full); err != nil {
					t.Fatalf("harness: persist lease: %v", err)
				}
				// deliberately NOT told to the expiration manager's timers: the request path itself must notice the expiry
				tk.alive = false
				w.logf("expire %s (lease moved into the past)", tk.name)
			},
			"revoke": func(rt *rapid.T) {
				if len(w.toks) < 2 {
					rt.Skip("no token")
				}
				i := rapid.IntRange(1, len(w.toks)-1).Draw(rt, "tok")
				tk := w.toks[i]
				if tk.batch {
					return // batch tokens cannot be revoked
				}
				r := tc.doCtx(w.nsCtx(tk.ns), &logical.Request{Operation: logical.UpdateOperation, Path: "auth/token/revoke", ClientToken: tc.root, Data: map[string]any{"token": tk.id}})
				if !r.ok() {
					fail("revoke-failed", fmt.Sprintf("revoke of %s failed: %v", tk.name, r))
				}
				tk.alive = false
				w.logf("revoke %s", tk.name)
			},
			"request":  func(rt *rapid.T) { request(rt) },
			"request2": func(rt *rapid.T) { request(rt) },
			"request3": func(rt *rapid.T) { request(rt) },
			"request4": func(rt *rapid.T) { request(rt) },
		}
		// rapid favours small draw values, so the slot table starts with the actions that should dominate
		restarts := 0
		actions["restart"] = func(rt *rapid.T) {
			// policies, tokens, entities and mounts are durable: after a restart every decision is what it was
			if restarts >= 1 {
				request(rt)
				return
			}
			restarts++
			w.tc.shutdown()
			ntc, err := w.tc.restartOn(w.tc.phys)
			if err != nil {
				fail("restart-failed", fmt.Sprintf("core does not restart: %v", err))
				return
			}
			w.tc, tc = ntc, ntc
			w.logf("restart")
		}
		slots := []string{"request", "request", "request", "toggle-and-repeat", "request", "request", "token", "toggle-and-repeat", "policy", "request", "request", "revoke", "policy-delete", "token", "policy", "policy-write-fault", "entity-token", "entity-toggle", "request", "expire", "entity-toggle", "restart"}
		rt.Repeat(map[string]func(*rapid.T){
			"step": func(rt *rapid.T) {
				a := slots[fairIndex(rt, "action", len(slots))]
				if a == "toggle-and-repeat" && (lastReq == nil || lastReq.tok < 1 || lastReq.mut != "" || !strings.HasPrefix(lastReq.ns, w.toks[lastReq.tok].ns) || !w.toks[lastReq.tok].alive || w.toks[lastReq.tok].uses > 0) {
					a = "request"
				}
				if a == "token" && len(w.toks) >= 7 || a == "revoke" && len(w.toks) < 2 {
					a = "request"
				}
				actions[a](rt)
			},
		})
		rec.Case(fmt.Sprintf("stale=%v", stale > 0), nontrivial, verifx.Digest(w.log), func() any { return map[string]any{"history": w.log} })
		rec.Class("requests-allowed", int64(allowedN))
		rec.Class("requests-denied", int64(deniedN))
		rec.Class("requests-denied-routable", int64(denyRoutable))
		rec.Class("requests-outcome-changed-by-mutation", int64(stale))
	})
}

func (w *c02World) doRequest(rt *rapid.T, rec *verifx.Recorder, q c02Req, last map[string]bool, nontrivial *bool, denyRoutable, stale, allowedN, deniedN *int, fail func(sig, msg string)) {
	tc := w.tc
	path := q.path
	op := q.op
	if op == logical.ListOperation {
		// list a directory of the backend
		path = path[:strings.LastIndex(path, "/")+1]
	}
	sent := path
	relative := false
	switch q.mut {
	case "trailing-slash":
		if !strings.HasSuffix(sent, "/") {
			sent += "/"
		}
	case "double-slash":
		sent = strings.Replace(sent, "/", "//", 1)
	case "dotdot":
		i := strings.LastIndex(strings.TrimSuffix(sent, "/"), "/")
		sent = sent[:i] + "/../" + sent[strings.Index(sent, "/")+1:]
		relative = true
	case "dot":
		sent = strings.Replace(sent, "/", "/./", 1)
		relative = true
	}
	// token
	tokStr, tokDesc := "", "none"
	var tk *c02Tok
	switch {
	case q.tok == -1:
	case q.tok == -2:
		tokStr, tokDesc = "hvs.garbagegarbagegarbagegarbage", "garbage"
	case q.tok == -3:
		src := w.toks[len(w.toks)-1]
		b := []byte(src.id)
		// change one character of the authenticated body (not of a trailing ".<namespace id>" suffix, which is a
		// routing hint and not part of what authenticates the token)
		body := len(b)
		if j := strings.LastIndex(src.id, "."); j > 8 {
			body = j
		}
		i := 4 + (body-4)/2
		if b[i] == 'A' {
			b[i] = 'B'
		} else {
			b[i] = 'A'
		}
		tokStr, tokDesc = string(b), "mutated("+src.name+")"
	default:
		tk = w.toks[q.tok]
		tokStr, tokDesc = tk.id, tk.name
	}
	ctx := w.nsCtx(q.ns)
	reqPath := sent
	if q.viaPfx {
		ctx = tc.ctx
		reqPath = q.ns + sent
	}
	qualified := q.ns + path // what the policy is evaluated against (canonical form)
	mountQ := q.ns + path[:strings.Index(path, "/")+1]

	// ---- expected outcome
	isUnauth := strings.Contains(path, "/unauth/")
	needSudo := strings.Contains(path, "/root/")
	effOp := op
	kvKey := ""
	if strings.Contains(path, "/kv/") && op != logical.ListOperation {
		kvKey = q.ns + path
		if q.mut == "trailing-slash" {
			kvKey = "" // a different backend key; existence unknown to the model
		}
	}
	if op == logical.UpdateOperation && kvKey != "" && !w.exists[kvKey] {
		effOp = logical.CreateOperation
	}
	capNeeded := map[logical.Operation]string{logical.ReadOperation: "read", logical.UpdateOperation: "update", logical.CreateOperation: "create", logical.DeleteOperation: "delete", logical.ListOperation: "list"}[effOp]
	expect := "denied"
	switch {
	case relative:
		expect = "denied"
	case q.mut == "double-slash" || q.mut == "trailing-slash":
		expect = "unasserted" // canonicalisation of these forms is not part of the statement; only "no effect without authorisation" is checked below
	case isUnauth && tk == nil && q.tok == -1:
		expect = "allowed"
	case isUnauth:
		expect = "unasserted"
	case tk == nil:
		expect = "denied"
	default:
		live := tk.alive && (tk.uses == 0 || tk.uses > 0)
		defer func() { rec.Class("valid-token-request:"+expect, 1) }()
		if tk.cidr && q.remote != "10.1.1.1" {
			live = false
		}
		if tk.entity != "" && tk.entityOff {
			live = false
		}
		switch {
		case !live:
			expect = "denied"
			rec.Class("denied:dead-or-cidr", 1)
		case tk.root:
			if q.ns == "" || true {
				expect = "allowed" // the root token of the root namespace is allowed everywhere
			}
		default:
			// the token's namespace must be the request namespace or an ancestor
			if !strings.HasPrefix(q.ns, tk.ns) {
				expect = "denied"
				rec.Class("denied:foreign-namespace", 1)
				break
			}
			caps := c02Decide(w.liveTokenPolicies(tk), qualified)
			if caps[capNeeded] && !caps["deny"] && (!needSudo || caps["sudo"]) {
				expect = "allowed"
			} else {
				rec.Class("denied:policy", 1)
			}
		}
	}
	// a use-limited token spends a use on every request that presents it while it is live; whether requests that
	// are refused before the policy check (relative path, foreign namespace, non-canonical path) spend one is not
	// part of this property, so the token is retired after such a request
	killAfter := false
	if tk != nil && tk.alive && tk.uses > 0 {
		if relative || q.mut != "" || !strings.HasPrefix(q.ns, tk.ns) || isUnauth {
			killAfter = true
		} else {
			tk.uses--
			if tk.uses == 0 {
				tk.alive = false
			}
		}
	}
	defer func() {
		if killAfter {
			tk.alive = false
			rec.Class("uselimited-token-retired", 1)
			if r := tc.doCtx(w.nsCtx(tk.ns), &logical.Request{Operation: logical.UpdateOperation, Path: "auth/token/revoke", ClientToken: tc.root, Data: map[string]any{"token": tk.id}}); !r.ok() {
				w.t.Fatalf("harness: %v", r)
			}
		}
	}()

	// ---- perform
	callsBefore := len(w.hub.handlerCalls())
	seq0 := tc.rec.Seq()
	g := verifx.GoID()
	data := map[string]any(nil)
	if op == logical.UpdateOperation {
		data = map[string]any{"v": len(w.log)}
	}
	res := tc.doCtx(ctx, &logical.Request{Operation: op, Path: reqPath, ClientToken: tokStr, Data: data, Connection: &logical.Connection{RemoteAddr: q.remote}})
	calls := w.hub.handlerCalls()[callsBefore:]
	var mountWrites []string
	for _, o := range tc.rec.OpsSince(seq0) {
		if o.G == g && (o.Kind == "put" || o.Kind == "delete") && strings.HasPrefix(o.Key, "logical/") || o.G == g && (o.Kind == "put" || o.Kind == "delete") && strings.Contains(o.Key, "/logical/") {
			mountWrites = append(mountWrites, o.Kind+" "+o.Key)
		}
	}
	desc := fmt.Sprintf("req ns=%q prefix=%v %s %q (canonical %s) token=%s remote=%s expect=%s -> %v calls=%d", q.ns, q.viaPfx, op, reqPath, qualified, tokDesc, q.remote, expect, res, len(calls))
	w.logf("%s", desc)
	if res.err != nil && strings.Contains(res.err.Error(), "PANIC") {
		fail("panic", desc)
	}
	key := fmt.Sprintf("%s|%s|%s|%s", tokDesc, q.ns, path, op)
	switch expect {
	case "denied":
		*deniedN++
		routable := !relative
		if routable {
			*denyRoutable++
			*nontrivial = true
		}
		if res.ok() {
			fail("denied-request-succeeded", "a request that must be refused returned success: "+desc)
		}
		if len(calls) > 0 {
			fail("denied-request-reached-backend", fmt.Sprintf("a request that must be refused invoked the backend handler (%s %s): %s", calls[0].Op, calls[0].Path, desc))
		}
		if len(mountWrites) > 0 {
			fail("denied-request-wrote-storage", fmt.Sprintf("a request that must be refused changed backend storage %v: %s", mountWrites, desc))
		}
		if prev, ok := last[key]; ok && prev {
			*stale++
			*nontrivial = true
		}
		last[key] = false
	case "allowed":
		*allowedN++
		if len(calls) != 1 {
			fail("allowed-request-not-routed", fmt.Sprintf("an authorised request led to %d handler invocations (want exactly 1): %s", len(calls), desc))
		} else {
			wantPath := strings.TrimPrefix(path, path[:strings.Index(path, "/")+1])
			if calls[0].Path != wantPath || calls[0].Op != effOp {
				fail("allowed-request-routed-wrongly", fmt.Sprintf("handler saw %s %q, want %s %q: %s", calls[0].Op, calls[0].Path, effOp, wantPath, desc))
			}
		}
		if res.err != nil {
			fail("allowed-request-failed", "an authorised request failed: "+desc)
		}
		if prev, ok := last[key]; ok && !prev {
			*stale++
			*nontrivial = true
		}
		last[key] = true
		if kvKey != "" {
			switch effOp {
			case logical.CreateOperation, logical.UpdateOperation:
				w.exists[kvKey] = true
			case logical.DeleteOperation:
				delete(w.exists, kvKey)
			}
		}
	default:
		// unasserted canonicalisation: only safety. Without a live token (and outside unauthenticated paths) nothing may happen.
		if (tk == nil || !tk.alive) && !isUnauth {
			if len(calls) > 0 || len(mountWrites) > 0 {
				fail("unauthenticated-request-had-effect", "a request without a live token reached the backend: "+desc)
			}
		}
		// the backend key touched is unknown to the model: resynchronise the existence map conservatively
		for k := range w.exists {
			if strings.HasPrefix(k, mountQ) {
				delete(w.exists, k)
			}
		}
		w.resyncExists()
	}
}

// resyncExists rebuilds the model's view of which kv keys exist by asking the backends with the root token.
func (w *c02World) resyncExists() {
	for _, ns := range []string{"", "ns1/"} {
		for _, p := range c02Paths {
			if !strings.Contains(p, "/kv/") || ns == "ns1/" && strings.HasPrefix(p, "rc/") {
				continue
			}
			r := w.tc.doCtx(w.nsCtx(ns), &logical.Request{Operation: logical.ReadOperation, Path: p, ClientToken: w.tc.root})
			if r.ok() && r.resp != nil {
				w.exists[ns+p] = true
			} else {
				delete(w.exists, ns+p)
			}
		}
	}
}

var _ = sort.Strings
