//go:build verif

package vault

import (
	"fmt"
	"sort"
	"strings"
	"testing"
	"time"

	"github.com/openbao/openbao/sdk/v2/helper/verifx"
	"github.com/openbao/openbao/sdk/v2/logical"
	"pgregory.net/rapid"
)

// policies that exist on the test core
const (
	c07Creator = `path "auth/token/*" { capabilities = ["update"] }`
	c07Sudoer  = `path "auth/token/*" { capabilities = ["update", "sudo"] }`
	c07Plain   = `path "rb/*" { capabilities = ["read"] }`
)

var c07Universe = []string{"creator", "sudoer", "pa", "pb", "pc", "default", "root"}

type c07Env struct {
	tc  *tcore
	hub *recHub
	n   int
}

const c07MountMax = 4 * time.Hour

func newC07Env(t *testing.T) *c07Env {
	hub := newRecHub()
	tc := mustBoot(t, coreOpts{transactional: true,
		credential: map[string]logical.Factory{"recauth": hub.factory("recauth", logical.TypeCredential)}})
	tc.writePolicy("creator", c07Creator)
	tc.writePolicy("sudoer", c07Sudoer)
	for _, p := range []string{"pa", "pb", "pc"} {
		tc.writePolicy(p, c07Plain)
	}
	tc.enableAuth("ra", "recauth")
	tc.mustOK(tc.req(logical.UpdateOperation, "sys/auth/token/tune", tc.root, map[string]any{"max_lease_ttl": "4h", "default_lease_ttl": "1h"}), "tune token mount")
	tc.mustOK(tc.req(logical.UpdateOperation, "sys/auth/ra/tune", tc.root, map[string]any{"max_lease_ttl": "4h", "default_lease_ttl": "1h"}), "tune ra mount")
	// an entity holding a policy no generated parent has, reachable through the alias "alias-admin" on the token mount
	tc.writePolicy("entsecret", c07Plain)
	am := tc.mustOK(tc.req(logical.ReadOperation, "sys/auth", tc.root, nil), "read auth mounts")
	acc := ""
	if tm, ok := am.Data["token/"].(map[string]any); ok {
		acc, _ = tm["accessor"].(string)
	}
	if acc == "" {
		t.Fatalf("harness: token mount accessor not found in %v", am.Data)
	}
	er := tc.mustOK(tc.req(logical.UpdateOperation, "identity/entity", tc.root, map[string]any{"name": "admin-ent", "policies": []string{"entsecret"}}), "entity")
	eid, _ := er.Data["id"].(string)
	tc.mustOK(tc.req(logical.UpdateOperation, "identity/entity-alias", tc.root, map[string]any{"name": "alias-admin", "canonical_id": eid, "mount_accessor": acc}), "entity alias")
	return &c07Env{tc: tc, hub: hub}
}

func subset(rt *rapid.T, label string, from []string, pOneIn int) []string {
	var out []string
	for _, s := range from {
		if fairIndex(rt, label+"-"+s, pOneIn) == 0 {
			out = append(out, s)
		}
	}
	return out
}

func has(l []string, s string) bool {
	for _, x := range l {
		if x == s {
			return true
		}
	}
	return false
}

func toStrings(v any) []string {
	switch t := v.(type) {
	case []string:
		return t
	case []any:
		out := make([]string, 0, len(t))
		for _, x := range t {
			out = append(out, fmt.Sprint(x))
		}
		return out
	}
	return nil
}

func globMatch(globs []string, s string) bool {
	for _, g := range globs {
		if strings.HasSuffix(g, "*") && strings.HasPrefix(s, strings.TrimSuffix(g, "*")) || g == s {
			return true
		}
	}
	return false
}

func TestVerif_C07_TokenCreate(t *testing.T) {
	rec := verifx.NewRecorder("C07", "token-create", "a parent token (policy subset of {creator, sudoer, pa, pb, pc, default, root}, TTL, num_uses, service/batch) issues a creation request on create / create-orphan / create/<role> with generated parameters (policies, no_parent, no_default_policy, period, explicit_max_ttl, ttl, num_uses, id, type, entity_alias) and, for roles, generated role configuration (allowed/disallowed policies and globs, allowed entity aliases, orphan, period, explicit max, token type); the outcome is read from the response and from a lookup of the stored token; invariants: non-sudo without role => policies within the parent's (default only if the parent has it and it was not declined), never orphan, periodic or caller-chosen id; root only from a root parent; use-limited and batch parents create nothing; create-orphan => orphan but otherwise the same; role => policies within allowed/glob (plus default per the role rule), none disallowed, orphan/period/type as the role says; a token is bound to an identity entity only when an entity_alias was requested through a role whose allowed_entity_aliases names it; every token except a non-expiring root made by a non-expiring root has 0 < ttl <= min(explicit max, mount max); a refused request creates no token; non-trivial = the request asked for something it is not entitled to")
	defer rec.Flush()
	var env *c07Env
	defer func() {
		if env != nil {
			env.tc.shutdown()
		}
	}()
	rapid.Check(t, func(rt *rapid.T) {
		if env == nil || env.n >= 200 {
			if env != nil {
				env.tc.shutdown()
			}
			env = newC07Env(t)
		}
		env.n++
		tc := env.tc
		// ---- parent
		ppol := subset(rt, "parentPolicy", c07Universe, 3)
		if len(ppol) == 0 {
			ppol = []string{"creator"}
		}
		parentRootNoExpiry := false
		pdata := map[string]any{"policies": ppol, "no_default_policy": true}
		switch fairIndex(rt, "parentFlavour", 8) {
		case 0:
			pdata["num_uses"] = []int{3, 1, 2}[fairIndex(rt, "parentUses", 3)] // 1: the creation request is the parent's final use
		case 1:
			pdata["type"] = "batch"
		}
		if has(ppol, "root") && fairIndex(rt, "parentNoTTL", 2) == 0 && pdata["type"] == nil {
			parentRootNoExpiry = true // root policy and no ttl: non-expiring root
			ppol = []string{"root"}
			pdata["policies"] = ppol
		} else {
			pdata["ttl"] = []string{"30m", "2h", "3h"}[fairIndex(rt, "parentTTL", 3)]
		}
		if has(ppol, "root") && pdata["type"] == "batch" {
			delete(pdata, "type")
		}
		pr := tc.req(logical.UpdateOperation, "auth/token/create", tc.root, pdata)
		if !pr.ok() || pr.resp == nil || pr.resp.Auth == nil {
			t.Fatalf("harness: parent creation failed: %v %v", pr, pdata)
		}
		parent := pr.resp.Auth.ClientToken
		parentPolicies := pr.resp.Auth.Policies
		parentLimited := pdata["num_uses"] != nil
		parentBatch := pdata["type"] == "batch"
		isRoot := has(parentPolicies, "root")
		isSudo := isRoot || has(parentPolicies, "sudoer")
		canCall := isSudo || has(parentPolicies, "creator")

		// ---- request
		endpoint := []string{"create", "create", "create-orphan", "role"}[fairIndex(rt, "endpoint", 4)]
		reqPol := subset(rt, "reqPolicy", c07Universe, 3)
		data := map[string]any{}
		if len(reqPol) > 0 {
			data["policies"] = reqPol
		}
		asked := map[string]bool{}
		if fairIndex(rt, "noParent", 4) == 0 {
			data["no_parent"] = true
			asked["no_parent"] = true
		}
		noDefault := fairIndex(rt, "noDefault", 3) == 0
		if noDefault {
			data["no_default_policy"] = true
		}
		if fairIndex(rt, "period", 4) == 0 {
			data["period"] = "20m"
			asked["period"] = true
		}
		var explicitMax time.Duration
		if fairIndex(rt, "explicitMax", 3) == 0 {
			explicitMax = []time.Duration{10 * time.Minute, 90 * time.Minute, 10 * time.Hour}[fairIndex(rt, "explicitMaxVal", 3)]
			data["explicit_max_ttl"] = explicitMax.String()
		}
		if fairIndex(rt, "ttl", 2) == 0 {
			data["ttl"] = []string{"5m", "2h", "100h"}[fairIndex(rt, "ttlVal", 3)]
		}
		if fairIndex(rt, "numUses", 5) == 0 {
			data["num_uses"] = 2
		}
		if fairIndex(rt, "id", 5) == 0 {
			data["id"] = fmt.Sprintf("custom-id-%d-%d", env.n, fairIndex(rt, "idn", 1000))
			asked["id"] = true
		}
		if fairIndex(rt, "type", 4) == 0 {
			data["type"] = []string{"service", "batch"}[fairIndex(rt, "typeVal", 2)]
		}
		entityAlias := ""
		if fairIndex(rt, "entityAlias", 4) == 0 {
			entityAlias = []string{"alias-admin", "alias-admin", "Alias-Admin", "alias-other"}[fairIndex(rt, "entityAliasVal", 4)]
			data["entity_alias"] = entityAlias
			asked["entity_alias"] = true
		}
		// ---- role
		type roleCfg struct {
			allowed, disallowed, allowedGlob []string
			aliases                          []string // allowed_entity_aliases
			orphan                           bool
			period, explicitMax              time.Duration
			tokenType                        string
			noDefault                        bool
		}
		var role *roleCfg
		path := "auth/token/" + endpoint
		if endpoint == "role" {
			role = &roleCfg{}
			role.allowed = subset(rt, "roleAllowed", c07Universe, 3)
			role.disallowed = subset(rt, "roleDisallowed", []string{"pa", "pb", "default", "root"}, 5)
			if fairIndex(rt, "roleGlob", 4) == 0 {
				role.allowedGlob = []string{"p*"}
			}
			// a role bounded by patterns alone, used half of the time by a request that names no policies at all
			globOnly := fairIndex(rt, "roleGlobOnly", 5) == 0
			if globOnly {
				role.allowed, role.allowedGlob = nil, []string{"p*"}
				if rapid.Bool().Draw(rt, "globOnlyRequestNamesNoPolicies") {
					reqPol = nil
					delete(data, "policies")
				}
			}
			role.orphan = fairIndex(rt, "roleOrphan", 2) == 0
			if fairIndex(rt, "rolePeriod", 4) == 0 {
				role.period = 15 * time.Minute
			}
			if fairIndex(rt, "roleExplicitMax", 4) == 0 {
				role.explicitMax = 45 * time.Minute
			}
			role.tokenType = []string{"default-service", "service", "batch", "default-batch"}[fairIndex(rt, "roleType", 4)]
			role.noDefault = fairIndex(rt, "roleNoDefault", 4) == 0
			role.aliases = [][]string{nil, nil, {"alias-admin"}, {"alias-*"}, {"someone-else"}}[fairIndex(rt, "roleAliases", 5)]
			rdata := map[string]any{
				"allowed_entity_aliases": strings.Join(role.aliases, ","),
				"allowed_policies": strings.Join(role.allowed, ","), "disallowed_policies": strings.Join(role.disallowed, ","),
				"allowed_policies_glob": strings.Join(role.allowedGlob, ","), "orphan": role.orphan,
				"token_period": int(role.period.Seconds()), "token_explicit_max_ttl": int(role.explicitMax.Seconds()),
				"token_type": role.tokenType, "token_no_default_policy": role.noDefault, "renewable": true,
			}
			// mostly ask for what the role offers, so that role-based creation also succeeds often
			if fairIndex(rt, "roleLegit", 4) > 0 {
				delete(data, "id")
				delete(data, "no_parent")
				delete(asked, "id")
				delete(asked, "no_parent")
				if role.tokenType == "service" || role.tokenType == "default-service" {
					delete(data, "type")
				}
				if len(role.allowed) > 0 {
					reqPol = subset(rt, "roleReqPolicy", role.allowed, 2)
					var keep []string
					for _, p := range reqPol {
						if !has(role.disallowed, p) && p != "root" {
							keep = append(keep, p)
						}
					}
					reqPol = keep
					if len(reqPol) > 0 {
						data["policies"] = reqPol
					} else {
						delete(data, "policies")
					}
				}
			}
			rr0 := tc.req(logical.UpdateOperation, "auth/token/roles/r", tc.root, rdata)
			if !rr0.ok() {
				// invalid role configurations are refused: nothing to test
				rec.Case("role-config-refused", false, verifx.Digest("rcr", rdata), nil)
				return
			}
			path = "auth/token/create/r"
		}
		accBefore := c07Accessors(tc)
		res := tc.req(logical.UpdateOperation, path, parent, data)
		created := res.ok() && res.resp != nil && res.resp.Auth != nil && res.resp.Auth.ClientToken != ""
		detail := map[string]any{"parent_policies": parentPolicies, "parent_use_limited": parentLimited, "parent_batch": parentBatch, "parent_non_expiring_root": parentRootNoExpiry,
			"endpoint": endpoint, "request": fmt.Sprint(data), "role": fmt.Sprintf("%+v", role), "result": res.String()}
		violate := func(sig, f string, a ...any) {
			rec.Violation(rt, sig, detail, f+" | %v", append(a, detail)...)
		}
		aliasAllowed := role != nil && (has(role.aliases, strings.ToLower(entityAlias)) || globMatch(role.aliases, strings.ToLower(entityAlias)))
		entitledBreach := entityAlias != "" && !aliasAllowed || asked["no_parent"] && !isSudo || asked["id"] && !isSudo || asked["period"] && !isSudo && role == nil ||
			has(reqPol, "root") && !isRoot || (!isSudo && role == nil && !subsetOf(reqPol, parentPolicies)) || parentLimited || parentBatch
		cls := endpoint + ":" + map[bool]string{true: "created", false: "refused"}[created]
		rec.Case(cls, entitledBreach, verifx.Digest(parentPolicies, endpoint, fmt.Sprint(data), fmt.Sprint(role), parentLimited, parentBatch), func() any { return detail })
		if !created {
			// a refused request creates no token
			for a := range c07Accessors(tc) {
				if !accBefore[a] {
					violate("refused-request-created-token", "the request was refused but a new token accessor %s exists", a)
				}
			}
			return
		}
		auth := res.resp.Auth
		if !canCall {
			violate("created-without-capability", "a parent without any capability on %s created a token", path)
		}
		if parentLimited {
			violate("use-limited-parent-created-token", "a use-limited token created a child token")
		}
		if parentBatch {
			violate("batch-parent-created-token", "a batch token created a child token")
		}
		// stored truth
		lk := tc.req(logical.UpdateOperation, "auth/token/lookup", tc.root, map[string]any{"token": auth.ClientToken})
		if !lk.ok() || lk.resp == nil {
			violate("created-token-not-found", "the created token cannot be looked up: %v", lk)
			return
		}
		ld := lk.resp.Data
		pols := toStrings(ld["policies"])
		sort.Strings(pols)
		orphan, _ := ld["orphan"].(bool)
		ttlN, _ := ld["ttl"].(int64)
		creationTTL, _ := ld["creation_ttl"].(int64)
		periodV := fmt.Sprint(ld["period"])
		typ, _ := ld["type"].(string)
		id, _ := ld["id"].(string)
		detail["stored"] = fmt.Sprintf("policies=%v orphan=%v ttl=%d creation_ttl=%d period=%v type=%s explicit_max_ttl=%v", pols, orphan, ttlN, creationTTL, ld["period"], typ, ld["explicit_max_ttl"])
		entityID, _ := ld["entity_id"].(string)
		idPols := toStrings(ld["identity_policies"])
		if entityAlias != "" && !aliasAllowed {
			violate("entity-alias-not-permitted", "the request named entity_alias %q, which %s, and a token was created (entity_id %q, identity policies %v)", entityAlias,
				map[bool]string{true: "the plain endpoints refuse", false: fmt.Sprintf("the role's allowed_entity_aliases %v does not contain", func() []string { if role != nil { return role.aliases }; return nil }())}[role == nil], entityID, idPols)
		}
		if entityAlias == "" && (entityID != "" || len(idPols) > 0) {
			violate("entity-without-alias-request", "the created token is bound to entity %q (identity policies %v) although no entity_alias was requested", entityID, idPols)
		}
		if has(pols, "root") && !isRoot {
			violate("root-from-non-root-parent", "created token has the root policy, the parent does not")
		}
		for _, p := range pols {
			if p == "response-wrapping" {
				violate("non-assignable-policy", "created token carries the non-assignable policy %s", p)
			}
		}
		switch {
		case role == nil && !isSudo:
			for _, p := range pols {
				if p == "default" {
					if !has(parentPolicies, "default") {
						violate("default-without-parent-default", "non-sudo caller obtained 'default' although the parent does not have it")
					}
					continue
				}
				if !has(parentPolicies, p) {
					violate("policy-outside-parent", "non-sudo caller obtained policy %q which the parent does not have", p)
				}
			}
			if noDefault && has(pols, "default") && !has(reqPol, "default") {
				violate("default-not-declined", "no_default_policy was set but 'default' was added")
			}
			if endpoint == "create" && orphan {
				violate("orphan-without-sudo", "non-sudo caller created an orphan token on the plain create endpoint")
			}
			if periodV != "<nil>" && periodV != "0" && periodV != "" {
				violate("period-without-sudo", "non-sudo caller created a periodic token (period %v)", ld["period"])
			}
			if asked["id"] && id == data["id"] {
				violate("custom-id-without-sudo", "non-sudo caller chose the token id")
			}
		case role != nil:
			usesRoleLists := len(role.allowed) > 0 || len(role.disallowed) > 0 || len(role.allowedGlob) > 0
			for _, p := range pols {
				if has(role.disallowed, p) {
					violate("role-disallowed-policy", "token created through the role carries disallowed policy %q", p)
				}
				if usesRoleLists && (len(role.allowed) > 0 || len(role.allowedGlob) > 0) {
					if p == "default" && !noDefault && !role.noDefault && !has(role.disallowed, "default") {
						continue
					}
					if !has(role.allowed, p) && !globMatch(role.allowedGlob, p) {
						violate("role-policy-not-allowed", "token created through the role carries policy %q outside allowed=%v glob=%v", p, role.allowed, role.allowedGlob)
					}
				}
				if !usesRoleLists && !isSudo && p != "default" && !has(parentPolicies, p) {
					violate("policy-outside-parent", "role without policy lists: non-sudo caller obtained policy %q which the parent does not have", p)
				}
			}
			if role.period == 0 && !isSudo && periodV != "<nil>" && periodV != "0" && periodV != "" {
				violate("period-without-sudo-through-role", "non-sudo caller obtained a periodic token (period %v) through a role that configures no period", ld["period"])
			}
			if orphan != role.orphan {
				violate("role-orphan-mismatch", "role orphan=%v but the token's orphan=%v", role.orphan, orphan)
			}
			// a role's period is applied from the role at creation and renewal time (the token entry itself need not
			// record it): the observable is that the granted ttl does not exceed the period
			if role.period > 0 && typ != "batch" && time.Duration(creationTTL)*time.Second > role.period {
				violate("role-period-exceeded", "role period %v but the token's ttl is %ds", role.period, creationTTL)
			}
			switch role.tokenType {
			case "service":
				if typ != "service" {
					violate("role-type-mismatch", "role token_type=service but the token is %s", typ)
				}
			case "batch":
				if typ != "batch" {
					violate("role-type-mismatch", "role token_type=batch but the token is %s", typ)
				}
			}
		}
		if endpoint == "create-orphan" && !orphan {
			violate("create-orphan-not-orphan", "create-orphan produced a non-orphan token")
		}
		// lifetime
		nonExpiringRootOK := has(pols, "root") && creationTTL == 0 && parentRootNoExpiry
		if creationTTL == 0 && !nonExpiringRootOK {
			violate("non-expiring-token", "a token without expiry was created (policies %v, parent non-expiring root: %v)", pols, parentRootNoExpiry)
		}
		if creationTTL > 0 {
			bound := c07MountMax
			effExplicit := explicitMax
			if role != nil && role.explicitMax > 0 && (effExplicit == 0 || role.explicitMax < effExplicit) {
				effExplicit = role.explicitMax
			}
			if typ == "batch" {
				// batch tokens carry no explicit maximum of their own (the stored entry shows explicit_max_ttl=0);
				// only the mount maximum is claimed for them
				effExplicit = 0
			}
			if effExplicit > 0 && effExplicit < bound {
				bound = effExplicit
			}
			if time.Duration(creationTTL)*time.Second > bound {
				sig := "ttl-above-maximum"
				if has(pols, "root") && data["ttl"] == nil && effExplicit > c07MountMax && time.Duration(creationTTL)*time.Second == effExplicit {
					// a root-policy token created without a ttl takes its explicit max as ttl, skipping the mount maximum
					sig = "ttl-above-maximum:root-token-takes-explicit-max"
				}
				violate(sig, "token ttl %ds exceeds min(explicit max %v, mount max %v)", creationTTL, effExplicit, c07MountMax)
			}
		}
	})
}

func subsetOf(a, b []string) bool {
	for _, x := range a {
		if x != "default" && !has(b, x) {
			return false
		}
	}
	return true
}

func c07Accessors(tc *tcore) map[string]bool {
	r := tc.req(logical.ListOperation, "auth/token/accessors/", tc.root, nil)
	out := map[string]bool{}
	if r.ok() && r.resp != nil {
		for _, k := range toStrings(r.resp.Data["keys"]) {
			out[k] = true
		}
	}
	return out
}

func TestVerif_C07_Login(t *testing.T) {
	rec := verifx.NewRecorder("C07", "login", "a recording credential backend returns an arbitrary Auth on login (policies incl. root / response-wrapping (the non-assignable policy of this code base) / a non-existent one, TTL 0..100h, period, explicit max, num uses, token type, orphan flag); the resulting token (if any) is looked up; invariants: never root, never a non-assignable policy, 0 < ttl <= min(explicit max, mount max 4h); non-trivial = the Auth asked for root, a non-assignable policy or a TTL above the mount maximum")
	defer rec.Flush()
	var env *c07Env
	defer func() {
		if env != nil {
			env.tc.shutdown()
		}
	}()
	rapid.Check(t, func(rt *rapid.T) {
		if env == nil || env.n >= 200 {
			if env != nil {
				env.tc.shutdown()
			}
			env = newC07Env(t)
		}
		env.n++
		tc := env.tc
		pols := subset(rt, "authPolicy", []string{"pa", "pb", "default", "root", "response-wrapping", "control-group"}, 3)
		// auth backends are not obliged to hand back canonical (trimmed, lower-case) policy names
		if fairIndex(rt, "spelling", 3) == 0 {
			pols = append(pols, []string{"Root", " root", "ROOT ", " Response-Wrapping ", "rOOt"}[fairIndex(rt, "odd", 5)])
		}
		ttl := []time.Duration{0, 10 * time.Minute, 3 * time.Hour, 100 * time.Hour}[fairIndex(rt, "ttl", 4)]
		var period, explicitMax time.Duration
		if fairIndex(rt, "period", 4) == 0 {
			period = []time.Duration{20 * time.Minute, 50 * time.Hour}[fairIndex(rt, "periodVal", 2)]
		}
		if fairIndex(rt, "explicitMax", 3) == 0 {
			explicitMax = []time.Duration{30 * time.Minute, 50 * time.Hour}[fairIndex(rt, "explicitMaxVal", 2)]
		}
		typ := []logical.TokenType{logical.TokenTypeDefault, logical.TokenTypeService, logical.TokenTypeBatch}[fairIndex(rt, "type", 3)]
		numUses := []int{0, 0, 2}[fairIndex(rt, "numUses", 3)]
		auth := &logical.Auth{Policies: pols, Period: period, ExplicitMaxTTL: explicitMax, NumUses: numUses, TokenType: typ,
			LeaseOptions: logical.LeaseOptions{TTL: ttl, Renewable: true}, DisplayName: "u", NoDefaultPolicy: fairIndex(rt, "noDefault", 3) == 0}
		env.hub.mu.Lock()
		env.hub.loginAuth = func(req *logical.Request) *logical.Auth { a := *auth; return &a }
		env.hub.mu.Unlock()
		res := tc.do(&logical.Request{Operation: logical.UpdateOperation, Path: "auth/ra/login", Data: map[string]any{"user": "u"}})
		detail := map[string]any{"auth_policies": pols, "ttl": ttl.String(), "period": period.String(), "explicit_max": explicitMax.String(), "type": typ.String(), "num_uses": numUses, "result": res.String()}
		odd := false
		for _, p := range pols {
			if c := strings.ToLower(strings.TrimSpace(p)); c != p && (c == "root" || c == "response-wrapping") {
				odd = true
			}
		}
		nt := odd || has(pols, "root") || has(pols, "response-wrapping") || ttl > c07MountMax || period > c07MountMax
		created := res.ok() && res.resp != nil && res.resp.Auth != nil && res.resp.Auth.ClientToken != ""
		rec.Case(map[bool]string{true: "login-ok", false: "login-refused"}[created], nt, verifx.Digest(pols, ttl, period, explicitMax, typ, numUses), func() any { return detail })
		if !created {
			return
		}
		tok := res.resp.Auth.ClientToken
		lk := tc.req(logical.UpdateOperation, "auth/token/lookup", tc.root, map[string]any{"token": tok})
		if !lk.ok() || lk.resp == nil {
			rec.Violation(rt, "login-token-not-found", detail, "the token returned by login cannot be looked up: %v | %v", lk, detail)
			return
		}
		got := toStrings(lk.resp.Data["policies"])
		detail["stored_policies"] = got
		for _, p := range got {
			if p == "root" || p == "response-wrapping" {
				rec.Violation(rt, "login-non-assignable-policy", detail, "a login produced a token with policy %q | %v", p, detail)
			}
		}
		creationTTL, _ := lk.resp.Data["creation_ttl"].(int64)
		detail["creation_ttl"] = creationTTL
		if creationTTL <= 0 {
			rec.Violation(rt, "login-non-expiring-token", detail, "a login produced a token without expiry | %v", detail)
		}
		bound := c07MountMax
		if explicitMax > 0 && explicitMax < bound {
			bound = explicitMax
		}
		if time.Duration(creationTTL)*time.Second > bound {
			rec.Violation(rt, "login-ttl-above-maximum", detail, "login token ttl %ds exceeds min(explicit max %v, mount max %v) | %v", creationTTL, explicitMax, c07MountMax, detail)
		}
	})
}
