//go:build verif

package vault

// C07 across namespaces: token creation and login in a core with the namespaces root, n1/ and n1/n2/.
//
// Policies of the same NAME exist in several namespaces with DIFFERENT contents, token roles of the same name exist
// in several namespaces with different configuration. What a parent token may do is computed from a table (the
// reference model below), never from the implementation: the model may over-estimate a parent's privileges (then the
// oracle is merely less strict) but never under-estimates them.

import (
	"context"
	"fmt"
	"sort"
	"strings"
	"testing"
	"time"

	"github.com/openbao/openbao/sdk/v2/helper/verifx"
	"github.com/openbao/openbao/sdk/v2/logical"
	"github.com/openbao/openbao/v2/internal/helper/namespace"
	"pgregory.net/rapid"
)

// capability of a policy on the token-creation paths: 0 nothing, 1 update, 2 update+sudo
type c07nsCap int

// c07nsPol describes one policy of one namespace: its capability on auth/token/* of its own namespace, of the
// namespace one level below and two levels below; star = a namespace-admin style `path "*"` rule with every capability.
type c07nsPol struct {
	own, below1, below2 c07nsCap
	star                bool
}

var c07nsPaths = [3][3]string{
	{"auth/token/*", "n1/auth/token/*", "n1/n2/auth/token/*"},
	{"auth/token/*", "n2/auth/token/*", ""},
	{"auth/token/*", "", ""},
}

// the same names mean different things in different namespaces; a name missing from a namespace's map is not defined there
var c07nsPolicies = [3]map[string]c07nsPol{
	{ // root namespace
		"creator": {own: 1}, "sudoer": {own: 2}, "reach": {own: 1, below1: 2, below2: 2}, "reachu": {below1: 1, below2: 1},
		"px": {own: 2, below1: 2}, "py": {}, "pa": {}, "pb": {},
	},
	{ // n1/
		"creator": {own: 2}, "sudoer": {own: 1}, "reach": {own: 1, below1: 2}, "reachu": {below1: 1},
		"px": {own: 1}, "py": {own: 2, below1: 2}, "pa": {}, "nsadmin": {star: true},
	},
	{ // n1/n2/
		"creator": {own: 1}, "sudoer": {own: 2}, "reach": {own: 1}, "reachu": {}, "px": {}, "py": {own: 1}, "pa": {}, "pb": {},
	},
}

var c07nsNames = []string{"creator", "sudoer", "reach", "reachu", "px", "py", "pa", "pb", "nsadmin", "default"}

var c07nsPathNames = []string{"", "n1/", "n1/n2/"}

func c07nsHCL(ns int, p c07nsPol) string {
	caps := func(c c07nsCap) string {
		if c == 2 {
			return `["update", "sudo"]`
		}
		return `["update"]`
	}
	var sb strings.Builder
	sb.WriteString("path \"rb/*\" { capabilities = [\"read\"] }\n")
	for i, c := range []c07nsCap{p.own, p.below1, p.below2} {
		if c > 0 && c07nsPaths[ns][i] != "" {
			fmt.Fprintf(&sb, "path %q { capabilities = %s }\n", c07nsPaths[ns][i], caps(c))
		}
	}
	if p.star {
		sb.WriteString("path \"*\" { capabilities = [\"create\", \"read\", \"update\", \"delete\", \"list\", \"sudo\"] }\n")
	}
	return sb.String()
}

// c07nsModelCap is the reference model of a parent's capability on the creation paths of the namespace `rel` levels
// below its own (0 = its own): the most specific matching rule decides (the union of the capabilities of all policies
// that carry that rule); the `path "*"` rule of a namespace-admin policy applies only when no more specific rule matches;
// the root policy grants everything (for namespaces below a namespace-root token's own the model grants it, too: an
// over-estimate is safe).
func c07nsModelCap(ns int, pols []string, rel int) c07nsCap {
	if has(pols, "root") {
		return 2
	}
	specific, found, star := c07nsCap(0), false, false
	for _, name := range pols {
		p, ok := c07nsPolicies[ns][name]
		if !ok {
			continue
		}
		c := []c07nsCap{p.own, p.below1, p.below2}[rel]
		if c > 0 && c07nsPaths[ns][rel] != "" {
			found = true
			if c > specific {
				specific = c
			}
		}
		if p.star {
			star = true
		}
	}
	if found {
		return specific
	}
	if star {
		return 2
	}
	return 0
}

type c07nsEnv struct {
	tc     *tcore
	hub    *recHub
	n      int
	nss    []*namespace.Namespace
	nsRoot [3]string        // a non-expiring token with the root policy of each namespace
	tokMax [3]time.Duration // max_lease_ttl currently tuned on each namespace's token mount
	raMax  [3]time.Duration // max_lease_ttl of the recording credential mount "ra" of each namespace
}

const (
	c07nsMountMax    = 4 * time.Hour
	c07nsMountMaxLow = 150 * time.Minute
)

func (e *c07nsEnv) ctx(ns int) context.Context {
	return namespace.ContextWithNamespace(context.Background(), e.nss[ns])
}

func (e *c07nsEnv) in(ns int, op logical.Operation, path, token string, data map[string]any) rr {
	return e.tc.doCtx(e.ctx(ns), &logical.Request{Operation: op, Path: path, ClientToken: token, Data: data})
}

// below: namespace b is a or lies below a
func (e *c07nsEnv) below(a, b int) bool { return strings.HasPrefix(e.nss[b].Path, e.nss[a].Path) }

func (e *c07nsEnv) tuneTokenMount(ns int, max time.Duration) {
	if e.tokMax[ns] == max {
		return
	}
	e.tc.mustOK(e.in(ns, logical.UpdateOperation, "sys/auth/token/tune", e.tc.root, map[string]any{"max_lease_ttl": max.String(), "default_lease_ttl": "1h"}), "tune token mount of "+c07nsPathNames[ns])
	e.tokMax[ns] = max
}

func newC07nsEnv(t *testing.T) *c07nsEnv {
	hub := newRecHub()
	tc := mustBoot(t, coreOpts{transactional: true,
		credential: map[string]logical.Factory{"recauth": hub.factory("recauth", logical.TypeCredential)}})
	e := &c07nsEnv{tc: tc, hub: hub}
	tc.mustOK(tc.req(logical.UpdateOperation, "sys/namespaces/n1", tc.root, nil), "namespace n1")
	tc.mustOK(tc.req(logical.UpdateOperation, "n1/sys/namespaces/n2", tc.root, nil), "namespace n1/n2")
	e.nss = []*namespace.Namespace{namespace.RootNamespace}
	for _, p := range c07nsPathNames[1:] {
		ns, err := tc.c.namespaceStore.GetNamespaceByPath(tc.ctx, p)
		if err != nil || ns == nil {
			t.Fatalf("harness: namespace %s: %v", p, err)
		}
		e.nss = append(e.nss, ns)
	}
	e.raMax = [3]time.Duration{6 * time.Hour, 2 * time.Hour, 3 * time.Hour}
	for i := range e.nss {
		names := make([]string, 0, len(c07nsPolicies[i]))
		for name := range c07nsPolicies[i] {
			names = append(names, name)
		}
		sort.Strings(names)
		for _, name := range names {
			tc.mustOK(e.in(i, logical.UpdateOperation, "sys/policy/"+name, tc.root, map[string]any{"policy": c07nsHCL(i, c07nsPolicies[i][name])}), "policy "+name)
		}
		tc.mustOK(e.in(i, logical.UpdateOperation, "sys/policy/entsecret", tc.root, map[string]any{"policy": c07Plain}), "policy entsecret")
		e.tuneTokenMount(i, c07nsMountMax)
		tc.mustOK(e.in(i, logical.UpdateOperation, "sys/auth/ra", tc.root, map[string]any{"type": "recauth"}), "enable ra")
		tc.mustOK(e.in(i, logical.UpdateOperation, "sys/auth/ra/tune", tc.root, map[string]any{"max_lease_ttl": e.raMax[i].String(), "default_lease_ttl": "1h"}), "tune ra")
		if i == 0 {
			e.nsRoot[i] = tc.root
		} else {
			te, err := tc.c.tokenStore.rootToken(e.ctx(i))
			if err != nil || te == nil {
				t.Fatalf("harness: root token of namespace %s: %v", c07nsPathNames[i], err)
			}
			e.nsRoot[i] = te.ID
		}
		if i < 2 {
			// an entity holding a policy no generated parent has, reachable through the alias "alias-admin" on the
			// token mount of this namespace
			am := tc.mustOK(e.in(i, logical.ReadOperation, "sys/auth", tc.root, nil), "read auth mounts")
			acc := ""
			if tm, ok := am.Data["token/"].(map[string]any); ok {
				acc, _ = tm["accessor"].(string)
			}
			if acc == "" {
				t.Fatalf("harness: token mount accessor not found in %v", am.Data)
			}
			er := tc.mustOK(e.in(i, logical.UpdateOperation, "identity/entity", tc.root, map[string]any{"name": "admin-ent", "policies": []string{"entsecret"}}), "entity")
			eid, _ := er.Data["id"].(string)
			tc.mustOK(e.in(i, logical.UpdateOperation, "identity/entity-alias", tc.root, map[string]any{"name": "alias-admin", "canonical_id": eid, "mount_accessor": acc}), "entity alias")
		}
	}
	return e
}

func (e *c07nsEnv) accessors() map[string]bool {
	out := map[string]bool{}
	for i := range e.nss {
		r := e.in(i, logical.ListOperation, "auth/token/accessors/", e.tc.root, nil)
		if r.ok() && r.resp != nil {
			for _, k := range toStrings(r.resp.Data["keys"]) {
				out[c07nsPathNames[i]+"|"+k] = true
			}
		}
	}
	return out
}

type c07nsRole struct {
	allowed, disallowed, allowedGlob []string
	aliases                          []string
	orphan                           bool
	period, explicitMax              time.Duration
	tokenType                        string
	noDefault                        bool
}

func c07nsDrawRole(rt *rapid.T, label string, universe []string) *c07nsRole {
	role := &c07nsRole{}
	role.allowed = subset(rt, label+"Allowed", universe, 3)
	role.disallowed = subset(rt, label+"Disallowed", []string{"pa", "px", "default", "root"}, 5)
	if fairIndex(rt, label+"Glob", 4) == 0 {
		role.allowedGlob = []string{"p*"}
	}
	role.orphan = fairIndex(rt, label+"Orphan", 2) == 0
	if fairIndex(rt, label+"Period", 4) == 0 {
		role.period = 15 * time.Minute
	}
	if fairIndex(rt, label+"ExplicitMax", 4) == 0 {
		role.explicitMax = 45 * time.Minute
	}
	role.tokenType = []string{"default-service", "service", "batch", "default-batch"}[fairIndex(rt, label+"Type", 4)]
	role.noDefault = fairIndex(rt, label+"NoDefault", 4) == 0
	if role.tokenType == "batch" {
		// batch roles must be orphan, non-periodic and non-renewable, otherwise the configuration is refused
		role.orphan, role.period = true, 0
	}
	role.aliases = [][]string{nil, nil, {"alias-admin"}, {"alias-*"}, {"someone-else"}}[fairIndex(rt, label+"Aliases", 5)]
	return role
}

func (r *c07nsRole) data() map[string]any {
	return map[string]any{
		"allowed_entity_aliases": strings.Join(r.aliases, ","),
		"allowed_policies":       strings.Join(r.allowed, ","), "disallowed_policies": strings.Join(r.disallowed, ","),
		"allowed_policies_glob": strings.Join(r.allowedGlob, ","), "orphan": r.orphan,
		"token_period": int(r.period.Seconds()), "token_explicit_max_ttl": int(r.explicitMax.Seconds()),
		"token_type": r.tokenType, "token_no_default_policy": r.noDefault, "renewable": r.tokenType != "batch",
	}
}

func c07nsCanon(l []string) []string {
	out := make([]string, 0, len(l))
	for _, p := range l {
		if c := strings.ToLower(strings.TrimSpace(p)); c != "" {
			out = append(out, c)
		}
	}
	return out
}

func TestVerif_C07_CreateNamespaces(t *testing.T) {
	rec := verifx.NewRecorder("C07", "create-namespaces", "a core with the namespaces root, n1/ and n1/n2/; policies of the same name with different contents per namespace (creator, sudoer, reach, reachu, px, py grant update or update+sudo on auth/token/* of their own namespace and/or of the namespaces below, nsadmin is a `path \"*\"` policy that exists only in n1/), a token role `r` rewritten in every namespace for every role case (the role of the request namespace, or none there, and decoy roles with the opposite orphan flag in the other namespaces), a recording credential mount `ra` in every namespace with its own maximum TTL; a parent token living in root, n1/ or n1/n2/ (policy subset by name, or the root policy of its namespace; service, batch, use-limited or periodic; expiring or not) sends a creation request on create / create-orphan / create/r in its own namespace, in a namespace below it, or (rarely) in a namespace outside its own, with generated parameters (policies incl. names defined only elsewhere, root in canonical and odd spelling, no_parent, no_default_policy, period, explicit_max_ttl, ttl, num_uses, id, type, entity_alias); or a login is sent to the credential mount of n1/ or n1/n2/ which returns a generated Auth; the outcome is read from a lookup of the stored token in the request namespace and from the token entry (namespace, parent); the parent's sudo/update capability is computed by a table model from its policies as defined in ITS namespace on the namespace-qualified create path; invariants: the token lives in the request namespace; nothing is created outside the parent's namespace subtree, without update capability, by use-limited or batch parents, or below the parent's namespace without sudo; root only on a token whose parent has root (root-policy tokens that a root parent gets made BELOW its namespace, around the token store's cross-namespace guard, are counted as observations, not asserted); in the parent's own namespace without sudo and role: policies within the parent's, no orphan (plain create), no period, no custom id; across namespaces without role policy lists: only requested policies (plus default); custom ids only in the root namespace; only the role of the REQUEST namespace governs create/r (none there => nothing created); role rules as in the root-namespace unit; a non-orphan child's parent is the caller; 0 < ttl <= min(explicit max, maximum of the token mount of the request namespace) except non-expiring root from non-expiring root; a refused request adds no accessor in any namespace; login tokens live in the login namespace, never carry root or response-wrapping, 0 < ttl <= min(explicit max, that credential mount's maximum); non-trivial = the request asked for something it was not entitled to or crossed a namespace boundary")
	defer rec.Flush()
	var env *c07nsEnv
	defer func() {
		if env != nil {
			env.tc.shutdown()
		}
	}()
	rapid.Check(t, func(rt *rapid.T) {
		if env == nil || env.n >= 150 {
			if env != nil {
				env.tc.shutdown()
			}
			env = newC07nsEnv(t)
		}
		env.n++
		if fairIndex(rt, "kind", 6) == 0 {
			c07nsLoginCase(rt, env, rec)
			return
		}
		c07nsCreateCase(t, rt, env, rec)
	})
}

func c07nsCreateCase(t *testing.T, rt *rapid.T, env *c07nsEnv, rec *verifx.Recorder) {
	tc := env.tc
	// ---- where: the parent's namespace and the request namespace
	pns := fairIndex(rt, "parentNS", 3)
	below := func(a, b int) bool { return strings.HasPrefix(c07nsPathNames[b], c07nsPathNames[a]) }
	var belowNS, outsideNS []int
	for n := range c07nsPathNames {
		switch {
		case n == pns:
		case below(pns, n):
			belowNS = append(belowNS, n)
		default:
			outsideNS = append(outsideNS, n)
		}
	}
	rns := pns
	switch where := fairIndex(rt, "requestWhere", 10); {
	case where < 4:
	case where < 9 && len(belowNS) > 0:
		rns = belowNS[fairIndex(rt, "requestBelow", len(belowNS))]
	case where == 9 && len(outsideNS) > 0:
		rns = outsideNS[fairIndex(rt, "requestOutside", len(outsideNS))]
	}
	cross := rns != pns
	outside := !below(pns, rns)
	rel := 0
	if cross && !outside {
		rel = rns - pns // namespaces are indexed by depth
	}
	// ---- parent
	parentKind := []string{"policies", "policies", "policies", "policies", "nsroot"}[fairIndex(rt, "parentKind", 5)]
	parentRootNoExpiry := false
	var parent string
	var parentPolicies []string
	pdata := map[string]any{"no_default_policy": true}
	flavour := []string{"service", "service", "service", "service", "service", "service", "use-limited", "batch", "periodic", "periodic"}[fairIndex(rt, "parentFlavour", 10)]
	if parentKind == "nsroot" {
		// the root policy of the parent's namespace: the namespace's non-expiring root token or an expiring child of it
		if fairIndex(rt, "parentNoTTL", 2) == 0 {
			parent, parentPolicies, parentRootNoExpiry, flavour = env.nsRoot[pns], []string{"root"}, true, "service"
		} else {
			pdata["policies"] = []string{"root"}
			pdata["ttl"] = []string{"30m", "2h", "3h"}[fairIndex(rt, "parentTTL", 3)]
			// (the root token of a namespace other than the root namespace is not counted as sudo by the token store, so
			// it cannot make a periodic child)
			if flavour == "batch" || flavour == "periodic" && pns != 0 {
				flavour = "service"
			}
		}
	} else {
		ppol := subset(rt, "parentPolicy", c07nsNames, 4)
		// mostly make sure the parent can at least call the endpoint: add one policy that, in the parent's namespace,
		// says something about the creation paths of the request namespace
		if helper := fairIndex(rt, "parentHelper", 3); helper > 0 && !outside {
			var cands []string
			for _, name := range c07nsNames {
				if p, ok := c07nsPolicies[pns][name]; ok && (p.star || []c07nsCap{p.own, p.below1, p.below2}[rel] > 0) {
					cands = append(cands, name)
				}
			}
			if len(cands) > 0 {
				if name := cands[fairIndex(rt, "parentHelperName", len(cands))]; !has(ppol, name) {
					ppol = append(ppol, name)
				}
			}
		}
		if len(ppol) == 0 {
			ppol = []string{"creator"}
		}
		pdata["policies"] = ppol
		pdata["ttl"] = []string{"30m", "2h", "3h"}[fairIndex(rt, "parentTTL", 3)]
	}
	switch flavour {
	case "use-limited":
		pdata["num_uses"] = []int{3, 1, 2}[fairIndex(rt, "parentUses", 3)] // 1: the creation request is the parent's final use
	case "batch":
		pdata["type"] = "batch"
	case "periodic":
		pdata["period"] = "30m"
	}
	if parent == "" {
		creator := tc.root
		if parentKind == "nsroot" {
			creator = env.nsRoot[pns] // root tokens of a namespace are made in that namespace
		}
		pr := env.in(pns, logical.UpdateOperation, "auth/token/create", creator, pdata)
		if !pr.ok() || pr.resp == nil || pr.resp.Auth == nil {
			t.Fatalf("harness: parent creation in %q failed: %v %v", c07nsPathNames[pns], pr, pdata)
		}
		parent = pr.resp.Auth.ClientToken
		parentPolicies = pr.resp.Auth.Policies
	}
	parentLimited := flavour == "use-limited"
	parentBatch := flavour == "batch"
	parentRoot := has(parentPolicies, "root")
	modelCap := c07nsCap(0)
	if !outside {
		modelCap = c07nsModelCap(pns, parentPolicies, rel)
	}
	isSudo := modelCap == 2
	canCall := modelCap >= 1
	// the maximum of the request namespace's token mount
	mountMax := c07nsMountMax
	if rns != 0 && fairIndex(rt, "namespaceTokenMountMax", 5) == 0 {
		mountMax = c07nsMountMaxLow
	}
	env.tuneTokenMount(rns, mountMax)

	// ---- request
	endpoint := []string{"create", "create", "create-orphan", "role"}[fairIndex(rt, "endpoint", 4)]
	var reqPol []string
	switch fairIndex(rt, "reqPolicyMode", 4) {
	case 0:
	case 1:
		reqPol = subset(rt, "reqPolicyOfParent", parentPolicies, 2)
	default:
		reqPol = subset(rt, "reqPolicy", append(append([]string{}, c07nsNames...), "root"), 4)
	}
	oddRoot := false
	if fairIndex(rt, "oddRoot", 12) == 0 {
		reqPol = append(reqPol, []string{"Root", " root", "ROOT "}[fairIndex(rt, "oddRootVal", 3)])
		oddRoot = true
	}
	data := map[string]any{}
	if len(reqPol) > 0 {
		data["policies"] = reqPol
	}
	reqCanon := c07nsCanon(reqPol)
	asked := map[string]bool{}
	if fairIndex(rt, "noParent", 6) == 0 {
		data["no_parent"] = true
		asked["no_parent"] = true
	}
	noDefault := fairIndex(rt, "noDefault", 3) == 0
	if noDefault {
		data["no_default_policy"] = true
	}
	if fairIndex(rt, "period", 6) == 0 {
		data["period"] = "20m"
		asked["period"] = true
	}
	var explicitMax time.Duration
	if fairIndex(rt, "explicitMax", 3) == 0 {
		explicitMax = []time.Duration{10 * time.Minute, 90 * time.Minute, 10 * time.Hour}[fairIndex(rt, "explicitMaxVal", 3)]
		data["explicit_max_ttl"] = explicitMax.String()
	}
	if fairIndex(rt, "ttl", 2) == 0 {
		data["ttl"] = []string{"5m", "2h", "3h30m", "100h"}[fairIndex(rt, "ttlVal", 4)]
	}
	if fairIndex(rt, "numUses", 6) == 0 {
		data["num_uses"] = 2
	}
	if fairIndex(rt, "id", 8) == 0 {
		data["id"] = fmt.Sprintf("custom-id-%d-%d", env.n, fairIndex(rt, "idn", 1000))
		asked["id"] = true
	}
	if fairIndex(rt, "type", 5) == 0 {
		data["type"] = []string{"service", "batch"}[fairIndex(rt, "typeVal", 2)]
	}
	entityAlias := ""
	if fairIndex(rt, "entityAlias", map[bool]int{true: 3, false: 12}[endpoint == "role"]) == 0 {
		entityAlias = []string{"alias-admin", "alias-admin", "Alias-Admin", "alias-other"}[fairIndex(rt, "entityAliasVal", 4)]
		data["entity_alias"] = entityAlias
		asked["entity_alias"] = true
	}

	// ---- roles: `r` is rewritten in every namespace; only the one of the request namespace may govern
	var role *c07nsRole // the role of the request namespace (nil: there is none)
	var decoys [3]*c07nsRole
	path := "auth/token/" + endpoint
	if endpoint == "role" {
		universe := append(append([]string{}, c07nsNames...), "root")
		drawn := c07nsDrawRole(rt, "role", universe)
		roleHere := fairIndex(rt, "roleInRequestNamespace", 6) > 0
		// mostly ask for what the role offers, so that role-based creation also succeeds often
		if fairIndex(rt, "roleLegit", 4) > 0 {
			delete(data, "id")
			delete(data, "no_parent")
			delete(asked, "id")
			delete(asked, "no_parent")
			if drawn.tokenType == "service" || drawn.tokenType == "default-service" {
				delete(data, "type")
			}
			if len(drawn.allowed) > 0 {
				var keep []string
				for _, p := range subset(rt, "roleReqPolicy", drawn.allowed, 2) {
					if !has(drawn.disallowed, p) && p != "root" {
						keep = append(keep, p)
					}
				}
				if fairIndex(rt, "roleReqNoPolicies", 3) == 0 {
					keep = nil // take what the role hands out
				}
				reqPol, reqCanon, oddRoot = keep, keep, false
				if len(reqPol) > 0 {
					data["policies"] = reqPol
				} else {
					delete(data, "policies")
				}
			}
		}
		for n := range env.nss {
			if n == rns {
				if !roleHere {
					tc.mustOK(env.in(n, logical.DeleteOperation, "auth/token/roles/r", tc.root, nil), "delete role")
					continue
				}
				rr0 := env.in(n, logical.UpdateOperation, "auth/token/roles/r", tc.root, drawn.data())
				if !rr0.ok() {
					// invalid role configurations are refused: nothing to test
					rec.Case("role-config-refused", false, verifx.Digest("rcr", drawn.data()), nil)
					return
				}
				role = drawn
				continue
			}
			// a role of the same name in another namespace: generous, and with the opposite orphan flag
			d := &c07nsRole{allowed: universe, allowedGlob: []string{"*"}, orphan: !drawn.orphan, tokenType: "default-service", aliases: []string{"*"}}
			if fairIndex(rt, fmt.Sprintf("decoy%dPeriod", n), 2) == 0 {
				d.period = 50 * time.Minute
			}
			tc.mustOK(env.in(n, logical.UpdateOperation, "auth/token/roles/r", tc.root, d.data()), "decoy role")
			decoys[n] = d
		}
		path = "auth/token/create/r"
		// the same-named roles of the other namespaces may have been used just before (whatever the server keeps of a
		// role it has served must not leak into another namespace)
		for n := 0; n < 3; n++ {
			if decoys[n] != nil && fairIndex(rt, fmt.Sprintf("decoy%dUsedFirst", n), 2) == 0 {
				wr := env.in(n, logical.UpdateOperation, "auth/token/create/r", tc.root, map[string]any{"ttl": "5m"})
				if wr.ok() && wr.resp != nil && wr.resp.Auth != nil {
					env.in(n, logical.UpdateOperation, "auth/token/revoke", tc.root, map[string]any{"token": wr.resp.Auth.ClientToken})
				}
				rec.Class("decoy-role-used-first", 1)
			}
		}
	}

	accBefore := env.accessors()
	res := env.in(rns, logical.UpdateOperation, path, parent, data)
	created := res.ok() && res.resp != nil && res.resp.Auth != nil && res.resp.Auth.ClientToken != ""
	detail := map[string]any{"parent_namespace": c07nsPathNames[pns], "parent_policies": parentPolicies, "parent_flavour": flavour, "parent_non_expiring_root": parentRootNoExpiry,
		"request_namespace": c07nsPathNames[rns], "model_capability_of_parent_on_path": map[c07nsCap]string{0: "none", 1: "update", 2: "update+sudo"}[modelCap],
		"request_namespace_token_mount_max": mountMax.String(), "endpoint": endpoint, "path": path, "request": fmt.Sprint(data), "role_in_request_namespace": fmt.Sprintf("%+v", role), "result": res.String()}
	known := false
	violate := func(sig, f string, a ...any) {
		if !rec.Violation(rt, sig, detail, f+" | %v", append(a, detail)...) {
			known = true
		}
	}
	wantsRoot := has(reqCanon, "root")
	aliasAllowed := role != nil && (has(role.aliases, strings.ToLower(entityAlias)) || globMatch(role.aliases, strings.ToLower(entityAlias)))
	breach := entityAlias != "" && !aliasAllowed || asked["no_parent"] && !isSudo || asked["id"] && (!isSudo || rns != 0) || asked["period"] && !isSudo && role == nil ||
		wantsRoot && (!parentRoot || cross) || (!isSudo && role == nil && !subsetOf(reqCanon, parentPolicies)) || parentLimited || parentBatch ||
		!canCall || cross && !isSudo || outside || endpoint == "role" && role == nil
	nsName := func(n int) string {
		if n == 0 {
			return "root"
		}
		return strings.TrimSuffix(c07nsPathNames[n], "/")
	}
	ep := endpoint
	if endpoint == "role" && role == nil {
		ep = "role-absent-here"
	}
	cls := fmt.Sprintf("parent@%s request@%s %s:%s", nsName(pns), nsName(rns), ep, map[bool]string{true: "created", false: "refused"}[created])
	rec.Case(cls, breach || cross, verifx.Digest(pns, parentPolicies, flavour, parentRootNoExpiry, rns, mountMax, endpoint, fmt.Sprint(data), fmt.Sprintf("%+v", role), fmt.Sprint(decoys[0] != nil, decoys[1] != nil, decoys[2] != nil)), func() any { return detail })
	if cross && !outside {
		rec.Class(map[bool]string{true: "below-parent-namespace:created", false: "below-parent-namespace:refused"}[created], 1)
	}
	if !created {
		if parentRoot && pns != 0 && !outside && !parentLimited && res.resp != nil && strings.Contains(fmt.Sprint(res.resp.Data["error"]), "root or sudo privileges required") {
			// the root token of a namespace other than the root namespace is never counted as sudo by the token store
			// (SudoPrivilege evaluates its ACL in the root namespace's context): conservative, so only counted
			rec.Class("observation:namespace-root-token-refused-for-lack-of-sudo", 1)
		}
		// a refused request creates no token, in no namespace
		for a := range env.accessors() {
			if !accBefore[a] {
				violate("refused-request-created-token", "the request was refused but a new token accessor %s exists", a)
			}
		}
		return
	}
	auth := res.resp.Auth
	if outside {
		violate("token-used-outside-its-namespace", "a token of namespace %q created a token in namespace %q, which is not below its own", c07nsPathNames[pns], c07nsPathNames[rns])
	}
	if !canCall {
		violate("created-without-capability", "a parent without any capability on %s%s (judged by its policies as defined in %q) created a token", c07nsPathNames[rns], path, c07nsPathNames[pns])
	}
	if parentLimited {
		violate("use-limited-parent-created-token", "a use-limited token created a child token")
	}
	if parentBatch {
		violate("batch-parent-created-token", "a batch token created a child token")
	}
	if cross && !isSudo {
		violate("cross-namespace-creation-without-sudo", "a parent of namespace %q without sudo on %s%s created a token in namespace %q", c07nsPathNames[pns], c07nsPathNames[rns], path, c07nsPathNames[rns])
	}
	if endpoint == "role" && role == nil {
		violate("role-of-another-namespace-governed-creation", "there is no role r in namespace %q (only in other namespaces) but create/r made a token", c07nsPathNames[rns])
	}
	if known {
		return
	}
	if rns != 0 && auth.TTL == 0 && has(auth.Policies, "root") {
		// A root-policy token without expiry that lives outside the root namespace is revoked by the expiration manager as
		// soon as its lease is registered (leaseEntry.nonexpiringToken accepts the root namespace only), so whether it can
		// still be looked up is a race. That behaviour is not a statement of C07 (counted only); such a token is judged by
		// what the response says about it, so that the verdict does not depend on the race.
		rec.Class("observation:non-expiring-root-token-in-child-namespace(revoked-at-once-by-the-expiration-manager)", 1)
		switch {
		case !parentRoot:
			violate("root-from-non-root-parent", "the response says the created token has the root policy, the parent does not")
		case cross:
			rec.Class(c07nsRootClass(role != nil && !wantsRoot, oddRoot && !has(reqPol, "root")), 1)
		}
		if !parentRootNoExpiry {
			violate("non-expiring-token", "a token without expiry was created (policies %v) by a parent that is not a non-expiring root token", auth.Policies)
		}
		if cross && (role == nil || len(role.allowed) == 0 && len(role.disallowed) == 0 && len(role.allowedGlob) == 0) && !wantsRoot {
			violate("cross-namespace-policy-not-requested", "a token created from namespace %q in namespace %q carries policy \"root\" which the request did not name (parent policies %v)", c07nsPathNames[pns], c07nsPathNames[rns], parentPolicies)
		}
		return
	}
	// ---- stored truth
	lk := env.in(rns, logical.UpdateOperation, "auth/token/lookup", tc.root, map[string]any{"token": auth.ClientToken})
	// the token entry as stored (also when it is already marked for revocation)
	var te *logical.TokenEntry
	var teErr error
	if p := verifx.Try(func() { te, teErr = tc.c.tokenStore.lookupInternal(env.ctx(rns), auth.ClientToken, false, true) }); p != nil {
		te, teErr = nil, fmt.Errorf("panic: %v", p)
	}
	if !lk.ok() || lk.resp == nil || te == nil {
		violate("created-token-not-found", "the created token cannot be looked up in the request namespace %q: lookup request: %v; token entry: %v (error %v)", c07nsPathNames[rns], lk, te, teErr)
		return
	}
	ld := lk.resp.Data
	pols := toStrings(ld["policies"])
	sort.Strings(pols)
	orphan, _ := ld["orphan"].(bool)
	creationTTL, _ := ld["creation_ttl"].(int64)
	periodV := fmt.Sprint(ld["period"])
	periodic := periodV != "<nil>" && periodV != "0" && periodV != ""
	typ, _ := ld["type"].(string)
	id, _ := ld["id"].(string)
	nsPath, _ := ld["namespace_path"].(string)
	detail["stored"] = fmt.Sprintf("namespace=%q policies=%v orphan=%v creation_ttl=%d period=%v type=%s explicit_max_ttl=%v role=%v", nsPath, pols, orphan, creationTTL, ld["period"], typ, ld["explicit_max_ttl"], ld["role"])
	entityID, _ := ld["entity_id"].(string)
	idPols := toStrings(ld["identity_policies"])

	if te.NamespaceID != env.nss[rns].ID || nsPath != c07nsPathNames[rns] {
		violate("token-not-in-request-namespace", "the request was sent in namespace %q but the token lives in namespace id %q (path %q)", c07nsPathNames[rns], te.NamespaceID, nsPath)
	}
	if has(pols, "root") {
		switch {
		case !parentRoot:
			violate("root-from-non-root-parent", "created token has the root policy, the parent does not")
		case cross:
			// The token store refuses a literal "root" in the policies of a request sent below the parent's namespace
			// ("root tokens may not be created from a parent namespace"), but the statement of C07 only demands a root
			// parent, which holds here; the ways around that guard are counted, not asserted.
			rec.Class(c07nsRootClass(role != nil && !wantsRoot, oddRoot && !has(reqPol, "root")), 1)
		}
	}
	for _, p := range pols {
		if p == "response-wrapping" {
			violate("non-assignable-policy", "created token carries the non-assignable policy %s", p)
		}
	}
	if known {
		return
	}
	if entityAlias != "" && !aliasAllowed {
		violate("entity-alias-not-permitted", "the request named entity_alias %q, which is not permitted (role of the request namespace: %+v), and a token was created (entity_id %q, identity policies %v)", entityAlias, role, entityID, idPols)
	}
	if entityAlias == "" && (entityID != "" || len(idPols) > 0) {
		violate("entity-without-alias-request", "the created token is bound to entity %q (identity policies %v) although no entity_alias was requested", entityID, idPols)
	}
	if asked["id"] && rns != 0 && strings.HasPrefix(id, fmt.Sprint(data["id"])) {
		violate("custom-id-outside-root-namespace", "a caller-chosen token id %q was accepted in namespace %q", id, c07nsPathNames[rns])
	}
	if asked["id"] && !isSudo && strings.HasPrefix(id, fmt.Sprint(data["id"])) {
		violate("custom-id-without-sudo", "non-sudo caller chose the token id")
	}
	// parent / orphan
	if !orphan {
		pte, _ := tc.c.tokenStore.Lookup(env.ctx(pns), parent)
		if pte != nil && te.Parent != pte.ID {
			violate("parent-is-not-the-caller", "the created token is not an orphan but its parent is not the calling token")
		}
	}
	if endpoint == "create-orphan" && !orphan {
		violate("create-orphan-not-orphan", "create-orphan produced a non-orphan token")
	}
	usesRoleLists := role != nil && (len(role.allowed) > 0 || len(role.disallowed) > 0 || len(role.allowedGlob) > 0)
	switch {
	case role == nil && !cross && !isSudo:
		for _, p := range pols {
			if p == "default" {
				if !has(parentPolicies, "default") {
					violate("default-without-parent-default", "non-sudo caller obtained 'default' although the parent does not have it")
				}
				continue
			}
			if !has(parentPolicies, p) {
				violate("policy-outside-parent", "non-sudo caller obtained policy %q which the parent does not have", p)
			}
		}
		if noDefault && has(pols, "default") && !has(reqCanon, "default") {
			violate("default-not-declined", "no_default_policy was set but 'default' was added")
		}
		if endpoint == "create" && orphan {
			violate("orphan-without-sudo", "non-sudo caller created an orphan token on the plain create endpoint")
		}
		if periodic {
			violate("period-without-sudo", "non-sudo caller created a periodic token (period %v)", ld["period"])
		}
	case role == nil && cross:
		// created from a namespace above: only the requested policies (plus default), never the parent's by name
		for _, p := range pols {
			if p == "default" && !noDefault {
				continue
			}
			if !has(reqCanon, p) {
				violate("cross-namespace-policy-not-requested", "a token created from namespace %q in namespace %q carries policy %q which the request did not name (parent policies %v)", c07nsPathNames[pns], c07nsPathNames[rns], p, parentPolicies)
			}
		}
	case role != nil:
		for _, p := range pols {
			if has(role.disallowed, p) {
				violate("role-disallowed-policy", "token created through the role carries disallowed policy %q", p)
			}
			if len(role.allowed) > 0 || len(role.allowedGlob) > 0 {
				if p == "default" && !noDefault && !role.noDefault && !has(role.disallowed, "default") {
					continue
				}
				if !has(role.allowed, p) && !globMatch(role.allowedGlob, p) {
					violate("role-policy-not-allowed", "token created through the role carries policy %q outside allowed=%v glob=%v", p, role.allowed, role.allowedGlob)
				}
			}
			if !usesRoleLists && !cross && !isSudo && p != "default" && !has(parentPolicies, p) {
				violate("policy-outside-parent", "role without policy lists: non-sudo caller obtained policy %q which the parent does not have", p)
			}
			if !usesRoleLists && cross && !(p == "default" && !noDefault) && !has(reqCanon, p) {
				violate("cross-namespace-policy-not-requested", "role without policy lists: a token created from namespace %q in namespace %q carries policy %q which the request did not name", c07nsPathNames[pns], c07nsPathNames[rns], p)
			}
		}
		if usesRoleLists && cross && len(role.allowed) == 0 && len(role.allowedGlob) == 0 && len(reqCanon) == 0 {
			// a role with only disallowed policies hands the PARENT's policy names to a token of another namespace when
			// the request names none; the caller has sudo there and could have named them, so this is counted, not asserted
			rec.Class("observation:cross-namespace-role-with-only-disallowed-list-copies-parent-policy-names", 1)
		}
		if role.period == 0 && !isSudo && periodic {
			violate("period-without-sudo-through-role", "non-sudo caller obtained a periodic token (period %v) through a role that configures no period", ld["period"])
		}
		if orphan != role.orphan {
			violate("role-orphan-mismatch", "the role r of the request namespace %q says orphan=%v but the token's orphan=%v (roles named r in the other namespaces say %v)", c07nsPathNames[rns], role.orphan, orphan, !role.orphan)
		}
		if role.period > 0 && typ != "batch" && time.Duration(creationTTL)*time.Second > role.period {
			violate("role-period-exceeded", "role period %v but the token's ttl is %ds", role.period, creationTTL)
		}
		switch role.tokenType {
		case "service":
			if typ != "service" {
				violate("role-type-mismatch", "role token_type=service but the token is %s", typ)
			}
		case "batch":
			if typ != "batch" {
				violate("role-type-mismatch", "role token_type=batch but the token is %s", typ)
			}
		}
	}
	if known {
		return
	}
	// ---- lifetime
	nonExpiringRootOK := has(pols, "root") && creationTTL == 0 && parentRootNoExpiry
	if creationTTL == 0 && !nonExpiringRootOK {
		violate("non-expiring-token", "a token without expiry was created (policies %v, parent non-expiring root: %v)", pols, parentRootNoExpiry)
	}
	if creationTTL > 0 {
		effExplicit := explicitMax
		if role != nil && role.explicitMax > 0 && (effExplicit == 0 || role.explicitMax < effExplicit) {
			effExplicit = role.explicitMax
		}
		if typ == "batch" {
			// batch tokens carry no explicit maximum of their own; only the mount maximum is claimed for them
			effExplicit = 0
		}
		bound := func(mount time.Duration) time.Duration {
			if effExplicit > 0 && effExplicit < mount {
				return effExplicit
			}
			return mount
		}
		got := time.Duration(creationTTL) * time.Second
		if got > bound(mountMax) {
			sig := "ttl-above-maximum"
			switch {
			case has(pols, "root") && data["ttl"] == nil && effExplicit > c07nsMountMax && got == effExplicit:
				// a root-policy token created without a ttl takes its explicit max as ttl, skipping the mount maximum (F11)
				sig = "ttl-above-maximum:root-token-takes-explicit-max"
			case rns != 0 && mountMax < c07nsMountMax && got <= bound(c07nsMountMax):
				// a token of a non-root namespace whose own token mount is tuned below the root namespace's token mount:
				// within the maximum of the ROOT namespace's token mount, above the one of this namespace's token mount
				sig = "ttl-above-maximum:namespace-token-mount-maximum-ignored"
			}
			violate(sig, "token ttl %ds exceeds min(explicit max %v, maximum %v of the token mount of namespace %q)", creationTTL, effExplicit, mountMax, c07nsPathNames[rns])
		}
	}
}

func c07nsLoginCase(rt *rapid.T, env *c07nsEnv, rec *verifx.Recorder) {
	tc := env.tc
	lns := 1 + fairIndex(rt, "loginNS", 2)
	pols := subset(rt, "authPolicy", []string{"pa", "creator", "nsadmin", "default"}, 3)
	pols = append(pols, subset(rt, "authPolicyForbidden", []string{"root", "response-wrapping"}, 5)...)
	// auth backends are not obliged to hand back canonical (trimmed, lower-case) policy names
	if fairIndex(rt, "spelling", 5) == 0 {
		pols = append(pols, []string{"Root", " root", "ROOT ", " Response-Wrapping ", "rOOt"}[fairIndex(rt, "odd", 5)])
	}
	ttl := []time.Duration{0, 10 * time.Minute, 150 * time.Minute, 5 * time.Hour, 100 * time.Hour}[fairIndex(rt, "ttl", 5)]
	var period, explicitMax time.Duration
	if fairIndex(rt, "period", 4) == 0 {
		period = []time.Duration{20 * time.Minute, 50 * time.Hour}[fairIndex(rt, "periodVal", 2)]
	}
	if fairIndex(rt, "explicitMax", 3) == 0 {
		explicitMax = []time.Duration{30 * time.Minute, 50 * time.Hour}[fairIndex(rt, "explicitMaxVal", 2)]
	}
	typ := []logical.TokenType{logical.TokenTypeDefault, logical.TokenTypeService, logical.TokenTypeBatch}[fairIndex(rt, "type", 3)]
	numUses := []int{0, 0, 2}[fairIndex(rt, "numUses", 3)]
	auth := &logical.Auth{Policies: pols, Period: period, ExplicitMaxTTL: explicitMax, NumUses: numUses, TokenType: typ,
		LeaseOptions: logical.LeaseOptions{TTL: ttl, Renewable: true}, DisplayName: "u", NoDefaultPolicy: fairIndex(rt, "noDefault", 3) == 0}
	env.hub.mu.Lock()
	env.hub.loginAuth = func(req *logical.Request) *logical.Auth {
		a := *auth
		a.Policies = append([]string{}, auth.Policies...)
		return &a
	}
	env.hub.mu.Unlock()
	res := tc.doCtx(env.ctx(lns), &logical.Request{Operation: logical.UpdateOperation, Path: "auth/ra/login", Data: map[string]any{"user": "u"}})
	mountMax := env.raMax[lns]
	detail := map[string]any{"login_namespace": c07nsPathNames[lns], "credential_mount_max": mountMax.String(), "auth_policies": pols, "ttl": ttl.String(), "period": period.String(),
		"explicit_max": explicitMax.String(), "type": typ.String(), "num_uses": numUses, "result": res.String()}
	canon := c07nsCanon(pols)
	nt := has(canon, "root") || has(canon, "response-wrapping") || ttl > mountMax || period > mountMax
	created := res.ok() && res.resp != nil && res.resp.Auth != nil && res.resp.Auth.ClientToken != ""
	rec.Case(fmt.Sprintf("login@%s:%s", strings.TrimSuffix(c07nsPathNames[lns], "/"), map[bool]string{true: "ok", false: "refused"}[created]), nt, verifx.Digest("login", lns, pols, ttl, period, explicitMax, typ, numUses), func() any { return detail })
	if !created {
		return
	}
	tok := res.resp.Auth.ClientToken
	lk := env.in(lns, logical.UpdateOperation, "auth/token/lookup", tc.root, map[string]any{"token": tok})
	if !lk.ok() || lk.resp == nil {
		rec.Violation(rt, "login-token-not-found", detail, "the token returned by a login in %q cannot be looked up there: %v | %v", c07nsPathNames[lns], lk, detail)
		return
	}
	got := toStrings(lk.resp.Data["policies"])
	nsPath, _ := lk.resp.Data["namespace_path"].(string)
	detail["stored_policies"] = got
	detail["stored_namespace"] = nsPath
	if nsPath != c07nsPathNames[lns] {
		rec.Violation(rt, "login-token-not-in-login-namespace", detail, "a login in namespace %q produced a token of namespace %q | %v", c07nsPathNames[lns], nsPath, detail)
	}
	for _, p := range got {
		if p == "root" || p == "response-wrapping" {
			rec.Violation(rt, "login-non-assignable-policy", detail, "a login in namespace %q produced a token with policy %q | %v", c07nsPathNames[lns], p, detail)
		}
	}
	creationTTL, _ := lk.resp.Data["creation_ttl"].(int64)
	detail["creation_ttl"] = creationTTL
	if creationTTL <= 0 {
		rec.Violation(rt, "login-non-expiring-token", detail, "a login produced a token without expiry | %v", detail)
	}
	bound := mountMax
	if explicitMax > 0 && explicitMax < bound {
		bound = explicitMax
	}
	if time.Duration(creationTTL)*time.Second > bound {
		rec.Violation(rt, "login-ttl-above-maximum", detail, "login token ttl %ds exceeds min(explicit max %v, maximum %v of the credential mount of namespace %q) | %v", creationTTL, explicitMax, mountMax, c07nsPathNames[lns], detail)
	}
}

// c07nsRootClass names the way a root-policy token came to exist in a namespace below its (root) parent's.
func c07nsRootClass(throughRole, oddSpelling bool) string {
	switch {
	case throughRole:
		// the role's allowed_policies contain root and the request named no root policy
		return "observation:root-in-child-namespace:through-role"
	case oddSpelling:
		// the request spelled the policy "Root", " root", ...
		return "observation:root-in-child-namespace:non-canonical-name"
	}
	return "observation:root-in-child-namespace:canonical-name"
}
