//go:build verif

package vault

import (
	"context"
	"encoding/base32"
	"encoding/base64"
	"encoding/hex"
	"fmt"
	"strings"
	"testing"
	"time"

	"github.com/openbao/openbao/sdk/v2/helper/verifx"
	"github.com/openbao/openbao/sdk/v2/logical"
	credAppRole "github.com/openbao/openbao/v2/internal/builtin/credential/approle"
	credUserpass "github.com/openbao/openbao/v2/internal/builtin/credential/userpass"
	logicalKv "github.com/openbao/openbao/v2/internal/builtin/logical/kv"
	logicalPki "github.com/openbao/openbao/v2/internal/builtin/logical/pki"
	logicalSsh "github.com/openbao/openbao/v2/internal/builtin/logical/ssh"
	logicalTotp "github.com/openbao/openbao/v2/internal/builtin/logical/totp"
	logicalTransit "github.com/openbao/openbao/v2/internal/builtin/logical/transit"
	"github.com/openbao/openbao/v2/internal/helper/namespace"
	"github.com/openbao/openbao/v2/internal/vault/barrier"
	"pgregory.net/rapid"
)

func base32Std(s string) string { return base32.StdEncoding.EncodeToString([]byte(s)) }

// c01Allowed reports whether a physical key may hold a record that did not pass through the barrier:
// the fixed set of bootstrap records named by the property statement (also below namespaces/<uuid>/).
func c01Allowed(key string) bool {
	k := key
	if strings.HasPrefix(k, "namespaces/") {
		parts := strings.SplitN(k, "/", 3)
		if len(parts) == 3 {
			k = parts[2]
		}
	}
	switch k {
	case "core/seal-config", "core/recovery-config", "core/hsm/barrier-unseal-keys", "core/recovery-key",
		"core/unseal-keys-backup", "core/recovery-keys-backup":
		return true
	}
	return strings.HasPrefix(k, "core/raft/") || strings.HasPrefix(k, "core/cluster/")
}

type c01World struct {
	t        *testing.T
	tc       *tcore
	canaries []string
	tok      string
	lastSeq  int64
	log      []string
	checked  int
	withCan  int
	ns1      *namespace.Namespace
	// first 17 bytes (term, version, nonce) of every record written under a keyring term -> the key it was written under
	nonces map[string]string
}

func (w *c01World) logf(f string, a ...any) { w.log = append(w.log, fmt.Sprintf(f, a...)) }

func (w *c01World) canary(rt *rapid.T) string {
	c := "CNRY" + rapid.StringMatching("[A-Za-z0-9]{22}").Draw(rt, "canary")
	w.canaries = append(w.canaries, c)
	return c
}

// scan inspects every physical put since the previous scan.
func (w *c01World) scan() (sig, msg string) {
	ops := w.tc.rec.OpsSince(w.lastSeq)
	w.lastSeq = w.tc.rec.Seq()
	var enc barrier.Encryptor
	if e, ok := w.tc.c.barrier.(barrier.Encryptor); ok {
		enc = e
	}
	for _, o := range ops {
		if o.Kind != "put" || o.Err != nil {
			continue
		}
		w.checked++
		val := string(o.Val)
		for _, c := range w.canaries {
			forms := []string{c, base64.StdEncoding.EncodeToString([]byte(c)), hex.EncodeToString([]byte(c))}
			for _, f := range forms {
				if strings.Contains(val, f) {
					return "plaintext-in-physical-store", fmt.Sprintf("physical record %q contains the plaintext value %q (form %q)", o.Key, c, verifx.Trunc(f, 40))
				}
			}
		}
		if c01Allowed(o.Key) {
			continue
		}
		if o.Key == "core/keyring" || strings.HasSuffix(o.Key, "/core/keyring") && strings.HasPrefix(o.Key, "namespaces/") {
			// encrypted under the root key, not under a keyring term: only the envelope can be checked here
			if len(o.Val) < 16 {
				return "keyring-record-too-short", fmt.Sprintf("record %q is %d bytes", o.Key, len(o.Val))
			}
			continue
		}
		if enc == nil {
			continue
		}
		if strings.HasPrefix(o.Key, "namespaces/") && w.ns1 != nil {
			// separately sealed namespaces have their own barrier; this world creates none, so the root barrier applies
		}
		pt, err := enc.Decrypt(context.Background(), o.Key, o.Val)
		if err != nil {
			return "record-not-a-barrier-record-for-its-key", fmt.Sprintf("physical record %q (%d bytes) was written outside the encrypted storage layer or is not bound to its key: barrier.Decrypt: %v", o.Key, len(o.Val), err)
		}
		for _, c := range w.canaries {
			if strings.Contains(string(pt), c) {
				w.withCan++
				break
			}
		}
		// a (key term, nonce) pair never occurs twice in the life of the store, restarts and reseals included: a repeated
		// pair is a repeated keystream (the XOR of the two stored records is the XOR of their plaintexts)
		if len(o.Val) >= 17+16 {
			if w.nonces == nil {
				w.nonces = map[string]string{}
			}
			h := string(o.Val[:17])
			if prev, dup := w.nonces[h]; dup {
				return "term-and-nonce-repeat", fmt.Sprintf("physical records %q and (earlier) %q start with the same term, version and nonce %x: both are encrypted with the same keystream", o.Key, prev, o.Val[:17])
			}
			w.nonces[h] = o.Key
		}
	}
	return "", ""
}

func TestVerif_C01_ServerCanaries(t *testing.T) {
	rec := verifx.NewRecorder("C01", "server-canaries", "rapid state machine over the public API of a real core on a recording physical backend with kv-v1, kv-v2, cubbyhole, userpass, approle, transit, pki, ssh, totp and a child namespace: every value position the workload controls (secret data, policy and password-policy text, token metadata and display names, entity / group / namespace metadata, mount descriptions, userpass passwords, approle secret ids, TOTP shared keys, wrapped responses) and key material the server generates and can be made to show (exported CA private keys, transit key backups) carries a fresh high-entropy canary; also sys/rotate, sys/rotate/root, seal/unseal; after every step every physical put since the previous step must (1) contain no canary in clear, base64 or hex and (2) either have a key from the fixed bootstrap allow-list or decrypt with the barrier under exactly that key; non-trivial = the step wrote at least one encrypted record containing a canary")
	defer rec.Flush()
	rapid.Check(t, func(rt *rapid.T) {
		defer recoverWedged(rec)
		rawEndpoint := rapid.Bool().Draw(rt, "rawStorageEndpoint")
		tc := mustBoot(t, coreOpts{transactional: rapid.Bool().Draw(rt, "transactionalStorage"), raw: rawEndpoint,
			logical:    map[string]logical.Factory{"kv": logicalKv.Factory, "transit": logicalTransit.Factory, "pki": logicalPki.Factory, "ssh": logicalSsh.Factory, "totp": logicalTotp.Factory},
			credential: map[string]logical.Factory{"userpass": credUserpass.Factory, "approle": credAppRole.Factory}})
		w := &c01World{t: t, tc: tc}
		defer func() { w.tc.shutdown() }()
		fail := func(sig, msg string) {
			rec.Violation(rt, sig, map[string]any{"history": w.log}, "%s; history=%v", msg, w.log)
		}
		// the boot itself wrote records: check them first
		if sig, msg := w.scan(); sig != "" {
			fail(sig+":boot", msg)
		}
		tc.mustOK(tc.req(logical.UpdateOperation, "sys/mounts/kv1", tc.root, map[string]any{"type": "kv", "options": map[string]any{"version": "1"}}), "kv1")
		tc.mustOK(tc.req(logical.UpdateOperation, "sys/mounts/kv2", tc.root, map[string]any{"type": "kv", "options": map[string]any{"version": "2"}}), "kv2")
		tc.mustOK(tc.req(logical.UpdateOperation, "sys/auth/up", tc.root, map[string]any{"type": "userpass"}), "userpass")
		for _, m := range []string{"transit", "pki", "ssh", "totp"} {
			tc.mustOK(tc.req(logical.UpdateOperation, "sys/mounts/"+m, tc.root, map[string]any{"type": m}), m)
		}
		tc.mustOK(tc.req(logical.UpdateOperation, "sys/auth/ar", tc.root, map[string]any{"type": "approle"}), "approle")
		tc.mustOK(tc.req(logical.UpdateOperation, "sys/namespaces/n1", tc.root, nil), "namespace")
		ns, err := tc.c.namespaceStore.GetNamespaceByPath(tc.ctx, "n1/")
		if err != nil || ns == nil {
			t.Fatalf("harness: %v", err)
		}
		w.ns1 = ns
		nsCtx := namespace.ContextWithNamespace(context.Background(), ns)
		tc.mustOK(tc.doCtx(nsCtx, &logical.Request{Operation: logical.UpdateOperation, Path: "sys/mounts/kv1", ClientToken: tc.root, Data: map[string]any{"type": "kv", "options": map[string]any{"version": "1"}}}), "ns kv1")
		w.tok = tc.root
		// kv-v2 upgrade runs in the background after mounting
		time.Sleep(20 * time.Millisecond)
		steps := 0
		rt.Repeat(map[string]func(*rapid.T){
			"kv1": func(rt *rapid.T) {
				c := w.canary(rt)
				r := tc.req(logical.UpdateOperation, fmt.Sprintf("kv1/k%d", fairIndex(rt, "key", 4)), w.tok, map[string]any{"v": c, "nested": map[string]any{"x": []any{c}}})
				w.logf("kv1 write -> %v", r)
			},
			"kv2": func(rt *rapid.T) {
				c := w.canary(rt)
				r := tc.req(logical.UpdateOperation, fmt.Sprintf("kv2/data/k%d", fairIndex(rt, "key", 4)), w.tok, map[string]any{"data": map[string]any{"v": c}})
				w.logf("kv2 write -> %v", r)
				if fairIndex(rt, "meta", 3) == 0 {
					c2 := w.canary(rt)
					r2 := tc.req(logical.UpdateOperation, "kv2/metadata/k0", w.tok, map[string]any{"custom_metadata": map[string]any{"m": c2}})
					w.logf("kv2 metadata -> %v", r2)
				}
			},
			"ns-kv": func(rt *rapid.T) {
				c := w.canary(rt)
				r := tc.doCtx(nsCtx, &logical.Request{Operation: logical.UpdateOperation, Path: "kv1/k", ClientToken: tc.root, Data: map[string]any{"v": c}})
				w.logf("ns kv write -> %v", r)
			},
			// an operator writes through the raw storage endpoint (served by half of the servers) to keys that are NOT
			// among the bootstrap records but look like them - a backup copy next to one, a key below one, a longer
			// name - and to ordinary keys: whatever the key, the value goes through the barrier
			"raw-write": func(rt *rapid.T) {
				if !rawEndpoint {
					rt.Skip("raw endpoint not served")
				}
				c := w.canary(rt)
				stem := []string{"core/seal-config", "core/recovery-config", "core/hsm/barrier-unseal-keys", "core/recovery-key", "core/unseal-keys-backup", "core/keyring", "scratch/operator"}[fairIndex(rt, "near", 7)]
				key := stem + []string{".bak", "/backup/a", "-old", "2", ".d/x"}[fairIndex(rt, "suffix", 5)]
				r := tc.req(logical.UpdateOperation, "sys/raw/"+key, tc.root, map[string]any{"value": c})
				w.logf("raw write %s -> %v", key, r)
				if r.ok() {
					rd := tc.req(logical.ReadOperation, "sys/raw/"+key, tc.root, nil)
					if !rd.ok() || rd.resp == nil || rd.resp.Data["value"] != c {
						fail("raw-write-does-not-read-back", fmt.Sprintf("raw write to %s does not read back: %v", key, rd))
					}
				}
			},
			"cubbyhole": func(rt *rapid.T) {
				c := w.canary(rt)
				r := tc.req(logical.UpdateOperation, "cubbyhole/c", w.tok, map[string]any{"v": c})
				w.logf("cubbyhole -> %v", r)
			},
			"policy": func(rt *rapid.T) {
				c := w.canary(rt)
				r := tc.req(logical.UpdateOperation, "sys/policy/p", tc.root, map[string]any{"policy": "# " + c + "\npath \"kv1/*\" { capabilities = [\"read\"] }"})
				w.logf("policy -> %v", r)
			},
			"token": func(rt *rapid.T) {
				c := w.canary(rt)
				r := tc.req(logical.UpdateOperation, "auth/token/create", tc.root, map[string]any{"policies": []string{"default"}, "ttl": "1h", "meta": map[string]any{"m": c}, "display_name": c})
				w.logf("token -> %v", r)
			},
			"entity": func(rt *rapid.T) {
				c := w.canary(rt)
				r := tc.req(logical.UpdateOperation, "identity/entity", tc.root, map[string]any{"name": fmt.Sprintf("e%d", fairIndex(rt, "n", 3)), "metadata": map[string]any{"m": c}})
				w.logf("entity -> %v", r)
			},
			"mount-description": func(rt *rapid.T) {
				c := w.canary(rt)
				r := tc.req(logical.UpdateOperation, "sys/mounts/kv1/tune", tc.root, map[string]any{"description": c})
				w.logf("tune -> %v", r)
			},
			"userpass": func(rt *rapid.T) {
				c := w.canary(rt)
				r := tc.req(logical.UpdateOperation, fmt.Sprintf("auth/up/users/u%d", fairIndex(rt, "u", 3)), tc.root, map[string]any{"password": c, "token_policies": "default"})
				w.logf("userpass user -> %v", r)
				if r.ok() && fairIndex(rt, "login", 2) == 0 {
					lr := tc.do(&logical.Request{Operation: logical.UpdateOperation, Path: "auth/up/login/u0", Data: map[string]any{"password": c}})
					w.logf("login -> %v", lr)
				}
			},
			"wrapped": func(rt *rapid.T) {
				c := w.canary(rt)
				tc.req(logical.UpdateOperation, "kv1/w", w.tok, map[string]any{"v": c})
				r := tc.do(&logical.Request{Operation: logical.ReadOperation, Path: "kv1/w", ClientToken: w.tok, WrapInfo: &logical.RequestWrapInfo{TTL: 5 * time.Minute}})
				w.logf("wrapped read -> %v", r)
			},
			// engines that persist key material or credentials of their own: whatever they store has to pass the barrier
			"transit": func(rt *rapid.T) {
				k := fmt.Sprintf("transit/keys/t%d", fairIndex(rt, "key", 3))
				typ := []string{"aes256-gcm96", "ed25519", "ecdsa-p256", "hmac"}[fairIndex(rt, "type", 4)]
				r := tc.req(logical.UpdateOperation, k, tc.root, map[string]any{"type": typ, "exportable": true, "allow_plaintext_backup": true})
				if fairIndex(rt, "rotate", 2) == 0 {
					tc.req(logical.UpdateOperation, k+"/rotate", tc.root, nil)
				}
				// the exported key material is a secret value the server holds: it must not be found in the store either
				if er := tc.req(logical.ReadOperation, strings.Replace(k, "transit/keys/", "transit/backup/", 1), tc.root, nil); er.ok() && er.resp != nil {
					if b, _ := er.resp.Data["backup"].(string); len(b) > 40 {
						w.canaries = append(w.canaries, b[20:60])
					}
				}
				w.logf("transit key %s -> %v", typ, r)
			},
			"pki": func(rt *rapid.T) {
				c := w.canary(rt)
				r := tc.req(logical.UpdateOperation, "pki/root/generate/exported", tc.root, map[string]any{"common_name": "ca.example", "key_type": "ec", "key_bits": 256, "ou": c, "issuer_name": fmt.Sprintf("i%d", len(w.canaries))})
				if r.ok() && r.resp != nil {
					// the CA's private key (PEM body) is secret material of the server
					if pk, _ := r.resp.Data["private_key"].(string); len(pk) > 120 {
						body := strings.ReplaceAll(pk, "\n", "")
						w.canaries = append(w.canaries, body[40:80])
					}
				}
				rr2 := tc.req(logical.UpdateOperation, "pki/roles/r", tc.root, map[string]any{"allow_any_name": true, "ou": c})
				w.logf("pki root + role -> %v %v", r, rr2)
			},
			"ssh": func(rt *rapid.T) {
				r := tc.req(logical.UpdateOperation, "ssh/config/ca", tc.root, map[string]any{"generate_signing_key": true, "key_type": "ed25519"})
				w.logf("ssh ca -> %v", r)
				tc.req(logical.DeleteOperation, "ssh/config/ca", tc.root, nil)
			},
			"totp": func(rt *rapid.T) {
				c := w.canary(rt)
				// the shared TOTP key is the secret (base32 of the canary)
				key := strings.TrimRight(base32Std(c), "=")
				w.canaries = append(w.canaries, key)
				r := tc.req(logical.UpdateOperation, fmt.Sprintf("totp/keys/k%d", fairIndex(rt, "k", 3)), tc.root, map[string]any{"key": key, "issuer": "verif", "account_name": c})
				w.logf("totp key -> %v", r)
			},
			"approle": func(rt *rapid.T) {
				c := w.canary(rt)
				r := tc.req(logical.UpdateOperation, "auth/ar/role/app", tc.root, map[string]any{"token_policies": "default", "bind_secret_id": true})
				sr := tc.req(logical.UpdateOperation, "auth/ar/role/app/custom-secret-id", tc.root, map[string]any{"secret_id": c, "metadata": `{"m":"` + c + `"}`})
				w.logf("approle role + custom secret id -> %v %v", r, sr)
			},
			"identity-group": func(rt *rapid.T) {
				c := w.canary(rt)
				r := tc.req(logical.UpdateOperation, "identity/group", tc.root, map[string]any{"name": fmt.Sprintf("g%d", fairIndex(rt, "n", 3)), "metadata": map[string]any{"m": c}})
				w.logf("group -> %v", r)
			},
			"password-policy": func(rt *rapid.T) {
				c := w.canary(rt)
				r := tc.req(logical.UpdateOperation, "sys/policies/password/pp", tc.root, map[string]any{"policy": "# " + c + "\nlength = 20\nrule \"charset\" { charset = \"abcdefghij\" }"})
				w.logf("password policy -> %v", r)
			},
			"namespace-metadata": func(rt *rapid.T) {
				c := w.canary(rt)
				r := tc.req(logical.UpdateOperation, "sys/namespaces/n1", tc.root, map[string]any{"custom_metadata": map[string]any{"m": c}})
				w.logf("namespace metadata -> %v", r)
			},
			"rotate": func(rt *rapid.T) {
				p := []string{"sys/rotate", "sys/rotate/root"}[fairIndex(rt, "which", 2)]
				r := tc.req(logical.UpdateOperation, p, tc.root, nil)
				w.logf("%s -> %v", p, r)
			},
			"seal-unseal": func(rt *rapid.T) {
				if err := tc.seal(); err != nil {
					t.Fatalf("harness: seal: %v", err)
				}
				if err := tc.unseal(tc.keys); err != nil {
					fail("unseal-failed", fmt.Sprintf("unseal after seal failed: %v", err))
				}
				w.logf("seal+unseal")
			},
			"": func(rt *rapid.T) {
				steps++
				if sig, msg := w.scan(); sig != "" {
					fail(sig, msg)
				}
			},
		})
		rec.Case(fmt.Sprintf("steps=%d", steps/10*10), w.withCan > 0, verifx.Digest(strings.Join(w.log, "|"), len(w.canaries)), func() any {
			return map[string]any{"history": w.log, "physical_puts_checked": w.checked, "encrypted_records_holding_a_canary": w.withCan}
		})
		rec.Class("physical-puts-checked", int64(w.checked))
		rec.Class("encrypted-records-with-canary", int64(w.withCan))
	})
}
