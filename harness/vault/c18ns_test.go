//go:build verif

package vault

// C18 across namespaces: a response-wrapping token created in one namespace and attacked / redeemed from its own
// namespace, from namespaces above, below and beside it, by context or by path prefix, with the token as client token
// or in the body under third parties of any namespace, and with a client that goes away in the middle of an
// unwrap / rewrap.
//
// What the oracle takes as promised (docs: website/content/docs/concepts/response-wrapping.mdx; code: see the
// references next to each rule):
//   - the wrapped request answers with wrap info only;
//   - over the whole history and the rewrap chain the payload is delivered at most once;
//   - sys/wrapping/lookup is read-only, and a lookup that succeeds tells that the token is still valid ("Perform a
//     lookup on the response-wrapping token. This immediately tells you if the token has already been unwrapped or is
//     expired (or otherwise revoked)"): an unwrap with the token as client token addressed to the token's own
//     namespace right after such a lookup must deliver;
//   - after a delivery, a successful revoke-accessor or a successful rewrap the (old) token is dead everywhere, its
//     accessor does not resolve and its cubbyhole entries are gone from physical storage;
//   - the token authorises no ordinary path in any namespace, and such a request never reaches the backend;
//   - every successful lookup, in whatever namespace it was asked, reports the namespace-relative path of the wrapped
//     request (wrapInCubbyhole stores req.Path after the namespace prefix was stripped by
//     ResolveNamespaceFromRequest) and the requested TTL, also after rewraps.
// Not taken as promised (only the invariants above are checked, the outcome is recorded as a class): whether an
// attempt addressed to another namespace, or made under a third party of another namespace, succeeds; what a
// request whose client went away answers; whether a refused attempt leaves the token usable (the probe lookup decides).

import (
	"context"
	"encoding/json"
	"fmt"
	"runtime"
	"strings"
	"testing"
	"time"

	"github.com/openbao/openbao/sdk/v2/helper/verifx"
	"github.com/openbao/openbao/sdk/v2/logical"
	"github.com/openbao/openbao/v2/internal/helper/namespace"
	"pgregory.net/rapid"
)

const c18nsPolicy = `
path "rb/*" { capabilities = ["create","read","update","delete","list"] }
path "+/rb/*" { capabilities = ["create","read","update","delete","list"] }
path "+/+/rb/*" { capabilities = ["create","read","update","delete","list"] }
`

const c18nsWrapPolicy = `
path "sys/wrapping/*" { capabilities = ["update"] }
path "+/sys/wrapping/*" { capabilities = ["update"] }
path "+/+/sys/wrapping/*" { capabilities = ["update"] }
`

var c18nsPaths = []string{"", "n1/", "n1/n2/", "s1/"}

type c18nsEnv struct {
	t         *testing.T
	tc        *tcore
	hub       *recHub
	nss       []*namespace.Namespace
	byID      map[string]int
	user      []string // requester per namespace (default + c18ns)
	tpWith    []string // third party per namespace with a policy on sys/wrapping/*
	tpWithout []string // third party per namespace without default policy and without any sys/wrapping rule
	n         int
}

func (e *c18nsEnv) ctx(ns int) context.Context {
	if ns == 0 {
		return e.tc.ctx
	}
	return namespace.ContextWithNamespace(context.Background(), e.nss[ns])
}

func (e *c18nsEnv) reqIn(ns int, op logical.Operation, path, token string, data map[string]any) rr {
	return e.tc.doCtx(e.ctx(ns), &logical.Request{Operation: op, Path: path, ClientToken: token, Data: data})
}

// c18nsRel: how namespace a relates to the wrapping token's namespace w.
func (e *c18nsEnv) rel(w, a int) string {
	wp, ap := e.nss[w].Path, e.nss[a].Path
	switch {
	case w == a:
		return "same"
	case strings.HasPrefix(wp, ap):
		return "ancestor"
	case strings.HasPrefix(ap, wp):
		return "descendant"
	}
	return "unrelated"
}

func newC18nsEnv(t *testing.T, transactional bool) *c18nsEnv {
	hub := newRecHub()
	tc := mustBoot(t, coreOpts{transactional: transactional, cacheOff: true,
		logical:    map[string]logical.Factory{"recbe": hub.factory("recbe", logical.TypeLogical)},
		credential: map[string]logical.Factory{"recauth": hub.factory("recauth", logical.TypeCredential)}})
	e := &c18nsEnv{t: t, tc: tc, hub: hub, byID: map[string]int{}}
	tc.mustOK(tc.req(logical.UpdateOperation, "sys/namespaces/n1", tc.root, nil), "namespace n1")
	tc.mustOK(tc.req(logical.UpdateOperation, "n1/sys/namespaces/n2", tc.root, nil), "namespace n1/n2")
	tc.mustOK(tc.req(logical.UpdateOperation, "sys/namespaces/s1", tc.root, nil), "namespace s1")
	e.nss = []*namespace.Namespace{namespace.RootNamespace}
	for _, p := range c18nsPaths[1:] {
		ns, err := tc.c.namespaceStore.GetNamespaceByPath(tc.ctx, p)
		if err != nil || ns == nil {
			t.Fatalf("harness: namespace %s: %v", p, err)
		}
		e.nss = append(e.nss, ns)
	}
	hub.loginAuth = func(req *logical.Request) *logical.Auth {
		m, _ := req.Data["marker"].(string)
		return &logical.Auth{Policies: []string{"default"}, Metadata: map[string]string{"marker": m}, LeaseOptions: logical.LeaseOptions{TTL: time.Hour, Renewable: true}}
	}
	for i, ns := range e.nss {
		e.byID[ns.ID] = i
		tc.mustOK(e.reqIn(i, logical.UpdateOperation, "sys/mounts/rb", tc.root, map[string]any{"type": "recbe"}), "mount rb")
		tc.mustOK(e.reqIn(i, logical.UpdateOperation, "sys/auth/ra", tc.root, map[string]any{"type": "recauth"}), "enable auth ra")
		tc.mustOK(e.reqIn(i, logical.UpdateOperation, "sys/policy/c18ns", tc.root, map[string]any{"policy": c18nsPolicy}), "policy")
		tc.mustOK(e.reqIn(i, logical.UpdateOperation, "sys/policy/c18nswrap", tc.root, map[string]any{"policy": c18nsWrapPolicy}), "policy")
		mk := func(data map[string]any) string {
			r := e.reqIn(i, logical.UpdateOperation, "auth/token/create", tc.root, data)
			if !r.ok() || r.resp == nil || r.resp.Auth == nil || r.resp.Auth.ClientToken == "" {
				t.Fatalf("harness: token in %q: %v", ns.Path, r)
			}
			return r.resp.Auth.ClientToken
		}
		e.user = append(e.user, mk(map[string]any{"policies": []string{"default", "c18ns"}, "ttl": "2h"}))
		e.tpWith = append(e.tpWith, mk(map[string]any{"policies": []string{"default", "c18nswrap"}, "ttl": "2h"}))
		e.tpWithout = append(e.tpWithout, mk(map[string]any{"policies": []string{"c18ns"}, "no_default_policy": true, "ttl": "2h"}))
		for k := 0; k < 2; k++ {
			tc.mustOK(e.reqIn(i, logical.UpdateOperation, fmt.Sprintf("rb/kv/list/k%d", k), tc.root, map[string]any{"v": k}), "seed kv")
		}
		if r := e.reqIn(i, logical.ReadOperation, "rb/echo/probe", e.user[i], nil); !r.ok() {
			t.Fatalf("harness: requester of %q cannot use rb/: %v", ns.Path, r)
		}
	}
	return e
}

// c18nsTok is one wrapping token of the chain (the original one or the result of a rewrap).
type c18nsTok struct {
	token, accessor string
	ns              int
	cubbyKeys       []string
	spent           string // why it must be gone: "delivered", "revoked", "rewrapped"; "" = no such claim
	killer          *c18nsAttempt // the attempt after which a valid token was found dead although nothing was delivered, revoked or rewrapped
	gen             int
}

type c18nsAttempt struct {
	Kind     string // unwrap-self unwrap-3p rewrap lookup revoke cubby-read misuse repeat
	Addr     int    // namespace the request is addressed to
	Mode     int    // 0 namespace in the context, 1 path prefix in the root context, 2 parent namespace in the context + last segment as prefix
	TpNS     int    // namespace of the third party
	TpKind   int    // 0 with a policy on sys/wrapping/*, 1 without, 2 no client token at all
	Stale    bool   // aim at an earlier token of the chain instead of its head (if there is one)
	CancelAt int    // >0: the client goes away when the request goroutine performs its CancelAt-th storage operation
	force    *c18nsTok // aim at exactly this token
	post     bool      // part of the checks after the history
	// results
	rel       string
	target    *c18nsTok
	res       rr
	delivered bool
	fired     bool
	opsSeen   int
	outcome   string
	headState string // state of the chain head before the attempt: alive dead unknown
}

func (a *c18nsAttempt) String() string {
	s := fmt.Sprintf("%s@%s/mode%d", a.Kind, c18nsPaths[a.Addr], a.Mode)
	switch a.Kind {
	case "unwrap-3p", "rewrap", "lookup":
		s += fmt.Sprintf(" tp=%s/%s", c18nsPaths[a.TpNS], []string{"with-policy", "without-policy", "anonymous"}[a.TpKind])
	}
	if a.Stale {
		s += " stale-target"
	}
	if a.CancelAt > 0 {
		s += fmt.Sprintf(" client-gone-at-op-%d(fired=%v,ops=%d)", a.CancelAt, a.fired, a.opsSeen)
	}
	if a.target != nil {
		s += fmt.Sprintf(" target=gen%d@%s", a.target.gen, c18nsPaths[a.target.ns])
	}
	return s + fmt.Sprintf(" [head %s] -> %s (%v)", a.headState, a.outcome, a.res)
}

var c18nsKindWeights = []string{"unwrap-self", "unwrap-self", "unwrap-3p", "unwrap-3p", "rewrap", "rewrap", "rewrap", "lookup", "lookup", "lookup",
	"revoke", "cubby-read", "misuse", "misuse", "repeat", "repeat"}

// storage operations of a request that runs to its end (measured): unwrap by the token itself 10, by a third party
// 21-26, rewrap by a third party about 40
var c18nsOps = map[string]int{"unwrap-self": 12, "unwrap-3p": 28, "rewrap": 44}

// c18nsSend issues one request addressed to namespace a.Addr in the way a.Mode says; with cancelAt > 0 the request
// context is cancelled when the goroutine serving the request performs its cancelAt-th storage operation.
func (e *c18nsEnv) send(a *c18nsAttempt, op logical.Operation, path, token string, data map[string]any) rr {
	base, p := e.ctx(a.Addr), path
	switch {
	case a.Mode == 1 || a.Mode == 2 && a.Addr != 2:
		base, p = e.tc.ctx, e.nss[a.Addr].Path+path
	case a.Mode == 2:
		base, p = e.ctx(1), "n2/"+path
	}
	req := &logical.Request{Operation: op, Path: p, ClientToken: token, Data: data}
	if a.CancelAt <= 0 {
		return e.tc.doCtx(base, req)
	}
	ctx, cancel := context.WithCancel(base)
	defer cancel()
	gone := make(chan struct{})
	stop := context.AfterFunc(ctx, func() { close(gone) })
	defer stop()
	gid := verifx.GoID()
	n := 0
	e.tc.rec.Gate = func(o *verifx.Op) {
		if o.G != gid {
			return
		}
		n++
		if n == a.CancelAt {
			a.fired = true
			cancel()
			// the server binds its own context to ours with context.AfterFunc, which runs in a goroutine of its own:
			// give the cancellation a moment to arrive there
			select {
			case <-gone:
			case <-time.After(50 * time.Millisecond):
			}
			for i := 0; i < 20; i++ {
				runtime.Gosched()
			}
			time.Sleep(4 * time.Millisecond)
		}
	}
	defer func() { e.tc.rec.Gate = nil }()
	out := e.tc.doCtx(ctx, req)
	e.tc.rec.Gate = nil
	a.opsSeen = n
	return out
}

func c18nsTTLSeconds(v any) (float64, bool) {
	switch x := v.(type) {
	case float64:
		return x, true
	case int64:
		return float64(x), true
	case int:
		return float64(x), true
	case json.Number:
		f, err := x.Float64()
		return f, err == nil
	}
	return 0, false
}

// probe: a read-only lookup of tok by the third party of its own namespace, addressed to that namespace.
func (e *c18nsEnv) probe(tok *c18nsTok) rr {
	return e.reqIn(tok.ns, logical.UpdateOperation, "sys/wrapping/lookup", e.tpWith[tok.ns], map[string]any{"token": tok.token})
}

func (e *c18nsEnv) newTok(wi *logical.Response, seq0 int64, gen int) *c18nsTok {
	t := &c18nsTok{token: wi.WrapInfo.Token, accessor: wi.WrapInfo.Accessor, gen: gen}
	// the namespace of a token is the suffix of its (inner) id
	inner := t.token
	if IsSSCToken(inner) {
		if dec, err := e.tc.c.DecodeSSCToken(inner); err == nil && dec != "" {
			inner = dec
		}
	}
	_, nsID := namespace.SplitIDFromString(inner)
	if nsID != "" {
		i, ok := e.byID[nsID]
		if !ok {
			e.t.Fatalf("harness: wrapping token with unknown namespace suffix %q", nsID)
		}
		t.ns = i
	}
	for _, o := range e.tc.rec.OpsSince(seq0) {
		if o.Kind == "put" && o.Err == nil && strings.Contains(o.Key, "logical/") && (strings.HasSuffix(o.Key, "/response") || strings.HasSuffix(o.Key, "/wrapinfo")) {
			t.cubbyKeys = append(t.cubbyKeys, o.Key)
		}
	}
	return t
}

// gone reports what is left of a token: lookup still answers, accessor still resolves, a cubbyhole key still stored.
func (e *c18nsEnv) left(tok *c18nsTok) (lookup, accessor bool, key string) {
	lr := e.probe(tok)
	ar := e.reqIn(tok.ns, logical.UpdateOperation, "auth/token/lookup-accessor", e.tc.root, map[string]any{"accessor": tok.accessor})
	for _, ck := range tok.cubbyKeys {
		if ent, err := e.tc.rec.Inner.Get(e.tc.ctx, ck); err == nil && ent != nil {
			key = ck
		}
	}
	return lr.ok() && lr.resp != nil && !lr.resp.IsError() && len(lr.resp.Data) > 0, ar.ok() && ar.resp != nil, key
}

func TestVerif_C18_Namespaces(t *testing.T) {
	rec := verifx.NewRecorder("C18", "namespaces", "core with namespaces n1/, n1/n2/ and s1/ (recording secrets backend rb/, credential backend ra/, policies and three kinds of tokens in each); a wrapped response (echo / leased secret / login / kv read / list) is requested in a generated namespace by a token of that namespace or of one above it (namespace by context, by path prefix or mixed); then 2-5 sequential attempts, each addressed to a generated namespace (same / ancestor / descendant / unrelated): unwrap with the token as client token, unwrap or rewrap or lookup with the token in the body under a third party of a generated namespace with / without a policy on sys/wrapping or without any client token, revoke-accessor, cubbyhole/response read, use on rb/echo in the addressed namespace, repeat of an earlier successful attempt on the same token; attempts aim at the head of the rewrap chain or at an earlier token of it; for at most one unwrap / rewrap the client goes away (request context cancelled) at the k-th storage operation of the request goroutine; a 1 s TTL lapse in a few cases; in 3 of 4 cases a read-only lookup after every attempt tells whether the token is still valid; afterwards the chain may be extended by rewraps, its head is redeemed in its own namespace and every token of the chain is tried again; oracle: wrap info only for the requester, token and stored payload in the namespace of the wrapped request; deliveries over the whole history <= 1, none from a spent or replaced token, none after the TTL; a token known to be valid delivers when it is presented as client token of sys/wrapping/unwrap (addressed to any namespace) or by a third party of its namespace with a policy, is rewrapped by such a third party, and is looked up in its own namespace; after delivery / successful revoke / successful rewrap / a use in its own namespace that spent it (client gone or not) the token is dead, its accessor does not resolve and its cubbyhole keys are gone from physical storage (bounded wait); the token never authorises rb/ in any namespace nor reaches the backend; every successful lookup and every rewrap reports the namespace-relative creation path and the TTL; what attempts from other namespaces answer and leave behind is recorded in classes only; non-trivial = an attempt addressed to or made from another namespace than the token's, a client-gone attempt whose cancellation fired, or a TTL lapse")
	defer rec.Flush()
	envs := map[bool]*c18nsEnv{}
	defer func() {
		for _, e := range envs {
			e.tc.shutdown()
		}
	}()
	rapid.Check(t, func(rt *rapid.T) {
		// ---- generate everything first: the draws never depend on what the server answered
		txn := rapid.Bool().Draw(rt, "transactionalStorage")
		source := c18Sources[fairIndex(rt, "source", 5)] // the sixth source (self-wrapping engine) belongs to the root unit
		canary := "CNRY" + rapid.StringMatching("[A-Za-z0-9]{20}").Draw(rt, "canary")
		w := fairIndex(rt, "wrapNS", len(c18nsPaths))
		var anc []int
		for i, p := range c18nsPaths {
			if strings.HasPrefix(c18nsPaths[w], p) {
				anc = append(anc, i)
			}
		}
		reqNS := anc[len(anc)-1-fairIndex(rt, "requesterNS", len(anc))%len(anc)]
		if rapid.Bool().Draw(rt, "requesterOfSameNS") {
			reqNS = w
		}
		wrapMode := fairIndex(rt, "wrapAddressing", 3)
		lapse := fairIndex(rt, "ttlLapse", 64) == 37 // not the value shrinking steers to
		probing := fairIndex(rt, "probeAfterEveryAttempt", 4) != 0
		k := 2 + fairIndex(rt, "attempts", 4)
		atts := make([]*c18nsAttempt, k)
		cancelIdx := -1
		if fairIndex(rt, "clientGone", 5) < 2 {
			// mostly the first attempt: later ones usually meet a token that is spent already
			cancelIdx = 0
			if fairIndex(rt, "clientGoneLater", 3) == 0 {
				cancelIdx = fairIndex(rt, "clientGoneAttempt", k)
			}
		}
		for i := range atts {
			a := &c18nsAttempt{Kind: c18nsKindWeights[fairIndex(rt, fmt.Sprintf("kind%d", i), len(c18nsKindWeights))]}
			// half of the attempts go to the wrap's namespace, the others anywhere
			a.Addr = w
			if x := fairIndex(rt, "addrNS", 2*len(c18nsPaths)); x < len(c18nsPaths) {
				a.Addr = x
			}
			a.Mode = fairIndex(rt, "addressing", 3)
			a.TpNS = w
			if x := fairIndex(rt, "thirdPartyNS", 2*len(c18nsPaths)); x < len(c18nsPaths) {
				a.TpNS = x
			}
			a.TpKind = []int{0, 0, 0, 0, 1, 2}[fairIndex(rt, "thirdPartyKind", 6)]
			a.Stale = fairIndex(rt, "staleTarget", 4) == 0
			if i == cancelIdx {
				// a redeeming attempt, so that there is something to cut off
				a.Kind = []string{"unwrap-self", "unwrap-3p", "rewrap", "unwrap-3p"}[fairIndex(rt, "clientGoneKind", 4)]
				a.CancelAt = 1 + fairIndex(rt, "clientGoneAtOp", 48)%c18nsOps[a.Kind]
				if fairIndex(rt, "clientGoneSameNS", 3) > 0 {
					// mostly in the setting in which the attempt would otherwise succeed
					a.Addr, a.TpNS, a.TpKind, a.Stale = w, w, 0, false
				}
			}
			atts[i] = a
		}
		furtherRewraps := fairIndex(rt, "furtherRewraps", 3)

		// ---- run
		if envs[txn] == nil || envs[txn].n >= 25 {
			if envs[txn] != nil {
				envs[txn].tc.shutdown()
			}
			envs[txn] = newC18nsEnv(t, txn)
		}
		e := envs[txn]
		e.n++
		tc := e.tc
		wrapTTL := 5 * time.Minute
		if lapse {
			wrapTTL = time.Second
		}
		relPath := ""
		var creq *logical.Request
		switch source {
		case "echo":
			relPath = "rb/echo/w"
			creq = &logical.Request{Operation: logical.UpdateOperation, ClientToken: e.user[reqNS], Data: map[string]any{"marker": canary}}
		case "secret":
			relPath = "rb/creds/w"
			creq = &logical.Request{Operation: logical.UpdateOperation, ClientToken: e.user[reqNS], Data: map[string]any{"marker": canary}}
		case "login":
			relPath = "auth/ra/login"
			creq = &logical.Request{Operation: logical.UpdateOperation, Data: map[string]any{"marker": canary}}
		case "kvread":
			relPath = "rb/kv/wrapped"
			tc.mustOK(e.reqIn(w, logical.UpdateOperation, relPath, tc.root, map[string]any{"v": canary}), "seed")
			creq = &logical.Request{Operation: logical.ReadOperation, ClientToken: e.user[reqNS]}
		case "list":
			relPath = fmt.Sprintf("rb/kv/lst%d/", e.n)
			tc.mustOK(e.reqIn(w, logical.UpdateOperation, relPath+canary, tc.root, map[string]any{"v": "x"}), "seed")
			creq = &logical.Request{Operation: logical.ListOperation, ClientToken: e.user[reqNS]}
		}
		creq.WrapInfo = &logical.RequestWrapInfo{TTL: wrapTTL}
		// the wrapped request is addressed relative to the requester's namespace or from the root
		cctx := e.ctx(w)
		creq.Path = relPath
		switch wrapMode {
		case 1:
			cctx, creq.Path = tc.ctx, c18nsPaths[w]+relPath
		case 2:
			cctx, creq.Path = e.ctx(reqNS), strings.TrimPrefix(c18nsPaths[w], c18nsPaths[reqNS])+relPath
		}
		seq0 := tc.rec.Seq()
		cres := tc.doCtx(cctx, creq)
		if !cres.ok() || cres.resp == nil || cres.resp.WrapInfo == nil || cres.resp.WrapInfo.Token == "" {
			t.Fatalf("harness: wrapping request %s in %q (requester of %q, addressing %d) failed: %v", relPath, c18nsPaths[w], c18nsPaths[reqNS], wrapMode, cres)
		}
		orig := e.newTok(cres.resp, seq0, 0)
		chain := []*c18nsTok{orig}
		head := orig
		var hist []string
		describe := func() map[string]any {
			return map[string]any{"source": source, "transactional": txn, "wrap_namespace": c18nsPaths[w], "requester_namespace": c18nsPaths[reqNS],
				"wrap_addressing": wrapMode, "ttl_lapse": lapse, "probing": probing, "history": hist, "stored_payload_keys": orig.cubbyKeys}
		}
		if orig.ns != w {
			rec.Violation(rt, "wrapping-token-in-wrong-namespace", describe(), "the wrapped request was served in %q but the wrapping token carries the namespace of %q", c18nsPaths[w], c18nsPaths[orig.ns])
		}
		if len(orig.cubbyKeys) == 0 {
			t.Fatalf("harness: no stored payload key seen for the wrapping token")
		}
		if w != 0 {
			for _, ck := range orig.cubbyKeys {
				if !strings.HasPrefix(ck, "namespaces/"+e.nss[w].UUID+"/") {
					rec.Violation(rt, "payload-stored-outside-namespace", describe(), "the payload of a wrapping token of %q is stored under %q", c18nsPaths[w], ck)
				}
			}
		}
		if containsCanary(cres.resp, canary) {
			rec.Violation(rt, "payload-returned-to-requester", describe(), "the response to the original requester contains the wrapped payload")
		}
		if cp := cres.resp.WrapInfo.CreationPath; cp != relPath {
			rec.Violation(rt, "wrapinfo-wrong-path", describe(), "the wrap info reports creation_path %q, the wrapped request was %q in %q", cp, relPath, c18nsPaths[w])
		}
		checkLookup := func(lr rr, what string) {
			cp, _ := lr.resp.Data["creation_path"].(string)
			if cp != relPath {
				rec.Violation(rt, "lookup-wrong-path:namespaces", describe(), "%s reports creation_path %q, the wrapped request was %q (namespace %q)", what, cp, relPath, c18nsPaths[w])
			}
			if ttl, ok := c18nsTTLSeconds(lr.resp.Data["creation_ttl"]); !ok || ttl != wrapTTL.Seconds() {
				rec.Violation(rt, "lookup-wrong-ttl:namespaces", describe(), "%s reports creation_ttl %v, requested %v s", what, lr.resp.Data["creation_ttl"], wrapTTL.Seconds())
			}
		}
		// lookup before use, in the token's namespace: creation path and TTL
		if lr := e.probe(orig); !lr.ok() || lr.resp == nil || len(lr.resp.Data) == 0 {
			rec.Violation(rt, "lookup-failed:namespaces", describe(), "sys/wrapping/lookup of a fresh wrapping token in its own namespace %q failed: %v", c18nsPaths[w], lr)
		} else {
			checkLookup(lr, "lookup of the fresh token")
		}
		headState := "alive"
		if lapse {
			time.Sleep(2500 * time.Millisecond)
			headState = "dead"
		}
		deliveries := 0
		nontrivial := lapse
		refresh := func() {
			if headState == "unknown" && probing {
				if lr := e.probe(head); lr.ok() && lr.resp != nil && len(lr.resp.Data) > 0 {
					headState = "alive"
				} else {
					headState = "dead"
				}
			}
		}
		run := func(a *c18nsAttempt) {
			a.target = head
			if a.Stale && len(chain) > 1 {
				a.target = chain[(len(chain)-2+a.Addr)%(len(chain)-1)]
			}
			if a.force != nil {
				a.target = a.force
			}
			tgt := a.target
			isHead := tgt == head
			a.headState = headState
			a.rel = e.rel(tgt.ns, a.Addr)
			tp := ""
			switch a.TpKind {
			case 0:
				tp = e.tpWith[a.TpNS]
			case 1:
				tp = e.tpWithout[a.TpNS]
			}
			kind := a.Kind
			before := e.hub.callCount()
			seq := tc.rec.Seq()
			switch kind {
			case "unwrap-self":
				a.res = e.send(a, logical.UpdateOperation, "sys/wrapping/unwrap", tgt.token, nil)
			case "unwrap-3p":
				a.res = e.send(a, logical.UpdateOperation, "sys/wrapping/unwrap", tp, map[string]any{"token": tgt.token})
			case "rewrap":
				a.res = e.send(a, logical.UpdateOperation, "sys/wrapping/rewrap", tp, map[string]any{"token": tgt.token})
			case "lookup":
				a.res = e.send(a, logical.UpdateOperation, "sys/wrapping/lookup", tp, map[string]any{"token": tgt.token})
			case "revoke":
				a.res = e.send(a, logical.UpdateOperation, "auth/token/revoke-accessor", tc.root, map[string]any{"accessor": tgt.accessor})
			case "cubby-read":
				a.res = e.send(a, logical.ReadOperation, "cubbyhole/response", tgt.token, nil)
			case "misuse":
				a.res = e.send(a, logical.ReadOperation, "rb/echo/misuse", tgt.token, nil)
			}
			ok := a.res.ok() && a.res.resp != nil
			a.delivered = a.res.resp != nil && containsCanary(a.res.resp, canary)
			a.outcome = "refused"
			if a.res.ok() {
				a.outcome = "ok"
			}
			if a.res.err != nil && strings.Contains(a.res.err.Error(), "PANIC") {
				a.outcome = "panic"
			}
			clientGone := a.CancelAt > 0 && a.fired
			if a.rel != "same" || (kind == "unwrap-3p" || kind == "rewrap" || kind == "lookup") && a.TpKind != 2 && a.TpNS != tgt.ns || clientGone {
				nontrivial = true
			}
			var newTok *c18nsTok
			switch {
			case a.delivered:
				a.outcome = "delivered"
				deliveries++
				if tgt.spent != "" || !isHead {
					hist = append(hist, a.String())
					rec.Violation(rt, "payload-delivered-by-spent-token", describe(), "a wrapping token that was already %s (or replaced by a rewrap) delivered the payload", tgt.spent)
				}
				tgt.spent = "delivered"
			case kind == "rewrap" && ok && a.res.resp.WrapInfo != nil && a.res.resp.WrapInfo.Token != "":
				a.outcome = "rewrapped"
				newTok = e.newTok(a.res.resp, seq, len(chain))
				if tgt.spent != "" || !isHead {
					hist = append(hist, a.String())
					rec.Violation(rt, "spent-token-rewrapped", describe(), "a wrapping token that was already %s (or replaced by a rewrap) could be rewrapped", tgt.spent)
				}
				tgt.spent = "rewrapped"
				if cp := a.res.resp.WrapInfo.CreationPath; cp != relPath {
					hist = append(hist, a.String())
					rec.Violation(rt, "lookup-wrong-path:after-rewrap:namespaces", describe(), "the wrap info returned by a rewrap reports creation_path %q, the wrapped request was %q", cp, relPath)
				}
			case kind == "revoke" && a.res.ok() && (a.res.resp == nil || len(a.res.resp.Warnings) == 0):
				a.outcome = "revoked"
				if tgt.spent == "" {
					tgt.spent = "revoked"
				}
			case kind == "lookup" && ok && len(a.res.resp.Data) > 0:
				a.outcome = "looked-up"
			}
			if kind == "misuse" && (a.res.ok() || e.hub.callCount() != before) {
				a.outcome = "AUTHORISED"
			}
			if a.res.resp != nil && kind == "rewrap" && containsCanary(a.res.resp, canary) {
				a.outcome = "delivered-by-rewrap"
			}
			hist = append(hist, a.String())
			if !a.post {
				rec.Class(fmt.Sprintf("attempt:%s:%s:%s", kind, a.rel, a.outcome), 1)
			}
			if a.CancelAt > 0 {
				rec.Class(fmt.Sprintf("client-gone:%s:fired=%v:%s", kind, a.fired, a.outcome), 1)
				if !a.fired {
					rec.Class(fmt.Sprintf("client-gone-ops:%s:%s:%d", kind, a.outcome, a.opsSeen), 1)
				}
			}
			switch a.outcome {
			case "panic":
				rec.Violation(rt, "panic:namespaces", describe(), "attempt panicked: %v", a.res.err)
			case "AUTHORISED":
				rec.Violation(rt, "wrapping-token-grants-other-path:namespaces", describe(), "a request on rb/echo in %q with a wrapping token of %q succeeded or reached the backend (ok=%v)", c18nsPaths[a.Addr], c18nsPaths[tgt.ns], a.res.ok())
			case "delivered-by-rewrap":
				rec.Violation(rt, "payload-returned-by-rewrap", describe(), "the response of sys/wrapping/rewrap contains the payload")
			case "looked-up":
				checkLookup(a.res, "a lookup addressed to "+c18nsPaths[a.Addr])
				if tgt.spent != "" {
					rec.Violation(rt, "spent-token-looked-up", describe(), "lookup of a wrapping token that was already %s succeeded", tgt.spent)
				}
			}
			if lapse && a.delivered {
				rec.Violation(rt, "payload-delivered-after-ttl:namespaces", describe(), "the wrapped payload was delivered after the wrap TTL had elapsed")
			}
			// the clearly valid redemptions of a token known to be valid, the client staying: (a) the token itself on
			// sys/wrapping/unwrap - in its own namespace (docs), and addressed to any other namespace ("Wrapping tokens
			// ... should be able to be used anywhere", request_handling.go fetchACLTokenEntryAndEntity; "Route the token
			// wrapping request to its respective sys NS", handleCancelableRequest); (b) a third party of the token's
			// namespace that may use sys/wrapping/unwrap (rewrap) there, addressed to that namespace
			if isHead && a.CancelAt == 0 && a.headState == "alive" && !a.delivered {
				switch {
				case kind == "unwrap-self" && a.rel == "same":
					rec.Violation(rt, "valid-unwrap-refused:namespaces", describe(), "a valid wrapping token of %q was refused in its own namespace: %v", c18nsPaths[tgt.ns], a.res)
				case kind == "unwrap-self":
					rec.Violation(rt, "valid-unwrap-refused:other-namespace", describe(), "a valid wrapping token of %q, presented as the client token of sys/wrapping/unwrap addressed to %q, was refused: %v", c18nsPaths[tgt.ns], c18nsPaths[a.Addr], a.res)
				case kind == "unwrap-3p" && a.rel == "same" && a.TpKind == 0 && a.TpNS == tgt.ns:
					rec.Violation(rt, "valid-third-party-unwrap-refused:namespaces", describe(), "a valid wrapping token of %q was refused when a third party of that namespace with a policy on sys/wrapping/unwrap passed it in the body: %v", c18nsPaths[tgt.ns], a.res)
				case kind == "rewrap" && a.outcome != "rewrapped" && a.rel == "same" && a.TpKind == 0 && a.TpNS == tgt.ns:
					rec.Violation(rt, "valid-rewrap-refused:namespaces", describe(), "a valid wrapping token of %q could not be rewrapped by a third party of that namespace with a policy on sys/wrapping/rewrap: %v", c18nsPaths[tgt.ns], a.res)
				case kind == "lookup" && a.outcome != "looked-up" && a.rel == "same" && (a.TpKind == 2 || a.TpNS == tgt.ns):
					rec.Violation(rt, "lookup-failed:namespaces", describe(), "lookup of a valid wrapping token of %q in its own namespace failed: %v", c18nsPaths[tgt.ns], a.res)
				}
			}
			// effect on the head's state
			if isHead {
				switch {
				case a.delivered, a.outcome == "revoked":
					headState = "dead"
				case a.outcome == "rewrapped":
					chain = append(chain, newTok)
					head = newTok
					headState = "alive"
					if lr := e.probe(newTok); !lr.ok() || lr.resp == nil || len(lr.resp.Data) == 0 {
						rec.Violation(rt, "lookup-failed:after-rewrap:namespaces", describe(), "lookup of a freshly rewrapped token (namespace %q) in its own namespace failed: %v", c18nsPaths[newTok.ns], lr)
					} else {
						checkLookup(lr, "lookup of a freshly rewrapped token")
					}
				case kind == "lookup" && !clientGone:
					// read-only
				case headState == "dead":
				default:
					headState = "unknown"
					refresh()
					if a.headState == "alive" && headState == "dead" {
						tgt.killer = a
					}
				}
			}
			// the behaviour table: what an attempt on a token known to be valid answers, by namespace relation
			if a.headState == "alive" && isHead && a.CancelAt == 0 && !a.post {
				tpc := ""
				if kind == "unwrap-3p" || kind == "rewrap" || kind == "lookup" {
					tpc = ":tp-" + []string{"with-policy", "without-policy", "anonymous"}[a.TpKind]
					if a.TpKind != 2 {
						tpc += "-of-" + e.rel(tgt.ns, a.TpNS)
					}
				}
				after := ""
				if a.outcome == "refused" && probing {
					after = ":token-then-" + headState
				}
				rec.Class(fmt.Sprintf("valid-token:%s:addressed-%s%s:%s%s", kind, a.rel, tpc, a.outcome, after), 1)
			}
		}
		ownNS := func(a *c18nsAttempt) bool {
			if a.rel != "same" {
				return false
			}
			switch a.Kind {
			case "unwrap-3p", "rewrap", "lookup":
				return a.TpKind == 2 || a.TpNS == a.target.ns
			}
			return true
		}
		for i, a := range atts {
			if a.Kind == "repeat" {
				// an earlier successful attempt again, on the very token it used (the previous attempt if none succeeded)
				var src *c18nsAttempt
				for j := i - 1; j >= 0; j-- {
					if atts[j].res.ok() && atts[j].CancelAt == 0 {
						src = atts[j]
						break
					}
				}
				if src == nil && i > 0 {
					src = atts[i-1]
				}
				if src == nil {
					a.Kind = "unwrap-self"
				} else {
					*a = c18nsAttempt{Kind: src.Kind, Addr: src.Addr, Mode: src.Mode, TpNS: src.TpNS, TpKind: src.TpKind, force: src.target}
					rec.Class("repeat:"+src.Kind+":of-"+src.outcome, 1)
				}
			}
			run(a)
		}
		// ---- the right may travel further along the chain; then the head is redeemed in its own namespace
		for hop := 0; hop < furtherRewraps && head.spent == "" && !lapse; hop++ {
			a := &c18nsAttempt{Kind: "rewrap", Addr: head.ns, TpNS: head.ns, post: true}
			run(a)
			if a.outcome != "rewrapped" {
				break
			}
			rec.Class("rewrap-chain-hop", 1)
		}
		refresh()
		final := &c18nsAttempt{Kind: "unwrap-self", Addr: head.ns, post: true}
		run(final)
		// every token of the chain once more, by a third party of its namespace and by itself
		for _, tk := range chain {
			for _, a := range []*c18nsAttempt{{Kind: "unwrap-3p", Addr: tk.ns, TpNS: tk.ns, force: tk, post: true}, {Kind: "unwrap-self", Addr: tk.ns, force: tk, post: true}} {
				run(a)
			}
		}
		d := describe()
		d["deliveries"] = deliveries
		seqEnd := tc.rec.Seq()
		if deliveries > 1 {
			rec.Violation(rt, "payload-delivered-more-than-once:namespaces", d, "the wrapped payload was delivered %d times", deliveries)
		}
		// ---- afterwards: what was delivered, revoked or rewrapped is gone; everything else is dead at least
		for _, tk := range chain {
			why := tk.spent
			if why == "" {
				why = "expired"
			}
			if tk.spent == "" && !lapse {
				// not delivered, revoked or rewrapped. A token whose single use was spent by a request made in its own
				// namespace (as client token, or in the body under a third party of that namespace) is revoked like any
				// exhausted token, whether or not the client waited for the answer (cf. /repo 2605f92). What a request
				// from another namespace leaves behind is not promised: observed only.
				lk, acc, key := e.left(tk)
				switch {
				case lk:
					rec.Violation(rt, "token-alive-after-final-redemption", d, "the generation-%d wrapping token still answers lookup after the final redemption attempts", tk.gen)
					continue
				case tk.killer != nil && ownNS(tk.killer):
					why = "spent without delivery by " + tk.killer.Kind
				default:
					for i := 0; i < 25 && (acc || key != ""); i++ {
						// a revocation may still be on its way
						time.Sleep(3 * time.Millisecond)
						_, acc, key = e.left(tk)
					}
					if acc || key != "" {
						cause := "unknown-attempt"
						if tk.killer != nil {
							cause = tk.killer.Kind + ":addressed-" + tk.killer.rel
						}
						rec.Class("observation:spent-without-delivery-and-stays-in-storage:by-"+cause, 1)
					}
					continue
				}
			}
			wait := 10 * time.Second
			for _, a := range atts {
				if a.CancelAt > 0 && a.fired && a.target == tk {
					// a revocation that the departed client's context cut off is not retried by anything: do not wait long
					wait = 2 * time.Second
				}
			}
			deadline := time.Now().Add(wait)
			for {
				lk, acc, key := e.left(tk)
				if !lk && !acc && key == "" {
					break
				}
				if time.Now().After(deadline) {
					if lapse {
						rec.Class("inconclusive-expiry-wait", 1)
						break
					}
					var all []string
					for _, o := range tc.rec.OpsSince(seq0) {
						// the history itself (not the polling afterwards); reads only when they failed
						if o.Seq <= seqEnd && (o.Kind != "get" || o.Err != nil) && len(all) < 100 {
							all = append(all, fmt.Sprintf("g%d %s %s tx%d err=%v", o.G, o.Kind, verifx.Trunc(o.Key, 90), o.Tx, o.Err))
						}
					}
					d["all_storage_ops"] = all
					sig := "wrapping-token-remains:namespaces"
					for _, a := range atts {
						if a.CancelAt > 0 && a.fired && a.target == tk {
							sig = "wrapping-token-remains:client-gone:" + a.Kind
						}
					}
					if tk.spent == "" {
						sig += ":undelivered"
					}
					rec.Violation(rt, sig, d, "the generation-%d wrapping token of %q was %s, but afterwards: lookup ok=%v, accessor resolves=%v, stored cubbyhole key %q", tk.gen, c18nsPaths[tk.ns], why, lk, acc, key)
					break
				}
				time.Sleep(3 * time.Millisecond)
			}
		}
		// the dead token is refused in every namespace, and authorises nothing there
		for _, tk := range chain {
			for ns := range e.nss {
				before := e.hub.callCount()
				mr := e.reqIn(ns, logical.ReadOperation, "rb/echo/after", tk.token, nil)
				if mr.ok() || e.hub.callCount() != before {
					rec.Violation(rt, "wrapping-token-grants-other-path:namespaces", d, "after the history the generation-%d token is accepted on rb/echo in %q", tk.gen, c18nsPaths[ns])
				}
				if ns == tk.ns {
					continue
				}
				ur := e.reqIn(ns, logical.UpdateOperation, "sys/wrapping/unwrap", tk.token, nil)
				if ur.resp != nil && containsCanary(ur.resp, canary) {
					rec.Violation(rt, "payload-delivered-more-than-once:namespaces", d, "after the history the generation-%d token still delivers the payload in %q", tk.gen, c18nsPaths[ns])
				}
			}
		}
		kinds := make([]string, len(atts))
		crossNS, gone := false, false
		for i, a := range atts {
			kinds[i] = fmt.Sprintf("%s/%s/%d/%d/%d/%v/%d", a.Kind, a.rel, a.Mode, a.TpNS, a.TpKind, a.Stale, a.CancelAt)
			if a.rel != "same" {
				crossNS = true
			}
			if a.CancelAt > 0 && a.fired {
				gone = true
			}
		}
		cls := fmt.Sprintf("wrap@%s:%s", c18nsPaths[w], source)
		switch {
		case lapse:
			cls += ":ttl-lapse"
		case gone:
			cls += ":client-gone"
		case crossNS:
			cls += ":cross-namespace"
		}
		rec.Class(fmt.Sprintf("deliveries=%d", deliveries), 1)
		rec.Case(cls, nontrivial, verifx.Digest(source, w, reqNS, wrapMode, lapse, kinds), func() any { return d })
	})
}
