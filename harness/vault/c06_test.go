//go:build verif

package vault

import (
	"context"
	"fmt"
	"sort"
	"strings"
	"testing"
	"time"

	"github.com/openbao/openbao/sdk/v2/helper/verifx"
	"github.com/openbao/openbao/sdk/v2/logical"
	"github.com/openbao/openbao/v2/internal/helper/namespace"
	"pgregory.net/rapid"
)

const c06Policy = `
path "rb/*" { capabilities = ["create","read","update","delete","list"] }
path "ns1/rb/*" { capabilities = ["create","read","update","delete","list"] }
path "auth/token/create" { capabilities = ["update"] }
path "auth/token/create/*" { capabilities = ["update"] }
`

type c06World struct {
	ns1    *namespace.Namespace
	nsTok  string // token of the child namespace
	t      *testing.T
	tc     *tcore
	hub    *recHub
	parent string // service token with policy c06
	limTok string // use-limited token (num_uses 5)
	batchTok string // non-orphan batch token, child of parent
}

func c06Opts(hub *recHub, transactional bool) coreOpts {
	return coreOpts{transactional: transactional, cacheOff: true,
		logical:    map[string]logical.Factory{"recbe": hub.factory("recbe", logical.TypeLogical)},
		credential: map[string]logical.Factory{"recauth": hub.factory("recauth", logical.TypeCredential)}}
}

func newC06World(t *testing.T, transactional bool) *c06World {
	hub := newRecHub()
	tc := mustBoot(t, c06Opts(hub, transactional))
	hub.physSeq = tc.rec.Seq
	tc.mount("rb", "recbe", nil)
	tc.enableAuth("ra", "recauth")
	tc.writePolicy("c06", c06Policy)
	tc.mustOK(tc.req(logical.UpdateOperation, "auth/token/roles/r1", tc.root, map[string]any{"allowed_policies": "default,c06", "orphan": true, "token_period": "0"}), "role")
	// a role whose tokens (and their leases) live under a path suffix
	tc.mustOK(tc.req(logical.UpdateOperation, "auth/token/roles/r2", tc.root, map[string]any{"allowed_policies": "default,c06", "orphan": true, "path_suffix": "batch-jobs"}), "role with path suffix")
	w := &c06World{t: t, tc: tc, hub: hub}
	var r rr
	w.parent, _, r = tc.createToken(tc.root, map[string]any{"policies": []string{"default", "c06"}, "ttl": "1h"})
	if w.parent == "" {
		t.Fatalf("harness: %v", r)
	}
	w.limTok, _, r = tc.createToken(tc.root, map[string]any{"policies": []string{"default", "c06"}, "ttl": "1h", "num_uses": 50})
	if w.limTok == "" {
		t.Fatalf("harness: %v", r)
	}
	// a non-orphan batch token: its leases are indexed under (and die with) its parent
	w.batchTok, _, r = tc.createToken(w.parent, map[string]any{"policies": []string{"default", "c06"}, "ttl": "30m", "type": "batch"})
	if w.batchTok == "" {
		t.Fatalf("harness: batch token: %v", r)
	}
	// a child namespace with its own mount at the same path (rb/) as the root namespace
	tc.mustOK(tc.req(logical.UpdateOperation, "sys/namespaces/ns1", tc.root, nil), "namespace")
	ns, err := tc.c.namespaceStore.GetNamespaceByPath(tc.ctx, "ns1/")
	if err != nil || ns == nil {
		t.Fatalf("harness: namespace: %v", err)
	}
	w.ns1 = ns
	nsCtx := namespace.ContextWithNamespace(context.Background(), ns)
	tc.mustOK(tc.doCtx(nsCtx, &logical.Request{Operation: logical.UpdateOperation, Path: "sys/mounts/rb", ClientToken: tc.root, Data: map[string]any{"type": "recbe"}}), "ns mount")
	tc.mustOK(tc.doCtx(nsCtx, &logical.Request{Operation: logical.UpdateOperation, Path: "sys/policy/c06", ClientToken: tc.root, Data: map[string]any{"policy": c06Policy}}), "ns policy")
	tr := tc.doCtx(nsCtx, &logical.Request{Operation: logical.UpdateOperation, Path: "auth/token/create", ClientToken: tc.root, Data: map[string]any{"policies": []string{"default", "c06"}, "ttl": "1h"}})
	if !tr.ok() || tr.resp == nil || tr.resp.Auth == nil {
		t.Fatalf("harness: ns token: %v", tr)
	}
	w.nsTok = tr.resp.Auth.ClientToken
	return w
}

func (w *c06World) fork() *c06World {
	n, err := w.tc.restartOn(w.tc.rec.Fork(w.tc.opts.transactional))
	if err != nil {
		w.t.Fatalf("harness: fork: %v", err)
	}
	w.hub.physSeq = n.rec.Seq
	// secrets issued on another copy of the store are not this copy's concern
	w.hub.mu.Lock()
	w.hub.issued, w.hub.revoked = map[string]bool{}, map[string]int{}
	w.hub.mu.Unlock()
	w.hub.mu.Lock()
	w.hub.misrouted = nil
	w.hub.mu.Unlock()
	return &c06World{t: w.t, tc: n, hub: w.hub, parent: w.parent, limTok: w.limTok, batchTok: w.batchTok, ns1: w.ns1, nsTok: w.nsTok}
}

var c06Kinds = []string{"secret", "secret-odd-path", "secret-batch-child", "secret-in-namespace", "secret-in-namespace-parent-token", "secret-wrapped", "secret-uselimited", "login", "login-wrapped", "create", "create-role", "create-role-path-suffix", "create-orphan", "create-wrapped"}

func (w *c06World) request(kind string) rr { return w.requestCtx(kind, w.tc.ctx) }

// requestCtx issues the request under the given parent context (a cancellable one models a client that goes away).
func (w *c06World) requestCtx(kind string, base context.Context) rr {
	tc := &ctxCore{tcore: w.tc, base: base}
	wrap := func(req *logical.Request) *logical.Request {
		req.WrapInfo = &logical.RequestWrapInfo{TTL: 5 * time.Minute}
		return req
	}
	switch kind {
	case "secret":
		return tc.do(&logical.Request{Operation: logical.ReadOperation, Path: "rb/creds/a", ClientToken: w.parent})
	case "secret-odd-path":
		// a valid, routable path with consecutive dots inside its segments (not a relative path) and other oddities
		return tc.do(&logical.Request{Operation: logical.ReadOperation, Path: "rb/creds/svc..backup/eu..1/a b/ü", ClientToken: w.parent})
	case "secret-batch-child":
		return tc.do(&logical.Request{Operation: logical.ReadOperation, Path: "rb/creds/a", ClientToken: w.batchTok})
	case "secret-in-namespace":
		return tc.doCtx(namespace.ContextWithNamespace(base, w.ns1), &logical.Request{Operation: logical.ReadOperation, Path: "rb/creds/a", ClientToken: w.nsTok})
	case "secret-in-namespace-parent-token":
		// a token of the parent (root) namespace takes a secret from a mount of the child namespace
		return tc.doCtx(namespace.ContextWithNamespace(base, w.ns1), &logical.Request{Operation: logical.ReadOperation, Path: "rb/creds/a", ClientToken: w.parent})
	case "secret-wrapped":
		return tc.do(wrap(&logical.Request{Operation: logical.ReadOperation, Path: "rb/creds/a", ClientToken: w.parent}))
	case "secret-uselimited":
		return tc.do(&logical.Request{Operation: logical.ReadOperation, Path: "rb/creds/a", ClientToken: w.limTok})
	case "login":
		return tc.do(&logical.Request{Operation: logical.UpdateOperation, Path: "auth/ra/login", Data: map[string]any{"user": "u"}})
	case "login-wrapped":
		return tc.do(wrap(&logical.Request{Operation: logical.UpdateOperation, Path: "auth/ra/login", Data: map[string]any{"user": "u"}}))
	case "create":
		return tc.do(&logical.Request{Operation: logical.UpdateOperation, Path: "auth/token/create", ClientToken: w.parent, Data: map[string]any{"ttl": "20m"}})
	case "create-role":
		return tc.do(&logical.Request{Operation: logical.UpdateOperation, Path: "auth/token/create/r1", ClientToken: w.parent, Data: map[string]any{"ttl": "20m", "policies": []string{"c06"}}})
	case "create-role-path-suffix":
		return tc.do(&logical.Request{Operation: logical.UpdateOperation, Path: "auth/token/create/r2", ClientToken: w.parent, Data: map[string]any{"ttl": "20m", "policies": []string{"c06"}}})
	case "create-orphan":
		return tc.do(&logical.Request{Operation: logical.UpdateOperation, Path: "auth/token/create-orphan", ClientToken: tc.root, Data: map[string]any{"ttl": "20m", "policies": []string{"c06"}}})
	case "create-wrapped":
		return tc.do(wrap(&logical.Request{Operation: logical.UpdateOperation, Path: "auth/token/create", ClientToken: w.parent, Data: map[string]any{"ttl": "20m"}}))
	}
	panic(kind)
}

// ctxCore issues requests under a given parent context instead of the core's background context.
type ctxCore struct {
	*tcore
	base context.Context
}

func (c *ctxCore) do(req *logical.Request) rr { return c.tcore.doCtx(c.base, req) }

// keysUnder lists all physical keys below prefix directly from the store.
func sortedKeys(m map[string]bool) []string {
	out := make([]string, 0, len(m))
	for k := range m {
		out = append(out, k)
	}
	sort.Strings(out)
	return out
}

func (w *c06World) keysUnder(prefix string) map[string]bool {
	all, err := verifx.Dump(w.tc.ctx, w.tc.rec.Inner)
	if err != nil {
		w.t.Fatalf("harness: dump: %v", err)
	}
	out := map[string]bool{}
	for k := range all {
		if strings.HasPrefix(k, prefix) {
			out[k] = true
		}
	}
	return out
}

// invariant checks what must hold after any request, faulted or not:
//   - every token entry in storage that is usable has a lease (non-expiring root tokens excepted);
//   - lease records and token-index records are mutually consistent for the tokens of this world;
//   - every secret the recording backend issued is revoked there or covered by a stored lease.
func (w *c06World) invariant(tokensBefore map[string]bool) (string, string) {
	ctx := namespace.RootContext(w.tc.ctx)
	ts := w.tc.c.tokenStore
	exp := w.tc.c.expiration
	for _, k := range sortedKeys(w.keysUnder("sys/token/id/")) {
		salted := strings.TrimPrefix(k, "sys/token/id/")
		te, err := ts.lookupInternal(ctx, salted, true, false)
		if err != nil || te == nil {
			continue
		}
		isNew := !tokensBefore[k]
		rootNoExpiry := te.TTL == 0 && len(te.Policies) == 1 && te.Policies[0] == "root"
		if rootNoExpiry {
			continue
		}
		usable := w.tc.tokenAlive(te.ID)
		le, err := exp.FetchLeaseTimesByToken(ctx, te)
		if err != nil {
			continue
		}
		if usable && le == nil {
			return "usable-token-without-lease", fmt.Sprintf("token entry %s (new=%v, path %s) is usable but has no lease record", verifx.Trunc(salted, 12), isNew, te.Path)
		}
		// token index -> lease entries
		ids, err := exp.lookupLeasesByToken(ctx, te)
		if err != nil {
			continue
		}
		for _, id := range ids {
			lctx := ctx
			if w.ns1 != nil && strings.HasSuffix(id, "."+w.ns1.ID) {
				// the lease lives in the child namespace (its id carries that namespace's suffix)
				lctx = namespace.ContextWithNamespace(context.Background(), w.ns1)
			}
			l, err := exp.loadEntry(lctx, id)
			if err == nil && l == nil {
				return "index-without-lease", fmt.Sprintf("token index of %s names lease %s which has no lease record", verifx.Trunc(salted, 12), id)
			}
		}
	}
	// lease entries of secrets -> index, and secrets -> leases
	covered := map[string]bool{}
	for _, k := range sortedKeys(w.keysUnder("sys/expire/id/rb/")) {
		leaseID := strings.TrimPrefix(k, "sys/expire/id/")
		l, err := exp.loadEntry(ctx, leaseID)
		if err != nil || l == nil {
			continue
		}
		if l.Secret != nil {
			if id, _ := l.Secret.InternalData["id"].(string); id != "" {
				covered[id] = true
			}
		}
		if l.ClientToken != "" && l.ClientTokenType != logical.TokenTypeBatch {
			te, err := ts.Lookup(ctx, l.ClientToken)
			if err != nil || te == nil {
				continue
			}
			ids, err := exp.lookupLeasesByToken(ctx, te)
			if err != nil {
				continue
			}
			found := false
			for _, id := range ids {
				if id == leaseID {
					found = true
				}
			}
			if !found {
				return "lease-without-index", fmt.Sprintf("lease record %s has no token index entry", leaseID)
			}
		}
	}
	// leases of the child namespace live below its own storage prefix
	if w.ns1 != nil {
		nsPfx := "namespaces/" + w.ns1.UUID + "/sys/expire/id/"
		nsCtx := namespace.ContextWithNamespace(context.Background(), w.ns1)
		for _, k := range sortedKeys(w.keysUnder(nsPfx + "rb/")) {
			l, err := exp.loadEntry(nsCtx, strings.TrimPrefix(k, nsPfx))
			if err != nil || l == nil {
				continue
			}
			if l.Secret != nil {
				if id, _ := l.Secret.InternalData["id"].(string); id != "" {
					covered[id] = true
				}
			}
			// the index entry lives with the TOKEN (which may belong to the parent namespace), where the revocation of
			// the token looks for it
			if l.ClientToken != "" && l.ClientTokenType != logical.TokenTypeBatch {
				te, err := ts.Lookup(ctx, l.ClientToken)
				if err != nil || te == nil {
					continue
				}
				ids, err := exp.lookupLeasesByToken(ctx, te)
				if err != nil {
					continue
				}
				found := false
				for _, id := range ids {
					if id == l.LeaseID {
						found = true
					}
				}
				if !found {
					return "lease-without-index", fmt.Sprintf("lease record %s (child namespace, token of namespace %q) has no entry in its token's lease index: %v", l.LeaseID, te.NamespaceID, ids)
				}
			}
		}
	}
	w.hub.mu.Lock()
	if len(w.hub.misrouted) > 0 {
		m := w.hub.misrouted[0]
		w.hub.mu.Unlock()
		return "revocation-routed-to-wrong-backend", "the rollback revocation of a generated secret was delivered to another backend instance: " + m
	}
	var orphan []string
	for id := range w.hub.issued {
		if w.hub.revoked[id] == 0 && !covered[id] {
			orphan = append(orphan, id)
		}
	}
	w.hub.mu.Unlock()
	sort.Strings(orphan)
	if len(orphan) > 0 {
		return "secret-without-lease-not-revoked", fmt.Sprintf("secret(s) %v were generated by the backend, are not revoked there and no lease record covers them", orphan)
	}
	return "", ""
}

func TestVerif_C06_LeaseFaults(t *testing.T) {
	rec := verifx.NewRecorder("C06", "lease-faults", "request shapes {leased secret (plain / response-wrapped / with a use-limited token), login through a recording credential backend (plain / wrapped), auth/token/create (plain / role / create-orphan / wrapped)}; dry run counts the storage operations n of the request; for every k<=n (quick: up to 16 evenly spread) the k-th storage operation of the request goroutine fails once on a fresh copy; oracle: a handed-out secret has lease + token index, a handed-out token is usable and leased; after an error no usable token lacks a lease, no partial lease/index records, every generated secret is revoked at the backend or covered by a lease; also crash after every prefix of the request's writes followed by restart; for the secret-generating shapes also 'the client goes away': the request context is cancelled when the k-th storage operation starts (that and all later operations under the request context fail, and the recording backend refuses a revocation that arrives with a cancelled context) - there only 'every generated secret is revoked at the backend or covered by a lease record' and 'no usable token without lease' are asserted; non-trivial = the fault (or crash) fell after the first write of the request or after the backend had produced the secret/auth")
	defer rec.Flush()
	rapid.Check(t, func(rt *rapid.T) {
		txn := rapid.Bool().Draw(rt, "transactionalStorage")
		phase := rapid.IntRange(0, 7).Draw(rt, "phase")
		// every request shape is enumerated in every case; rapid only varies the storage flavour and which
		// fault positions are sampled when the quick tier thins them
		for _, kind := range c06Kinds {
			c06RunKind(t, rt, rec, txn, kind, phase)
		}
	})
}

func c06RunKind(t *testing.T, rt *rapid.T, rec *verifx.Recorder, txn bool, kind string, phase int) {
	{
		base := newC06World(t, txn)
		defer func() { base.tc.shutdown() }()
		// dry run
		dry := base.fork()
		tokensBefore := dry.keysUnder("sys/token/id/")
		seq0, mut0 := dry.tc.rec.Seq(), dry.tc.rec.MutationCount()
		g := verifx.GoID()
		r := dry.request(kind)
		nOps := 0
		for _, o := range dry.tc.rec.OpsSince(seq0) {
			if o.G == g {
				nOps++
			}
		}
		nMut := dry.tc.rec.MutationCount() - mut0
		dryRec := dry.tc.rec
		if !r.ok() {
			// a request refused without any fault: whatever the reason, nothing generated may be left behind
			if sig, msg := dry.invariant(tokensBefore); sig != "" {
				dry.tc.shutdown()
				rec.Violation(rt, sig+":request-refused-without-fault", map[string]any{"kind": kind, "answer": r.String()}, "the request %s failed without any fault (%v) and: %s", kind, r, msg)
				return
			}
			dry.tc.shutdown()
			if kind != "secret-odd-path" {
				t.Fatalf("harness: fault-free request %s failed: %v", kind, r)
			}
			rec.Class("odd-path-refused-cleanly", 1)
			return
		}
		if sig, msg := c06Outcome(dry, kind, r); sig != "" {
			dry.tc.shutdown()
			rec.Violation(rt, sig+":no-fault", map[string]any{"kind": kind}, "%s", msg)
			return
		}
		if sig, msg := dry.invariant(tokensBefore); sig != "" {
			dry.tc.shutdown()
			rec.Violation(rt, sig+":no-fault", map[string]any{"kind": kind}, "%s", msg)
			return
		}
		dry.tc.shutdown()

		for _, k := range pickKsPhase(nOps, verifx.Scale(16, 1<<30), phase) {
			w := base.fork()
			func() {
				defer func() { w.tc.shutdown() }()
				f, fired := verifx.FailNth(func(o *verifx.Op) bool { return o.G == g }, k)
				seqStart := w.tc.rec.Seq()
				callsBefore := len(w.hub.handlerCalls())
				w.tc.rec.SetFault(f)
				res := w.request(kind)
				w.tc.rec.SetFault(nil)
				hit := fired()
				what, afterWrite, afterBackend := "none", false, false
				if hit != nil {
					what = hit.Kind + " " + keyClass(hit.Key)
					for _, o := range w.tc.rec.OpsSince(seqStart) {
						if o.Seq < hit.Seq && o.Err == nil && (o.Kind == "put" || o.Kind == "delete") {
							afterWrite = true
						}
					}
					for _, c := range w.hub.handlerCalls()[callsBefore:] {
						if !c.Revoke && c.Enter <= hit.Seq {
							afterBackend = true
						}
					}
				}
				var oplog []string
				for _, o := range w.tc.rec.OpsSince(seqStart) {
					if len(oplog) < 120 {
						e := ""
						if o.Err != nil {
							e = " ERR"
						}
						oplog = append(oplog, fmt.Sprintf("%s %s%s", o.Kind, keyClass(o.Key), e))
					}
				}
				detail := map[string]any{"request": kind, "fault_at_op": k, "of_ops": nOps, "failed_op": what, "result": res.String(), "transactional": txn, "storage_ops": oplog}
				rec.Case(kind+":fault", afterWrite || afterBackend, verifx.Digest(kind, txn, k, what), func() any { return detail })
				if afterBackend {
					rec.Class("fault-after-backend-produced", 1)
				}
				if res.ok() {
					if sig, msg := c06Outcome(w, kind, res); sig != "" {
						rec.Violation(rt, sig+":after-fault", detail, "%s (request %s, fault at storage operation %d/%d = %s)", msg, kind, k, nOps, what)
						return
					}
				} else if res.resp != nil && (res.resp.Secret != nil && res.resp.Secret.LeaseID != "" || res.resp.Auth != nil && res.resp.Auth.ClientToken != "") {
					rec.Class("error-with-credentials-in-response", 1)
				}
				// rollback of the generated secret runs synchronously in the request; give a queued revocation a moment
				var sig, msg string
				for i := 0; i < 200; i++ {
					sig, msg = w.invariant(tokensBefore)
					if sig != "secret-without-lease-not-revoked" {
						break
					}
					time.Sleep(5 * time.Millisecond)
				}
				if sig != "" {
					rec.Violation(rt, sig+":after-fault", detail, "%s (request %s returned %v, fault at storage operation %d/%d = %s)", msg, kind, res, k, nOps, what)
				}
			}()
		}
		// the client goes away: the request context is cancelled when the k-th storage operation starts (that operation
		// and everything else that honours the context then fails, including a backend revocation that is handed the
		// request context); only for the shapes that generate a secret at a backend
		if strings.HasPrefix(kind, "secret") {
			for _, k := range pickKsPhase(nOps, verifx.Scale(8, 1<<30), phase+3) {
				w := base.fork()
				func() {
					defer func() { w.tc.shutdown() }()
					cctx, cancel := context.WithCancel(w.tc.ctx)
					defer cancel()
					n := 0
					var hit *verifx.Op
					w.tc.rec.SetFault(func(o *verifx.Op) error {
						if o.G != g {
							return nil
						}
						n++
						if n == k {
							hit = o
							cancel()
						}
						if n >= k && cctx.Err() != nil {
							return context.Canceled
						}
						return nil
					})
					w.hub.mu.Lock()
					w.hub.honourCtx = true
					w.hub.mu.Unlock()
					callsBefore := len(w.hub.handlerCalls())
					res := w.requestCtx(kind, cctx)
					w.tc.rec.SetFault(nil)
					w.hub.mu.Lock()
					w.hub.honourCtx = false
					w.hub.mu.Unlock()
					what, afterBackend := "none", false
					if hit != nil {
						what = hit.Kind + " " + keyClass(hit.Key)
						for _, c := range w.hub.handlerCalls()[callsBefore:] {
							if !c.Revoke && c.Enter <= hit.Seq {
								afterBackend = true
							}
						}
					}
					detail := map[string]any{"request": kind, "context_cancelled_at_op": k, "of_ops": nOps, "op": what, "result": res.String(), "transactional": txn}
					rec.Case(kind+":cancel", afterBackend, verifx.Digest(kind, txn, "cancel", k, what), func() any { return detail })
					if res.ok() {
						if sig, msg := c06Outcome(w, kind, res); sig != "" {
							rec.Violation(rt, sig+":after-cancel", detail, "%s (request %s, context cancelled at storage operation %d/%d = %s)", msg, kind, k, nOps, what)
							return
						}
					}
					var sig, msg string
					for i := 0; i < 200; i++ {
						sig, msg = w.invariant(tokensBefore)
						if sig != "secret-without-lease-not-revoked" {
							break
						}
						time.Sleep(5 * time.Millisecond)
					}
					// With the request context gone every later storage operation under that context fails too, so the
					// removal of a half-written lease record cannot be demanded here (that is more than one failing
					// operation); what must still hold is that nothing generated stays alive untracked and no usable
					// token lacks a lease.
					if sig == "secret-without-lease-not-revoked" || sig == "usable-token-without-lease" || sig == "revocation-routed-to-wrong-backend" {
						rec.Violation(rt, sig+":after-cancel", detail, "%s (request %s returned %v, request context cancelled at storage operation %d/%d = %s)", msg, kind, res, k, nOps, what)
					}
				}()
			}
		}
		// crash prefixes of the fault-free request
		for _, k := range pickKs(nMut-1, verifx.Scale(6, 1<<30)) {
			n, err := base.tc.restartOn(dryRec.ForkAt(mut0+k, txn))
			if err != nil {
				rec.Violation(rt, "crash-prefix-unbootable", map[string]any{"request": kind, "k": k}, "core does not start on the store after %d of %d writes of %s: %v", k, nMut, kind, err)
				continue
			}
			w := &c06World{t: t, tc: n, hub: newRecHub(), parent: base.parent, limTok: base.limTok, batchTok: base.batchTok}
			func() {
				defer func() { w.tc.shutdown() }()
				detail := map[string]any{"request": kind, "crash_after_writes": k, "of_writes": nMut, "last_write": dryRec.MutationKeys(mut0 + k - 1), "transactional": txn}
				rec.Case(kind+":crash", true, verifx.Digest(kind, txn, "crash", k), func() any { return detail })
				// nothing was handed out before the crash, so only "no usable token without a lease" is claimed:
				// a lease record whose index write was cut off by the crash is still tracked to expiry
				if sig, msg := w.invariant(tokensBefore); sig == "usable-token-without-lease" {
					rec.Violation(rt, sig+":after-crash", detail, "%s (crash after %d/%d writes of %s, then restart)", msg, k, nMut, kind)
				}
			}()
		}
	}
}

// pickKsPhase is pickKs with the sampled positions shifted by phase (so different cases sample different k).
func pickKsPhase(n, max, phase int) []int {
	if n <= max {
		return pickKs(n, max)
	}
	seen := map[int]bool{}
	var out []int
	for _, k := range pickKs(n, max) {
		k2 := k + phase
		if k == 1 || k == n || k2 > n {
			k2 = k
		}
		if !seen[k2] {
			seen[k2] = true
			out = append(out, k2)
		}
	}
	return out
}

// c06Outcome checks what must hold when the client received the credentials.
func c06Outcome(w *c06World, kind string, r rr) (string, string) {
	ctx := namespace.RootContext(w.tc.ctx)
	if strings.HasPrefix(kind, "secret-in-namespace") {
		ctx = namespace.ContextWithNamespace(context.Background(), w.ns1)
	}
	exp := w.tc.c.expiration
	resp := r.resp
	if resp == nil {
		return "", ""
	}
	if resp.WrapInfo != nil {
		// the wrapping token itself must be leased and usable for unwrap: covered by the invariant (usable => lease)
		return "", ""
	}
	if resp.Secret != nil && resp.Secret.LeaseID != "" {
		le, err := exp.loadEntry(ctx, resp.Secret.LeaseID)
		if err != nil {
			return "", ""
		}
		if le == nil {
			return "secret-without-lease", fmt.Sprintf("client received a secret with lease id %s but no lease record exists", resp.Secret.LeaseID)
		}
		te, err := w.tc.c.tokenStore.Lookup(ctx, le.ClientToken)
		if err == nil && te != nil && te.Type == logical.TokenTypeBatch && te.Parent != "" {
			// the lease of a non-orphan batch token is indexed under its parent
			te, err = w.tc.c.tokenStore.Lookup(ctx, te.Parent)
		}
		if err == nil && te != nil {
			ids, _ := exp.lookupLeasesByToken(ctx, te)
			found := false
			for _, id := range ids {
				if id == resp.Secret.LeaseID {
					found = true
				}
			}
			if !found {
				return "secret-without-index", fmt.Sprintf("client received a secret with lease id %s but the token index entry is missing", resp.Secret.LeaseID)
			}
		}
	}
	if resp.Auth != nil && resp.Auth.ClientToken != "" && resp.Auth.TokenType != logical.TokenTypeBatch {
		if !w.tc.tokenAlive(resp.Auth.ClientToken) {
			return "token-handed-out-unusable", "client received a service token that is not usable"
		}
		te, err := w.tc.c.tokenStore.Lookup(ctx, resp.Auth.ClientToken)
		if err == nil && te != nil {
			le, err := exp.FetchLeaseTimesByToken(ctx, te)
			if err == nil && le == nil {
				return "token-without-lease", "client received a service token without a lease record"
			}
		}
	}
	return "", ""
}
