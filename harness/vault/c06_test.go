//go:build verif

package vault

import (
	"context"
	"fmt"
	"os"
	"sort"
	"strings"
	"testing"
	"time"

	"github.com/openbao/openbao/sdk/v2/helper/verifx"
	"github.com/openbao/openbao/sdk/v2/logical"
	"github.com/openbao/openbao/v2/internal/helper/namespace"
	"pgregory.net/rapid"
)

const c06Policy = `
path "rb/*" { capabilities = ["create","read","update","delete","list"] }
path "ns1/rb/*" { capabilities = ["create","read","update","delete","list"] }
path "auth/token/create" { capabilities = ["update"] }
path "auth/token/create/*" { capabilities = ["update"] }
path "auth/token/lookup-self" { capabilities = ["read"] }
`

type c06World struct {
	ns1    *namespace.Namespace
	nsTok  string // token of the child namespace
	t      *testing.T
	tc     *tcore
	hub    *recHub
	parent string // service token with policy c06
	limTok string // use-limited token (num_uses 5)
	batchTok string // non-orphan batch token, child of parent
	lat      *c06Lat // latency layer below the recording backend (forks only)
	random   *c06Shape // the token shape drawn for this case ("create-random")
	neverExpiring bool // the token of the last "usable-token-without-lease" verdict of invariant() is a root token that never expires
	lastUnleased  string // id of that token
}

func c06Opts(hub *recHub, transactional bool) coreOpts {
	return coreOpts{transactional: transactional, cacheOff: true,
		logical:    map[string]logical.Factory{"recbe": hub.factory("recbe", logical.TypeLogical)},
		credential: map[string]logical.Factory{"recauth": hub.factory("recauth", logical.TypeCredential)}}
}

func newC06World(t *testing.T, transactional bool) *c06World {
	hub := newRecHub()
	hub.loginAuth = c06LoginAuth
	tc := mustBoot(t, c06Opts(hub, transactional))
	hub.physSeq = tc.rec.Seq
	tc.mount("rb", "recbe", nil)
	tc.enableAuth("ra", "recauth")
	tc.writePolicy("c06", c06Policy)
	tc.mustOK(tc.req(logical.UpdateOperation, "auth/token/roles/r1", tc.root, map[string]any{"allowed_policies": "default,c06", "orphan": true, "token_period": "0"}), "role")
	// a role whose tokens (and their leases) live under a path suffix
	tc.mustOK(tc.req(logical.UpdateOperation, "auth/token/roles/r2", tc.root, map[string]any{"allowed_policies": "default,c06", "orphan": true, "path_suffix": "batch-jobs"}), "role with path suffix")
	w := &c06World{t: t, tc: tc, hub: hub}
	var r rr
	w.parent, _, r = tc.createToken(tc.root, map[string]any{"policies": []string{"default", "c06"}, "ttl": "1h"})
	if w.parent == "" {
		t.Fatalf("harness: %v", r)
	}
	w.limTok, _, r = tc.createToken(tc.root, map[string]any{"policies": []string{"default", "c06"}, "ttl": "1h", "num_uses": 50})
	if w.limTok == "" {
		t.Fatalf("harness: %v", r)
	}
	// a non-orphan batch token: its leases are indexed under (and die with) its parent
	w.batchTok, _, r = tc.createToken(w.parent, map[string]any{"policies": []string{"default", "c06"}, "ttl": "30m", "type": "batch"})
	if w.batchTok == "" {
		t.Fatalf("harness: batch token: %v", r)
	}
	// a child namespace with its own mount at the same path (rb/) as the root namespace
	tc.mustOK(tc.req(logical.UpdateOperation, "sys/namespaces/ns1", tc.root, nil), "namespace")
	ns, err := tc.c.namespaceStore.GetNamespaceByPath(tc.ctx, "ns1/")
	if err != nil || ns == nil {
		t.Fatalf("harness: namespace: %v", err)
	}
	w.ns1 = ns
	nsCtx := namespace.ContextWithNamespace(context.Background(), ns)
	tc.mustOK(tc.doCtx(nsCtx, &logical.Request{Operation: logical.UpdateOperation, Path: "sys/mounts/rb", ClientToken: tc.root, Data: map[string]any{"type": "recbe"}}), "ns mount")
	tc.mustOK(tc.doCtx(nsCtx, &logical.Request{Operation: logical.UpdateOperation, Path: "sys/policy/c06", ClientToken: tc.root, Data: map[string]any{"policy": c06Policy}}), "ns policy")
	tr := tc.doCtx(nsCtx, &logical.Request{Operation: logical.UpdateOperation, Path: "auth/token/create", ClientToken: tc.root, Data: map[string]any{"policies": []string{"default", "c06"}, "ttl": "1h"}})
	if !tr.ok() || tr.resp == nil || tr.resp.Auth == nil {
		t.Fatalf("harness: ns token: %v", tr)
	}
	w.nsTok = tr.resp.Auth.ClientToken
	return w
}

func (w *c06World) fork() *c06World {
	nb := w.tc.rec.Fork(w.tc.opts.transactional)
	lat := c06InstallLat(nb)
	n, err := w.tc.restartOn(nb)
	if err != nil {
		w.t.Fatalf("harness: fork: %v", err)
	}
	// the leases are restored in the background after the unseal: the request starts on a quiet core
	n.quiesceRestore()
	w.hub.physSeq = n.rec.Seq
	// secrets issued on another copy of the store are not this copy's concern
	w.hub.mu.Lock()
	w.hub.issued, w.hub.revoked = map[string]bool{}, map[string]int{}
	w.hub.misrouted = nil
	w.hub.mu.Unlock()
	return &c06World{t: w.t, tc: n, hub: w.hub, parent: w.parent, limTok: w.limTok, batchTok: w.batchTok, ns1: w.ns1, nsTok: w.nsTok, lat: lat, random: w.random}
}

// c06LoginAuth: what the recording credential backend answers to a login, by the "shape" the login asks for.
func c06LoginAuth(req *logical.Request) *logical.Auth {
	switch req.Data["shape"] {
	case "periodic":
		return &logical.Auth{Policies: []string{"default"}, Period: time.Hour, LeaseOptions: logical.LeaseOptions{TTL: time.Hour, Renewable: true}, DisplayName: "rec"}
	case "num-uses":
		return &logical.Auth{Policies: []string{"default"}, NumUses: 3, ExplicitMaxTTL: 2 * time.Hour, LeaseOptions: logical.LeaseOptions{TTL: time.Hour, Renewable: true}, DisplayName: "rec"}
	}
	return nil
}

// c06Shape is one shape of a token creation: who asks (the root token; the service token "parent" with the policies
// default+c06; the token of the child namespace), at which endpoint, with which parameters.
type c06Shape struct {
	Creator string // "root" | "parent" | "ns" (the child namespace's token, in the child namespace) | "root-in-ns" (the root token, in the child namespace)
	Path    string
	Data    map[string]any
	Wrap    bool
}

func (s c06Shape) String() string { return fmt.Sprintf("%s %s %v wrap=%v", s.Creator, s.Path, s.Data, s.Wrap) }

// The token shapes that every case enumerates. Root-policy tokens without a ttl never expire (their lease record has
// no expiry time; a lookup accepts them even without a lease), all others expire.
var c06ShapeKinds = []string{"create-root-nonexpiring", "create-root-ttl", "create-orphan-root-nonexpiring", "create-root-no-parent-nonexpiring",
	"create-root-explicit-max", "create-periodic", "create-orphan-periodic", "create-explicit-max-num-uses", "create-no-default-policy", "create-in-namespace", "create-root-in-namespace"}

var c06TokenShapes = map[string]c06Shape{
	"create-root-nonexpiring":           {Creator: "root", Path: "auth/token/create", Data: map[string]any{"policies": []string{"root"}}},
	"create-root-ttl":                   {Creator: "root", Path: "auth/token/create", Data: map[string]any{"policies": []string{"root"}, "ttl": "20m"}},
	"create-orphan-root-nonexpiring":    {Creator: "root", Path: "auth/token/create-orphan", Data: map[string]any{"policies": []string{"root"}}},
	"create-root-no-parent-nonexpiring": {Creator: "root", Path: "auth/token/create", Data: map[string]any{"policies": []string{"root"}, "no_parent": true, "display_name": "ops"}},
	"create-root-explicit-max":          {Creator: "root", Path: "auth/token/create", Data: map[string]any{"policies": []string{"root"}, "explicit_max_ttl": "1h"}},
	"create-periodic":                   {Creator: "root", Path: "auth/token/create", Data: map[string]any{"policies": []string{"c06"}, "period": "1h"}},
	"create-orphan-periodic":            {Creator: "root", Path: "auth/token/create-orphan", Data: map[string]any{"policies": []string{"default"}, "period": "30m", "ttl": "10m"}},
	"create-explicit-max-num-uses":      {Creator: "parent", Path: "auth/token/create", Data: map[string]any{"ttl": "20m", "explicit_max_ttl": "1h", "num_uses": 3}},
	"create-no-default-policy":          {Creator: "parent", Path: "auth/token/create", Data: map[string]any{"policies": []string{"c06"}, "no_default_policy": true, "renewable": false}},
	"create-in-namespace":               {Creator: "ns", Path: "auth/token/create", Data: map[string]any{"ttl": "20m"}},
	"create-root-in-namespace":          {Creator: "root-in-ns", Path: "auth/token/create", Data: map[string]any{"policies": []string{"default"}, "ttl": "20m"}},
}

// c06DrawShape composes a token shape from the parameter space; only combinations the token store accepts: a non-root
// creator asks for a subset of its own policies, and only the root token uses create-orphan, no_parent, period and the
// root policy; a role decides orphanhood, period and the admissible policies itself.
func c06DrawShape(rt *rapid.T) *c06Shape {
	s := &c06Shape{Creator: "parent", Path: "auth/token/create", Data: map[string]any{}}
	byRoot := rapid.Bool().Draw(rt, "shapeByRoot")
	if byRoot {
		s.Creator = "root"
	}
	switch ep := fairIndex(rt, "shapeEndpoint", 3); {
	case ep == 1 && byRoot:
		s.Path = "auth/token/create-orphan"
	case ep == 2:
		s.Path = "auth/token/create/r1"
	}
	role := strings.HasPrefix(s.Path, "auth/token/create/")
	pols := [][]string{nil, {"c06"}, {"default"}, {"default", "c06"}, {"root"}}
	pi := fairIndex(rt, "shapePolicies", len(pols))
	if pols[pi] != nil && (pi != 4 || (byRoot && !role)) {
		s.Data["policies"] = pols[pi]
	} else if role {
		s.Data["policies"] = []string{"c06"}
	}
	if rapid.Bool().Draw(rt, "shapeTTL") {
		s.Data["ttl"] = []string{"20m", "45s", "3h"}[fairIndex(rt, "shapeTTLValue", 3)]
	}
	if rapid.Bool().Draw(rt, "shapeExplicitMax") {
		s.Data["explicit_max_ttl"] = "4h"
	}
	if byRoot && !role && fairIndex(rt, "shapePeriod", 3) == 0 {
		s.Data["period"] = "1h"
	}
	if fairIndex(rt, "shapeNumUses", 3) == 0 {
		s.Data["num_uses"] = 2
	}
	if byRoot && !role && fairIndex(rt, "shapeNoParent", 3) == 0 {
		s.Data["no_parent"] = true
	}
	if rapid.Bool().Draw(rt, "shapeNoDefault") {
		s.Data["no_default_policy"] = true
	}
	if fairIndex(rt, "shapeWrap", 4) == 0 {
		s.Wrap = true
	}
	return s
}

func (w *c06World) requestShape(base context.Context, s c06Shape) rr {
	tc := &ctxCore{tcore: w.tc, base: base}
	data := map[string]any{}
	for k, v := range s.Data {
		data[k] = v
	}
	req := &logical.Request{Operation: logical.UpdateOperation, Path: s.Path, Data: data}
	if s.Wrap {
		req.WrapInfo = &logical.RequestWrapInfo{TTL: 5 * time.Minute}
	}
	switch s.Creator {
	case "root":
		req.ClientToken = w.tc.root
	case "parent":
		req.ClientToken = w.parent
	case "ns":
		req.ClientToken = w.nsTok
		return tc.doCtx(namespace.ContextWithNamespace(base, w.ns1), req)
	case "root-in-ns":
		req.ClientToken = w.tc.root
		return tc.doCtx(namespace.ContextWithNamespace(base, w.ns1), req)
	}
	return tc.do(req)
}

var c06Kinds = []string{"secret", "secret-odd-path", "secret-batch-child", "secret-in-namespace", "secret-in-namespace-parent-token", "secret-wrapped", "secret-uselimited", "login", "login-wrapped", "login-periodic", "login-num-uses", "create", "create-role", "create-role-path-suffix", "create-orphan", "create-wrapped"}

func (w *c06World) request(kind string) rr { return w.requestCtx(kind, w.tc.ctx) }

// requestCtx issues the request under the given parent context (a cancellable one models a client that goes away).
func (w *c06World) requestCtx(kind string, base context.Context) rr {
	if s, ok := c06TokenShapes[kind]; ok {
		return w.requestShape(base, s)
	}
	if kind == "create-random" {
		return w.requestShape(base, *w.random)
	}
	tc := &ctxCore{tcore: w.tc, base: base}
	wrap := func(req *logical.Request) *logical.Request {
		req.WrapInfo = &logical.RequestWrapInfo{TTL: 5 * time.Minute}
		return req
	}
	switch kind {
	case "secret":
		return tc.do(&logical.Request{Operation: logical.ReadOperation, Path: "rb/creds/a", ClientToken: w.parent})
	case "secret-odd-path":
		// a valid, routable path with consecutive dots inside its segments (not a relative path) and other oddities
		return tc.do(&logical.Request{Operation: logical.ReadOperation, Path: "rb/creds/svc..backup/eu..1/a b/ü", ClientToken: w.parent})
	case "secret-batch-child":
		return tc.do(&logical.Request{Operation: logical.ReadOperation, Path: "rb/creds/a", ClientToken: w.batchTok})
	case "secret-in-namespace":
		return tc.doCtx(namespace.ContextWithNamespace(base, w.ns1), &logical.Request{Operation: logical.ReadOperation, Path: "rb/creds/a", ClientToken: w.nsTok})
	case "secret-in-namespace-parent-token":
		// a token of the parent (root) namespace takes a secret from a mount of the child namespace
		return tc.doCtx(namespace.ContextWithNamespace(base, w.ns1), &logical.Request{Operation: logical.ReadOperation, Path: "rb/creds/a", ClientToken: w.parent})
	case "secret-wrapped":
		return tc.do(wrap(&logical.Request{Operation: logical.ReadOperation, Path: "rb/creds/a", ClientToken: w.parent}))
	case "secret-uselimited":
		return tc.do(&logical.Request{Operation: logical.ReadOperation, Path: "rb/creds/a", ClientToken: w.limTok})
	case "login":
		return tc.do(&logical.Request{Operation: logical.UpdateOperation, Path: "auth/ra/login", Data: map[string]any{"user": "u"}})
	case "login-periodic":
		return tc.do(&logical.Request{Operation: logical.UpdateOperation, Path: "auth/ra/login", Data: map[string]any{"user": "u", "shape": "periodic"}})
	case "login-num-uses":
		return tc.do(&logical.Request{Operation: logical.UpdateOperation, Path: "auth/ra/login", Data: map[string]any{"user": "u", "shape": "num-uses"}})
	case "login-wrapped":
		return tc.do(wrap(&logical.Request{Operation: logical.UpdateOperation, Path: "auth/ra/login", Data: map[string]any{"user": "u"}}))
	case "create":
		return tc.do(&logical.Request{Operation: logical.UpdateOperation, Path: "auth/token/create", ClientToken: w.parent, Data: map[string]any{"ttl": "20m"}})
	case "create-role":
		return tc.do(&logical.Request{Operation: logical.UpdateOperation, Path: "auth/token/create/r1", ClientToken: w.parent, Data: map[string]any{"ttl": "20m", "policies": []string{"c06"}}})
	case "create-role-path-suffix":
		return tc.do(&logical.Request{Operation: logical.UpdateOperation, Path: "auth/token/create/r2", ClientToken: w.parent, Data: map[string]any{"ttl": "20m", "policies": []string{"c06"}}})
	case "create-orphan":
		return tc.do(&logical.Request{Operation: logical.UpdateOperation, Path: "auth/token/create-orphan", ClientToken: tc.root, Data: map[string]any{"ttl": "20m", "policies": []string{"c06"}}})
	case "create-wrapped":
		return tc.do(wrap(&logical.Request{Operation: logical.UpdateOperation, Path: "auth/token/create", ClientToken: w.parent, Data: map[string]any{"ttl": "20m"}}))
	}
	panic(kind)
}

// ctxCore issues requests under a given parent context instead of the core's background context.
type ctxCore struct {
	*tcore
	base context.Context
}

func (c *ctxCore) do(req *logical.Request) rr { return c.tcore.doCtx(c.base, req) }

// keysUnder lists all physical keys below prefix directly from the store.
func sortedKeys(m map[string]bool) []string {
	out := make([]string, 0, len(m))
	for k := range m {
		out = append(out, k)
	}
	sort.Strings(out)
	return out
}

func (w *c06World) keysUnder(prefix string) map[string]bool {
	all, err := verifx.Dump(w.tc.ctx, w.tc.rec.Inner)
	if err != nil {
		w.t.Fatalf("harness: dump: %v", err)
	}
	out := map[string]bool{}
	for k := range all {
		if strings.HasPrefix(k, prefix) {
			out[k] = true
		}
	}
	return out
}

// invariant checks what must hold after any request, faulted or not:
//   - every token entry in storage that is usable has a lease (non-expiring root tokens excepted);
//   - lease records and token-index records are mutually consistent for the tokens of this world;
//   - every secret the recording backend issued is revoked there or covered by a stored lease.
func (w *c06World) invariant(tokensBefore map[string]bool) (string, string) {
	ctx := namespace.RootContext(w.tc.ctx)
	ts := w.tc.c.tokenStore
	exp := w.tc.c.expiration
	for _, k := range sortedKeys(w.keysUnder("sys/token/id/")) {
		salted := strings.TrimPrefix(k, "sys/token/id/")
		te, err := ts.lookupInternal(ctx, salted, true, false)
		if err != nil || te == nil {
			continue
		}
		isNew := !tokensBefore[k]
		rootNoExpiry := te.TTL == 0 && len(te.Policies) == 1 && te.Policies[0] == "root"
		if rootNoExpiry && !isNew {
			// a root token that never expires need not have a lease (the one made at initialisation has none); one that
			// a request of this case created has a lease record like every other created token
			continue
		}
		usable := w.alive(te)
		le, err := exp.FetchLeaseTimesByToken(ctx, te)
		if err != nil {
			continue
		}
		if usable && le == nil {
			w.neverExpiring, w.lastUnleased = rootNoExpiry, te.ID
			return "usable-token-without-lease", fmt.Sprintf("token entry %s (new=%v, path %s) is usable but has no lease record", verifx.Trunc(salted, 12), isNew, te.Path)
		}
		// token index -> lease entries
		ids, err := exp.lookupLeasesByToken(ctx, te)
		if err != nil {
			continue
		}
		for _, id := range ids {
			lctx := ctx
			if w.ns1 != nil && strings.HasSuffix(id, "."+w.ns1.ID) {
				// the lease lives in the child namespace (its id carries that namespace's suffix)
				lctx = namespace.ContextWithNamespace(context.Background(), w.ns1)
			}
			l, err := exp.loadEntry(lctx, id)
			if err == nil && l == nil {
				return "index-without-lease", fmt.Sprintf("token index of %s names lease %s which has no lease record", verifx.Trunc(salted, 12), id)
			}
		}
	}
	// lease entries of secrets -> index, and secrets -> leases
	covered := map[string]bool{}
	for _, k := range sortedKeys(w.keysUnder("sys/expire/id/rb/")) {
		leaseID := strings.TrimPrefix(k, "sys/expire/id/")
		l, err := exp.loadEntry(ctx, leaseID)
		if err != nil || l == nil {
			continue
		}
		if l.Secret != nil {
			if id, _ := l.Secret.InternalData["id"].(string); id != "" {
				covered[id] = true
			}
		}
		if l.Auth == nil && l.ClientToken != "" && l.ClientTokenType != logical.TokenTypeBatch { // the lease of a token (Auth) has no index entry
			te, err := ts.Lookup(ctx, l.ClientToken)
			if err != nil || te == nil {
				continue
			}
			ids, err := exp.lookupLeasesByToken(ctx, te)
			if err != nil {
				continue
			}
			found := false
			for _, id := range ids {
				if id == leaseID {
					found = true
				}
			}
			if !found {
				return "lease-without-index", fmt.Sprintf("lease record %s has no token index entry", leaseID)
			}
		}
	}
	// leases of the child namespace live below its own storage prefix
	if w.ns1 != nil {
		nsPfx := "namespaces/" + w.ns1.UUID + "/sys/expire/id/"
		nsCtx := namespace.ContextWithNamespace(context.Background(), w.ns1)
		for _, k := range sortedKeys(w.keysUnder(nsPfx + "rb/")) {
			l, err := exp.loadEntry(nsCtx, strings.TrimPrefix(k, nsPfx))
			if err != nil || l == nil {
				continue
			}
			if l.Secret != nil {
				if id, _ := l.Secret.InternalData["id"].(string); id != "" {
					covered[id] = true
				}
			}
			// the index entry lives with the TOKEN (which may belong to the parent namespace), where the revocation of
			// the token looks for it
			if l.Auth == nil && l.ClientToken != "" && l.ClientTokenType != logical.TokenTypeBatch { // the lease of a token (Auth) has no index entry
				te, err := ts.Lookup(ctx, l.ClientToken)
				if err != nil || te == nil {
					continue
				}
				ids, err := exp.lookupLeasesByToken(ctx, te)
				if err != nil {
					continue
				}
				found := false
				for _, id := range ids {
					if id == l.LeaseID {
						found = true
					}
				}
				if !found {
					return "lease-without-index", fmt.Sprintf("lease record %s (child namespace, token of namespace %q) has no entry in its token's lease index: %v", l.LeaseID, te.NamespaceID, ids)
				}
			}
		}
	}
	w.hub.mu.Lock()
	if len(w.hub.misrouted) > 0 {
		m := w.hub.misrouted[0]
		w.hub.mu.Unlock()
		return "revocation-routed-to-wrong-backend", "the rollback revocation of a generated secret was delivered to another backend instance: " + m
	}
	var orphan []string
	for id := range w.hub.issued {
		if w.hub.revoked[id] == 0 && !covered[id] {
			orphan = append(orphan, id)
		}
	}
	w.hub.mu.Unlock()
	sort.Strings(orphan)
	if len(orphan) > 0 {
		return "secret-without-lease-not-revoked", fmt.Sprintf("secret(s) %v were generated by the backend, are not revoked there and no lease record covers them", orphan)
	}
	return "", ""
}

func TestVerif_C06_LeaseFaults(t *testing.T) {
	rec := verifx.NewRecorder("C06", "lease-faults", "request shapes {leased secret (plain / odd path / batch child / child namespace / response-wrapped / use-limited token), login through a recording credential backend (plain / wrapped / periodic / use-limited), auth/token/create (plain / role / role with path suffix / create-orphan / wrapped), and a table of token shapes (root-policy child without ttl = never expiring, with and without parent, through create-orphan; root policy with ttl or explicit maximum; periodic; use-limited with explicit maximum; no default policy; created in a child namespace by its own token and by the root token) plus one token shape per case composed from the parameter space (creator, endpoint, policies, ttl, explicit maximum, period, uses, no_parent, no_default_policy, wrapping)}; a dry run lists the storage operations of the request - the operations that start inside the request's time window on the request goroutine or on a goroutine the request started (directly or transitively) - and names each by (kind, class of key, occurrence); on a fresh copy per operation that operation fails once: every write of the request, and the reads thinned to 16 (table shapes 8) in the quick tier; for every write once more (and once without any fault) under a storage latency spike: every Put of the request on a lease or token record is accepted but held until the request has returned or the request has started no other storage operation for 5 ms (50 ms if the write was issued by a helper goroutine; at most 150 ms), and completes regardless of the request context; oracle when the request has returned and every operation it started has come back: a handed-out secret has lease + token index, a handed-out token is usable and leased, and if a write of the request was still in flight when it returned the lease record was in storage at that moment; after an error no usable token lacks a lease - judged for every token record the request ADDED to the raw storage listing (entry, accessor index, parent index, all namespaces; never-expiring root tokens included), no lease record of a secret whose revocation the backend has seen, no index record naming a lease without record, no accessor/parent record without token entry, lease and index records mutually consistent, every generated secret revoked at the backend or covered by a lease (records of a token without lease that is refused on use are only counted: classes remnant:*); also crash after every prefix of the request's writes followed by restart; for the secret-generating shapes also 'the client goes away': the request context is cancelled when the k-th storage operation starts; non-trivial = the fault (or crash) fell after the first write of the request or after the backend had produced the secret/auth")
	defer rec.Flush()
	rapid.Check(t, func(rt *rapid.T) {
		txn := rapid.Bool().Draw(rt, "transactionalStorage")
		phase := rapid.IntRange(0, 7).Draw(rt, "phase")
		random := c06DrawShape(rt)
		// every request shape is enumerated in every case; rapid varies the storage flavour, which read positions
		// are sampled when the quick tier thins them, and one more token shape
		kinds := append(append([]string{}, c06Kinds...), c06ShapeKinds...)
		kinds = append(kinds, "create-random")
		// verdicts that are judged only after every shape has been enumerated (so that one of them does not keep the
		// rest of the space from being examined)
		var deferred []func()
		for _, kind := range kinds {
			c06RunKind(t, rt, rec, txn, kind, phase, random, &deferred)
		}
		for _, f := range deferred {
			f()
		}
	})
}

// runInjected performs the request with an injector watching (and possibly failing / delaying) its storage operations;
// returns when the request has returned and everything it started has come back from the store.
func (w *c06World) runInjected(kind string, base context.Context, setup func(in *c06Inj)) (rr, *c06Inj) {
	in := newC06Inj(verifx.GoID())
	if setup != nil {
		setup(in)
	}
	w.lat.cur.Store(in)
	w.tc.rec.SetFault(in.fault)
	res := w.requestCtx(kind, base)
	in.mu.Lock()
	pending := in.inflight > 0
	in.mu.Unlock()
	if pending {
		// something the request started has not come back from the store yet: what is durable at this moment is
		// what the client can rely on
		in.atReturn = w.records()
	}
	in.finish()
	w.tc.rec.SetFault(nil)
	w.lat.cur.Store(nil)
	return res, in
}

// c06PickTargets: every write of the request, and the other operations thinned to maxOther (shifted by phase).
func c06PickTargets(ops []c06OpID, maxOther, phase int) []c06OpID {
	var elig []c06OpID
	for _, o := range ops {
		if o.Kind != "rollback" { // rollbacks of storage transactions are never failed: they are the cleanup path
			elig = append(elig, o)
		}
	}
	pick := map[int]bool{}
	for _, k := range pickKsPhase(len(elig), maxOther, phase) {
		pick[k-1] = true
	}
	var out []c06OpID
	for i, o := range elig {
		if o.Write || pick[i] {
			out = append(out, o)
		}
	}
	return out
}

func c06HasCredentials(r rr) bool {
	return r.resp != nil && (r.resp.Secret != nil && r.resp.Secret.LeaseID != "" || r.resp.Auth != nil && r.resp.Auth.ClientToken != "" || r.resp.WrapInfo != nil && r.resp.WrapInfo.Token != "")
}

func c06RunKind(t *testing.T, rt *rapid.T, rec *verifx.Recorder, txn bool, kind string, phase int, random *c06Shape, deferred *[]func()) {
	base := newC06World(t, txn)
	base.random = random
	defer func() { base.tc.shutdown() }()
	_, tableShape := c06TokenShapes[kind]
	shapeDesc := kind
	if kind == "create-random" {
		shapeDesc = "create-random: " + random.String()
	}
	// dry run
	dry := base.fork()
	tokensBefore := dry.keysUnder("sys/token/id/")
	recsBefore := dry.records()
	mut0 := dry.tc.rec.MutationCount()
	r, dryInj := dry.runInjected(kind, dry.tc.ctx, nil)
	ops := dryInj.opList()
	nOps := len(ops)
	nMut := dry.tc.rec.MutationCount() - mut0
	dryRec := dry.tc.rec
	if dryInj.helperOps > 0 {
		rec.Class("request-with-helper-goroutines", 1)
	}
	if os.Getenv("C06_DEBUG") != "" {
		var l []string
		for _, o := range ops {
			l = append(l, o.String())
		}
		fmt.Fprintf(os.Stderr, "C06_DEBUG ops of %s (txn=%v, unattributed in window %d): %v\n", shapeDesc, txn, dryInj.unattributed, l)
	}
	if !r.ok() {
		// a request refused without any fault: whatever the reason, nothing generated may be left behind
		sig, msg, _ := dry.leftovers(recsBefore, !c06HasCredentials(r))
		if sig == "" {
			sig, msg = dry.invariant(tokensBefore)
		}
		dry.tc.shutdown()
		if sig != "" {
			rec.Violation(rt, sig+":request-refused-without-fault", map[string]any{"kind": shapeDesc, "answer": r.String()}, "the request %s failed without any fault (%v) and: %s", shapeDesc, r, msg)
			return
		}
		if kind != "secret-odd-path" && kind != "create-random" {
			t.Fatalf("harness: fault-free request %s failed: %v", kind, r)
		}
		rec.Class(kind+"-refused-cleanly", 1)
		return
	}
	sig, msg := c06Outcome(dry, kind, r)
	if sig == "" {
		sig, msg, _ = dry.leftovers(recsBefore, false)
	}
	if sig == "" {
		sig, msg = dry.invariant(tokensBefore)
	}
	dry.tc.shutdown()
	if sig != "" {
		rec.Violation(rt, sig+":no-fault", map[string]any{"kind": shapeDesc}, "%s", msg)
		return
	}

	// one storage operation of the request fails; spike: additionally the request's writes of lease and token records
	// complete late
	faultRun := func(target c06OpID, spike bool) {
		w := base.fork()
		defer func() { w.tc.shutdown() }()
		seqStart := w.tc.rec.Seq()
		callsBefore := len(w.hub.handlerCalls())
		tg := target
		res, in := w.runInjected(kind, w.tc.ctx, func(in *c06Inj) {
			if tg.Cls != "" {
				in.target = &tg
			}
			in.spike = spike
		})
		hit := in.hit
		what, afterWrite, afterBackend := "none", false, false
		if hit != nil {
			what = hit.Kind + " " + c06KeyClass(hit.Key)
			for _, o := range w.tc.rec.OpsSince(seqStart) {
				if o.Seq < hit.Seq && o.Err == nil && (o.Kind == "put" || o.Kind == "delete") {
					afterWrite = true
				}
			}
			for _, c := range w.hub.handlerCalls()[callsBefore:] {
				if !c.Revoke && c.Enter <= hit.Seq {
					afterBackend = true
				}
			}
		}
		var oplog []string
		for _, o := range w.tc.rec.OpsSince(seqStart) {
			if len(oplog) < 120 {
				e := ""
				if o.Err != nil {
					e = " ERR"
				}
				oplog = append(oplog, fmt.Sprintf("%s %s%s", o.Kind, c06KeyClass(o.Key), e))
			}
		}
		mode := "fault"
		if spike {
			mode = "fault+latency-spike"
		}
		after := ":after-fault"
		if target.Cls == "" {
			mode, after = "latency-spike", ":under-latency-spike"
		}
		detail := map[string]any{"request": shapeDesc, "failed_operation": target.String(), "of_ops": nOps, "failed_op": what, "result": res.String(), "transactional": txn, "storage_ops": oplog,
			"latency_spike": spike, "writes_held": in.held, "writes_completed_after_return": in.heldLate, "ops_on_helper_goroutines": in.helperOps}
		rec.Case(kind+":"+mode, afterWrite || afterBackend, verifx.Digest(shapeDesc, txn, target.Cls, target.Occ, what, spike), func() any { return detail })
		if afterBackend {
			rec.Class("fault-after-backend-produced", 1)
		}
		if in.heldLate > 0 {
			rec.Class("write-completed-after-the-request-returned", 1)
		}
		if in.unattributed > 0 {
			rec.Class("background-operations-in-window", 1)
		}
		if res.ok() {
			sig, msg := c06Outcome(w, kind, res)
			if sig == "" {
				sig, msg = w.durableAtReturn(res, in.atReturn)
			}
			if sig != "" {
				rec.Violation(rt, sig+after, detail, "%s (request %s, %s at storage operation %s of %d)", msg, shapeDesc, mode, target, nOps)
				return
			}
		} else if c06HasCredentials(res) {
			rec.Class("error-with-credentials-in-response", 1)
		}
		failed := !res.ok() && !c06HasCredentials(res)
		// what the request added to the raw records (judged first: the checks below look tokens up, which cleans up)
		var sig, msg string
		var rem []c06Remnant
		for i := 0; i < 40; i++ {
			sig, msg, rem = w.leftovers(recsBefore, failed)
			if sig == "" {
				break
			}
			time.Sleep(10 * time.Millisecond)
		}
		if sig != "" {
			rec.Violation(rt, sig+after, detail, "%s (request %s returned %v, %s at storage operation %s of %d = %s)", msg, shapeDesc, res, mode, target, nOps, what)
			return
		}
		for _, r := range rem {
			rec.Class("remnant:"+c06KeyClass(r.Key), 1)
			if os.Getenv("C06_DEBUG") != "" {
				fmt.Fprintf(os.Stderr, "C06_DEBUG remnant after %s %s %s (txn=%v): %s %s\n", shapeDesc, mode, target, txn, c06KeyClass(r.Key), r.What)
			}
		}
		// rollback of the generated secret runs synchronously in the request; give a queued revocation a moment
		for i := 0; i < 200; i++ {
			sig, msg = w.invariant(tokensBefore)
			if sig != "secret-without-lease-not-revoked" {
				break
			}
			time.Sleep(5 * time.Millisecond)
		}
		if sig != "" {
			rec.Violation(rt, sig+after, detail, "%s (request %s returned %v, %s at storage operation %s of %d = %s)", msg, shapeDesc, res, mode, target, nOps, what)
		}
	}
	maxOther := 16
	if tableShape {
		maxOther = 8
	}
	targets := c06PickTargets(ops, verifx.Scale(maxOther, 1<<30), phase)
	// a latency spike without any fault: what the client receives is durable when it receives it
	faultRun(c06OpID{}, true)
	for _, tg := range targets {
		// the run under a latency spike first: what it finds does not depend on how the goroutines happen to be scheduled
		if tg.Write || verifx.Thorough() {
			faultRun(tg, true)
		}
		faultRun(tg, false)
	}

	// the client goes away: the request context is cancelled when the k-th storage operation starts (that operation
	// and everything else that honours the context then fails, including a backend revocation that is handed the
	// request context); only for the shapes that generate a secret at a backend
	if strings.HasPrefix(kind, "secret") {
		for _, k := range pickKsPhase(nOps, verifx.Scale(8, 1<<30), phase+3) {
			w := base.fork()
			func() {
				defer func() { w.tc.shutdown() }()
				cctx, cancel := context.WithCancel(w.tc.ctx)
				defer cancel()
				var hit *verifx.Op
				w.hub.mu.Lock()
				w.hub.honourCtx = true
				w.hub.mu.Unlock()
				callsBefore := len(w.hub.handlerCalls())
				res, _ := w.runInjected(kind, cctx, func(in *c06Inj) {
					in.custom = func(in *c06Inj, o *verifx.Op, n int) error {
						if n == k {
							hit = o
							cancel()
							// the core binds the request's own context to the caller's by context.AfterFunc, which
							// runs on another goroutine: the server has noticed that the client is gone when this
							// operation fails
							time.Sleep(3 * time.Millisecond)
						}
						if n >= k && cctx.Err() != nil {
							return context.Canceled
						}
						return nil
					}
				})
				w.hub.mu.Lock()
				w.hub.honourCtx = false
				w.hub.mu.Unlock()
				what, afterBackend := "none", false
				if hit != nil {
					what = hit.Kind + " " + c06KeyClass(hit.Key)
					for _, c := range w.hub.handlerCalls()[callsBefore:] {
						if !c.Revoke && c.Enter <= hit.Seq {
							afterBackend = true
						}
					}
				}
				detail := map[string]any{"request": kind, "context_cancelled_at_op": k, "of_ops": nOps, "op": what, "result": res.String(), "transactional": txn}
				rec.Case(kind+":cancel", afterBackend, verifx.Digest(kind, txn, "cancel", k, what), func() any { return detail })
				if res.ok() {
					if sig, msg := c06Outcome(w, kind, res); sig != "" {
						rec.Violation(rt, sig+":after-cancel", detail, "%s (request %s, context cancelled at storage operation %d/%d = %s)", msg, kind, k, nOps, what)
						return
					}
				}
				var sig, msg string
				for i := 0; i < 200; i++ {
					sig, msg = w.invariant(tokensBefore)
					if sig != "secret-without-lease-not-revoked" {
						break
					}
					time.Sleep(5 * time.Millisecond)
				}
				// With the request context gone every later storage operation under that context fails too, so the
				// removal of a half-written lease record cannot be demanded here (that is more than one failing
				// operation); what must still hold is that nothing generated stays alive untracked and no usable
				// token lacks a lease.
				if sig == "secret-without-lease-not-revoked" || sig == "usable-token-without-lease" || sig == "revocation-routed-to-wrong-backend" {
					rec.Violation(rt, sig+":after-cancel", detail, "%s (request %s returned %v, request context cancelled at storage operation %d/%d = %s)", msg, kind, res, k, nOps, what)
				}
			}()
		}
	}
	// crash prefixes of the fault-free request
	for _, k := range pickKs(nMut-1, verifx.Scale(6, 1<<30)) {
		n, err := base.tc.restartOn(dryRec.ForkAt(mut0+k, txn))
		if err != nil {
			rec.Violation(rt, "crash-prefix-unbootable", map[string]any{"request": shapeDesc, "k": k}, "core does not start on the store after %d of %d writes of %s: %v", k, nMut, shapeDesc, err)
			continue
		}
		w := &c06World{t: t, tc: n, hub: newRecHub(), parent: base.parent, limTok: base.limTok, batchTok: base.batchTok}
		func() {
			defer func() { w.tc.shutdown() }()
			detail := map[string]any{"request": shapeDesc, "crash_after_writes": k, "of_writes": nMut, "last_write": dryRec.MutationKeys(mut0 + k - 1), "transactional": txn}
			rec.Case(kind+":crash", true, verifx.Digest(shapeDesc, txn, "crash", k), func() any { return detail })
			// nothing was handed out before the crash, so only "no usable token without a lease" is claimed:
			// a lease record whose index write was cut off by the crash is still tracked to expiry
			if sig, msg := w.invariant(tokensBefore); sig == "usable-token-without-lease" {
				if w.neverExpiring {
					// an expiring token without lease is revoked by its first use; a root token that never expires
					// is accepted without one. Its id was never handed out (the server crashed before the response)
					sig += ":never-expiring-root-token:after-crash"
					if r := w.tc.req(logical.ReadOperation, "sys/mounts", w.lastUnleased, nil); !r.ok() || r.resp == nil {
						// not confirmed by a real request of a root-only kind
						rec.Class("unleased-root-token-after-crash-refused-by-request", 1)
						return
					}
					if len(*deferred) == 0 {
						*deferred = append(*deferred, func() {
							rec.Violation(rt, sig, detail, "%s (crash after %d/%d writes of %s, then restart)", msg, k, nMut, shapeDesc)
						})
					}
					return
				}
				rec.Violation(rt, sig+":after-crash", detail, "%s (crash after %d/%d writes of %s, then restart)", msg, k, nMut, shapeDesc)
			}
		}()
	}
}

// pickKsPhase is pickKs with the sampled positions shifted by phase (so different cases sample different k).
func pickKsPhase(n, max, phase int) []int {
	if n <= max {
		return pickKs(n, max)
	}
	seen := map[int]bool{}
	var out []int
	for _, k := range pickKs(n, max) {
		k2 := k + phase
		if k == 1 || k == n || k2 > n {
			k2 = k
		}
		if !seen[k2] {
			seen[k2] = true
			out = append(out, k2)
		}
	}
	return out
}

// c06Outcome checks what must hold when the client received the credentials.
func c06Outcome(w *c06World, kind string, r rr) (string, string) {
	ctx := namespace.RootContext(w.tc.ctx)
	inNS := strings.HasPrefix(kind, "secret-in-namespace")
	if s, ok := c06TokenShapes[kind]; ok && (s.Creator == "ns" || s.Creator == "root-in-ns") {
		inNS = true
	}
	if inNS {
		ctx = namespace.ContextWithNamespace(context.Background(), w.ns1)
	}
	exp := w.tc.c.expiration
	resp := r.resp
	if resp == nil {
		return "", ""
	}
	if resp.WrapInfo != nil {
		// the wrapping token itself must be leased and usable for unwrap: covered by the invariant (usable => lease)
		return "", ""
	}
	if resp.Secret != nil && resp.Secret.LeaseID != "" {
		le, err := exp.loadEntry(ctx, resp.Secret.LeaseID)
		if err != nil {
			return "", ""
		}
		if le == nil {
			return "secret-without-lease", fmt.Sprintf("client received a secret with lease id %s but no lease record exists", resp.Secret.LeaseID)
		}
		te, err := w.tc.c.tokenStore.Lookup(ctx, le.ClientToken)
		if err == nil && te != nil && te.Type == logical.TokenTypeBatch && te.Parent != "" {
			// the lease of a non-orphan batch token is indexed under its parent
			te, err = w.tc.c.tokenStore.Lookup(ctx, te.Parent)
		}
		if err == nil && te != nil {
			ids, _ := exp.lookupLeasesByToken(ctx, te)
			found := false
			for _, id := range ids {
				if id == resp.Secret.LeaseID {
					found = true
				}
			}
			if !found {
				return "secret-without-index", fmt.Sprintf("client received a secret with lease id %s but the token index entry is missing", resp.Secret.LeaseID)
			}
		}
	}
	if resp.Auth != nil && resp.Auth.ClientToken != "" && resp.Auth.TokenType != logical.TokenTypeBatch {
		usable := w.aliveID(resp.Auth.ClientToken)
		if !usable {
			return "token-handed-out-unusable", "client received a service token that is not usable"
		}
		te, err := w.tc.c.tokenStore.Lookup(ctx, resp.Auth.ClientToken)
		if err == nil && te != nil {
			le, err := exp.FetchLeaseTimesByToken(ctx, te)
			if err == nil && le == nil {
				return "token-without-lease", "client received a service token without a lease record"
			}
		}
	}
	return "", ""
}
