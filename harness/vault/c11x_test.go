//go:build verif

package vault

// C11, unit audit-config: the audit table and the per-mount HMAC exemption lists change while the server runs.
//
// The broker-order unit (c11_test.go) enables its devices once and never touches the audit table or a mount tune
// afterwards. This unit generates histories of table changes (enable / disable / disable + re-enable at the same
// path / changes a node only FOLLOWS through a storage invalidation of core/audit / declarative reload / seal,
// restart, leadership change) and of mount tunes that are accepted, rejected early or rejected late, and after every
// step asks the running server, with an ordinary request, which devices its broker really calls and which
// exemption lists request handling really hands to them.

import (
	"bytes"
	"context"
	"crypto/sha256"
	"encoding/json"
	"errors"
	"fmt"
	"sort"
	"strings"
	"sync"
	"testing"

	"github.com/openbao/openbao/sdk/v2/helper/jsonutil"
	"github.com/openbao/openbao/sdk/v2/helper/salt"
	"github.com/openbao/openbao/sdk/v2/helper/verifx"
	"github.com/openbao/openbao/sdk/v2/logical"
	"github.com/openbao/openbao/v2/internal/audit"
	"github.com/openbao/openbao/v2/internal/command/server"
	"github.com/openbao/openbao/v2/internal/helper/namespace"
	"github.com/openbao/openbao/v2/internal/vault/routing"
	"pgregory.net/rapid"
)

// ---- scripted audit devices that format their entries like a real (file/socket/syslog) device does

type c11xEvent struct {
	seq      int64
	id       string // option "id" the device instance was created with
	inst     int    // serial number of the instance (a path that is re-enabled gets a new instance)
	phase    string // req / resp
	outcome  string // accept / error (scripted)
	path     string
	reqKeys  []string
	respKeys []string
	hasResp  bool
	raw      string         // the JSON line a real device would have written
	entry    map[string]any // parsed raw
}

type c11xHub struct {
	mu     sync.Mutex
	active bool
	events []c11xEvent
	insts  int
	fmtErr string
	// script[id][phase] = "error": the device with that id refuses the entry of the request under test
	script map[string]map[string]string
	salter *salt.Salt
	// broken: every device fails to initialise (what a log directory that has gone, or a sink that cannot be reached, does)
	broken bool
}

type c11xDev struct {
	id       string
	inst     int
	failTest bool
	hub      *c11xHub
}

func c11xInteresting(path string) bool {
	return strings.HasPrefix(path, "rb/") || strings.HasPrefix(path, "auth/ra/")
}

func (d *c11xDev) log(ctx context.Context, phase string, in *logical.LogInput) error {
	h := d.hub
	h.mu.Lock()
	on := h.active && in != nil && in.Request != nil && c11xInteresting(in.Request.Path)
	h.mu.Unlock()
	if !on {
		return nil
	}
	f := &audit.AuditFormatter{AuditFormatWriter: &audit.JSONFormatWriter{SaltFunc: func(context.Context) (*salt.Salt, error) { return h.salter, nil }}}
	var buf bytes.Buffer
	var err error
	if phase == "req" {
		err = f.FormatRequest(ctx, &buf, audit.FormatterConfig{HMACAccessor: true}, in)
	} else {
		err = f.FormatResponse(ctx, &buf, audit.FormatterConfig{HMACAccessor: true}, in)
	}
	ev := c11xEvent{id: d.id, inst: d.inst, phase: phase, path: in.Request.Path, outcome: "accept",
		reqKeys: append([]string(nil), in.NonHMACReqDataKeys...), respKeys: append([]string(nil), in.NonHMACRespDataKeys...),
		hasResp: in.Response != nil, raw: buf.String()}
	if err == nil {
		err = json.Unmarshal(buf.Bytes(), &ev.entry)
	}
	h.mu.Lock()
	if err != nil {
		h.fmtErr = fmt.Sprintf("%s entry of %s: %v", phase, in.Request.Path, err)
	}
	if err == nil && h.script[d.id][phase] == "error" {
		ev.outcome = "error"
		err = errors.New("scripted audit device failure")
	}
	ev.seq = nextSeq() // the moment the device accepts (or refuses) the entry
	h.events = append(h.events, ev)
	h.mu.Unlock()
	return err
}

func (d *c11xDev) LogRequest(ctx context.Context, in *logical.LogInput) error {
	return d.log(ctx, "req", in)
}

func (d *c11xDev) LogResponse(ctx context.Context, in *logical.LogInput) error {
	return d.log(ctx, "resp", in)
}

func (d *c11xDev) LogTestMessage(ctx context.Context, in *logical.LogInput, cfg map[string]string) error {
	if d.failTest {
		return errors.New("scripted audit device: test message refused")
	}
	return nil
}
func (d *c11xDev) GetHash(ctx context.Context, s string) (string, error) {
	return d.hub.salter.GetIdentifiedHMAC(s), nil
}
func (d *c11xDev) Reload(ctx context.Context) error { return nil }
func (d *c11xDev) Invalidate(ctx context.Context)   {}

// errC11xStalled: an HA-enabled core did not acquire leadership within the harness' patience (seen only with the
// machine overloaded, e.g. 16 shards of the thorough tier next to other builds; 3000 HA-only cases pass otherwise).
// Whether a node becomes active in time is not C11's matter: the case is abandoned and counted as inconclusive.
var errC11xStalled = errors.New("harness: an HA core did not become active in time; case abandoned")

func c11xRecoverStalled(rec *verifx.Recorder) {
	if r := recover(); r != nil {
		if e, ok := r.(error); ok && errors.Is(e, errC11xStalled) {
			rec.Class("inconclusive:ha-core-did-not-become-active", 1)
			return
		}
		panic(r)
	}
}

// stalled abandons the case if err is the HA wait running out.
func (w *c11xWorld) stalled(err error) {
	if err != nil && strings.Contains(err.Error(), "did not become active") {
		w.abandoned = true
		panic(errC11xStalled)
	}
}

// ---- model

type c11xDevModel struct {
	id    string
	local bool
	cfg   bool // declared in the server configuration (table type audit-config), not created through the API
}

var (
	c11xAPIPaths = []string{"a/", "b/", "c/"}
	c11xCfgPaths = []string{"x/", "y/"}
	c11xFields   = []string{"audit_non_hmac_request_keys", "audit_non_hmac_response_keys", "passthrough_request_headers", "allowed_response_headers"}
	c11xPools    = map[string][]string{
		"audit_non_hmac_request_keys":  {"marker", "k1", "k2", "v"},
		"audit_non_hmac_response_keys": {"marker", "k1", "k2", "secret_id", "path"},
		"passthrough_request_headers":  {"X-C11-A", "X-C11-B", "Accept"},
		"allowed_response_headers":     {"X-C11-R", "X-C11-S"},
	}
)

type c11xMount struct {
	name  string // for classes and logs
	inNS  bool
	auth  bool
	lists map[string][]string // field -> list in force (the last ACCEPTED tune)
}

func (m *c11xMount) probeBase() string {
	if m.auth {
		return "auth/ra/"
	}
	return "rb/"
}

type c11xWorld struct {
	t          *testing.T
	rt         *rapid.T
	rec        *verifx.Recorder
	tc         *tcore
	hub        *recHub
	ah         *c11xHub
	ns1        *namespace.Namespace
	tok, nsTok string

	apiAllowed bool
	devs       map[string]*c11xDevModel // audit path -> device the operator (or the followed leader) has enabled
	mounts     []*c11xMount
	nextID     int
	nextKV     int

	abandoned    bool
	trace        []string // canonical description of the steps (digest, replay)
	tableChanges int
	lateRejects  int
	followed     int
}

func (w *c11xWorld) logf(format string, a ...any) {
	w.trace = append(w.trace, fmt.Sprintf(format, a...))
}

func (w *c11xWorld) newID() string {
	w.nextID++
	return fmt.Sprintf("g%d", w.nextID)
}

func (w *c11xWorld) detail(extra map[string]any) map[string]any {
	d := map[string]any{"steps": append([]string(nil), w.trace...), "model_devices": w.modelDevs(), "transactional": w.tc.opts.transactional, "ha": w.tc.opts.ha, "api_audit_creation": w.apiAllowed}
	for k, v := range extra {
		d[k] = v
	}
	return d
}

func (w *c11xWorld) modelDevs() []string {
	var out []string
	for p, d := range w.devs {
		s := p + "=" + d.id
		if d.local {
			s += "(local)"
		}
		if d.cfg {
			s += "(config)"
		}
		out = append(out, s)
	}
	sort.Strings(out)
	return out
}

func (w *c11xWorld) sortedDevPaths(pred func(p string, d *c11xDevModel) bool) []string {
	var out []string
	for p, d := range w.devs {
		if pred == nil || pred(p, d) {
			out = append(out, p)
		}
	}
	sort.Strings(out)
	return out
}

func c11xSorted(l []string) []string {
	o := append([]string(nil), l...)
	sort.Strings(o)
	return o
}

func c11xHas(l []string, s string) bool {
	for _, x := range l {
		if x == s {
			return true
		}
	}
	return false
}

func c11xBoot(t *testing.T, rt *rapid.T, rec *verifx.Recorder) *c11xWorld {
	hub := newRecHub()
	store := &logical.InmemStorage{}
	if err := store.Put(context.Background(), &logical.StorageEntry{Key: "salt", Value: []byte("c11x-fixed-salt-0123456789abcdef")}); err != nil {
		t.Fatalf("harness: salt: %v", err)
	}
	salter, err := salt.NewSalt(context.Background(), store, &salt.Config{HMAC: sha256.New, HMACType: "hmac-sha256"})
	if err != nil {
		t.Fatalf("harness: salt: %v", err)
	}
	ah := &c11xHub{salter: salter}
	factories := map[string]audit.Factory{
		"scripted": func(ctx context.Context, cfg *audit.BackendConfig) (audit.Backend, error) {
			ah.mu.Lock()
			if ah.broken {
				ah.mu.Unlock()
				return nil, fmt.Errorf("verif: audit device %q cannot be initialised", cfg.Config["id"])
			}
			ah.insts++
			inst := ah.insts
			ah.mu.Unlock()
			return &c11xDev{id: cfg.Config["id"], inst: inst, failTest: cfg.Config["fail_test"] == "true", hub: ah}, nil
		},
	}
	ha := fairIndex(rt, "haCore", 5) == 0
	w := &c11xWorld{t: t, rt: rt, rec: rec, hub: hub, ah: ah, devs: map[string]*c11xDevModel{}}
	tc, err := bootCore(t, coreOpts{transactional: rapid.Bool().Draw(rt, "transactionalStorage"), ha: ha, audits: factories,
		logical:    map[string]logical.Factory{"recbe": hub.factory("recbe", logical.TypeLogical)},
		credential: map[string]logical.Factory{"recauth": hub.factory("recauth", logical.TypeCredential)}})
	if err != nil {
		w.stalled(err)
		t.Fatalf("harness: cannot boot core: %v", err)
	}
	w.tc = tc
	w.apiAllowed = fairIndex(rt, "apiAuditCreationAllowed", 3) != 0
	w.allowAPI()
	const pol = `path "rb/*" { capabilities = ["create","read","update","delete","list"] }
path "auth/ra/*" { capabilities = ["create","read","update","delete","list"] }`
	tc.mount("rb", "recbe", nil)
	tc.enableAuth("ra", "recauth")
	tc.writePolicy("c11x", pol)
	w.tok, _, _ = tc.createToken(tc.root, map[string]any{"policies": []string{"default", "c11x"}, "ttl": "4h"})
	if w.tok == "" {
		t.Fatalf("harness: token")
	}
	tc.mustOK(tc.req(logical.UpdateOperation, "sys/namespaces/ns1", tc.root, nil), "namespace")
	w.lookupNS()
	tc.mustOK(tc.reqNS(w.ns1, logical.UpdateOperation, "sys/mounts/rb", tc.root, map[string]any{"type": "recbe"}), "mount in ns1")
	tc.mustOK(tc.reqNS(w.ns1, logical.UpdateOperation, "sys/policy/c11x", tc.root, map[string]any{"policy": pol}), "policy in ns1")
	tr := tc.reqNS(w.ns1, logical.UpdateOperation, "auth/token/create", tc.root, map[string]any{"policies": []string{"default", "c11x"}, "ttl": "4h"})
	if !tr.ok() || tr.resp == nil || tr.resp.Auth == nil {
		t.Fatalf("harness: token in ns1: %v", tr)
	}
	w.nsTok = tr.resp.Auth.ClientToken
	for _, m := range []*c11xMount{{name: "rb"}, {name: "ns1/rb", inNS: true}, {name: "auth/ra", auth: true}} {
		m.lists = map[string][]string{}
		w.mounts = append(w.mounts, m)
	}
	w.logf("boot transactional=%v ha=%v apiAuditCreation=%v", tc.opts.transactional, ha, w.apiAllowed)
	return w
}

// allowAPI sets unsafe_allow_api_audit_creation in the node's configuration (off by default).
func (w *c11xWorld) allowAPI() {
	if w.apiAllowed {
		w.tc.c.rawConfig.Load().UnsafeAllowAPIAuditCreation = true
	}
}

func (w *c11xWorld) lookupNS() {
	ns1, err := w.tc.c.namespaceStore.GetNamespaceByPath(w.tc.ctx, "ns1/")
	if err != nil || ns1 == nil {
		w.t.Fatalf("harness: namespace lookup: %v", err)
	}
	w.ns1 = ns1
}

// sysReq sends a sys/ request of the operator, in the namespace of the mount if it lives in ns1.
func (w *c11xWorld) sysReq(inNS bool, op logical.Operation, path string, data map[string]any) rr {
	if inNS {
		return w.tc.reqNS(w.ns1, op, path, w.tc.root, data)
	}
	return w.tc.req(op, path, w.tc.root, data)
}

// withFault runs f with a storage fault on the first operation of the given kind ("put": inside or outside a
// transaction; "commit") issued by the calling goroutine; reports whether the fault fired. kind "" = no fault.
func (w *c11xWorld) withFault(kind string, f func()) bool {
	if kind == "" {
		f()
		return false
	}
	g := verifx.GoID()
	fault, fired := verifx.FailNth(func(o *verifx.Op) bool { return o.G == g && o.Kind == kind }, 1)
	w.tc.rec.SetFault(fault)
	defer w.tc.rec.SetFault(nil)
	f()
	return fired() != nil
}

// ---- audit table changes through the node's own code paths

func (w *c11xWorld) doEnable(path string, opts map[string]string, local bool, typ, via, faultKind string) (accepted bool, why string) {
	var fired bool
	switch via {
	case "api":
		o := map[string]any{}
		for k, v := range opts {
			o[k] = v
		}
		var r rr
		fired = w.withFault(faultKind, func() {
			r = w.tc.req(logical.UpdateOperation, "sys/audit/"+strings.TrimSuffix(path, "/"), w.tc.root, map[string]any{"type": typ, "options": o, "local": local})
		})
		accepted, why = r.ok(), r.String()
	default:
		var err error
		fired = w.withFault(faultKind, func() {
			err = w.tc.c.enableAudit(w.tc.ctx, &routing.MountEntry{Table: auditTableType, Path: path, Type: typ, Options: opts, Local: local}, true)
		})
		accepted, why = err == nil, fmt.Sprint(err)
	}
	if faultKind != "" && !fired {
		w.t.Fatalf("harness: the storage fault of an audit enable did not fire (%s)", why)
	}
	return accepted, why
}

func (w *c11xWorld) doDisable(path, via, faultKind string) (accepted bool, why string) {
	var fired bool
	switch via {
	case "api":
		var r rr
		fired = w.withFault(faultKind, func() {
			r = w.tc.req(logical.DeleteOperation, "sys/audit/"+strings.TrimSuffix(path, "/"), w.tc.root, nil)
		})
		accepted, why = r.ok(), r.String()
	default:
		var err error
		fired = w.withFault(faultKind, func() { _, err = w.tc.c.disableAudit(w.tc.ctx, path, true) })
		accepted, why = err == nil, fmt.Sprint(err)
	}
	if faultKind != "" && !fired {
		w.t.Fatalf("harness: the storage fault of an audit disable did not fire (%s)", why)
	}
	return accepted, why
}

func (w *c11xWorld) drawVia() string {
	if fairIndex(w.rt, "viaAPI", 2) == 0 {
		return "api"
	}
	return "direct"
}

func (w *c11xWorld) drawOpts(id string) map[string]string {
	opts := map[string]string{"id": id}
	if fairIndex(w.rt, "extraOption", 3) == 0 {
		opts["flavor"] = "f-" + id
	}
	if fairIndex(w.rt, "skipTest", 4) == 0 {
		opts["skip_test"] = "true"
	}
	return opts
}

func (w *c11xWorld) stepEnable() {
	var free []string
	for _, p := range c11xAPIPaths {
		if w.devs[p] == nil {
			free = append(free, p)
		}
	}
	if len(free) == 0 {
		w.stepReenable()
		return
	}
	p := free[fairIndex(w.rt, "path", len(free))]
	local := fairIndex(w.rt, "local", 4) == 0
	via := w.drawVia()
	fault := ""
	if fairIndex(w.rt, "storageFault", 6) == 0 && (via == "direct" || w.apiAllowed) {
		fault = "put"
	}
	id := w.newID()
	ok, why := w.doEnable(p, w.drawOpts(id), local, "scripted", via, fault)
	expect := fault == "" && (via == "direct" || w.apiAllowed)
	w.logf("enable %s id=%s local=%v via=%s fault=%q -> accepted=%v", p, id, local, via, fault, ok)
	switch {
	case ok && expect:
		w.devs[p] = &c11xDevModel{id: id, local: local}
		w.tableChanges++
		w.rec.Class("table:enable-"+via, 1)
	case !ok && !expect:
		if fault != "" {
			w.rec.Class("refused:enable-storage-fault", 1)
		} else {
			w.rec.Class("refused:enable-api-creation-disabled", 1)
		}
	case ok && !expect:
		// an operation that was expected to be refused went through: not a matter of C11, the model follows the answer
		w.devs[p] = &c11xDevModel{id: id, local: local}
		w.rec.Class("observation:enable-expected-refusal-but-accepted", 1)
	default:
		w.t.Fatalf("harness: a valid audit enable was refused: %s | %v", why, w.trace)
	}
}

func (w *c11xWorld) stepDisable() {
	en := w.sortedDevPaths(func(p string, d *c11xDevModel) bool { return !d.cfg })
	if len(en) == 0 {
		w.stepEnable()
		return
	}
	p := en[fairIndex(w.rt, "path", len(en))]
	via := w.drawVia()
	fault := ""
	if fairIndex(w.rt, "storageFault", 4) == 0 {
		fault = "put"
	}
	ok, why := w.doDisable(p, via, fault)
	w.logf("disable %s via=%s fault=%q -> accepted=%v", p, via, fault, ok)
	switch {
	case ok && fault == "":
		delete(w.devs, p)
		w.tableChanges++
		w.rec.Class("table:disable-"+via, 1)
	case !ok && fault != "":
		w.rec.Class("refused:disable-storage-fault", 1)
	case ok:
		delete(w.devs, p)
		w.rec.Class("observation:disable-expected-refusal-but-accepted", 1)
	default:
		w.t.Fatalf("harness: a valid audit disable was refused: %s | %v", why, w.trace)
	}
}

// stepReenable: the only way to change a device's options - disable it and enable it again at the same path.
func (w *c11xWorld) stepReenable() {
	en := w.sortedDevPaths(func(p string, d *c11xDevModel) bool { return !d.cfg })
	if len(en) == 0 {
		w.stepEnable()
		return
	}
	p := en[fairIndex(w.rt, "path", len(en))]
	via := "direct"
	if w.apiAllowed {
		via = w.drawVia()
	}
	local := w.devs[p].local
	if fairIndex(w.rt, "toggleLocal", 4) == 0 {
		local = !local
	}
	id := w.newID()
	if ok, why := w.doDisable(p, via, ""); !ok {
		w.t.Fatalf("harness: a valid audit disable was refused: %s | %v", why, w.trace)
	}
	delete(w.devs, p)
	ok, why := w.doEnable(p, w.drawOpts(id), local, "scripted", via, "")
	w.logf("re-enable %s id=%s local=%v via=%s -> accepted=%v", p, id, local, via, ok)
	if !ok {
		w.t.Fatalf("harness: a valid audit enable was refused: %s | %v", why, w.trace)
	}
	w.devs[p] = &c11xDevModel{id: id, local: local}
	w.tableChanges++
	w.rec.Class("table:reenable-same-path-"+via, 1)
}

// stepRefusedEnable: enable requests that must be refused and leave table and broker as they were.
func (w *c11xWorld) stepRefusedEnable() {
	en := w.sortedDevPaths(nil)
	kinds := []string{"unknown-type", "failing-test-message"}
	if len(en) > 0 {
		kinds = append(kinds, "path-in-use", "path-nested-in-used-path")
	}
	kind := kinds[fairIndex(w.rt, "refusal", len(kinds))]
	via := "direct"
	if w.apiAllowed {
		via = w.drawVia()
	}
	id := w.newID()
	opts := map[string]string{"id": id}
	typ := "scripted"
	var free []string
	for _, p := range c11xAPIPaths {
		if w.devs[p] == nil {
			free = append(free, p)
		}
	}
	path := "d/"
	if len(free) > 0 {
		path = free[fairIndex(w.rt, "path", len(free))]
	}
	switch kind {
	case "unknown-type":
		typ = "no-such-device-type"
	case "failing-test-message":
		opts["fail_test"] = "true"
	case "path-in-use":
		path = en[fairIndex(w.rt, "usedPath", len(en))]
	case "path-nested-in-used-path":
		path = en[fairIndex(w.rt, "usedPath", len(en))] + "sub/"
	}
	ok, _ := w.doEnable(path, opts, false, typ, via, "")
	w.logf("enable(%s) %s id=%s via=%s -> accepted=%v", kind, path, id, via, ok)
	if ok {
		w.t.Fatalf("harness: an audit enable that must be refused (%s at %s) was accepted | %v", kind, path, w.trace)
	}
	w.rec.Class("refused:enable-"+kind, 1)
}

// stepDisableConfigDevice: a device declared in the configuration cannot be disabled through the API.
func (w *c11xWorld) stepRefusedDisable() {
	cfg := w.sortedDevPaths(func(p string, d *c11xDevModel) bool { return d.cfg })
	if len(cfg) == 0 {
		// nothing at that path: the direct call reports "no matching backend", the API answers 204; nothing changes
		ok, _ := w.doDisable("nothing/", "direct", "")
		w.logf("disable nothing/ -> accepted=%v", ok)
		w.rec.Class("refused:disable-unknown-path", 1)
		return
	}
	p := cfg[fairIndex(w.rt, "path", len(cfg))]
	ok, _ := w.doDisable(p, "api", "")
	w.logf("disable(config-managed) %s via=api -> accepted=%v", p, ok)
	if ok {
		w.t.Fatalf("harness: disabling a configuration-managed audit device through the API was accepted | %v", w.trace)
	}
	w.rec.Class("refused:disable-config-managed", 1)
}

// stepReloadConfig: declarative audit devices - the operator edits the configuration file and sends SIGHUP.
func (w *c11xWorld) stepReloadConfig() {
	var list []*server.AuditDevice
	var desc []string
	want := map[string]bool{}
	for _, p := range c11xCfgPaths {
		if !rapid.Bool().Draw(w.rt, "declare-"+p) {
			continue
		}
		want[p] = true
		id := ""
		if d := w.devs[p]; d != nil {
			id = d.id // a declared device cannot be modified, only removed
		} else {
			id = w.newID()
		}
		pathInFile := p
		if fairIndex(w.rt, "noTrailingSlash", 2) == 0 {
			pathInFile = strings.TrimSuffix(p, "/")
		}
		list = append(list, &server.AuditDevice{Type: "scripted", Path: pathInFile, Options: map[string]string{"id": id}})
		desc = append(desc, p+"="+id)
	}
	changed := false
	for _, p := range c11xCfgPaths {
		d := w.devs[p]
		switch {
		case want[p] && d == nil:
			for _, a := range list {
				if strings.TrimSuffix(a.Path, "/")+"/" == p {
					w.devs[p] = &c11xDevModel{id: a.Options["id"], cfg: true}
				}
			}
			changed = true
		case !want[p] && d != nil:
			delete(w.devs, p)
			changed = true
		}
	}
	w.tc.c.rawConfig.Load().Audits = list
	w.tc.c.ReloadAuditLogs()
	w.logf("config reload declares %v", desc)
	if changed {
		w.tableChanges++
		w.rec.Class("table:config-reload-changes-devices", 1)
	} else {
		w.rec.Class("table:config-reload-no-change", 1)
	}
}

// ---- audit table changes the node only follows: the table in storage is replaced behind its back (as the
// active node of a cluster would), then the storage invalidation of core/audit is delivered to it

func (w *c11xWorld) storedTable(key string) *routing.MountTable {
	t := &routing.MountTable{Type: auditTableType}
	e, err := w.tc.c.barrier.Get(w.tc.ctx, key)
	if err != nil {
		w.t.Fatalf("harness: reading %s: %v", key, err)
	}
	if e != nil {
		if err := jsonutil.DecodeJSON(e.Value, t); err != nil {
			w.t.Fatalf("harness: decoding %s: %v", key, err)
		}
	}
	return t
}

func (w *c11xWorld) writeBehindBack(key string, t *routing.MountTable) {
	buf, err := jsonutil.EncodeJSONAndCompress(t, nil)
	if err != nil {
		w.t.Fatalf("harness: encoding %s: %v", key, err)
	}
	c := w.tc.c
	// around the node's physical cache: what the node has cached stays what it was
	c.physicalCache.SetEnabled(false)
	defer c.physicalCache.SetEnabled(true)
	if err := c.barrier.Put(w.tc.ctx, &logical.StorageEntry{Key: key, Value: buf}); err != nil {
		w.t.Fatalf("harness: writing %s: %v", key, err)
	}
}

func (w *c11xWorld) stepFollow() {
	tables := map[bool]*routing.MountTable{false: w.storedTable(coreAuditConfigPath), true: w.storedTable(coreLocalAuditConfigPath)}
	dirty := map[bool]bool{}
	remove := func(p string) {
		for _, loc := range []bool{false, true} {
			t := tables[loc]
			for i, e := range t.Entries {
				if e.Path == p {
					t.Entries = append(append([]*routing.MountEntry(nil), t.Entries[:i]...), t.Entries[i+1:]...)
					dirty[loc] = true
					break
				}
			}
		}
		delete(w.devs, p)
	}
	add := func(p string, local bool) string {
		id := w.newID()
		// accessors are random in the real server; their order decides how MountTable.Delta walks the two tables
		acc := fmt.Sprintf("audit_scripted_%x%07x", fairIndex(w.rt, "accessorNibble", 16), w.nextID)
		tables[local].Entries = append(tables[local].Entries, &routing.MountEntry{Table: auditTableType, Path: p, Type: "scripted",
			UUID: fmt.Sprintf("c11x%04d-0000-4000-8000-000000000000", w.nextID), Accessor: acc, Options: w.drawOpts(id), Local: local,
			NamespaceID: namespace.RootNamespaceID})
		dirty[local] = true
		w.devs[p] = &c11xDevModel{id: id, local: local}
		return id
	}
	n := 1 + fairIndex(w.rt, "edits", 3)
	var kinds, desc []string
	for i := 0; i < n; i++ {
		en := w.sortedDevPaths(func(p string, d *c11xDevModel) bool { return !d.cfg })
		var free []string
		for _, p := range c11xAPIPaths {
			if w.devs[p] == nil {
				free = append(free, p)
			}
		}
		choices := []string{}
		if len(en) > 0 {
			choices = append(choices, "readd", "readd", "remove")
		}
		if len(free) > 0 {
			choices = append(choices, "add")
		}
		k := choices[fairIndex(w.rt, "edit", len(choices))]
		switch k {
		case "remove":
			p := en[fairIndex(w.rt, "path", len(en))]
			remove(p)
			desc = append(desc, "remove "+p)
		case "readd":
			p := en[fairIndex(w.rt, "path", len(en))]
			local := w.devs[p].local
			if fairIndex(w.rt, "toggleLocal", 4) == 0 {
				local = !local
			}
			remove(p)
			id := add(p, local)
			desc = append(desc, fmt.Sprintf("remove+add %s id=%s local=%v", p, id, local))
		case "add":
			p := free[fairIndex(w.rt, "path", len(free))]
			local := fairIndex(w.rt, "local", 4) == 0
			id := add(p, local)
			desc = append(desc, fmt.Sprintf("add %s id=%s local=%v", p, id, local))
		}
		kinds = append(kinds, k)
	}
	keys := []string{}
	for _, loc := range []bool{false, true} {
		if dirty[loc] {
			key := coreAuditConfigPath
			if loc {
				key = coreLocalAuditConfigPath
			}
			w.writeBehindBack(key, tables[loc])
			keys = append(keys, key)
		}
	}
	if len(keys) == 0 {
		w.t.Fatalf("harness: a device of the model is missing from the stored audit tables | %v", w.trace)
	}
	// ONE invalidation (the follower's job reads the table as it is now, whatever number of writes led to it);
	// sometimes the second key's invalidation arrives as well
	first := fairIndex(w.rt, "invalidatedKey", len(keys))
	deliver := []string{keys[first]}
	if fairIndex(w.rt, "secondInvalidation", 3) == 0 {
		deliver = append(deliver, keys[len(keys)-1-first])
	}
	for _, k := range deliver {
		if err := w.tc.c.invalidateSynchronous(k); err != nil {
			w.t.Fatalf("harness: invalidation of %s failed: %v | %v", k, err, w.trace)
		}
	}
	sort.Strings(kinds)
	w.logf("followed table change [%s]; invalidations %v", strings.Join(desc, "; "), deliver)
	w.tableChanges++
	w.followed++
	w.rec.Class("table:follow:"+strings.Join(kinds, "+"), 1)
}

// ---- node life cycle with devices configured

func (w *c11xWorld) stepSeal() {
	if err := w.tc.seal(); err != nil {
		w.t.Fatalf("harness: seal: %v", err)
	}
	if len(w.devs) > 0 && !w.tc.opts.ha && fairIndex(w.rt, "unsealWhileEveryDeviceIsBroken", 3) == 0 {
		// (not on HA cores: a standby whose post-unseal set-up fails keeps retrying, the harness would wait out its patience)
		// The node comes back while not one of its audit devices can be initialised. It may refuse to unseal (then the
		// devices are repaired and it is unsealed again); if it does unseal, the table still lists enabled devices and
		// the probes that follow decide as always: nothing is routed or returned without an accepted entry.
		w.ah.mu.Lock()
		w.ah.broken = true
		w.ah.mu.Unlock()
		err := w.tc.unseal(w.tc.keys)
		w.ah.mu.Lock()
		w.ah.broken = false
		w.ah.mu.Unlock()
		if err == nil {
			w.lookupNS()
			w.logf("seal+unseal while every audit device fails to initialise: the node unsealed")
			w.tableChanges++
			w.rec.Class("table:unseal-with-broken-devices:unsealed", 1)
			return
		}
		w.logf("seal+unseal while every audit device fails to initialise: refused (%v)", err)
		w.rec.Class("table:unseal-with-broken-devices:refused", 1)
		if !w.tc.c.Sealed() {
			_ = w.tc.seal()
		}
	}
	if err := w.tc.unseal(w.tc.keys); err != nil {
		w.stalled(err)
		w.t.Fatalf("harness: unseal: %v | %v", err, w.trace)
	}
	w.lookupNS()
	w.logf("seal+unseal")
	if len(w.devs) > 0 {
		w.tableChanges++
		w.rec.Class("table:seal-unseal-with-devices", 1)
	} else {
		w.rec.Class("table:seal-unseal-without-devices", 1)
	}
}

func (w *c11xWorld) stepRestart() {
	old := w.tc
	old.shutdown()
	n, err := old.restartOn(old.phys)
	if err != nil {
		w.stalled(err)
		w.t.Fatalf("harness: restart: %v | %v", err, w.trace)
	}
	w.tc = n
	w.allowAPI()
	w.lookupNS()
	// the new process starts from a configuration file that declares no audit devices: declared devices that are
	// still in the table are removed at start-up (documented behaviour of declarative audit devices)
	dropped := 0
	for p, d := range w.devs {
		if d.cfg {
			delete(w.devs, p)
			dropped++
		}
	}
	w.logf("restart (declared devices dropped: %d)", dropped)
	if len(w.devs) > 0 || dropped > 0 {
		w.tableChanges++
		w.rec.Class("table:restart-with-devices", 1)
	} else {
		w.rec.Class("table:restart-without-devices", 1)
	}
}

func (w *c11xWorld) stepStepDown() {
	if err := w.tc.stepDown(); err != nil {
		w.stalled(err)
		w.t.Fatalf("harness: step-down: %v", err)
	}
	w.lookupNS()
	w.logf("step-down")
	if len(w.devs) > 0 {
		w.tableChanges++
	}
	w.rec.Class("table:leadership-change", 1)
}

// ---- mount tunes

func (w *c11xWorld) drawList(field string, mustDifferFrom []string) []string {
	pool := c11xPools[field]
	var l []string
	for _, k := range pool {
		if rapid.Bool().Draw(w.rt, field+":"+k) {
			l = append(l, k)
		}
	}
	if mustDifferFrom != nil && strings.Join(c11xSorted(l), ",") == strings.Join(c11xSorted(mustDifferFrom), ",") {
		// toggle the first key of the pool
		if c11xHas(l, pool[0]) {
			var o []string
			for _, k := range l {
				if k != pool[0] {
					o = append(o, k)
				}
			}
			l = o
		} else {
			l = append(l, pool[0])
		}
	}
	return l
}

func (w *c11xWorld) stepTune(flavour string) *c11xMount {
	m := w.mounts[fairIndex(w.rt, "mount", len(w.mounts))]
	data := map[string]any{}
	proposed := map[string][]string{}
	// a tune that is going to be refused always proposes a change of an audit exemption list
	force := ""
	if flavour != "accept" {
		force = c11xFields[fairIndex(w.rt, "forcedField", 2)]
	}
	for _, f := range c11xFields {
		if f != force && !rapid.Bool().Draw(w.rt, "set:"+f) {
			continue
		}
		cur := m.lists[f]
		if cur == nil {
			cur = []string{}
		}
		l := w.drawList(f, cur)
		proposed[f] = l
		switch fairIndex(w.rt, "listForm", 3) {
		case 0:
			data[f] = strings.Join(l, ",")
		case 1:
			a := make([]any, len(l))
			for i, s := range l {
				a[i] = s
			}
			data[f] = a
		default:
			data[f] = append([]string{}, l...)
		}
	}
	why, fault := "", ""
	switch flavour {
	case "accept":
		if len(proposed) == 0 || fairIndex(w.rt, "withDescription", 3) == 0 {
			data["description"] = "tuned " + w.newID()
		}
		switch fairIndex(w.rt, "extraAccepted", 5) {
		case 0:
			data["listing_visibility"] = []string{"hidden", "unauth"}[fairIndex(w.rt, "visibility", 2)]
		case 1:
			data["options"] = map[string]any{"note": w.newID()}
		case 2:
			data["default_lease_ttl"], data["max_lease_ttl"] = "1h", "2h"
		}
	case "early":
		why = []string{"bad-ttl", "max-ttl-below-default", "bad-plugin-version", "lockout-config-on-unsupported-type"}[fairIndex(w.rt, "earlyRejection", 4)]
		switch why {
		case "bad-ttl":
			data["default_lease_ttl"] = "not-a-duration"
		case "max-ttl-below-default":
			data["default_lease_ttl"], data["max_lease_ttl"] = "3h", "1h"
		case "bad-plugin-version":
			data["plugin_version"] = "not a version"
		case "lockout-config-on-unsupported-type":
			data["user_lockout_config"] = map[string]any{"lockout_threshold": "5"}
		}
	case "late":
		opts := []string{"options-version-7", "options-version-not-a-number", "bad-listing-visibility", "bad-token-type", "mount-table-put-fails", "mount-table-put-fails"}
		if w.tc.opts.transactional {
			opts = append(opts, "mount-table-commit-fails")
		}
		why = opts[fairIndex(w.rt, "lateRejection", len(opts))]
		switch why {
		case "options-version-7":
			data["options"] = map[string]any{"version": "7"}
		case "options-version-not-a-number":
			data["options"] = map[string]any{"version": "two"}
		case "bad-listing-visibility":
			data["listing_visibility"] = "everyone"
		case "bad-token-type":
			// a secrets mount has no token type; an auth mount only knows four
			data["token_type"] = "service"
			if m.auth {
				data["token_type"] = "eternal"
			}
		case "mount-table-put-fails":
			fault = "put"
		case "mount-table-commit-fails":
			fault = "commit"
		}
	}
	path := "sys/mounts/rb/tune"
	if m.auth {
		path = []string{"sys/auth/ra/tune", "sys/mounts/auth/ra/tune"}[fairIndex(w.rt, "authTunePath", 2)]
	}
	var r rr
	fired := w.withFault(fault, func() { r = w.sysReq(m.inNS, logical.UpdateOperation, path, data) })
	if fault != "" && !fired {
		w.t.Fatalf("harness: the storage fault of a tune did not fire (%v) | %v", r, w.trace)
	}
	var pd []string
	for _, f := range c11xFields {
		if l, ok := proposed[f]; ok {
			pd = append(pd, fmt.Sprintf("%s=%v", f, l))
		}
	}
	w.logf("tune %s (%s) %s %s -> %v", m.name, path, flavour+":"+why, strings.Join(pd, " "), r.ok())
	switch {
	case r.ok() && flavour == "accept":
		for f, l := range proposed {
			m.lists[f] = l
		}
		w.rec.Class("tune:accepted", 1)
	case !r.ok() && flavour == "early":
		w.rec.Class("tune:rejected-early:"+why, 1)
	case !r.ok() && flavour == "late":
		w.lateRejects++
		w.rec.Class("tune:rejected-late:"+why, 1)
	case r.ok():
		w.t.Fatalf("harness: a tune that must be refused (%s) was accepted | %v", why, w.trace)
	default:
		w.t.Fatalf("harness: a valid tune was refused: %v | %v", r, w.trace)
	}
	return m
}

// ---- observation: what the running server does with the next requests

// auditTable reads sys/audit: path -> option "id".
func (w *c11xWorld) auditTable() map[string]string {
	r := w.tc.req(logical.ReadOperation, "sys/audit", w.tc.root, nil)
	if !r.ok() || r.resp == nil {
		w.t.Fatalf("harness: reading sys/audit: %v | %v", r, w.trace)
	}
	out := map[string]string{}
	for p, v := range r.resp.Data {
		info, _ := v.(map[string]any)
		opts, _ := info["options"].(map[string]string)
		out[p] = opts["id"]
	}
	return out
}

type c11xShot struct {
	what       string
	req        *logical.Request
	inNS       bool
	expectData bool
}

func (w *c11xWorld) canary() string {
	return "CNRY" + rapid.StringMatching("[A-Za-z0-9]{16}").Draw(w.rt, "canary")
}

func (w *c11xWorld) planted() map[string]any {
	return map[string]any{"marker": w.canary(), "k1": w.canary(), "k2": w.canary(), "v": w.canary()}
}

func (w *c11xWorld) probe(m *c11xMount, table map[string]string) {
	tok := w.tok
	if m.inNS {
		tok = w.nsTok
		if fairIndex(w.rt, "parentNamespaceToken", 3) == 0 {
			tok = w.tc.root
		}
	}
	base := m.probeBase()
	var shots []c11xShot
	kinds := []string{"echo", "kv", "creds"}
	if m.auth {
		kinds = []string{"login", "echo"}
	}
	kind := kinds[fairIndex(w.rt, "probeKind", len(kinds))]
	switch kind {
	case "echo":
		shots = append(shots, c11xShot{what: "echo", expectData: true, req: &logical.Request{Operation: logical.UpdateOperation, Path: base + "echo/a", ClientToken: tok, Data: w.planted()}})
	case "creds":
		shots = append(shots, c11xShot{what: "creds", expectData: true, req: &logical.Request{Operation: logical.UpdateOperation, Path: base + "creds/a", ClientToken: tok, Data: w.planted()}})
	case "kv":
		w.nextKV++
		p := fmt.Sprintf("%skv/p%d", base, w.nextKV)
		shots = append(shots, c11xShot{what: "kv-write", req: &logical.Request{Operation: logical.UpdateOperation, Path: p, ClientToken: tok, Data: w.planted()}},
			c11xShot{what: "kv-read", expectData: true, req: &logical.Request{Operation: logical.ReadOperation, Path: p, ClientToken: tok}})
	case "login":
		shots = append(shots, c11xShot{what: "login", req: &logical.Request{Operation: logical.UpdateOperation, Path: base + "login", Data: w.planted()}})
	}
	w.rec.Class("probe:"+m.name+":"+kind, 1)
	// the devices the table lists may refuse entries: one of several (the request must still be served, audited by
	// the others), or all of them in one phase (the request must fail)
	mode, failPhase := "all-accept", ""
	script := map[string]map[string]string{}
	var ids []string
	for _, id := range table {
		ids = append(ids, id)
	}
	sort.Strings(ids)
	if len(ids) > 0 {
		switch fairIndex(w.rt, "deviceFailures", 6) {
		case 0:
			if len(ids) > 1 {
				mode = "one-device-fails"
				script[ids[fairIndex(w.rt, "failingDevice", len(ids))]] = map[string]string{"req": "error", "resp": "error"}
			}
		case 1:
			mode, failPhase = "all-enabled-devices-fail", []string{"req", "resp"}[fairIndex(w.rt, "failPhase", 2)]
			for _, id := range ids {
				script[id] = map[string]string{failPhase: "error"}
			}
		}
	}
	if mode != "all-accept" {
		w.rec.Class("probe-with:"+mode+failPhase, 1)
	}
	for _, s := range shots {
		s.inNS = m.inNS
		w.shoot(m, s, table, script, mode, failPhase)
	}
}

func c11xStrMap(v any) map[string]any {
	m, _ := v.(map[string]any)
	return m
}

func (w *c11xWorld) shoot(m *c11xMount, s c11xShot, table map[string]string, script map[string]map[string]string, mode, failPhase string) {
	ctx := w.tc.ctx
	if s.inNS {
		ctx = namespace.ContextWithNamespace(context.Background(), w.ns1)
	}
	sent := map[string]string{}
	for k, v := range s.req.Data {
		sent[k], _ = v.(string)
	}
	w.ah.mu.Lock()
	w.ah.active, w.ah.events, w.ah.fmtErr, w.ah.script = true, nil, "", script
	w.ah.mu.Unlock()
	callsBefore := len(w.hub.handlerCalls())
	res := w.tc.doCtx(ctx, s.req)
	w.ah.mu.Lock()
	w.ah.active, w.ah.script = false, nil
	events := append([]c11xEvent(nil), w.ah.events...)
	fmtErr := w.ah.fmtErr
	w.ah.mu.Unlock()
	if fmtErr != "" {
		w.t.Fatalf("harness: the audit formatter failed on %s", fmtErr)
	}
	var invoked []recCall
	for _, c := range w.hub.handlerCalls()[callsBefore:] {
		if !c.Revoke && !c.Renew {
			invoked = append(invoked, c)
		}
	}
	enabled := map[string]bool{}
	var tableList []string
	for p, id := range table {
		enabled[id] = true
		tableList = append(tableList, p+"="+id)
	}
	sort.Strings(tableList)
	called := map[string]map[string]bool{"req": {}, "resp": {}}
	firstAccept := map[string]int64{}
	var evs []string
	for _, ev := range events {
		called[ev.phase][ev.id] = true
		if enabled[ev.id] && ev.outcome == "accept" && firstAccept[ev.phase] == 0 {
			firstAccept[ev.phase] = ev.seq
		}
		evs = append(evs, fmt.Sprintf("#%d device id=%s (instance %d) %s %s req-keys=%v resp-keys=%v", ev.seq, ev.id, ev.inst, ev.phase, ev.outcome, ev.reqKeys, ev.respKeys))
	}
	got := map[string]string{}
	if res.resp != nil {
		for k, v := range res.resp.Data {
			if sv, ok := v.(string); ok {
				got[k] = sv
			}
		}
	}
	dataReturned := res.ok() && len(got) > 0
	detail := w.detail(map[string]any{"probe": fmt.Sprintf("%s %s on mount %s", s.what, s.req.Path, m.name), "audit_table": tableList, "audit_events": evs,
		"invocations": len(invoked), "result": res.String(), "exemptions_in_force": fmt.Sprint(m.lists), "device_failures": mode + " " + failPhase})

	// (a) the implications of C11 for this request, with respect to the devices the table lists as enabled
	if len(table) > 0 {
		for _, c := range invoked {
			if firstAccept["req"] == 0 || firstAccept["req"] > c.Seq {
				w.rec.Violation(w.rt, "routed-before-request-audited", detail, "audit devices are enabled (%v) but the backend handler ran (logical time %d) without an enabled device having accepted the request entry before (first accept: %d) | %v", tableList, c.Seq, firstAccept["req"], detail)
			}
		}
		if dataReturned && firstAccept["resp"] == 0 {
			w.rec.Violation(w.rt, "disclosed-without-response-audit", detail, "audit devices are enabled (%v) but response data reached the client without an enabled device having accepted the response entry | %v", tableList, detail)
		}
	}
	// (b) at least one enabled device accepts in both phases: the request must be served; every enabled device
	// refuses: the client gets an error and no data
	switch {
	case mode != "all-enabled-devices-fail":
		if !res.ok() || len(invoked) == 0 || (s.expectData && !dataReturned) {
			w.rec.Violation(w.rt, "request-refused-although-audit-ok", detail, "an enabled audit device accepts both entries, yet the request was not served normally (%v, invocations %d) | %v", res, len(invoked), detail)
		}
	case failPhase == "req":
		if len(invoked) > 0 || res.ok() || dataReturned {
			w.rec.Violation(w.rt, "request-served-with-all-audit-devices-failing", detail, "every enabled device (%v) refused the request entry but the request was served (invocations %d, %v) | %v", tableList, len(invoked), res, detail)
		}
	default:
		if res.ok() || dataReturned {
			w.rec.Violation(w.rt, "response-returned-with-all-audit-devices-failing", detail, "every enabled device (%v) refused the response entry but the client received a successful response | %v", tableList, detail)
		}
	}
	// (c) the broker calls exactly the devices the table lists
	tablePaths := make([]string, 0, len(table))
	for p := range table {
		tablePaths = append(tablePaths, p)
	}
	sort.Strings(tablePaths)
	for _, ph := range []string{"req", "resp"} {
		if ph == "resp" && mode == "all-enabled-devices-fail" && failPhase == "req" {
			break // whether a refused request's error response is offered to the devices is not C11's matter
		}
		for _, p := range tablePaths {
			id := table[p]
			if !called[ph][id] {
				w.rec.Violation(w.rt, "enabled-audit-device-not-called", detail, "device %s (id %s) is enabled according to sys/audit but did not receive the %s entry of the request | %v", p, id, ph, detail)
			}
		}
		var calledIDs []string
		for id := range called[ph] {
			calledIDs = append(calledIDs, id)
		}
		sort.Strings(calledIDs)
		for _, id := range calledIDs {
			if !enabled[id] {
				w.rec.Violation(w.rt, "audit-device-called-though-not-in-table", detail, "a device instance with id %s received the %s entry although sys/audit does not list it | %v", id, ph, detail)
			}
		}
	}
	// (d) exemption lists handed to the devices = those of the last accepted tune; what the devices write hides
	// every value whose key is not exempted
	wantReq, wantResp := c11xSorted(m.lists["audit_non_hmac_request_keys"]), c11xSorted(m.lists["audit_non_hmac_response_keys"])
	// the broker walks its devices in map order: judge the entries in a fixed order
	sort.SliceStable(events, func(i, j int) bool {
		if events[i].phase != events[j].phase {
			return events[i].phase < events[j].phase
		}
		return events[i].id < events[j].id
	})
	sentKeys := make([]string, 0, len(sent))
	for k := range sent {
		sentKeys = append(sentKeys, k)
	}
	sort.Strings(sentKeys)
	gotKeys := make([]string, 0, len(got))
	for k := range got {
		gotKeys = append(gotKeys, k)
	}
	sort.Strings(gotKeys)
	for _, ev := range events {
		w.compareKeys(detail, ev, "request", c11xSorted(ev.reqKeys), wantReq)
		if ev.phase == "resp" && ev.hasResp {
			w.compareKeys(detail, ev, "response", c11xSorted(ev.respKeys), wantResp)
		}
		reqData := c11xStrMap(c11xStrMap(ev.entry["request"])["data"])
		for _, k := range sentKeys {
			w.compareValue(detail, ev, "request", k, sent[k], reqData[k], c11xHas(wantReq, k))
		}
		if ev.phase == "resp" {
			respData := c11xStrMap(c11xStrMap(ev.entry["response"])["data"])
			for _, k := range gotKeys {
				w.compareValue(detail, ev, "response", k, got[k], respData[k], c11xHas(wantResp, k))
			}
		}
		secrets := []string{s.req.ClientToken}
		if res.resp != nil && res.resp.Auth != nil {
			secrets = append(secrets, res.resp.Auth.ClientToken)
		}
		for _, sec := range secrets {
			if sec != "" && strings.Contains(ev.raw, sec) {
				w.rec.Violation(w.rt, "plaintext-token-in-audit-entry", detail, "the %s entry written by device %s contains a client token in plaintext | %v", ev.phase, ev.id, detail)
			}
		}
	}
}

func (w *c11xWorld) compareKeys(detail map[string]any, ev c11xEvent, part string, have, want []string) {
	for _, k := range have {
		if !c11xHas(want, k) {
			w.rec.Violation(w.rt, "refused-or-unset-hmac-exemption-in-force", detail, "the %s entry handed to device %s exempts %s key %q from HMAC-ing, but no accepted tune of this mount lists it (accepted: %v, in force: %v) | %v", ev.phase, ev.id, part, k, want, have, detail)
		}
	}
	for _, k := range want {
		if !c11xHas(have, k) {
			w.rec.Violation(w.rt, "accepted-hmac-exemption-not-in-force", detail, "the %s entry handed to device %s does not exempt %s key %q although the last accepted tune lists it (accepted: %v, in force: %v) | %v", ev.phase, ev.id, part, k, want, have, detail)
		}
	}
}

func (w *c11xWorld) compareValue(detail map[string]any, ev c11xEvent, part, key, plain string, logged any, exempt bool) {
	if plain == "" {
		return
	}
	ls, _ := logged.(string)
	switch {
	case !exempt && strings.Contains(fmt.Sprint(logged), plain):
		w.rec.Violation(w.rt, "plaintext-in-audit-entry-under-non-exempt-key", detail, "the %s entry written by device %s holds the plaintext of %s data key %q, which is not exempted from HMAC-ing | %v", ev.phase, ev.id, part, key, detail)
	case !exempt && !strings.HasPrefix(ls, "hmac-sha256:"):
		w.rec.Class("observation:non-exempt-value-logged-as-something-else-than-an-hmac", 1)
	case exempt && ls != plain:
		w.rec.Violation(w.rt, "accepted-hmac-exemption-not-in-force", detail, "the %s entry written by device %s does not hold the plain value of the exempted %s data key %q (holds %v) | %v", ev.phase, ev.id, part, key, logged, detail)
	}
}

// readBack compares the tune read-back of every mount with the lists of the last accepted tune.
func (w *c11xWorld) readBack() {
	for _, m := range w.mounts {
		path := "sys/mounts/rb/tune"
		if m.auth {
			path = "sys/auth/ra/tune"
		}
		r := w.sysReq(m.inNS, logical.ReadOperation, path, nil)
		if !r.ok() || r.resp == nil {
			w.t.Fatalf("harness: reading %s: %v | %v", path, r, w.trace)
		}
		for _, f := range c11xFields {
			have, _ := r.resp.Data[f].([]string)
			if strings.Join(c11xSorted(have), ",") != strings.Join(c11xSorted(m.lists[f]), ",") {
				detail := w.detail(map[string]any{"mount": m.name, "field": f, "read_back": have, "accepted": m.lists[f]})
				w.rec.Violation(w.rt, "tune-readback-differs-from-accepted-tune", detail, "%s of mount %s reads back %v, the last accepted tune set %v | %v", f, m.name, have, m.lists[f], detail)
			}
		}
	}
}

// observe runs after every step.
func (w *c11xWorld) observe(m *c11xMount) {
	table := w.auditTable()
	var have, want []string
	for p, id := range table {
		have = append(have, p+"="+id)
	}
	for p, d := range w.devs {
		want = append(want, p+"="+d.id)
	}
	sort.Strings(have)
	sort.Strings(want)
	if strings.Join(have, " ") != strings.Join(want, " ") {
		detail := w.detail(map[string]any{"sys_audit": have})
		w.rec.Violation(w.rt, "audit-table-differs-from-accepted-changes", detail, "sys/audit lists %v, the accepted changes of the audit table amount to %v | %v", have, want, detail)
	}
	if m == nil {
		m = w.mounts[fairIndex(w.rt, "probedMount", len(w.mounts))]
	}
	w.probe(m, table)
	w.readBack()
}

func TestVerif_C11_AuditConfig(t *testing.T) {
	rec := verifx.NewRecorder("C11", "audit-config", "one core per case (transactional or plain storage, a fifth with an HA lock, a third with API creation of audit devices left disabled), a recording secrets mount in the root namespace and in a child namespace, a recording auth mount, scripted audit devices that format entries with the real formatter; a history of 4-10 steps drawn from: enable / disable a device (sys/audit API or the in-package call, optionally with a storage fault on the table write), disable + re-enable at the same path, enable requests that must be refused (path in use, nested path, unknown type, failing test message, API creation disabled), the audit table replaced in storage behind the node's back (1-3 edits: remove, remove + add at the same path with a new accessor, add) followed by ONE storage invalidation of core/audit or core/local-audit, declarative devices via configuration reload, seal/unseal, restart, leadership change; mount tunes of the three mounts setting audit_non_hmac_request_keys / audit_non_hmac_response_keys / passthrough_request_headers / allowed_response_headers that are accepted, rejected early (TTL, plugin version, lockout config) or rejected late (options version, listing visibility, token type, failing put/commit of the mount table); after every step: sys/audit must list the accepted table, a probe request (echo, kv write+read, leased secret, login) must be received in both phases by exactly the devices sys/audit lists, and with a device enabled the backend runs only after an enabled device accepted the request entry and data returns only after the response entry was accepted; the LogInput handed to the devices must list exactly the exemptions of the last accepted tune, the formatted entries hold an HMAC for every planted value under a non-exempt key, and the tune read-back shows the accepted lists; non-trivial = a change of the audit table with a device configured or a late-rejected tune, followed by a probe")
	defer rec.Flush()
	maxSteps := verifx.Scale(10, 16)
	rapid.Check(t, func(rt *rapid.T) {
		defer recoverWedged(rec)
		defer c11xRecoverStalled(rec)
		w := c11xBoot(t, rt, rec)
		defer func() { w.tc.shutdown() }()
		defer func() {
			if w.abandoned {
				return
			}
			class := "plain"
			if w.tc.opts.ha {
				class = "ha"
			}
			if w.followed > 0 {
				class += "+followed-table-change"
			}
			if w.lateRejects > 0 {
				class += "+late-rejected-tune"
			}
			trace := append([]string(nil), w.trace...)
			rec.Case(class, w.tableChanges > 0 || w.lateRejects > 0, verifx.Digest(strings.Join(trace, "|")), func() any { return map[string]any{"steps": trace} })
		}()
		n := 4 + fairIndex(rt, "steps", maxSteps-3)
		actions := []string{"enable", "enable", "disable", "disable", "reenable", "reenable", "follow", "follow", "follow", "refused-enable", "refused-disable",
			"reload-config", "seal", "restart", "tune-accept", "tune-accept", "tune-early", "tune-late", "tune-late", "tune-late"}
		if w.tc.opts.ha {
			actions = append(actions, "step-down", "step-down")
		}
		// every history starts with a device, otherwise most of it runs with an empty table
		w.stepEnable()
		w.observe(nil)
		for i := 0; i < n; i++ {
			var tuned *c11xMount
			switch actions[fairIndex(rt, "action", len(actions))] {
			case "enable":
				w.stepEnable()
			case "disable":
				w.stepDisable()
			case "reenable":
				w.stepReenable()
			case "follow":
				w.stepFollow()
			case "refused-enable":
				w.stepRefusedEnable()
			case "refused-disable":
				w.stepRefusedDisable()
			case "reload-config":
				w.stepReloadConfig()
			case "seal":
				w.stepSeal()
			case "restart":
				w.stepRestart()
			case "step-down":
				w.stepStepDown()
			case "tune-accept":
				tuned = w.stepTune("accept")
			case "tune-early":
				tuned = w.stepTune("early")
			case "tune-late":
				tuned = w.stepTune("late")
			}
			w.observe(tuned)
		}
	})
}
