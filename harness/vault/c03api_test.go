//go:build verif

package vault

import (
	"fmt"
	"sort"
	"strings"
	"testing"

	"github.com/openbao/openbao/sdk/v2/helper/verifx"
	"github.com/openbao/openbao/sdk/v2/logical"
	"github.com/openbao/openbao/v2/internal/helper/namespace"
	"pgregory.net/rapid"
)

// TestVerif_C03_CapabilitiesAPI: the capability list the server reports for a path (sys/capabilities,
// sys/capabilities-accessor, sys/capabilities-self) agrees with the reference decision for that namespace-qualified
// path and with the operations the server actually permits on it - also when the request namespace differs from the
// namespace the token and its policies live in.
func TestVerif_C03_CapabilitiesAPI(t *testing.T) {
	rec := verifx.NewRecorder("C03", "capabilities-api", "real core with recording backends at rb/, rc/ and ns1/rb/: 1-3 generated policies per namespace (exact and trailing-glob patterns, capability subsets incl. deny and sudo, root-namespace policies reaching into ns1/), tokens of the root namespace or of ns1 holding generated subsets; for generated (token, request namespace at or below the token's, path) the capability list reported by sys/capabilities (asked by a root token inside the request namespace), sys/capabilities-accessor and sys/capabilities-self is compared with the reference decision for the namespace-qualified path, and with what the server does for a read, list and delete request on that path with that token in that namespace (permitted iff the capability is reported; sudo additionally on root-protected paths); non-trivial = the request namespace differs from the token's namespace, or >= 2 policies contribute stanzas matching the path")
	defer rec.Flush()
	rapid.Check(t, func(rt *rapid.T) {
		w := newC02World(t, false)
		defer func() { w.tc.shutdown() }()
		tc := w.tc
		var hist []string
		// policies
		for _, ns := range []string{"", "ns1/"} {
			n := 1 + fairIndex(rt, "npol"+ns, 3)
			for i := 0; i < n; i++ {
				name := fmt.Sprintf("p%d", i+1)
				p := c02GenPolicy(rt, ns)
				r := tc.doCtx(w.nsCtx(ns), &logical.Request{Operation: logical.UpdateOperation, Path: "sys/policy/" + name, ClientToken: tc.root, Data: map[string]any{"policy": p.hcl()}})
				tc.mustOK(r, "policy")
				w.pols[ns+name] = p
				hist = append(hist, fmt.Sprintf("policy %s%s = %s", ns, name, strings.ReplaceAll(p.hcl(), "\n", " ")))
			}
		}
		// tokens
		type tok struct {
			id, acc, ns string
			pols        []string
		}
		var toks []tok
		for i := 0; i < 2+fairIndex(rt, "ntok", 2); i++ {
			ns := []string{"", "ns1/"}[fairIndex(rt, fmt.Sprintf("tokns%d", i), 2)]
			var names []string
			for _, n := range []string{"p1", "p2", "p3"} {
				if _, ok := w.pols[ns+n]; ok && rapid.Bool().Draw(rt, fmt.Sprintf("tok%d-%s", i, n)) {
					names = append(names, n)
				}
			}
			if len(names) == 0 {
				names = []string{"p1"}
			}
			r := tc.doCtx(w.nsCtx(ns), &logical.Request{Operation: logical.UpdateOperation, Path: "auth/token/create", ClientToken: tc.root,
				Data: map[string]any{"policies": append([]string{"default"}, names...), "ttl": "1h", "no_parent": true}})
			if !r.ok() || r.resp == nil || r.resp.Auth == nil {
				t.Fatalf("harness: token: %v", r)
			}
			toks = append(toks, tok{id: r.resp.Auth.ClientToken, acc: r.resp.Auth.Accessor, ns: ns, pols: names})
			hist = append(hist, fmt.Sprintf("token t%d ns=%q policies=%v", i, ns, names))
		}
		// seed the kv paths so that read/delete/list have something to act on
		for _, ns := range []string{"", "ns1/"} {
			for _, p := range []string{"rb/kv/x", "rb/kv/sub/z"} {
				tc.doCtx(w.nsCtx(ns), &logical.Request{Operation: logical.UpdateOperation, Path: p, ClientToken: tc.root, Data: map[string]any{"v": "1"}})
			}
		}
		nontrivial := false
		queries := 3 + fairIndex(rt, "queries", 4)
		for q := 0; q < queries; q++ {
			tk := toks[fairIndex(rt, "tok", len(toks))]
			reqNS := tk.ns
			if tk.ns == "" && rapid.Bool().Draw(rt, "inChild") {
				reqNS = "ns1/"
			}
			path := []string{"rb/kv/x", "rb/kv/sub/z", "rb/kv/", "rb/echo/e", "rb/root/r", "rc/kv/x"}[fairIndex(rt, "path", 6)]
			if reqNS == "ns1/" && strings.HasPrefix(path, "rc/") {
				path = "rb/kv/x"
			}
			var pols []c02Policy
			contributing := 0
			for _, n := range tk.pols {
				p := w.pols[tk.ns+n]
				pols = append(pols, p)
				if c02Decide([]c02Policy{p}, reqNS+path) != nil {
					contributing++
				}
			}
			want := c02Decide(pols, reqNS+path)
			var wantList []string
			for c := range want {
				wantList = append(wantList, c)
			}
			sort.Strings(wantList)
			if len(wantList) == 0 {
				wantList = []string{"deny"}
			}
			if reqNS != tk.ns || contributing >= 2 {
				nontrivial = true
			}
			detail := func() map[string]any {
				return map[string]any{"history": hist, "token_ns": tk.ns, "token_policies": tk.pols, "request_ns": reqNS, "path": path, "reference": wantList}
			}
			ctx := w.nsCtx(reqNS)
			getCaps := func(r rr) ([]string, bool) {
				if !r.ok() || r.resp == nil {
					return nil, false
				}
				raw, ok := r.resp.Data["capabilities"]
				if !ok {
					raw = r.resp.Data[path]
				}
				var out []string
				switch v := raw.(type) {
				case []string:
					out = append(out, v...)
				case []any:
					for _, x := range v {
						out = append(out, fmt.Sprint(x))
					}
				default:
					return nil, false
				}
				sort.Strings(out)
				return out, true
			}
			routes := map[string]rr{
				"sys/capabilities": tc.doCtx(ctx, &logical.Request{Operation: logical.UpdateOperation, Path: "sys/capabilities", ClientToken: tc.root, Data: map[string]any{"token": tk.id, "paths": []string{path}}}),
			}
			if reqNS == tk.ns {
				// accessor lookup does not cross namespaces; capabilities-self needs the token's own default policy
				routes["sys/capabilities-accessor"] = tc.doCtx(ctx, &logical.Request{Operation: logical.UpdateOperation, Path: "sys/capabilities-accessor", ClientToken: tc.root, Data: map[string]any{"accessor": tk.acc, "paths": []string{path}}})
				routes["sys/capabilities-self"] = tc.doCtx(ctx, &logical.Request{Operation: logical.UpdateOperation, Path: "sys/capabilities-self", ClientToken: tk.id, Data: map[string]any{"paths": []string{path}}})
			}
			var reported []string
			for _, route := range []string{"sys/capabilities", "sys/capabilities-accessor", "sys/capabilities-self"} {
				r, ok := routes[route]
				if !ok {
					continue
				}
				got, ok := getCaps(r)
				if !ok {
					rec.Violation(rt, "capabilities-route-failed:"+route, detail(), "%s for a live token failed: %v (token ns %q, request ns %q, path %q)", route, r, tk.ns, reqNS, path)
					continue
				}
				if route == "sys/capabilities" {
					reported = got
				}
				if strings.Join(got, ",") != strings.Join(wantList, ",") {
					rec.Violation(rt, "reported-capabilities-differ-from-reference:"+route, detail(), "%s reports %v for token(ns=%q, policies %v) on %q in namespace %q; the documented semantics give %v; %v", route, got, tk.ns, tk.pols, path, reqNS, wantList, hist)
				}
			}
			// what the server actually permits
			has := func(c string) bool {
				for _, x := range reported {
					if x == c {
						return true
					}
				}
				return false
			}
			if reported != nil {
				type probe struct {
					op   logical.Operation
					cap  string
					path string
				}
				probes := []probe{{logical.ReadOperation, "read", path}, {logical.DeleteOperation, "delete", path}}
				if strings.HasSuffix(path, "/") {
					probes = []probe{{logical.ListOperation, "list", path}}
				}
				for _, pb := range probes {
					before := w.hub.callCount()
					r := tc.doCtx(ctx, &logical.Request{Operation: pb.op, Path: pb.path, ClientToken: tk.id})
					invoked := w.hub.callCount() > before
					expect := has(pb.cap) && !has("deny")
					if strings.HasPrefix(path, "rb/root/") {
						expect = expect && has("sudo")
					}
					if invoked != expect {
						rec.Violation(rt, "reported-capabilities-disagree-with-permitted-operation", detail(), "the server reports %v for %q in namespace %q but a %s request with that token was %s (%v); %v", reported, path, reqNS, pb.op, map[bool]string{true: "served by the backend", false: "not served"}[invoked], r, hist)
					}
					if pb.op == logical.DeleteOperation && invoked {
						tc.doCtx(ctx, &logical.Request{Operation: logical.UpdateOperation, Path: pb.path, ClientToken: tc.root, Data: map[string]any{"v": "1"}})
					}
				}
			}
			hist = append(hist, fmt.Sprintf("query token(ns=%q,%v) in %q on %q -> %v (reference %v)", tk.ns, tk.pols, reqNS, path, reported, wantList))
		}
		// effective policy sets that span namespaces (a token's own policies plus identity policies of another
		// namespace reach Store.ACL as one map namespace -> names): the merged ACL is the union of every named policy,
		// each taken from the namespace it was named in - policy names are unique within a namespace only
		crossNS := false
		for q := 0; q < 1+fairIndex(rt, "storeacl", 2); q++ {
			names := map[string][]string{}
			var pols []c02Policy
			var picked []string
			for _, ns := range []string{"", "ns1/"} {
				id := namespace.RootNamespaceID
				if ns != "" {
					id = w.ns1.ID
				}
				for _, n := range []string{"p1", "p2", "p3"} {
					if p, ok := w.pols[ns+n]; ok && rapid.IntRange(0, 2).Draw(rt, fmt.Sprintf("storeacl-%s%s", ns, n)) > 0 {
						if rapid.IntRange(0, 3).Draw(rt, "upper") == 0 {
							names[id] = append(names[id], strings.ToUpper(n)) // policy names are case-insensitive
						} else {
							names[id] = append(names[id], n)
						}
						pols = append(pols, p)
						picked = append(picked, ns+n)
					}
				}
			}
			if len(pols) == 0 {
				continue
			}
			same := false
			for _, a := range names[namespace.RootNamespaceID] {
				for _, b := range names[w.ns1.ID] {
					if strings.EqualFold(a, b) {
						same = true
					}
				}
			}
			reqNS := []string{"", "ns1/"}[fairIndex(rt, "storeacl-ns", 2)]
			path := []string{"rb/kv/x", "rb/kv/sub/z", "rb/kv/", "rb/echo/e", "rb/root/r"}[fairIndex(rt, "storeacl-path", 5)]
			want := c02Decide(pols, reqNS+path)
			var wantList []string
			for c := range want {
				wantList = append(wantList, c)
			}
			sort.Strings(wantList)
			if len(wantList) == 0 {
				wantList = []string{"deny"}
			}
			// the verdict must not depend on the order in which the map is walked: build the ACL several times
			for rep := 0; rep < 6; rep++ {
				acl, err := tc.c.policyStore.ACL(w.nsCtx(""), nil, names)
				if err != nil {
					t.Fatalf("harness: Store.ACL(%v): %v", names, err)
				}
				got := acl.Capabilities(w.nsCtx(reqNS), path)
				sort.Strings(got)
				if strings.Join(got, ",") != strings.Join(wantList, ",") {
					rec.Violation(rt, "store-acl-differs-from-reference:"+map[bool]string{true: "same-name-in-two-namespaces", false: "distinct-names"}[same],
						map[string]any{"history": hist, "policies": picked, "names": fmt.Sprint(names), "request_ns": reqNS, "path": path, "reference": wantList, "got": got},
						"the ACL built from %v (policies %v) gives %v on %q in namespace %q; the documented semantics over the union of these policies give %v; %v", names, picked, got, path, reqNS, wantList, hist)
				}
			}
			if same {
				crossNS = true
			}
			hist = append(hist, fmt.Sprintf("store-acl %v in %q on %q -> %v", picked, reqNS, path, wantList))
		}
		if crossNS {
			nontrivial = true
			rec.Class("store-acl:same-name-in-two-namespaces", 1)
		}
		rec.Case(fmt.Sprintf("queries=%d", queries), nontrivial, verifx.Digest(hist), func() any { return map[string]any{"history": hist} })
	})
}
