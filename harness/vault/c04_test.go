//go:build verif

package vault

import (
	"context"
	"fmt"
	"sort"
	"strings"
	"testing"
	"time"

	"github.com/openbao/openbao/sdk/v2/helper/verifx"
	"github.com/openbao/openbao/sdk/v2/logical"
	"github.com/openbao/openbao/v2/internal/helper/namespace"
	"pgregory.net/rapid"
)

const c04Policy = `
path "rb/*" { capabilities = ["create","read","update","delete","list"] }
path "auth/token/create" { capabilities = ["update"] }
`

type c04Lease struct {
	leaseID  string
	secretID string
	ns       int // namespace index the lease was issued in (namespaces unit)
}

type c04Tok struct {
	name     string
	id, acc  string
	parent   int // index of parent token in the model, -1 = none (created by root as orphan) / root-created
	alive    bool
	batch    bool   // a batch token (no storage entry, no cubbyhole, cannot be revoked itself; dies with its parent)
	cubbyKey string // physical key of its cubbyhole entry ("" if none)
	tokLease string // lease id of the token itself
	leases   []c04Lease
}

type c04World struct {
	// revBase: revocation counts of the (shared) recording backend when this world was forked; forks of one store
	// hold the same secrets, so only revocations since the fork count for this world
	revBase map[string]int
	t    *testing.T
	tc   *tcore
	hub  *recHub
	toks []*c04Tok
	log  []string
	// customNext: the next root-created token gets an operator-chosen id (its cubbyhole is addressed differently)
	customNext bool
	customN    int
}

func newC04World(t *testing.T, transactional bool, haOpt ...bool) *c04World {
	hub := newRecHub()
	tc := mustBoot(t, coreOpts{transactional: transactional, cacheOff: true, ha: len(haOpt) > 0 && haOpt[0],
		logical: map[string]logical.Factory{"recbe": hub.factory("recbe", logical.TypeLogical)}})
	tc.mount("rb", "recbe", nil)
	tc.writePolicy("c04", c04Policy)
	return &c04World{t: t, tc: tc, hub: hub}
}

func (w *c04World) logf(format string, a ...any) { w.log = append(w.log, fmt.Sprintf(format, a...)) }

func (w *c04World) aliveIdx() []int {
	var out []int
	for i, tk := range w.toks {
		if tk.alive {
			out = append(out, i)
		}
	}
	return out
}

// create makes a child of parent (index, or -1 for a root-created orphan).
func (w *c04World) create(parent int, orphan bool) (*c04Tok, rr) { return w.createT(parent, orphan, false) }

func (w *c04World) createT(parent int, orphan, batch bool) (*c04Tok, rr) {
	ptok := w.tc.root
	if parent >= 0 {
		ptok = w.toks[parent].id
	}
	data := map[string]any{"policies": []string{"default", "c04"}, "ttl": "1h"}
	if batch {
		data["type"] = "batch"
	}
	if parent < 0 && orphan {
		data["no_parent"] = true
	}
	if parent < 0 && w.customNext {
		w.customN++
		data["id"] = fmt.Sprintf("c04-chosen-id-%d-%d", len(w.toks), w.customN)
	}
	w.customNext = false
	id, acc, r := w.tc.createToken(ptok, data)
	if id == "" {
		return nil, r
	}
	tk := &c04Tok{name: fmt.Sprintf("t%d", len(w.toks)), id: id, acc: acc, parent: parent, alive: true, batch: batch}
	if parent < 0 {
		tk.parent = -1
	}
	if !batch {
		tk.tokLease = w.tokenLeaseID(tk)
	}
	w.toks = append(w.toks, tk)
	return tk, r
}

func (w *c04World) writeCubby(i int) bool {
	tk := w.toks[i]
	seq := w.tc.rec.Seq()
	r := w.tc.req(logical.UpdateOperation, "cubbyhole/secret", tk.id, map[string]any{"v": "cubby-" + tk.name})
	if !r.ok() {
		return false
	}
	for _, o := range w.tc.rec.OpsSince(seq) {
		if o.Kind == "put" && strings.HasPrefix(o.Key, "logical/") && o.Err == nil {
			tk.cubbyKey = o.Key
		}
	}
	return true
}

func (w *c04World) lease(i int) bool {
	tk := w.toks[i]
	r := w.tc.req(logical.ReadOperation, "rb/creds/x", tk.id, nil)
	if !r.ok() || r.resp == nil || r.resp.Secret == nil || r.resp.Secret.LeaseID == "" {
		return false
	}
	sid, _ := r.resp.Data["secret_id"].(string)
	tk.leases = append(tk.leases, c04Lease{leaseID: r.resp.Secret.LeaseID, secretID: sid})
	return true
}

// subtree returns the indexes of i and all its (non-orphaned) descendants.
func (w *c04World) subtree(i int) []int {
	out := []int{i}
	for changed := true; changed; {
		changed = false
		for j, tk := range w.toks {
			in := false
			for _, x := range out {
				if x == j {
					in = true
				}
			}
			if in {
				continue
			}
			for _, x := range out {
				if tk.parent == x {
					out = append(out, j)
					changed = true
					break
				}
			}
		}
	}
	sort.Ints(out)
	return out
}

func (w *c04World) tokenLeaseID(tk *c04Tok) string {
	inner, err := w.tc.c.DecodeSSCToken(tk.id)
	if err != nil {
		w.t.Fatalf("harness: DecodeSSCToken: %v", err)
	}
	salted, err := w.tc.c.tokenStore.SaltID(w.tc.ctx, inner)
	if err != nil {
		w.t.Fatalf("harness: SaltID: %v", err)
	}
	return "auth/token/create/" + salted
}

var c04RevokeKinds = []string{"revoke", "revoke-self", "revoke-accessor", "revoke-orphan", "lease-revoke"}

// revoke issues the revocation request of the given kind; returns the request result.
func (w *c04World) revoke(kind string, i int) rr {
	tk := w.toks[i]
	switch kind {
	case "revoke":
		return w.tc.req(logical.UpdateOperation, "auth/token/revoke", w.tc.root, map[string]any{"token": tk.id})
	case "revoke-self":
		return w.tc.req(logical.UpdateOperation, "auth/token/revoke-self", tk.id, nil)
	case "revoke-accessor":
		return w.tc.req(logical.UpdateOperation, "auth/token/revoke-accessor", w.tc.root, map[string]any{"accessor": tk.acc})
	case "revoke-orphan":
		return w.tc.req(logical.UpdateOperation, "auth/token/revoke-orphan", w.tc.root, map[string]any{"token": tk.id})
	case "lease-revoke":
		return w.tc.req(logical.UpdateOperation, "sys/leases/revoke", w.tc.root, map[string]any{"lease_id": tk.tokLease})
	}
	panic(kind)
}

// applyRevoked updates the model after a revocation of kind on i was reported successful.
func (w *c04World) applyRevoked(kind string, i int) []int {
	if kind == "revoke-orphan" {
		w.toks[i].alive = false
		dead := []int{i}
		for j, tk := range w.toks {
			if tk.parent == i {
				if tk.batch {
					// a batch token is valid only while its parent exists, and its leases hang on the parent's index
					tk.alive = false
					dead = append(dead, j)
					continue
				}
				tk.parent = -1
			}
		}
		return dead
	}
	dead := w.subtree(i)
	for _, j := range dead {
		w.toks[j].alive = false
	}
	return dead
}

// reaches reports whether a request with the token reaches the recording backend's handler.
func (w *c04World) reaches(tok string) bool {
	before := w.hub.callCount()
	r := w.tc.req(logical.ReadOperation, "rb/echo/probe", tok, nil)
	return r.ok() && w.hub.callCount() > before
}

// checkAll evaluates the invariant for every token of the model. It returns "" or a description of the first breach.
func (w *c04World) checkAll() (string, string) {
	for _, tk := range w.toks {
		alive := w.tc.tokenAlive(tk.id)
		reach := w.reaches(tk.id)
		if tk.alive {
			if !alive || !reach {
				return "live-token-rejected", fmt.Sprintf("token %s should be usable but lookup-self=%v backend-reached=%v", tk.name, alive, reach)
			}
			continue
		}
		if alive || reach {
			return "revoked-token-usable", fmt.Sprintf("token %s is revoked (or a descendant of a revoked token) but lookup-self=%v backend-reached=%v", tk.name, alive, reach)
		}
		if tk.cubbyKey != "" {
			e, err := w.tc.rec.Inner.Get(w.tc.ctx, tk.cubbyKey)
			if err == nil && e != nil {
				return "cubbyhole-remains", fmt.Sprintf("cubbyhole entry %s of revoked token %s still in storage", tk.cubbyKey, tk.name)
			}
		}
		for _, l := range tk.leases {
			le, err := w.tc.c.expiration.loadEntry(namespace.RootContext(w.tc.ctx), l.leaseID)
			if err != nil {
				continue
			}
			if le != nil && le.ExpireTime.After(time.Now()) && !le.isIrrevocable() {
				w.hub.mu.Lock()
				rv := w.hub.revoked[l.secretID] - w.revBase[l.secretID]
				w.hub.mu.Unlock()
				if rv == 0 {
					return "lease-not-revoked", fmt.Sprintf("lease %s issued under revoked token %s is still stored with expiry %v in the future and was not revoked at the backend", l.leaseID, tk.name, le.ExpireTime)
				}
			}
		}
	}
	return "", ""
}

func (w *c04World) shape() string {
	var sb strings.Builder
	for i, tk := range w.toks {
		fmt.Fprintf(&sb, "%d<-%d%s ", i, tk.parent, map[bool]string{true: "", false: "x"}[tk.alive])
	}
	return sb.String()
}

// restart replaces the core by a new one booted on the same storage.
func (w *c04World) restart() {
	w.tc.shutdown()
	n, err := w.tc.restartOn(w.tc.phys)
	if err != nil {
		w.t.Fatalf("harness: restart failed: %v", err)
	}
	w.tc = n
}

// fork boots a second core on a copy of the current storage and returns a world sharing the model (deep-copied).
func (w *c04World) fork() *c04World {
	cp := w.tc.rec.Fork(w.tc.opts.transactional)
	n, err := w.tc.restartOn(cp)
	if err != nil {
		w.t.Fatalf("harness: fork failed: %v", err)
	}
	nw := &c04World{t: w.t, tc: n, hub: w.hub, revBase: map[string]int{}}
	w.hub.mu.Lock()
	for id, c := range w.hub.revoked {
		nw.revBase[id] = c
	}
	w.hub.mu.Unlock()
	for _, tk := range w.toks {
		c := *tk
		c.leases = append([]c04Lease(nil), tk.leases...)
		nw.toks = append(nw.toks, &c)
	}
	nw.log = append([]string(nil), w.log...)
	return nw
}

// ---------------------------------------------------------------- (a) sequential histories

func TestVerif_C04_Histories(t *testing.T) {
	rec := verifx.NewRecorder("C04", "histories", "rapid state machine on a fresh in-memory core per case: create child / orphan / batch child, write cubbyhole, obtain leased secret, revoke (by id, self, by accessor, revoke-orphan, through the token's lease), restart on the same storage, step-down and re-acquisition of leadership on an HA-enabled node; after every action every token of the model is probed (lookup-self, request to a recording backend, accessor lookup, cubbyhole key in physical storage, lease entries); non-trivial = a successful revocation of a token with >=1 descendant and >=1 lease or cubbyhole entry in the subtree")
	defer rec.Flush()
	rapid.Check(t, func(rt *rapid.T) {
		defer recoverWedged(rec)
		ha := fairIndex(rt, "haEnabled", 4) == 0
		w := newC04World(t, rapid.Bool().Draw(rt, "transactionalStorage"), ha)
		defer func() { w.tc.shutdown() }()
		nontrivial := false
		restarts := 0
		fail := func(sig, msg string) {
			rec.Violation(rt, sig, map[string]any{"history": w.log, "tree": w.shape()}, "%s; history=%v", msg, w.log)
		}
		pickAlive := func(label string) int {
			a := w.aliveIdx()
			if len(a) == 0 {
				return -1
			}
			return a[rapid.IntRange(0, len(a)-1).Draw(rt, label)]
		}
		rt.Repeat(map[string]func(*rapid.T){
			"create": func(rt *rapid.T) {
				// nine tokens per history, up to eighteen when all of them are gone
				if len(w.toks) >= 9 && (len(w.aliveIdx()) > 0 || len(w.toks) >= 18) {
					rt.Skip("enough tokens")
				}
				parent := -1
				if rapid.IntRange(0, 3).Draw(rt, "underToken") > 0 {
					parent = pickAlive("parent")
					if parent >= 0 && w.toks[parent].batch {
						parent = -1 // batch tokens cannot create tokens
					}
				}
				orphan := parent < 0 && rapid.Bool().Draw(rt, "orphan")
				w.customNext = parent < 0 && rapid.Bool().Draw(rt, "operatorChosenID")
				custom := w.customNext
				tk, r := w.create(parent, orphan)
				w.logf("create parent=%d orphan=%v operator-chosen-id=%v -> %v", parent, orphan, custom, r)
				if tk == nil {
					fail("create-failed", fmt.Sprintf("token creation under live parent %d failed: %v", parent, r))
				}
			},
			// a batch child of a live service token: it and the leases it takes die with the parent
			"create-batch": func(rt *rapid.T) {
				if len(w.toks) >= 9 {
					rt.Skip("enough tokens")
				}
				var cands []int
				for _, i := range w.aliveIdx() {
					if !w.toks[i].batch {
						cands = append(cands, i)
					}
				}
				if len(cands) == 0 {
					rt.Skip("no live service token")
				}
				parent := cands[rapid.IntRange(0, len(cands)-1).Draw(rt, "parent")]
				tk, r := w.createT(parent, false, true)
				w.logf("create-batch parent=%d -> %v", parent, r)
				if tk == nil {
					fail("create-failed", fmt.Sprintf("batch token creation under live parent %d failed: %v", parent, r))
				}
			},
			"cubby": func(rt *rapid.T) {
				i := pickAlive("tok")
				if i < 0 || w.toks[i].batch {
					rt.Skip("no live service token")
				}
				ok := w.writeCubby(i)
				w.logf("cubby %d -> %v", i, ok)
			},
			"lease": func(rt *rapid.T) {
				i := pickAlive("tok")
				if i < 0 {
					rt.Skip("no live token")
				}
				ok := w.lease(i)
				w.logf("lease %d -> %v", i, ok)
			},
			// one lease of a live token is revoked on its own (sys/leases/revoke, synchronously); half of the time the
			// secrets engine refuses, the request fails and the lease stays - the later revocation of its token must
			// still take it along
			"lease-revoke": func(rt *rapid.T) {
				var cands []int
				for _, i := range w.aliveIdx() {
					if len(w.toks[i].leases) > 0 {
						cands = append(cands, i)
					}
				}
				if len(cands) == 0 {
					rt.Skip("no live token with a lease")
				}
				i := cands[rapid.IntRange(0, len(cands)-1).Draw(rt, "tok")]
				l := w.toks[i].leases[rapid.IntRange(0, len(w.toks[i].leases)-1).Draw(rt, "lease")]
				refuse := rapid.Bool().Draw(rt, "backendRefuses")
				w.hub.mu.Lock()
				was := w.hub.failRevoke
				w.hub.failRevoke = refuse
				w.hub.mu.Unlock()
				r := w.tc.req(logical.UpdateOperation, "sys/leases/revoke", w.tc.root, map[string]any{"lease_id": l.leaseID, "sync": true})
				w.hub.mu.Lock()
				w.hub.failRevoke = was
				w.hub.mu.Unlock()
				w.logf("revoke of lease %s of token %d alone (backend refuses: %v) -> %v", l.leaseID, i, refuse, r)
				if !refuse && !r.ok() {
					fail("lease-revoke-failed", fmt.Sprintf("synchronous revocation of a lease of live token %d failed without any fault: %v", i, r))
				}
			},
			"renew": func(rt *rapid.T) {
				i := pickAlive("tok")
				if i < 0 && len(w.toks) > 0 {
					// nothing is alive any more: a revoked token asks for more time. Keeps one action besides "revoke"
					// enabled in the terminal state of a history (rapid gives up a case after 100 skipped draws in a
					// row, seen at 6 of 16 shards of a thorough run)
					j := rapid.IntRange(0, len(w.toks)-1).Draw(rt, "deadTok")
					if !w.toks[j].batch {
						r := w.tc.req(logical.UpdateOperation, "auth/token/renew-self", w.toks[j].id, map[string]any{"increment": "30m"})
						w.logf("renew of revoked token %d -> %v", j, r)
						if r.ok() {
							fail("revoked-token-renewed", fmt.Sprintf("revoked token %d renewed itself: %v", j, r))
						}
					}
					return
				}
				if i < 0 || w.toks[i].batch {
					rt.Skip("no live service token")
				}
				r := w.tc.req(logical.UpdateOperation, "auth/token/renew-self", w.toks[i].id, map[string]any{"increment": "30m"})
				w.logf("renew %d -> %v", i, r)
			},
			"revoke": func(rt *rapid.T) {
				if len(w.toks) == 0 {
					rt.Skip("no token")
				}
				// mostly live tokens, sometimes an already revoked one (idempotence)
				i := rapid.IntRange(0, len(w.toks)-1).Draw(rt, "tok")
				if w.toks[i].batch {
					i = w.toks[i].parent // a batch token cannot be revoked itself
				}
				kind := rapid.SampledFrom(c04RevokeKinds).Draw(rt, "kind")
				if !w.toks[i].alive && (kind == "revoke-self" || kind == "revoke-orphan" || kind == "lease-revoke") {
					kind = "revoke"
				}
				sub := w.subtree(i)
				rich := false
				for _, j := range sub {
					if len(w.toks[j].leases) > 0 || w.toks[j].cubbyKey != "" {
						rich = true
					}
				}
				// sometimes the secrets engine refuses the revocations for the moment: the leases of the revoked tokens
				// then stay "queued for revocation" for a while instead of disappearing within milliseconds
				refuse := fairIndex(rt, "backendRefusesRevocationForNow", 4) == 0
				if refuse {
					w.hub.mu.Lock()
					w.hub.failRevoke = true
					w.hub.mu.Unlock()
				}
				r := w.revoke(kind, i)
				w.logf("%s %d (backend refuses revocations for now: %v) -> %v", kind, i, refuse, r)
				if r.ok() {
					if w.toks[i].alive {
						w.applyRevoked(kind, i)
						if len(sub) > 1 && rich && kind != "revoke-orphan" {
							nontrivial = true
						}
					}
					// a lease of a revoked token is "revoked or queued for immediate revocation": nobody can renew it
					// back to life, however soon after the revocation the renewal arrives
					for _, j := range sub {
						if w.toks[j].alive {
							continue
						}
						for _, l := range w.toks[j].leases {
							rr2 := w.tc.req(logical.UpdateOperation, "sys/leases/renew", w.tc.root, map[string]any{"lease_id": l.leaseID, "increment": 3600})
							w.logf("renew of lease of revoked token %d -> %v", j, rr2)
							if rr2.ok() && rr2.resp != nil && rr2.resp.Secret != nil && rr2.resp.Secret.TTL > 0 {
								w.hub.mu.Lock()
								w.hub.failRevoke = false
								w.hub.mu.Unlock()
								fail("lease-of-revoked-token-renewed", fmt.Sprintf("lease %s of token %d, revoked a moment ago by %s of token %d, was renewed for %v", l.leaseID, j, kind, i, rr2.resp.Secret.TTL))
							}
						}
					}
				}
				if refuse {
					w.hub.mu.Lock()
					w.hub.failRevoke = false
					w.hub.mu.Unlock()
				}
				if r.ok() {
				} else if w.toks[i].alive {
					fail("revoke-failed", fmt.Sprintf("%s of live token %d failed without any fault: %v", kind, i, r))
				}
			},
			"restart": func(rt *rapid.T) {
				if restarts >= 2 {
					rt.Skip("enough restarts")
				}
				restarts++
				w.restart()
				w.logf("restart")
			},
			// leadership change: the node steps down and becomes active again (token store and expiration manager rebuilt)
			"step-down": func(rt *rapid.T) {
				if !ha {
					rt.Skip("not an HA node")
				}
				if restarts >= 3 {
					rt.Skip("enough restarts")
				}
				restarts++
				if err := w.tc.stepDown(); err != nil {
					fail("not-active-after-step-down", err.Error())
					return
				}
				w.logf("step-down")
			},
			"": func(rt *rapid.T) {
				if sig, msg := w.checkAll(); sig != "" {
					fail(sig+":sequential", msg)
				}
			},
		})
		rec.Case(fmt.Sprintf("restarts=%d ha=%v", restarts, ha), nontrivial, verifx.Digest(w.log), func() any { return map[string]any{"history": w.log, "tree": w.shape()} })
	})
}

// ---------------------------------------------------------------- (b) storage faults and crash prefixes inside a revocation

// c04BuildTree builds a generated tree with cubbyholes and leases; returns the index of the revocation target.
func c04BuildTree(rt *rapid.T, w *c04World) int {
	n := 2 + fairIndex(rt, "tokens", 5)
	for i := 0; i < n; i++ {
		parent := -1
		if i > 0 {
			// mostly inside the tree that will be revoked (token 0 and its descendants), sometimes unrelated
			parent = fairIndex(rt, fmt.Sprintf("parent%d", i), i+1) - 1
			if parent < 0 && fairIndex(rt, fmt.Sprintf("outside%d", i), 4) > 0 {
				parent = fairIndex(rt, fmt.Sprintf("parentIn%d", i), i)
			}
			if i == 1 {
				parent = 0
			}
		}
		tk, r := w.create(parent, false)
		if tk == nil {
			w.t.Fatalf("harness: building tree: %v", r)
		}
		w.logf("create parent=%d", parent)
		if fairIndex(rt, fmt.Sprintf("cubby%d", i), 2) == 0 {
			w.writeCubby(i)
			w.logf("cubby %d", i)
		}
		for j := fairIndex(rt, fmt.Sprintf("leases%d", i), 3); j > 0; j-- {
			w.lease(i)
			w.logf("lease %d", i)
		}
	}
	return 0
}

func TestVerif_C04_Faults(t *testing.T) {
	rec := verifx.NewRecorder("C04", "faults", "generated token tree (2-6 tokens, cubbyholes, leases); a revocation of the root of the tree is dry-run on a copy to count its storage operations n; then for every k<=n (quick: up to 14 evenly spread k, thorough: all) the k-th storage operation of the revocation request fails once on a fresh copy, the revocation is retried until it reports success, and the whole model is probed, also after a restart; likewise a crash after the first k committed writes followed by restart and retry; non-trivial = the first attempt returned an error and a retry reported success (fault) or 0<k<writes (crash)")
	defer rec.Flush()
	rapid.Check(t, func(rt *rapid.T) {
		defer recoverWedged(rec)
		base := newC04World(t, rapid.Bool().Draw(rt, "transactionalStorage"))
		defer func() { base.tc.shutdown() }()
		target := c04BuildTree(rt, base)
		kind := rapid.SampledFrom([]string{"revoke", "revoke-self", "revoke-accessor", "lease-revoke"}).Draw(rt, "kind")
		// dry run on a copy
		dry := base.fork()
		seq0, mut0 := dry.tc.rec.Seq(), dry.tc.rec.MutationCount()
		gDry := verifx.GoID()
		r := dry.revoke(kind, target)
		nOps := int(dry.tc.rec.Seq() - seq0)
		// positions (1-based, among the operations of the request goroutine) of the writes of the revocation: the quick
		// tier fails every write and a spread sample of the reads; the thorough tier fails every operation
		var writeKs []int
		{
			i := 0
			for _, o := range dry.tc.rec.OpsSince(seq0) {
				if o.G != gDry {
					continue
				}
				i++
				if o.Kind == "put" || o.Kind == "delete" || o.Kind == "commit" {
					writeKs = append(writeKs, i)
				}
			}
			nOps = i
		}
		nMut := dry.tc.rec.MutationCount() - mut0
		if !r.ok() {
			dry.tc.shutdown()
			rec.Violation(rt, "revoke-failed", map[string]any{"history": base.log}, "fault-free %s failed: %v", kind, r)
			return
		}
		dry.applyRevoked(kind, target)
		if sig, msg := dry.checkAll(); sig != "" {
			dry.tc.shutdown()
			rec.Violation(rt, sig+":sequential", map[string]any{"history": base.log, "kind": kind}, "%s", msg)
			return
		}
		// keep the dry run's storage for the crash prefixes
		dryRec := dry.tc.rec
		dry.tc.shutdown()

		ks := pickKs(nOps, verifx.Scale(8, 1<<30))
		if !verifx.Thorough() {
			seen := map[int]bool{}
			for _, k := range ks {
				seen[k] = true
			}
			for _, k := range writeKs {
				if !seen[k] && len(ks) < 60 {
					ks = append(ks, k)
					seen[k] = true
				}
			}
			sort.Ints(ks)
		}
		for _, k := range ks {
			w := base.fork()
			func() {
				defer func() { w.tc.shutdown() }()
				// only operations of the request goroutine count and fail: background workers
				// (expiration, rollback) keep running undisturbed
				g := verifx.GoID()
				f, fired := verifx.FailNth(func(o *verifx.Op) bool { return o.G == g }, k)
				// one in three: the k-th operation and every later one of the request fail (a storage outage that
				// outlasts the request, or the request's context ending)
				persistent := fairIndex(rt, fmt.Sprintf("outageFromOp%d", k), 3) == 0
				if persistent {
					cnt := 0
					var first *verifx.Op
					f = func(o *verifx.Op) error {
						if o.G != g {
							return nil
						}
						cnt++
						if cnt >= k {
							if first == nil {
								first = o
							}
							return verifx.ErrInjected
						}
						return nil
					}
					fired = func() *verifx.Op { return first }
				}
				w.tc.rec.SetFault(f)
				seqStart := w.tc.rec.Seq()
				first := w.revoke(kind, target)
				w.tc.rec.SetFault(nil)
				hit := fired()
				attempts := []string{first.String()}
				ok := first.ok()
				for a := 0; !ok && a < 3; a++ {
					rk := kind
					if rk == "revoke-self" && !w.tc.tokenAlive(w.toks[target].id) {
						rk = "revoke" // the token cannot authenticate its own retry any more
					}
					if a >= 1 {
						rk = "revoke" // e.g. revoke-accessor refuses a half-revoked token with an error; the operator falls back to the id
					}
					rr2 := w.revoke(rk, target)
					attempts = append(attempts, rk+"="+rr2.String())
					ok = rr2.ok()
				}
				what := "none"
				if hit != nil {
					what = hit.Kind + " " + keyClass(hit.Key)
					if persistent {
						what += " and every later operation"
					}
				}
				detail := map[string]any{"tree": base.shape(), "build": base.log, "revocation": kind, "fault_at_op": k, "of_ops": nOps, "failed_op": what, "attempts": attempts, "transactional": w.tc.opts.transactional}
				var oplog []string
				for _, o := range w.tc.rec.OpsSince(seqStart) {
					if len(oplog) < 200 {
						e := ""
						if o.Err != nil {
							e = " ERR"
						}
						oplog = append(oplog, fmt.Sprintf("g%d %s %s%s", o.G, o.Kind, keyClass(o.Key), e))
					}
				}
				detail["storage_ops"] = oplog
				nt := !first.ok() && ok
				rec.Case("fault:"+what, nt, verifx.Digest("f", base.shape(), kind, k, what), func() any { return detail })
				if !ok {
					rec.Note("inconclusive: %s did not report success within 4 attempts after fault at op %d (%s): %v", kind, k, what, attempts)
					rec.Class("retry-never-succeeded", 1)
					return
				}
				w.applyRevoked(kind, target)
				if sig, msg := w.checkAll(); sig != "" {
					rec.Violation(rt, sig+":after-fault-retry", detail, "%s (revocation %s, storage fault at operation %d/%d = %s, attempts %v)", msg, kind, k, nOps, what, attempts)
					return
				}
				w.restart()
				if sig, msg := w.checkAll(); sig != "" {
					rec.Violation(rt, sig+":after-fault-retry-restart", detail, "after restart: %s (revocation %s, storage fault at operation %d/%d = %s)", msg, kind, k, nOps, what)
				}
			}()
		}
		// crash prefixes: the store after the first k writes of the completed dry-run revocation
		for _, k := range pickKs(nMut-1, verifx.Scale(6, 1<<30)) {
			phys := dryRec.ForkAt(mut0+k, base.tc.opts.transactional)
			n, err := base.tc.restartOn(phys)
			if err != nil {
				rec.Violation(rt, "crash-prefix-unbootable", map[string]any{"build": base.log, "k": k}, "core does not start on the store after %d of %d writes of %s: %v", k, nMut, kind, err)
				continue
			}
			w := &c04World{t: t, tc: n, hub: base.hub, revBase: map[string]int{}}
			base.hub.mu.Lock()
			for id, c := range base.hub.revoked {
				w.revBase[id] = c
			}
			base.hub.mu.Unlock()
			for _, tk := range base.toks {
				c := *tk
				w.toks = append(w.toks, &c)
			}
			func() {
				defer func() { w.tc.shutdown() }()
				detail := map[string]any{"tree": base.shape(), "build": base.log, "revocation": kind, "crash_after_writes": k, "of_writes": nMut, "last_write": dryRec.MutationKeys(mut0 + k - 1)}
				rec.Case("crash", true, verifx.Digest("c", base.shape(), kind, k), func() any { return detail })
				ok := false
				var attempts []string
				for a := 0; !ok && a < 3; a++ {
					r := w.revoke("revoke", target)
					attempts = append(attempts, r.String())
					ok = r.ok()
				}
				if !ok {
					rec.Class("retry-never-succeeded", 1)
					return
				}
				w.applyRevoked("revoke", target)
				if sig, msg := w.checkAll(); sig != "" {
					rec.Violation(rt, sig+":after-crash-retry", detail, "%s (crash after %d/%d writes of %s, then restart and revoke: %v)", msg, k, nMut, kind, attempts)
				}
			}()
		}
	})
}

func keyClass(k string) string {
	parts := strings.Split(k, "/")
	if len(parts) > 3 {
		parts = parts[:3]
	}
	for i, p := range parts {
		if len(p) > 20 {
			parts[i] = "*"
		}
	}
	return strings.Join(parts, "/")
}

// pickKs returns 1..n, thinned to at most max values spread evenly (always including 1 and n).
func pickKs(n, max int) []int {
	var out []int
	if n <= 0 {
		return out
	}
	if n <= max {
		for i := 1; i <= n; i++ {
			out = append(out, i)
		}
		return out
	}
	seen := map[int]bool{}
	for i := 0; i < max; i++ {
		k := 1 + i*(n-1)/(max-1)
		if !seen[k] {
			seen[k] = true
			out = append(out, k)
		}
	}
	return out
}

// ---------------------------------------------------------------- (c) child creation concurrent with tree revocation

func TestVerif_C04_Schedules(t *testing.T) {
	rec := verifx.NewRecorder("C04", "schedules", "tasks {tree revocation of P} || {create a child under P or under a descendant of P} (|| optionally a lease request with a descendant) (|| optionally the renewal, by an operator, of a lease one of the tree's tokens took earlier), interleaved at storage-operation granularity by a generated schedule; linearization rule: if the creation returned a token and the revocation reported success, the child must be dead once both have returned; non-trivial = at least one context switch while both tasks were unfinished")
	defer rec.Flush()
	rapid.Check(t, func(rt *rapid.T) {
		defer recoverWedged(rec)
		w := newC04World(t, rapid.Bool().Draw(rt, "transactionalStorage"))
		defer func() { w.tc.shutdown() }()
		depth := rapid.IntRange(1, 3).Draw(rt, "depth")
		for i := 0; i < depth; i++ {
			if tk, r := w.create(i-1, false); tk == nil {
				t.Fatalf("harness: %v", r)
			}
		}
		under := rapid.IntRange(0, depth-1).Draw(rt, "createUnder")
		withLease := rapid.Bool().Draw(rt, "leaseTask")
		kind := rapid.SampledFrom([]string{"revoke", "revoke-accessor", "revoke-self"}).Draw(rt, "kind")
		// a lease taken before the race starts, renewed (by an operator's token) while the tree is being revoked
		withRenew := rapid.Bool().Draw(rt, "renewTask")
		var oldLease c04Lease
		if withRenew {
			holder := rapid.IntRange(0, depth-1).Draw(rt, "leaseHolder")
			if !w.lease(holder) {
				t.Fatalf("harness: no lease for token %d", holder)
			}
			oldLease = w.toks[holder].leases[len(w.toks[holder].leases)-1]
		}
		sched := verifx.NewSched(w.tc.rec)
		defer func() {
			sched.RunToEnd(20 * time.Second)
			w.tc.rec.Gate = nil
			w.tc.rec.TaskOf = nil
		}()
		var revRes, creRes, leaseRes, renewRes rr
		var childID, childAcc string
		seqStart := w.tc.rec.Seq()
		sched.Spawn("revoke", func() { revRes = w.revoke(kind, 0) })
		sched.Spawn("create", func() {
			childID, childAcc, creRes = w.tc.createToken(w.toks[under].id, map[string]any{"policies": []string{"default", "c04"}, "ttl": "30m"})
		})
		if withLease {
			sched.Spawn("lease", func() { leaseRes = w.tc.req(logical.ReadOperation, "rb/creds/y", w.toks[depth-1].id, nil) })
		}
		if withRenew {
			// the renewal spends time inside the secrets engine, where no storage operation marks a scheduling point
			w.hub.renewHook = func(context.Context, *logical.Request) { sched.Park("engine-renew", oldLease.leaseID) }
			defer func() { w.hub.renewHook = nil }()
			sched.Spawn("renew", func() {
				renewRes = w.tc.req(logical.UpdateOperation, "sys/leases/renew", w.tc.root, map[string]any{"lease_id": oldLease.leaseID, "increment": 3000})
			})
		}
		cur, switches := -1, 0
		err := sched.Run(func(parked []int) int {
			stay := false
			for _, p := range parked {
				if p == cur {
					stay = true
				}
			}
			if stay && rapid.IntRange(0, 9).Draw(rt, "step") < 7 {
				return cur
			}
			pick := parked[rapid.IntRange(0, len(parked)-1).Draw(rt, "pick")]
			if cur >= 0 && pick != cur && !sched.Tasks()[cur].Done {
				switches++
			}
			cur = pick
			return pick
		})
		if err != nil {
			t.Fatalf("harness: %v", err)
		}
		w.tc.rec.Gate = nil
		trace := sched.Trace
		if len(trace) > 120 {
			trace = trace[:120]
		}
		detail := map[string]any{"depth": depth, "create_under": under, "revocation": kind, "revoke_result": revRes.String(), "create_result": creRes.String(), "schedule": trace, "transactional": w.tc.opts.transactional}
		overlap := switches > 0
		rec.Case(fmt.Sprintf("switches>0=%v", overlap), overlap, verifx.Digest(depth, under, kind, withLease, withRenew, sched.Trace), func() any { return detail })
		if revRes.ok() {
			w.applyRevoked(kind, 0)
		}
		if revRes.ok() && childID != "" {
			alive := w.tc.tokenAlive(childID)
			reach := w.reaches(childID)
			if alive || reach {
				// Known finding F3 is the window in which the tree walk cannot see the complete child: one of its records
				// (parent index, token entry, lease) is written after the walk listed that parent for the last time. If
				// the walk listed the parent's children once the child was complete, it must have revoked it.
				var idxPut, donePut int64
				var parentPrefix string
				ops := w.tc.rec.OpsSince(seqStart)
				for _, o := range ops {
					if o.Task == "create" && o.Kind == "put" && o.Err == nil {
						donePut = o.Seq // the child is complete once its last record (the lease) is written
						if strings.HasPrefix(o.Key, "sys/token/parent/") {
							parentPrefix = o.Key[:strings.LastIndex(o.Key, "/")+1]
							idxPut = o.Seq
						}
					}
				}
				// the first time the walk lists the child's parent after the child's index entry exists is the moment it
				// meets the child; if the child is complete by then, it must be revoked. Otherwise the walk meets a
				// half-created child (and remembers it as visited): the known window.
				listedAfter := false
				for _, o := range ops {
					if o.Task == "revoke" && o.Kind == "list" && parentPrefix != "" && o.Key == parentPrefix && idxPut > 0 && o.Seq > idxPut {
						listedAfter = o.Seq > donePut
						break
					}
				}
				detail["tree_walk_listed_parent_after_child_entry_written"] = listedAfter
				sig := "child-created-during-tree-revoke-survives"
				if listedAfter {
					sig = "child-seen-by-tree-walk-survives"
				}
				// The known window also presupposes that the parent was still a valid token when the child was attached
				// to it: the creating request read the parent's entry again after it had written the child's accessor,
				// and the revocation had not yet touched that entry. A child attached to a parent whose revocation had
				// already begun (or finished) is a different defect.
				innerID, derr := w.tc.c.DecodeSSCToken(w.toks[under].id)
				if derr != nil {
					innerID = w.toks[under].id
				}
				if salted, serr := w.tc.c.tokenStore.SaltID(w.tc.ctx, innerID); serr == nil {
					pk := "sys/token/id/" + salted
					var accPut, vetGet, markPut int64
					for _, o := range ops {
						switch {
						case o.Task == "create" && o.Kind == "put" && strings.HasPrefix(o.Key, "sys/token/accessor/") && accPut == 0:
							accPut = o.Seq
						case o.Task == "create" && o.Kind == "get" && o.Key == pk && o.Err == nil && accPut > 0 && o.Seq < idxPut:
							vetGet = o.Seq
						case o.Task == "revoke" && (o.Kind == "put" || o.Kind == "delete") && o.Key == pk && markPut == 0:
							markPut = o.Seq
						}
					}
					vetted := vetGet > 0 && (markPut == 0 || vetGet < markPut)
					detail["parent_read_again_before_its_revocation_began"] = vetted
					detail["parent_entry_key"] = pk
					if !vetted && overlap {
						sig = "child-attached-to-parent-under-revocation-survives"
					}
				}
				if !overlap {
					sig = "child-survives-revoke:no-overlap"
				}
				rec.Violation(rt, sig, detail, "child token created under token %d while the tree of token 0 was being revoked is still usable after both requests returned success (lookup-self=%v backend-reached=%v)", under, alive, reach)
			}
			_ = childAcc
		}
		if revRes.ok() && withRenew {
			// whatever the renewal answered and wherever it was overtaken: once the revocation of the tree has reported
			// success, the lease is gone or due (it may still wait for its turn in the revocation queue)
			le, err := w.tc.c.expiration.loadEntry(namespace.RootContext(w.tc.ctx), oldLease.leaseID)
			w.hub.mu.Lock()
			rv := w.hub.revoked[oldLease.secretID]
			w.hub.mu.Unlock()
			detail["renew_result"] = renewRes.String()
			detail["revocations_of_the_secret_seen_by_the_engine"] = rv
			// (a lease entry written back after the secret was revoked at the engine is no better: the lease is listed,
			// looked up and renewed as live under a revoked token)
			if err == nil && le != nil && le.ExpireTime.After(time.Now().Add(5*time.Second)) {
				sig := "lease-renewed-during-tree-revoke-survives"
				if !overlap {
					sig = "lease-survives-revoke:no-overlap"
				}
				rec.Violation(rt, sig, detail, "lease %s of a token of the revoked tree was being renewed while the tree was revoked (renewal answered %v); both requests have returned, the lease is stored with an expiry %s in the future (revocations of its secret seen by the secrets engine: %d)", oldLease.leaseID, renewRes, time.Until(le.ExpireTime).Round(time.Second), rv)
			}
		}
		if revRes.ok() && withLease && leaseRes.ok() && leaseRes.resp != nil && leaseRes.resp.Secret != nil {
			le, err := w.tc.c.expiration.loadEntry(namespace.RootContext(w.tc.ctx), leaseRes.resp.Secret.LeaseID)
			sid, _ := leaseRes.resp.Data["secret_id"].(string)
			w.hub.mu.Lock()
			rv := w.hub.revoked[sid]
			w.hub.mu.Unlock()
			if err == nil && le != nil && le.ExpireTime.After(time.Now()) && rv == 0 {
				// Known finding F3b: the lease index entry is written after the revocation listed the token's leases.
				var idxPut int64
				var idxPrefix string
				ops := w.tc.rec.OpsSince(seqStart)
				for _, o := range ops {
					if o.Task == "lease" && o.Kind == "put" && o.Err == nil && strings.HasPrefix(o.Key, "sys/expire/token/") {
						idxPut = o.Seq
						idxPrefix = o.Key[:strings.LastIndex(o.Key, "/")+1]
					}
				}
				listedAfter := false
				for _, o := range ops {
					if o.Task == "revoke" && o.Kind == "list" && idxPrefix != "" && o.Key == idxPrefix && o.Seq > idxPut && idxPut > 0 {
						listedAfter = true
					}
				}
				detail["revocation_listed_leases_after_index_written"] = listedAfter
				sig := "lease-issued-during-tree-revoke-survives"
				if listedAfter {
					sig = "lease-seen-by-revocation-survives"
				}
				if !overlap {
					sig = "lease-survives-revoke:no-overlap"
				}
				rec.Violation(rt, sig, detail, "lease %s obtained with a token of the tree while it was being revoked is still stored, unexpired and not revoked at the backend", leaseRes.resp.Secret.LeaseID)
			}
		}
		// the rest of the model (tokens created before the race) must satisfy the invariant
		if sig, msg := w.checkAll(); sig != "" {
			rec.Violation(rt, sig+":concurrent", detail, "%s", msg)
		}
	})
}
