//go:build verif

package vault

import (
	"github.com/openbao/openbao/v2/internal/helper/namespace"
	"fmt"
	"os"
	"strings"
	"testing"

	"github.com/openbao/openbao/sdk/v2/helper/verifx"
	"github.com/openbao/openbao/sdk/v2/logical"
	"github.com/openbao/openbao/sdk/v2/physical"
	"pgregory.net/rapid"
)

type c10World struct {
	t       *testing.T
	tc      *tcore
	shamir  bool
	keys    [][]byte // currently valid unseal shares (shamir)
	thr     int
	recThr  int // threshold of the recovery shares (stored-key seal)
	secrets map[string]string
	log     []string
}

func (w *c10World) logf(f string, a ...any) { w.log = append(w.log, fmt.Sprintf(f, a...)) }

func (w *c10World) write(k, v string) bool {
	r := w.tc.req(logical.UpdateOperation, "cubbyhole/"+k, w.tc.root, map[string]any{"v": v})
	if r.ok() {
		w.secrets[k] = v
	}
	return r.ok()
}

// rekey performs a complete barrier rekey to (shares, threshold); returns the new shares.
func (w *c10World) rekey(shares, thr int) ([][]byte, error) {
	c := w.tc.c
	if herr := c.BarrierRekeyInit(&SealConfig{SecretShares: shares, SecretThreshold: thr}); herr != nil {
		return nil, fmt.Errorf("rekey init: %v", herr)
	}
	rc, herr := c.RekeyConfig(false)
	if herr != nil {
		return nil, fmt.Errorf("rekey config: %v", herr)
	}
	var res *RekeyResult
	if !w.shamir {
		// stored-key (auto-unseal) seal: the legacy rekey of the barrier key is authorised by a threshold of RECOVERY
		// shares and hands out no new shares
		for i := 0; i < w.recThr; i++ {
			res, herr = c.BarrierRekeyUpdate(w.tc.ctx, TestKeyCopy(w.tc.recoveryKeys[i]), rc.Nonce)
			if herr != nil {
				return nil, fmt.Errorf("rekey update %d (recovery share): %v", i, herr)
			}
		}
		if res == nil {
			return nil, fmt.Errorf("rekey with recovery shares did not complete")
		}
		return nil, nil
	}
	for i := 0; i < w.thr; i++ {
		res, herr = c.BarrierRekeyUpdate(w.tc.ctx, TestKeyCopy(w.keys[i]), rc.Nonce)
		if herr != nil {
			return nil, fmt.Errorf("rekey update %d: %v", i, herr)
		}
	}
	if res == nil || len(res.SecretShares) != shares {
		return nil, fmt.Errorf("rekey returned no shares: %+v", res)
	}
	return res.SecretShares, nil
}

// tryOpen boots a core on phys and tries to unseal it with the given shares (or stored keys); on success it
// returns which of the secrets read back wrongly.
func (w *c10World) tryOpen(phys physical.Backend, keys [][]byte) (unsealed bool, bad []string, err error) {
	o := w.tc.opts
	o.phys = phys
	o.noInit = true
	o.keys = keys
	n, berr := bootCore(w.t, o)
	if berr != nil {
		return false, nil, berr
	}
	defer n.shutdown()
	n.root = w.tc.root
	for k, v := range w.secrets {
		r := n.req(logical.ReadOperation, "cubbyhole/"+k, n.root, nil)
		if !r.ok() || r.resp == nil || r.resp.Data["v"] != v {
			bad = append(bad, fmt.Sprintf("%s: %v", k, r))
		}
	}
	return true, bad, nil
}

func TestVerif_C10_CrashInRotation(t *testing.T) {
	rec := verifx.NewRecorder("C10", "crash-in-rotation", "a core (Shamir seal with generated shares/threshold, or the stored-key test seal) with generated history write / sys/rotate / sys/rotate/root / rekey(shares,threshold) / seal+unseal / a root-token generation attempt refused for made-up shares; the last operation of the history is a rotation-type operation whose physical writes are enumerated: for EVERY prefix k of them the store is materialised, a new core is started and unsealed with the shares valid before the operation, then with the shares it produced; oracle: at least one of them unseals and every secret written earlier reads back; completed operation: new shares unseal, old shares no longer do (rekey); non-trivial = crash prefix strictly inside the operation (0<k<n)")
	defer rec.Flush()
	rapid.Check(t, func(rt *rapid.T) {
		shamir := rapid.IntRange(0, 3).Draw(rt, "sealKind") > 0
		shares, thr := 0, 0
		if shamir {
			shares = rapid.IntRange(1, 4).Draw(rt, "shares")
			thr = c10Threshold(rt, shares, "threshold")
		}
		tc, err := bootCore(t, coreOpts{shamir: shamir, shares: shares, threshold: thr, transactional: rapid.Bool().Draw(rt, "transactionalStorage")})
		if err != nil {
			t.Fatalf("harness: %v", err)
		}
		w := &c10World{t: t, tc: tc, shamir: shamir, keys: tc.keys, thr: thr, recThr: len(tc.recoveryKeys), secrets: map[string]string{}}
		defer func() { w.tc.shutdown() }()
		steps := rapid.IntRange(0, 5).Draw(rt, "steps")
		for i := 0; i < steps; i++ {
			switch rapid.SampledFrom([]string{"write", "write", "rotate", "rotate-root", "rekey", "seal-unseal", "rejected-root-generation", "abandoned-verified-rotation"}).Draw(rt, fmt.Sprintf("op%d", i)) {
			case "abandoned-verified-rotation":
				// a rotation of the unseal shares that must be verified before it takes effect is authorised with the
				// current shares (the new shares are handed out) and then cancelled instead of verified: the handed-out
				// shares never become valid, and nothing of the pending key may stay in use
				if !shamir {
					continue
				}
				sm := tc.c.sealManager
				ns := namespace.RootNamespace
				nsh := rapid.IntRange(1, 4).Draw(rt, "pendingShares")
				nth := c10Threshold(rt, nsh, "pendingThreshold")
				if _, err := sm.InitRotation(tc.ctx, ns, &SealConfig{SecretShares: nsh, SecretThreshold: nth, VerificationRequired: true}, false); err != nil {
					t.Fatalf("harness: init of a verified rotation: %v", err)
				}
				nonce := sm.RotationConfig(ns.UUID, false).Nonce
				var res *RekeyResult
				for j := 0; j < w.thr; j++ {
					var err error
					if res, err = sm.UpdateRotation(tc.ctx, ns, TestKeyCopy(w.keys[j]), nonce, false); err != nil {
						t.Fatalf("harness: update of a verified rotation: %v", err)
					}
				}
				if res == nil || !res.VerificationRequired {
					t.Fatalf("harness: rotation did not wait for verification: %+v", res)
				}
				if err := sm.CancelRotation(tc.ctx, ns.UUID, false); err != nil {
					t.Fatalf("harness: cancel: %v", err)
				}
				w.logf("rotation to %d/%d shares authorised, awaiting verification, cancelled", nth, nsh)
			case "rejected-root-generation":
				// somebody completes a root-token generation with shares that are not the genuine ones: it is refused,
				// and must leave the seal's key material alone (a later share-less rotation persists under it)
				if !shamir {
					continue
				}
				c := tc.c
				_ = c.GenerateRootCancel(tc.ctx)
				if err := c.GenerateRootInit(tc.ctx, strings.Repeat("A", TokenPrefixLength+TokenLength), "", GenerateStandardRootTokenStrategy); err != nil {
					t.Fatalf("harness: generate-root init: %v", err)
				}
				conf, err := c.GenerateRootConfiguration(tc.ctx)
				if err != nil || conf == nil {
					t.Fatalf("harness: generate-root config: %v", err)
				}
				produced := false
				for j := 0; j < w.thr; j++ {
					f := rapid.SliceOfN(rapid.Byte(), len(w.keys[0]), len(w.keys[0])).Draw(rt, fmt.Sprintf("forged%d.%d", i, j))
					f[len(f)-1] = byte(j + 1)
					res, err := c.GenerateRootUpdate(tc.ctx, f, conf.Nonce, GenerateStandardRootTokenStrategy)
					if err == nil && res != nil && res.EncodedToken != "" {
						produced = true
					}
					if err != nil {
						break
					}
				}
				_ = c.GenerateRootCancel(tc.ctx)
				w.logf("root generation with made-up shares -> token=%v", produced)
				if produced {
					rec.Violation(rt, "root-token-generated-from-made-up-shares", map[string]any{"history": w.log}, "a root token was generated from made-up shares")
					return
				}
			case "write":
				k := fmt.Sprintf("k%d", rapid.IntRange(0, 3).Draw(rt, "key"))
				w.write(k, fmt.Sprintf("v%d-%d", i, len(w.log)))
				w.logf("write %s", k)
			case "rotate":
				r := tc.req(logical.UpdateOperation, "sys/rotate", tc.root, nil)
				w.logf("rotate -> %v", r)
			case "rotate-root":
				r := tc.req(logical.UpdateOperation, "sys/rotate/root", tc.root, nil)
				w.logf("rotate-root -> %v", r)
			case "rekey":
				ns := rapid.IntRange(1, 4).Draw(rt, "newShares")
				nt := c10Threshold(rt, ns, "newThreshold")
				keys, err := w.rekey(ns, nt)
				w.logf("rekey %d/%d -> %v", nt, ns, err)
				if err != nil {
					t.Fatalf("harness: %v", err)
				}
				if shamir {
					w.keys, w.thr = keys, nt
					w.tc.keys = keys
				}
			case "seal-unseal":
				if err := tc.seal(); err != nil {
					t.Fatalf("harness: seal: %v", err)
				}
				if err := tc.unseal(w.keys); err != nil {
					rec.Violation(rt, "unseal-after-seal-failed", map[string]any{"history": w.log}, "unseal with the current shares failed after seal: %v", err)
					return
				}
				w.logf("seal+unseal")
			}
		}
		if len(w.secrets) == 0 {
			w.write("k0", "base")
			w.logf("write k0")
		}
		// ---- the operation under test
		final := rapid.SampledFrom([]string{"rekey", "rekey", "rotate", "rotate-root"}).Draw(rt, "final")
		oldKeys, oldThr := w.keys, w.thr
		newKeys := oldKeys
		mut0 := tc.rec.MutationCount()
		var ns, nt int
		switch final {
		case "rekey":
			ns = rapid.IntRange(1, 4).Draw(rt, "finalShares")
			nt = c10Threshold(rt, ns, "finalThreshold")
			keys, err := w.rekey(ns, nt)
			if err != nil {
				t.Fatalf("harness: final rekey: %v", err)
			}
			if shamir {
				newKeys = keys
			}
		case "rotate":
			if r := tc.req(logical.UpdateOperation, "sys/rotate", tc.root, nil); !r.ok() {
				t.Fatalf("harness: final rotate: %v", r)
			}
		case "rotate-root":
			if r := tc.req(logical.UpdateOperation, "sys/rotate/root", tc.root, nil); !r.ok() {
				t.Fatalf("harness: final rotate-root: %v", r)
			}
		}
		w.logf("FINAL %s %d/%d", final, nt, ns)
		mut1 := tc.rec.MutationCount()
		n := mut1 - mut0
		_ = oldThr
		for k := 0; k <= n; k++ {
			last := "(before the operation)"
			if k > 0 {
				last = fmt.Sprint(tc.rec.MutationKeys(mut0 + k - 1))
			}
			detail := map[string]any{"seal": map[bool]string{true: "shamir", false: "stored-key"}[shamir], "history": w.log, "operation": final, "crash_after_writes": k, "of_writes": n, "last_write": last}
			oldOK, oldBad, oldErr := w.tryOpen(tc.rec.ForkAt(mut0+k, tc.opts.transactional), oldKeys)
			newOK, newBad := false, []string(nil)
			var newErr error
			if final == "rekey" && shamir {
				newOK, newBad, newErr = w.tryOpen(tc.rec.ForkAt(mut0+k, tc.opts.transactional), newKeys)
			} else {
				newOK, newBad, newErr = oldOK, oldBad, oldErr
			}
			detail["old_shares_unseal"] = oldOK
			detail["new_shares_unseal"] = newOK
			cls := fmt.Sprintf("%s:old=%v,new=%v", final, oldOK, newOK)
			rec.Case(cls, k > 0 && k < n, verifx.Digest(shamir, shares, thr, w.log, k), func() any { return detail })
			if !oldOK && !newOK {
				sig := "crash-prefix-not-unsealable:" + final + ":" + detail["seal"].(string) + ":after=" + lastKeyClass(tc.rec.MutationKeys(mut0+k-1))
				if os.Getenv("VERIF_C10_SURVEY") != "" {
					rec.Class("SURVEY "+sig, 1)
					continue
				}
				rec.Violation(rt, sig, detail, "after a crash following %d of the %d writes of %s (last write %s) neither the shares valid before nor the shares produced by the operation unseal the store (old: %v, new: %v)", k, n, final, last, oldErr, newErr)
				continue
			}
			if oldOK && len(oldBad) > 0 {
				rec.Violation(rt, "data-lost-after-crash:"+final, detail, "crash after %d/%d writes of %s: unsealed with the old shares but secrets do not read back: %v", k, n, final, oldBad)
			}
			if newOK && len(newBad) > 0 {
				rec.Violation(rt, "data-lost-after-crash:"+final, detail, "crash after %d/%d writes of %s: unsealed with the new shares but secrets do not read back: %v", k, n, final, newBad)
			}
			if k == n && final == "rekey" && shamir {
				if !newOK {
					rec.Violation(rt, "completed-rekey-new-shares-fail", detail, "after the completed rekey the new shares do not unseal: %v", newErr)
				}
				if oldOK && !sameKeys(oldKeys, newKeys) {
					rec.Violation(rt, "completed-rekey-old-shares-still-work", detail, "after the completed rekey the old shares still unseal")
				}
			}
			if k > 0 && k < n && !oldOK && newOK {
				// the operator has not been given the new shares yet: the strong reading of the property fails here
				rec.Class("only-unreturned-new-shares-unseal", 1)
			}
		}
	})
}

// lastKeyClass names the last write before the crash (namespace-independent, ids removed).
func lastKeyClass(ks []string) string {
	if len(ks) == 0 {
		return "none"
	}
	return strings.Join(ks, "+")
}

// c10Threshold draws a threshold valid for the share count (one share: 1; several shares: at least 2).
func c10Threshold(rt *rapid.T, shares int, label string) int {
	if shares <= 1 {
		return 1
	}
	return rapid.IntRange(2, shares).Draw(rt, label)
}

func sameKeys(a, b [][]byte) bool {
	if len(a) != len(b) {
		return false
	}
	for i := range a {
		if string(a[i]) != string(b[i]) {
			return false
		}
	}
	return true
}
