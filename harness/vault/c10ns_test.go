//go:build verif

package vault

// C10 on the PER-NAMESPACE barriers: a namespace created with its own seal ("sealable namespace") has its own
// AES-GCM barrier (keyring + root key under namespaces/<uuid>/core/...), its own Shamir seal and its own
// rotation endpoints (sys/rotate/keyring, sys/rotate/root, sys/rotate/root/init|update in the namespace's context).

import (
	"context"
	"encoding/binary"
	"encoding/hex"
	"fmt"
	"os"
	"reflect"
	"regexp"
	"sort"
	"strings"
	"testing"
	"time"

	"github.com/openbao/openbao/sdk/v2/helper/verifx"
	"github.com/openbao/openbao/sdk/v2/logical"
	"github.com/openbao/openbao/v2/internal/helper/namespace"
	"github.com/openbao/openbao/v2/internal/vault/barrier"
	"pgregory.net/rapid"
)

// c10nsSurveyEnv: when set, the candidate-finding signatures (crash prefix not unsealable, foreign storage modified)
// are counted as classes instead of failing the case, so that the search goes on behind them (development aid;
// the driver's known_findings.json does the same once the signatures are listed there).
const c10nsSurveyEnv = "VERIF_C10NS_SURVEY"

// c10nsDom is one barrier: the root barrier or the barrier of a sealable namespace (and of the plain namespaces below it).
type c10nsDom struct {
	name    string   // "root", "s1", "s2"
	owner   *c10nsNS // nil for the root barrier
	sealed  bool
	shares  [][]byte
	thr     int
	stale   [][][]byte // share sets that were valid before a completed rekey
	term    uint32     // active encryption-key term according to the model
	members []*c10nsNS
	// non-trivial rule bookkeeping
	preWrites  int  // values written before the latest rotation-type operation
	rotated    bool // a keyring rotation / root rotation / rekey happened
	postWrites int  // values written after it
}

type c10nsNS struct {
	name    string // "", "p", "s1", "s2", "c"
	path    string // "", "p/", "s1/", "s2/", "s1/c/"
	ns      *namespace.Namespace
	parent  *c10nsNS
	dom     *c10nsDom
	physPfx string            // physical prefix of the namespace's storage ("logical/" for the root namespace's mounts)
	vals    map[string]string // model: key -> value
	physKey map[string]string // key -> physical key of the stored record
}

type c10nsWorld struct {
	t       *testing.T
	rec     *verifx.Recorder
	tc      *tcore
	hub     *recHub
	nss     []*c10nsNS
	doms    []*c10nsDom
	log     []string
	nval    int
	classes map[string]int64
	nontriv bool
}

func (w *c10nsWorld) logf(f string, a ...any) { w.log = append(w.log, fmt.Sprintf(f, a...)) }

func (w *c10nsWorld) ctx(n *c10nsNS) context.Context {
	if n == nil || n.path == "" {
		return w.tc.ctx
	}
	return namespace.ContextWithNamespace(context.Background(), n.ns)
}

var c10nsUUIDRe = regexp.MustCompile(`[0-9a-f]{8}-[0-9a-f]{4}-[0-9a-f]{4}-[0-9a-f]{4}-[0-9a-f]{12}`)

var c10nsHexRe = regexp.MustCompile(`[0-9a-fA-F]{24,}`)

// c10nsScrub removes the run-specific parts (uuids, long hex strings) of a message.
func c10nsScrub(s string) string {
	return c10nsHexRe.ReplaceAllString(c10nsUUIDRe.ReplaceAllString(s, "*"), "#")
}

// c10nsKeyClass removes namespace / mount uuids from physical keys.
func c10nsKeyClass(ks []string) string {
	if len(ks) == 0 {
		return "none"
	}
	return c10nsUUIDRe.ReplaceAllString(strings.Join(ks, "+"), "*")
}

// c10nsSurveyed: VERIF_C10NS_SURVEY=1 counts both families of candidate findings instead of failing; =crash or =foreign only that family.
func c10nsSurveyed(sig string) bool {
	crash := strings.HasPrefix(sig, "namespace-crash-prefix-not-unsealable:")
	foreign := strings.HasPrefix(sig, "namespace-operation-modified-foreign-storage:")
	switch os.Getenv(c10nsSurveyEnv) {
	case "":
		return false
	case "crash":
		return crash
	case "foreign":
		return foreign
	}
	return crash || foreign
}

// viol reports a violation (with the history); returns true if the case goes on (known finding / survey).
func (w *c10nsWorld) viol(rt *rapid.T, sig string, extra map[string]any, format string, a ...any) {
	detail := map[string]any{"history": append([]string(nil), w.log...)}
	for k, v := range extra {
		detail[k] = v
	}
	if c10nsSurveyed(sig) {
		w.rec.Class("SURVEY "+sig, 1)
		return
	}
	// the message must be identical when rapid re-runs the same case (it only shrinks "the same error"): no uuids, nonces or key bytes
	w.rec.Violation(rt, sig, detail, "%s", c10nsScrub(fmt.Sprintf("%s; history=%v", fmt.Sprintf(format, a...), w.log)))
}

// ---- model helpers

func c10nsCopyShares(s [][]byte) [][]byte {
	out := make([][]byte, len(s))
	for i := range s {
		out[i] = append([]byte(nil), s[i]...)
	}
	return out
}

func c10nsSnapshot(nss []*c10nsNS) map[string]map[string]string {
	out := map[string]map[string]string{}
	for _, n := range nss {
		m := map[string]string{}
		for k, v := range n.vals {
			m[k] = v
		}
		out[n.path] = m
	}
	return out
}

// c10nsKeyMaterial looks (in-package, by reflection) at the AES-GCM barrier's keyring pointer and AEAD cache: the same
// probe as harness/barrier/c10_state_test.go uses from inside the barrier package.
func c10nsKeyMaterial(b barrier.SecurityBarrier) (keyringNil bool, cached int, ok bool) {
	if b == nil {
		return false, 0, false
	}
	v := reflect.ValueOf(b)
	for v.Kind() == reflect.Ptr || v.Kind() == reflect.Interface {
		if v.IsNil() {
			return false, 0, false
		}
		v = v.Elem()
	}
	if v.Kind() != reflect.Struct {
		return false, 0, false
	}
	if f := v.FieldByName("AESGCMBarrier"); f.IsValid() && f.Kind() == reflect.Ptr && !f.IsNil() {
		v = f.Elem()
	}
	kr, c := v.FieldByName("keyring"), v.FieldByName("cache")
	if !kr.IsValid() || !c.IsValid() || kr.Kind() != reflect.Ptr || c.Kind() != reflect.Map {
		return false, 0, false
	}
	return kr.IsNil(), c.Len(), true
}

// ---- namespace seal API

func c10nsSealJSON(shares, thr int) string {
	return fmt.Sprintf(`{ "seal": { "shamir": { "shares": %d, "threshold": %d } } }`, shares, thr)
}

func c10nsDecodeKeys(v any) ([][]byte, error) {
	var ss []string
	switch x := v.(type) {
	case []string:
		ss = x
	case []any:
		for _, e := range x {
			s, ok := e.(string)
			if !ok {
				return nil, fmt.Errorf("key share of type %T", e)
			}
			ss = append(ss, s)
		}
	default:
		return nil, fmt.Errorf("key shares of type %T", v)
	}
	var out [][]byte
	for _, s := range ss {
		b, err := hex.DecodeString(s)
		if err != nil {
			return nil, err
		}
		out = append(out, b)
	}
	return out, nil
}

// c10nsSealStatus reads sys/namespaces/<name>/seal-status in the parent's context.
func c10nsSealStatus(tc *tcore, pctx context.Context, name string) (sealed bool, progress int, r rr) {
	r = tc.doCtx(pctx, &logical.Request{Operation: logical.ReadOperation, Path: "sys/namespaces/" + name + "/seal-status", ClientToken: tc.root})
	if !r.ok() || r.resp == nil {
		return true, 0, r
	}
	sealed, _ = r.resp.Data["sealed"].(bool)
	progress, _ = r.resp.Data["progress"].(int)
	return sealed, progress, r
}

// c10nsUnsealAPI resets the unseal progress of the namespace and feeds the shares one by one through
// sys/namespaces/<name>/unseal until the namespace reports unsealed. Returns the last error text.
func c10nsUnsealAPI(tc *tcore, pctx context.Context, name string, shares [][]byte) (unsealed bool, lastErr string) {
	tc.doCtx(pctx, &logical.Request{Operation: logical.UpdateOperation, Path: "sys/namespaces/" + name + "/unseal", ClientToken: tc.root, Data: map[string]any{"reset": true}})
	for _, s := range shares {
		r := tc.doCtx(pctx, &logical.Request{Operation: logical.UpdateOperation, Path: "sys/namespaces/" + name + "/unseal", ClientToken: tc.root, Data: map[string]any{"key": hex.EncodeToString(s)}})
		if !r.ok() {
			lastErr = r.String()
			continue
		}
		if r.resp != nil {
			if sealed, ok := r.resp.Data["sealed"].(bool); ok && !sealed {
				return true, lastErr
			}
		}
	}
	return false, lastErr
}

func (w *c10nsWorld) parentCtx(n *c10nsNS) context.Context { return w.ctx(n.parent) }

// nsSealed asks the core (not the model).
func (w *c10nsWorld) nsSealed(n *c10nsNS) bool { return w.tc.c.NamespaceSealed(n.ns) }

// createNS creates a namespace through sys/namespaces/<name> in the parent's context.
func (w *c10nsWorld) createNS(parent *c10nsNS, name string, shares, thr int) *c10nsNS {
	tc := w.tc
	n := &c10nsNS{name: name, parent: parent, vals: map[string]string{}, physKey: map[string]string{}}
	n.path = name + "/"
	if parent != nil && parent.path != "" {
		n.path = parent.path + name + "/"
	}
	data := map[string]any{}
	if shares > 0 {
		data["seal"] = c10nsSealJSON(shares, thr)
	}
	r := tc.doCtx(w.ctx(parent), &logical.Request{Operation: logical.UpdateOperation, Path: "sys/namespaces/" + name, ClientToken: tc.root, Data: data})
	resp := tc.mustOK(r, "create namespace "+n.path)
	if shares > 0 {
		if resp == nil || resp.Data["key_shares"] == nil {
			w.t.Fatalf("harness: sealable namespace %s created without key shares: %+v", n.path, resp)
		}
		keys, err := c10nsDecodeKeys(resp.Data["key_shares"])
		if err != nil || len(keys) != shares {
			w.t.Fatalf("harness: key shares of %s: %v (%d)", n.path, err, len(keys))
		}
		d := &c10nsDom{name: name, owner: n, sealed: true, shares: keys, thr: thr, term: 1}
		n.dom = d
		w.doms = append(w.doms, d)
	} else if parent != nil {
		n.dom = parent.dom
	} else {
		n.dom = w.doms[0]
	}
	n.dom.members = append(n.dom.members, n)
	// a sealable namespace is created sealed: it is known to its parent's store either way
	obj, err := tc.c.namespaceStore.GetNamespaceByPath(tc.ctx, n.path)
	if err != nil || obj == nil || obj.Path != n.path {
		w.t.Fatalf("harness: namespace lookup %s: %v %+v", n.path, err, obj)
	}
	n.ns = obj
	n.physPfx = "namespaces/" + obj.UUID + "/"
	w.nss = append(w.nss, n)
	return n
}

func (w *c10nsWorld) mountKV(n *c10nsNS) {
	r := w.tc.doCtx(w.ctx(n), &logical.Request{Operation: logical.UpdateOperation, Path: "sys/mounts/m", ClientToken: w.tc.root, Data: map[string]any{"type": "recbe"}})
	w.tc.mustOK(r, "mount m in "+n.path)
}

func newC10nsWorld(t *testing.T, rt *rapid.T, rec *verifx.Recorder) *c10nsWorld {
	hub := newRecHub()
	rootShamir := fairIndex(rt, "rootSealShamir", 3) > 0
	rs, rthr := 0, 0
	if rootShamir {
		rs = 1 + fairIndex(rt, "rootShares", 3)
		rthr = c10nsThreshold(rt, rs, "rootThreshold")
	}
	tc := mustBoot(t, coreOpts{shamir: rootShamir, shares: rs, threshold: rthr, transactional: rapid.Bool().Draw(rt, "transactionalStorage"), cacheOff: true,
		logical: map[string]logical.Factory{"recbe": hub.factory("recbe", logical.TypeLogical)}})
	w := &c10nsWorld{t: t, rec: rec, tc: tc, hub: hub, classes: map[string]int64{}}
	rootDom := &c10nsDom{name: "root", term: 1, shares: tc.keys, thr: rthr}
	w.doms = append(w.doms, rootDom)
	root := &c10nsNS{name: "", path: "", ns: namespace.RootNamespace, dom: rootDom, physPfx: "logical/", vals: map[string]string{}, physKey: map[string]string{}}
	rootDom.members = append(rootDom.members, root)
	w.nss = append(w.nss, root)
	w.logf("core: root seal %s %d/%d, transactional=%v", map[bool]string{true: "shamir", false: "stored-key"}[rootShamir], rthr, rs, tc.opts.transactional)
	w.mountKV(root)
	p := w.createNS(root, "p", 0, 0)
	w.mountKV(p)
	nSealable := 1 + fairIndex(rt, "secondSealable", 2)
	for i := 1; i <= nSealable; i++ {
		sh := 1 + fairIndex(rt, fmt.Sprintf("s%dShares", i), 3)
		th := c10nsThreshold(rt, sh, fmt.Sprintf("s%dThreshold", i))
		s := w.createNS(root, fmt.Sprintf("s%d", i), sh, th)
		w.logf("created sealable namespace %s with %d/%d", s.path, th, sh)
		if !w.nsSealed(s) {
			w.viol(rt, "namespace-not-sealed-after-creation", nil, "the sealable namespace %q is not sealed after its creation (the documentation: a newly created sealable namespace is sealed)", s.path)
		}
		if ok, e := c10nsUnsealAPI(tc, w.parentCtx(s), s.name, s.dom.shares); !ok {
			t.Fatalf("harness: first unseal of %s failed: %s", s.path, e)
		}
		s.dom.sealed = false
		w.mountKV(s)
		if i == 1 && rapid.Bool().Draw(rt, "childInS1") {
			c := w.createNS(s, "c", 0, 0)
			w.mountKV(c)
			w.logf("created plain namespace %s inside s1's barrier", c.path)
		}
	}
	return w
}

func c10nsThreshold(rt *rapid.T, shares int, label string) int {
	if shares <= 1 {
		return 1
	}
	return 2 + fairIndex(rt, label, shares-1)
}

// ---- requests into namespaces

type c10nsRes struct {
	rr
	ops    []*verifx.Op // storage operations performed by the requesting goroutine
	routed int          // recbe handler invocations
}

// reqIn performs a request in namespace n (by context, or by path prefix from the root context).
func (w *c10nsWorld) reqIn(n *c10nsNS, viaPrefix bool, op logical.Operation, path string, data map[string]any) c10nsRes {
	tc := w.tc
	ctx := w.ctx(n)
	if viaPrefix && n.path != "" {
		ctx, path = tc.ctx, n.path+path
	}
	before := len(w.hub.handlerCalls())
	seq := tc.rec.Seq()
	g := verifx.GoID()
	r := tc.doCtx(ctx, &logical.Request{Operation: op, Path: path, ClientToken: tc.root, Data: data})
	var ops []*verifx.Op
	for _, o := range tc.rec.OpsSince(seq) {
		if o.G == g {
			ops = append(ops, o)
		}
	}
	return c10nsRes{rr: r, ops: ops, routed: len(w.hub.handlerCalls()) - before}
}

// c10nsBootstrapKey: the records that may be touched while a namespace is sealed (seal configuration, stored keys,
// and the keyring record that Initialized()/Unseal() look at).
func c10nsBootstrapKey(pfx, key string) bool {
	switch strings.TrimPrefix(key, pfx) {
	case "core/seal-config", "core/hsm/barrier-unseal-keys", "core/keyring":
		return true
	}
	return false
}

// sealedTouch returns the first storage operation below the prefixes of the domain's namespaces that is not a bootstrap record.
func (w *c10nsWorld) sealedTouch(d *c10nsDom, ops []*verifx.Op) *verifx.Op {
	for _, o := range ops {
		for _, m := range d.members {
			if strings.HasPrefix(o.Key, m.physPfx) && !c10nsBootstrapKey(m.physPfx, o.Key) {
				return o
			}
		}
	}
	return nil
}

// checkSealedRequest: oracle (1) for one request that went into a sealed namespace.
func (w *c10nsWorld) checkSealedRequest(rt *rapid.T, n *c10nsNS, what string, res c10nsRes) {
	if res.ok() {
		w.viol(rt, "namespace-sealed-request-served", nil, "%s in the sealed namespace %q succeeded (%v)", what, n.path, res.rr)
	}
	if res.routed > 0 {
		w.viol(rt, "namespace-sealed-request-reached-backend", nil, "%s in the sealed namespace %q reached the mounted backend", what, n.path)
	}
	if o := w.sealedTouch(n.dom, res.ops); o != nil {
		w.viol(rt, "namespace-sealed-storage-touched", map[string]any{"op": o.String()}, "%s in the sealed namespace %q performed the storage operation %s %q", what, n.path, o.Kind, o.Key)
	}
	w.classes["requests-into-sealed-namespace"]++
}

// checkSealedState: oracle (1)/(6) for the barrier of a sealed domain.
func (w *c10nsWorld) checkSealedState(rt *rapid.T, d *c10nsDom, when string) {
	tc := w.tc
	b := tc.c.sealManager.NamespaceBarrier(d.owner.path)
	if b == nil {
		w.viol(rt, "namespace-barrier-missing", nil, "%s: the seal manager has no barrier for the sealable namespace %q", when, d.owner.path)
		return
	}
	if !b.Sealed() {
		w.viol(rt, "namespace-barrier-not-sealed", nil, "%s: the barrier of namespace %q does not report sealed", when, d.owner.path)
	}
	var kr *barrier.Keyring
	var kerr error
	if p := verifx.Try(func() { kr, kerr = b.Keyring() }); p != nil {
		kerr = fmt.Errorf("panic: %v", p)
	}
	if kerr == nil && kr != nil {
		w.viol(rt, "namespace-key-material-held-while-sealed", nil, "%s: Keyring() of the sealed barrier of %q still returns a keyring", when, d.owner.path)
	}
	if nilKR, cached, ok := c10nsKeyMaterial(b); ok {
		if !nilKR || cached != 0 {
			w.viol(rt, "namespace-key-material-held-while-sealed", map[string]any{"keyring_nil": nilKR, "cached_aeads": cached}, "%s: the sealed barrier of %q still holds key material (keyring nil: %v, cached AEADs: %d)", when, d.owner.path, nilKR, cached)
		}
		w.classes["key-material-probes"]++
	} else {
		w.classes["key-material-probe-unavailable"]++
	}
	// observation only (the statement speaks of the barrier; the root seal behaves the same way): the namespace's SEAL keeps
	// the Shamir KEK of the last unseal in its wrapper while the namespace is sealed
	if sl := tc.c.sealManager.NamespaceSeal(d.owner.ns.UUID); sl != nil {
		if sw, err := sl.GetShamirWrapper(); err == nil && sw != nil {
			if kb, _ := sw.KeyBytes(tc.ctx); len(kb) > 0 {
				w.classes["observation:seal-wrapper-holds-shamir-KEK-while-namespace-sealed"]++
			} else {
				w.classes["observation:seal-wrapper-empty-while-namespace-sealed"]++
			}
		}
	}
	if sealed, _, r := c10nsSealStatus(tc, w.parentCtx(d.owner), d.owner.name); !sealed {
		w.viol(rt, "namespace-seal-status-not-sealed", nil, "%s: seal-status of %q reports unsealed (%v)", when, d.owner.path, r)
	}
	// (6) the stored values are not readable through the root barrier or the raw endpoint
	n := 0
	for _, m := range d.members {
		for _, k := range c10nsSortedKeys(m.vals) {
			pk, v := m.physKey[k], m.vals[k]
			if pk == "" || n >= 2 {
				continue
			}
			n++
			w.checkForeignRead(rt, m, k, pk, v, when, true)
		}
	}
}

// checkForeignRead: the record of a value of a sealable namespace must not decrypt under the ROOT barrier; while the
// namespace is sealed the raw endpoint must not return it either.
func (w *c10nsWorld) checkForeignRead(rt *rapid.T, m *c10nsNS, k, pk, v, when string, sealed bool) {
	tc := w.tc
	var e *logical.StorageEntry
	var err error
	if p := verifx.Try(func() { e, err = tc.c.barrier.Get(tc.ctx, pk) }); p != nil {
		err = fmt.Errorf("panic: %v", p)
	}
	if err == nil && e != nil && strings.Contains(string(e.Value), v) {
		w.viol(rt, "namespace-data-readable-through-root-barrier", map[string]any{"physical_key": pk}, "%s: the root barrier decrypts the record %q of namespace %q (value %q): the namespace's data is not protected by its own keys", when, pk, m.path, v)
	}
	w.classes["foreign-barrier-reads"]++
	if !sealed {
		return
	}
	var resp *logical.Response
	if p := verifx.Try(func() {
		rb := NewRawBackend(tc.c)
		resp, err = rb.HandleRequest(tc.ctx, &logical.Request{Operation: logical.ReadOperation, Path: "sys/raw/" + pk, ClientToken: tc.root, Storage: nil})
	}); p != nil {
		resp, err = nil, fmt.Errorf("panic: %v", p)
	}
	if err == nil && resp != nil && strings.Contains(fmt.Sprint(resp.Data), v) {
		w.viol(rt, "namespace-sealed-data-readable-through-raw", map[string]any{"physical_key": pk}, "%s: sys/raw/%s returns the value %q of the sealed namespace %q", when, pk, v, m.path)
	}
	w.classes["raw-reads-of-sealed-data"]++
}

func c10nsSortedKeys(m map[string]string) []string {
	ks := make([]string, 0, len(m))
	for k := range m {
		ks = append(ks, k)
	}
	sort.Strings(ks)
	return ks
}

// verifyNS: oracle (3) for one namespace on core tc: every modelled value reads back, the listing is exactly the key set.
func c10nsVerifyValues(tc *tcore, ctx context.Context, vals map[string]string) []string {
	var bad []string
	for _, k := range c10nsSortedKeys(vals) {
		r := tc.doCtx(ctx, &logical.Request{Operation: logical.ReadOperation, Path: "m/kv/" + k, ClientToken: tc.root})
		if !r.ok() || r.resp == nil || r.resp.Data["v"] != vals[k] {
			got := any(nil)
			if r.resp != nil {
				got = r.resp.Data["v"]
			}
			bad = append(bad, fmt.Sprintf("%s: want %q got %v (%v)", k, vals[k], got, r))
		}
	}
	r := tc.doCtx(ctx, &logical.Request{Operation: logical.ListOperation, Path: "m/kv/", ClientToken: tc.root})
	var got []string
	if r.ok() && r.resp != nil {
		switch x := r.resp.Data["keys"].(type) {
		case []string:
			got = append(got, x...)
		case []any:
			for _, e := range x {
				got = append(got, fmt.Sprint(e))
			}
		}
	} else if !r.ok() {
		bad = append(bad, fmt.Sprintf("list failed: %v", r))
	}
	sort.Strings(got)
	if r.ok() && strings.Join(got, ",") != strings.Join(c10nsSortedKeys(vals), ",") {
		bad = append(bad, fmt.Sprintf("list: want %v got %v", c10nsSortedKeys(vals), got))
	}
	return bad
}

// verifyAll: every unsealed namespace serves exactly its model, every sealed one serves nothing.
func (w *c10nsWorld) verifyAll(rt *rapid.T, when string) {
	for _, n := range w.nss {
		if n.dom.sealed {
			res := w.reqIn(n, false, logical.ReadOperation, "m/kv/k0", nil)
			w.checkSealedRequest(rt, n, "read ("+when+")", res)
			continue
		}
		if bad := c10nsVerifyValues(w.tc, w.ctx(n), n.vals); len(bad) > 0 {
			w.viol(rt, "namespace-data-lost", map[string]any{"namespace": n.path, "bad": bad}, "%s: namespace %q (barrier %s) does not serve the values written earlier: %v", when, n.path, n.dom.name, bad)
		}
		w.classes["value-readbacks"] += int64(len(n.vals))
	}
	for _, d := range w.doms {
		if d.owner != nil && d.sealed {
			w.checkSealedState(rt, d, when)
		}
	}
}

// ---- rotation-type operations

type c10nsOp struct {
	kind      string // rotate-keyring, rotate-root, rekey
	dom       *c10nsDom
	mut0      int
	mut1      int
	oldShares [][]byte
	newShares [][]byte
	snap      map[string]map[string]string
	others    map[string][][]byte // shares of the other sealable domains at that time
	newCfg    string
}

// foreignWrites lists the successful mutations of this goroutine since seq that fall outside the namespaces of domain d.
func (w *c10nsWorld) foreignWrites(d *c10nsDom, seq int64, g int64, mut0 int) []string {
	var out []string
	var before map[string]bool
	for _, o := range w.tc.rec.OpsSince(seq) {
		if o.G != g || o.Err != nil || (o.Kind != "put" && o.Kind != "delete") {
			continue
		}
		inside := false
		for _, m := range d.members {
			if strings.HasPrefix(o.Key, m.physPfx) {
				inside = true
			}
		}
		if inside {
			continue
		}
		if o.Kind == "delete" {
			// deleting a key that does not exist changes nothing
			if before == nil {
				before = map[string]bool{}
				dump, err := verifx.Dump(context.Background(), w.tc.rec.Materialize(mut0, false))
				if err != nil {
					w.t.Fatalf("harness: dump: %v", err)
				}
				for k := range dump {
					before[k] = true
				}
			}
			if !before[o.Key] {
				continue
			}
			out = append(out, "DEL "+o.Key)
			continue
		}
		out = append(out, "PUT "+o.Key)
	}
	return out
}

func (w *c10nsWorld) beginOp(kind string, d *c10nsDom) (*c10nsOp, int64) {
	op := &c10nsOp{kind: kind, dom: d, mut0: w.tc.rec.MutationCount(), oldShares: c10nsCopyShares(d.shares), newShares: c10nsCopyShares(d.shares),
		snap: c10nsSnapshot(w.nss), others: map[string][][]byte{}}
	for _, o := range w.doms {
		if o != d && o.owner != nil {
			op.others[o.owner.name] = c10nsCopyShares(o.shares)
		}
	}
	return op, w.tc.rec.Seq()
}

func (w *c10nsWorld) endOp(rt *rapid.T, op *c10nsOp, seq int64) {
	op.mut1 = w.tc.rec.MutationCount()
	d := op.dom
	if d.owner == nil {
		return
	}
	d.preWrites += d.postWrites
	d.postWrites = 0
	d.rotated = true
	if fw := w.foreignWrites(d, seq, verifx.GoID(), op.mut0); len(fw) > 0 {
		// which barrier can still read the record? (the consequence, for the report)
		readable := map[string]string{}
		existed := map[string]bool{}
		pre, _ := verifx.Dump(context.Background(), w.tc.rec.Materialize(op.mut0, false))
		for _, f := range fw {
			key := strings.TrimPrefix(strings.TrimPrefix(f, "PUT "), "DEL ")
			_, err := w.tc.c.barrier.Get(w.tc.ctx, key)
			readable[key] = fmt.Sprint(err)
			_, existed[key] = pre[key]
		}
		extra := map[string]any{"writes": fw, "root_barrier_get_error": readable, "record_existed_before": existed, "root_seal_shamir": w.tc.opts.shamir}
		if w.tc.opts.shamir {
			// what every leadership acquisition runs (performKeyUpgrades -> reloadShamirKey); a failure there shuts the node down
			extra["root_reload_shamir_key_error"] = fmt.Sprint(w.tc.c.reloadShamirKey(w.tc.ctx))
		}
		w.viol(rt, "namespace-operation-modified-foreign-storage:"+op.kind+":"+c10nsKeyClass(fw), extra,
			"%s on the barrier of namespace %q modified physical records outside that namespace's storage: %v (record existed before: %v; reading them back through the root barrier: %v; root seal shamir: %v, reloadShamirKey: %v)", op.kind, d.owner.path, fw, existed, readable, w.tc.opts.shamir, extra["root_reload_shamir_key_error"])
	}
}

// rotateKeyring: sys/rotate/keyring in the namespace's context.
func (w *c10nsWorld) rotateKeyring(rt *rapid.T, d *c10nsDom) *c10nsOp {
	n := w.nss[0]
	if d.owner != nil {
		n = d.owner
	}
	op, seq := w.beginOp("rotate-keyring", d)
	res := w.reqIn(n, false, logical.UpdateOperation, "sys/rotate/keyring", nil)
	w.logf("rotate-keyring %s -> %v", d.name, res.rr)
	if !res.ok() {
		w.viol(rt, "namespace-rotate-keyring-failed", nil, "sys/rotate/keyring on the unsealed barrier %s failed: %v", d.name, res.rr)
		return nil
	}
	d.term++
	w.endOp(rt, op, seq)
	return op
}

func (w *c10nsWorld) rotateRoot(rt *rapid.T, d *c10nsDom) *c10nsOp {
	op, seq := w.beginOp("rotate-root", d)
	res := w.reqIn(d.owner, false, logical.UpdateOperation, "sys/rotate/root", nil)
	w.logf("rotate-root %s -> %v", d.name, res.rr)
	if !res.ok() {
		w.viol(rt, "namespace-rotate-root-failed", nil, "sys/rotate/root on the unsealed barrier %s failed: %v", d.name, res.rr)
		return nil
	}
	w.endOp(rt, op, seq)
	return op
}

// rekeyWith drives sys/rotate/root/init + update with the given shares; returns the new shares or nil.
func (w *c10nsWorld) rekeyWith(d *c10nsDom, shares, thr int, provide [][]byte) ([][]byte, string) {
	n := d.owner
	r := w.reqIn(n, false, logical.UpdateOperation, "sys/rotate/root/init", map[string]any{"secret_shares": shares, "secret_threshold": thr})
	if !r.ok() || r.resp == nil {
		return nil, "init: " + r.rr.String()
	}
	nonce, _ := r.resp.Data["nonce"].(string)
	if nonce == "" {
		return nil, fmt.Sprintf("init returned no nonce: %v", r.resp.Data)
	}
	last := ""
	for _, s := range provide {
		u := w.reqIn(n, false, logical.UpdateOperation, "sys/rotate/root/update", map[string]any{"key": hex.EncodeToString(s), "nonce": nonce})
		if !u.ok() {
			last = "update: " + u.rr.String()
			continue
		}
		if u.resp != nil && u.resp.Data["keys"] != nil {
			keys, err := c10nsDecodeKeys(u.resp.Data["keys"])
			if err != nil {
				return nil, "decode: " + err.Error()
			}
			return keys, ""
		}
	}
	if last == "" {
		last = "no keys returned"
	}
	return nil, last
}

func (w *c10nsWorld) cancelRekey(d *c10nsDom) {
	w.reqIn(d.owner, false, logical.DeleteOperation, "sys/rotate/root/init", nil)
}

func (w *c10nsWorld) rekey(rt *rapid.T, d *c10nsDom, shares, thr int) *c10nsOp {
	op, seq := w.beginOp("rekey", d)
	op.newCfg = fmt.Sprintf("%d/%d", thr, shares)
	keys, e := w.rekeyWith(d, shares, thr, d.shares[:d.thr])
	w.logf("rekey %s %d/%d -> %d/%d %s", d.name, d.thr, len(d.shares), thr, shares, e)
	if keys == nil {
		w.cancelRekey(d)
		w.viol(rt, "namespace-rekey-failed", nil, "rekey of the unsealed barrier %s with its current shares failed: %s", d.name, e)
		return nil
	}
	if len(keys) != shares {
		w.viol(rt, "namespace-rekey-share-count", nil, "rekey of %s to %d shares returned %d", d.name, shares, len(keys))
	}
	d.stale = append(d.stale, d.shares)
	d.shares, d.thr = keys, thr
	op.newShares = c10nsCopyShares(keys)
	w.endOp(rt, op, seq)
	return op
}

// c10nsCorrupt returns copies of the shares that certainly do NOT reconstruct the same key: either exactly one share has
// one byte changed, or every share has a byte changed at pairwise distinct positions (never the trailing x-coordinate
// byte). Changing several shares at the SAME position can yield another valid share set of the same secret.
func c10nsCorrupt(rt *rapid.T, shares [][]byte) [][]byte {
	out := c10nsCopyShares(shares)
	base := fairIndex(rt, "corruptPos", 32)
	xor := byte(1 + fairIndex(rt, "corruptXor", 255))
	if fairIndex(rt, "corruptAll", 2) == 0 || len(out) > 32 {
		out[fairIndex(rt, "corruptShare", len(out))][base] ^= xor
		return out
	}
	for i := range out {
		out[i][(base+i)%32] ^= xor
	}
	return out
}

// wrongShareSets builds share sets that must NOT open domain d: mode wrong | too-few | foreign | stale.
func (w *c10nsWorld) wrongShares(rt *rapid.T, d *c10nsDom, mode string) ([][]byte, string) {
	switch mode {
	case "wrong":
		return c10nsCorrupt(rt, d.shares[:d.thr]), "corrupted shares"
	case "too-few":
		if d.thr < 2 {
			return nil, ""
		}
		return c10nsCopyShares(d.shares[:d.thr-1]), fmt.Sprintf("%d of %d required shares", d.thr-1, d.thr)
	case "foreign":
		var cands []*c10nsDom
		for _, o := range w.doms {
			if o != d && len(o.shares) > 0 {
				cands = append(cands, o)
			}
		}
		if len(w.tc.recoveryKeys) > 0 {
			cands = append(cands, &c10nsDom{name: "root-recovery", shares: w.tc.recoveryKeys})
		}
		if len(cands) == 0 {
			return nil, ""
		}
		o := cands[fairIndex(rt, "foreignDom", len(cands))]
		return c10nsCopyShares(o.shares), "the shares of " + o.name
	case "stale":
		if len(d.stale) == 0 {
			return nil, ""
		}
		s := d.stale[fairIndex(rt, "staleSet", len(d.stale))]
		if sameKeys(s, d.shares) {
			return nil, ""
		}
		return c10nsCopyShares(s), "shares valid before a completed rekey"
	}
	return nil, ""
}

// wrongModes lists the applicable kinds of share sets that must not open d (stale ones are preferred when they exist).
func (w *c10nsWorld) wrongModes(d *c10nsDom) []string {
	ms := []string{"wrong"}
	if d.thr >= 2 {
		ms = append(ms, "too-few")
	}
	foreign := len(w.tc.recoveryKeys) > 0
	for _, o := range w.doms {
		foreign = foreign || (o != d && len(o.shares) > 0)
	}
	if foreign {
		ms = append(ms, "foreign")
	}
	for _, s := range d.stale {
		if !sameKeys(s, d.shares) {
			ms = append(ms, "stale", "stale")
			break
		}
	}
	return ms
}

func (w *c10nsWorld) sealNS(rt *rapid.T, d *c10nsDom) {
	n := d.owner
	r := w.tc.doCtx(w.parentCtx(n), &logical.Request{Operation: logical.UpdateOperation, Path: "sys/namespaces/" + n.name + "/seal", ClientToken: w.tc.root})
	w.logf("seal %s -> %v", n.path, r)
	if !r.ok() {
		w.viol(rt, "namespace-seal-failed", nil, "sealing the namespace %q failed: %v", n.path, r)
		return
	}
	d.sealed = true
}

// unsealRight unseals with the current shares (threshold many, a generated subset) and applies oracle (3).
func (w *c10nsWorld) unsealRight(rt *rapid.T, d *c10nsDom, why string) {
	n := d.owner
	// any threshold-sized subset of the shares must do
	idx := rapid.Permutation(c10nsIota(len(d.shares))).Draw(rt, "shareOrder")
	var use [][]byte
	for _, i := range idx[:d.thr] {
		use = append(use, d.shares[i])
	}
	ok, e := c10nsUnsealAPI(w.tc, w.parentCtx(n), n.name, use)
	w.logf("unseal %s with %d current shares (%s) -> %v %s", n.path, len(use), why, ok, e)
	if !ok || w.nsSealed(n) {
		w.viol(rt, "namespace-unseal-with-valid-shares-failed", map[string]any{"error": e}, "unsealing %q with %d of its %d current shares (threshold %d) failed: %s", n.path, len(use), len(d.shares), d.thr, e)
		return
	}
	d.sealed = false
	if d.rotated && d.preWrites > 0 && d.postWrites > 0 {
		w.nontriv = true
		w.classes["rotation-then-reseal-with-values-before-and-after"]++
	}
}

func c10nsIota(n int) []int {
	out := make([]int, n)
	for i := range out {
		out[i] = i
	}
	return out
}

// restart replaces the core by a new one on the same storage; all sealable namespaces are sealed afterwards.
func (w *c10nsWorld) restart(rt *rapid.T, full bool) {
	if full {
		w.tc.shutdown()
		n, err := w.tc.restartOn(w.tc.phys)
		if err != nil {
			w.viol(rt, "core-restart-failed", nil, "restart of the core on its own storage failed: %v", err)
			w.t.Fatalf("harness: restart: %v", err)
		}
		n.recoveryKeys = w.tc.recoveryKeys
		w.tc = n
		w.logf("restart core")
	} else {
		if err := w.tc.seal(); err != nil {
			w.t.Fatalf("harness: seal core: %v", err)
		}
		if err := w.tc.unseal(w.tc.keys); err != nil {
			w.viol(rt, "core-unseal-failed", nil, "unseal of the core after seal failed: %v", err)
			w.t.Fatalf("harness: unseal: %v", err)
		}
		w.tc.c.physicalCache.SetEnabled(false)
		w.tc.c.physicalCache.Purge(w.tc.ctx)
		w.logf("seal+unseal core")
	}
	for _, d := range w.doms {
		if d.owner != nil {
			d.sealed = true
		}
	}
}

// ---- crash prefixes

// crashEnumerate: for every prefix of the physical writes of op, boot a core on the materialised store, unseal the
// root, and try to unseal the namespace with the shares valid before the operation and with the ones it produced.
func (w *c10nsWorld) crashEnumerate(rt *rapid.T, op *c10nsOp) {
	tc := w.tc
	d := op.dom
	n := op.mut1 - op.mut0
	histDigest := verifx.Digest(w.log)
	for k := 0; k <= n; k++ {
		last := []string(nil)
		if k > 0 {
			last = tc.rec.MutationKeys(op.mut0 + k - 1)
		}
		o := tc.opts
		o.phys = tc.rec.ForkAt(op.mut0+k, tc.opts.transactional)
		o.noInit = true
		o.keys = tc.keys
		fc, err := bootCore(w.t, o)
		detail := map[string]any{"operation": op.kind, "namespace": d.owner.path, "crash_after_writes": k, "of_writes": n, "last_write": last, "new_config": op.newCfg}
		if err != nil {
			w.viol(rt, "namespace-crash-prefix-root-not-unsealable:"+op.kind, detail, "after a crash following %d of the %d writes of %s on namespace %q the ROOT barrier does not unseal: %v", k, n, op.kind, d.owner.path, err)
			continue
		}
		fc.root = tc.root
		func() {
			defer fc.shutdown()
			pctx := fc.ctx
			oldOK, oldErr := c10nsUnsealAPI(fc, pctx, d.owner.name, op.oldShares)
			var oldBad, newBad []string
			readBack := func() []string {
				var bad []string
				for _, m := range d.members {
					ctx := namespace.ContextWithNamespace(context.Background(), m.ns)
					for _, b := range c10nsVerifyValues(fc, ctx, op.snap[m.path]) {
						bad = append(bad, m.path+": "+b)
					}
				}
				return bad
			}
			if oldOK {
				oldBad = readBack()
			}
			newOK, newErr := oldOK, oldErr
			if op.kind == "rekey" && !sameKeys(op.oldShares, op.newShares) {
				if oldOK {
					r := fc.doCtx(pctx, &logical.Request{Operation: logical.UpdateOperation, Path: "sys/namespaces/" + d.owner.name + "/seal", ClientToken: fc.root})
					if !r.ok() {
						w.t.Fatalf("harness: re-seal in crash fork: %v", r)
					}
				}
				newOK, newErr = c10nsUnsealAPI(fc, pctx, d.owner.name, op.newShares)
				if newOK {
					newBad = readBack()
				}
			}
			detail["old_shares_unseal"], detail["new_shares_unseal"] = oldOK, newOK
			cls := fmt.Sprintf("crash:%s:old=%v,new=%v", op.kind, oldOK, newOK)
			inside := k > 0 && k < n
			w.rec.Case(cls, inside, verifx.Digest(histDigest, k), func() any { return detail })
			if !oldOK && !newOK {
				w.viol(rt, "namespace-crash-prefix-not-unsealable:"+op.kind+":after="+c10nsKeyClass(last), detail,
					"after a crash following %d of the %d writes of %s on the barrier of namespace %q (last write %v) neither the shares valid before nor the shares produced by the operation unseal the namespace (old: %s, new: %s)", k, n, op.kind, d.owner.path, last, oldErr, newErr)
			}
			if len(oldBad) > 0 || len(newBad) > 0 {
				w.viol(rt, "namespace-data-lost-after-crash:"+op.kind, detail, "crash after %d/%d writes of %s on namespace %q: the namespace unseals but values written earlier do not read back (old shares: %v, new shares: %v)", k, n, op.kind, d.owner.path, oldBad, newBad)
			}
			if k == n && op.kind == "rekey" && !sameKeys(op.oldShares, op.newShares) {
				if !newOK {
					w.viol(rt, "namespace-completed-rekey-new-shares-fail", detail, "after the completed rekey of %q the new shares do not unseal it: %s", d.owner.path, newErr)
				}
				if oldOK {
					w.viol(rt, "namespace-completed-rekey-old-shares-still-work", detail, "after the completed rekey of %q the old shares still unseal it", d.owner.path)
				}
			}
			if inside && !oldOK && newOK {
				w.rec.Class("only-unreturned-new-shares-unseal", 1)
			}
			// the other namespaces are not affected by a crash inside this namespace's operation
			for _, m := range w.nss {
				if m.dom == d {
					continue
				}
				if m.dom.owner != nil {
					if m != m.dom.owner {
						continue
					}
					ok, e := c10nsUnsealAPI(fc, pctx, m.name, op.others[m.name])
					if !ok {
						w.viol(rt, "namespace-crash-affects-other-namespace:"+op.kind, detail, "crash after %d/%d writes of %s on namespace %q: the OTHER sealable namespace %q no longer unseals with its shares: %s", k, n, op.kind, d.owner.path, m.path, e)
						continue
					}
				}
				ctx := fc.ctx
				if m.path != "" {
					ctx = namespace.ContextWithNamespace(context.Background(), m.ns)
				}
				if bad := c10nsVerifyValues(fc, ctx, op.snap[m.path]); len(bad) > 0 {
					w.viol(rt, "namespace-crash-affects-other-namespace:"+op.kind, detail, "crash after %d/%d writes of %s on namespace %q: values of the other namespace %q do not read back: %v", k, n, op.kind, d.owner.path, m.path, bad)
				}
			}
		}()
	}
}

// ---- the test

func TestVerif_C10_NamespaceBarrier(t *testing.T) {
	rec := verifx.NewRecorder("C10", "namespace-barrier", "a core (Shamir root seal with generated shares/threshold, or the stored-key test seal; transactional or plain storage) with a plain namespace p/, one or two sealable namespaces s1/, s2/ (Shamir, generated shares 1-3 / threshold) created, sealed and unsealed through sys/namespaces/..., optionally a plain namespace s1/c/ inside s1's barrier, a recording kv backend mounted in every namespace and a model of what was written where; generated history of write/read/delete/list in every namespace (by context or path prefix), sys/rotate/keyring, sys/rotate/root and rekey (sys/rotate/root/init+update, generated new shares/threshold) in the namespaces' contexts, rekey attempts with wrong shares, seal of a namespace, unseal with current / corrupted / too few / foreign (other namespace, root seal) / pre-rekey shares, core seal+unseal and core restart; then a final rotation-type operation on a namespace barrier whose physical writes are enumerated: for EVERY prefix a core is booted on the materialised store, the root unsealed and the namespace tried with the shares valid before and those produced by the operation. Oracles: sealed namespace serves nothing, touches no storage below its prefix except bootstrap records, holds no key material, is not readable through the root barrier or sys/raw; wrong shares leave it sealed; after unsealing with valid shares every value reads back and listings are exact in every namespace; new records carry the newest term of their own barrier only; rotation-type operations write nothing outside the namespace; crash prefixes: old or new shares unseal and data reads back, other namespaces unaffected. non-trivial = a namespace rotation/rekey followed by seal+unseal or restart with values written before and after it, or a crash prefix strictly inside an operation")
	defer rec.Flush()
	maxSteps := verifx.Scale(40, 70)
	rapid.Check(t, func(rt *rapid.T) {
		defer recoverWedged(rec)
		w := newC10nsWorld(t, rt, rec)
		defer func() { w.tc.shutdown() }()
		sealable := func() []*c10nsDom {
			var out []*c10nsDom
			for _, d := range w.doms {
				if d.owner != nil {
					out = append(out, d)
				}
			}
			return out
		}
		pickSealable := func(rt *rapid.T, wantSealed int) *c10nsDom { // wantSealed: 0 unsealed, 1 sealed, 2 any
			var c []*c10nsDom
			for _, d := range sealable() {
				if wantSealed == 2 || d.sealed == (wantSealed == 1) {
					c = append(c, d)
				}
			}
			if len(c) == 0 {
				return nil
			}
			return c[fairIndex(rt, "sealableNS", len(c))]
		}
		pickable := func(wantSealed int) bool {
			for _, d := range sealable() {
				if d.sealed == (wantSealed == 1) {
					return true
				}
			}
			return false
		}
		// the actions applicable in the current state (constructed, not filtered)
		kindsNow := func() []string {
			ks := []string{"write", "write", "write", "write", "read", "delete", "rotate-keyring", "rotate-keyring", "rotate-root", "rekey", "rekey", "restart", "rotate-plain"}
			if pickable(0) {
				ks = append(ks, "seal", "seal", "reseal", "rekey-wrong")
			}
			if pickable(1) {
				ks = append(ks, "unseal", "unseal", "unseal-wrong", "unseal-wrong")
			}
			return ks
		}
		nsteps := 0
		step := func(rt *rapid.T) {
			kinds := kindsNow()
			kind := kinds[fairIndex(rt, "kind", len(kinds))]
			if nsteps >= maxSteps {
				kind = "read" // hard cap on the cost of one case: further steps only read
			}
			nsteps++
			w.classes["action:"+kind]++
			skip := func(why string) {
				nsteps--
				w.classes["action:"+kind]--
				rt.Skip(why)
			}
			switch kind {
			case "write", "read", "delete":
				n := w.nss[fairIndex(rt, "namespace", len(w.nss))]
				if fairIndex(rt, "preferSealable", 2) == 0 {
					// half of the data operations go to a namespace behind its own barrier
					var own []*c10nsNS
					for _, m := range w.nss {
						if m.dom.owner != nil {
							own = append(own, m)
						}
					}
					n = own[fairIndex(rt, "sealableMember", len(own))]
				}
				key := fmt.Sprintf("k%d", fairIndex(rt, "key", 4))
				viaPrefix := fairIndex(rt, "viaPrefix", 3) == 0
				switch kind {
				case "write":
					w.nval++
					val := fmt.Sprintf("VAL-%d-%s", w.nval, n.name)
					seq := w.tc.rec.Seq()
					res := w.reqIn(n, viaPrefix, logical.UpdateOperation, "m/kv/"+key, map[string]any{"v": val})
					w.logf("write %s%s=%s (barrier %s sealed=%v) -> %v", n.path, key, val, n.dom.name, n.dom.sealed, res.rr)
					if n.dom.sealed {
						w.checkSealedRequest(rt, n, "write", res)
						return
					}
					if !res.ok() {
						w.viol(rt, "namespace-write-failed", nil, "write in the unsealed namespace %q failed: %v", n.path, res.rr)
						return
					}
					n.vals[key] = val
					n.dom.postWrites++
					// (4) the record lies below the namespace's prefix and carries the newest term of ITS barrier
					found := false
					for _, o := range w.tc.rec.OpsSince(seq) {
						if o.Kind != "put" || o.Err != nil || !strings.HasSuffix(o.Key, "/"+key) {
							continue
						}
						if !strings.HasPrefix(o.Key, n.physPfx) || (n.path == "" && strings.HasPrefix(o.Key, "namespaces/")) {
							w.viol(rt, "namespace-write-outside-its-prefix", map[string]any{"physical_key": o.Key}, "the value written in namespace %q was stored at %q, outside its storage prefix %q", n.path, o.Key, n.physPfx)
							continue
						}
						found = true
						n.physKey[key] = o.Key
						if len(o.Val) < 4 {
							w.viol(rt, "namespace-record-without-term", nil, "record %q is %d bytes long", o.Key, len(o.Val))
							continue
						}
						if term := binary.BigEndian.Uint32(o.Val[:4]); term != n.dom.term {
							w.viol(rt, "namespace-write-not-under-newest-term", map[string]any{"physical_key": o.Key, "term": term, "want": n.dom.term},
								"the record %q written in namespace %q carries key term %d; the newest term of its barrier (%s) is %d", o.Key, n.path, term, n.dom.name, n.dom.term)
						}
						w.classes["term-checks"]++
						if n.dom.owner != nil {
							w.checkForeignRead(rt, n, key, o.Key, val, "after the write", false)
						}
					}
					if !found {
						w.viol(rt, "namespace-write-outside-its-prefix", nil, "the acknowledged write of %s in namespace %q produced no physical record below %q", key, n.path, n.physPfx)
					}
				case "read":
					list := fairIndex(rt, "list", 4) == 0
					if n.dom.sealed {
						op, path := logical.ReadOperation, "m/kv/"+key
						if list {
							op, path = logical.ListOperation, "m/kv/"
						}
						res := w.reqIn(n, viaPrefix, op, path, nil)
						w.logf("%s %s%s while sealed -> %v", op, n.path, path, res.rr)
						w.checkSealedRequest(rt, n, string(op), res)
						return
					}
					if bad := c10nsVerifyValues(w.tc, w.ctx(n), n.vals); len(bad) > 0 {
						w.viol(rt, "namespace-data-lost", map[string]any{"namespace": n.path, "bad": bad}, "namespace %q does not serve the values written earlier: %v", n.path, bad)
					}
					res := w.reqIn(n, viaPrefix, logical.ReadOperation, "m/kv/"+key, nil)
					want, has := n.vals[key]
					got := any(nil)
					if res.resp != nil {
						got = res.resp.Data["v"]
					}
					if !res.ok() || (has && got != want) || (!has && got != nil) {
						w.viol(rt, "namespace-read-mismatch", nil, "read of %s in namespace %q: want %q (present=%v), got %v (%v)", key, n.path, want, has, got, res.rr)
					}
				case "delete":
					res := w.reqIn(n, viaPrefix, logical.DeleteOperation, "m/kv/"+key, nil)
					w.logf("delete %s%s (sealed=%v) -> %v", n.path, key, n.dom.sealed, res.rr)
					if n.dom.sealed {
						w.checkSealedRequest(rt, n, "delete", res)
						return
					}
					if !res.ok() {
						w.viol(rt, "namespace-delete-failed", nil, "delete in the unsealed namespace %q failed: %v", n.path, res.rr)
						return
					}
					delete(n.vals, key)
					delete(n.physKey, key)
				}
			case "rotate-keyring":
				d := w.doms[fairIndex(rt, "barrier", len(w.doms))]
				if d.sealed {
					res := w.reqIn(d.owner, false, logical.UpdateOperation, "sys/rotate/keyring", nil)
					w.logf("rotate-keyring %s while sealed -> %v", d.name, res.rr)
					w.checkSealedRequest(rt, d.owner, "sys/rotate/keyring", res)
					return
				}
				w.rotateKeyring(rt, d)
				w.verifyAll(rt, "after rotate-keyring "+d.name)
			case "rotate-root":
				d := pickSealable(rt, 2)
				if d.sealed {
					res := w.reqIn(d.owner, false, logical.UpdateOperation, "sys/rotate/root", nil)
					w.logf("rotate-root %s while sealed -> %v", d.name, res.rr)
					w.checkSealedRequest(rt, d.owner, "sys/rotate/root", res)
					return
				}
				w.rotateRoot(rt, d)
				w.verifyAll(rt, "after rotate-root "+d.name)
			case "rekey":
				d := pickSealable(rt, 2)
				ns := 1 + fairIndex(rt, "newShares", 3)
				nt := c10nsThreshold(rt, ns, "newThreshold")
				if d.sealed {
					res := w.reqIn(d.owner, false, logical.UpdateOperation, "sys/rotate/root/init", map[string]any{"secret_shares": ns, "secret_threshold": nt})
					w.logf("rekey init %s while sealed -> %v", d.name, res.rr)
					w.checkSealedRequest(rt, d.owner, "sys/rotate/root/init", res)
					return
				}
				w.rekey(rt, d, ns, nt)
				w.verifyAll(rt, "after rekey "+d.name)
			case "rekey-wrong":
				d := pickSealable(rt, 0)
				if d == nil {
					skip("no unsealed sealable namespace")
				}
				modes := w.wrongModes(d)
				mode := modes[fairIndex(rt, "wrongMode", len(modes))]
				bad, what := w.wrongShares(rt, d, mode)
				if bad == nil {
					skip("mode not applicable")
				}
				ns := 1 + fairIndex(rt, "newShares", 3)
				nt := c10nsThreshold(rt, ns, "newThreshold")
				seq, mut0, g := w.tc.rec.Seq(), w.tc.rec.MutationCount(), verifx.GoID()
				keys, e := w.rekeyWith(d, ns, nt, bad)
				w.cancelRekey(d)
				w.logf("rekey %s with %s -> keys=%v %s", d.name, what, keys != nil, e)
				w.classes["rekey-wrong:"+mode]++
				if keys != nil {
					w.viol(rt, "namespace-rekey-accepted-wrong-shares:"+mode, nil, "a rekey of namespace %q was completed with %s", d.owner.path, what)
					return
				}
				// a refused rekey changes nothing in storage
				var muts []string
				for _, o := range w.tc.rec.OpsSince(seq) {
					if o.G == g && o.Err == nil && (o.Kind == "put" || o.Kind == "delete") {
						muts = append(muts, o.Kind+" "+o.Key)
					}
				}
				_ = mut0
				if len(muts) > 0 {
					w.viol(rt, "namespace-refused-rekey-wrote-storage", map[string]any{"writes": muts}, "the refused rekey of %q (%s) modified storage: %v", d.owner.path, what, muts)
				}
			case "seal":
				d := pickSealable(rt, 0)
				if d == nil {
					skip("nothing to seal")
				}
				w.sealNS(rt, d)
				w.verifyAll(rt, "after seal "+d.name)
			case "reseal":
				d := pickSealable(rt, 0)
				if d == nil {
					skip("nothing to seal")
				}
				w.sealNS(rt, d)
				w.verifyAll(rt, "after seal "+d.name)
				w.unsealRight(rt, d, "directly after the seal")
				w.verifyAll(rt, "after seal+unseal "+d.name)
			case "unseal":
				d := pickSealable(rt, 1)
				if d == nil {
					skip("nothing to unseal")
				}
				w.unsealRight(rt, d, "state machine")
				w.verifyAll(rt, "after unseal "+d.name)
			case "unseal-wrong":
				d := pickSealable(rt, 1)
				if d == nil {
					skip("nothing sealed")
				}
				modes := w.wrongModes(d)
				mode := modes[fairIndex(rt, "wrongMode", len(modes))]
				bad, what := w.wrongShares(rt, d, mode)
				if bad == nil {
					skip("mode not applicable")
				}
				seq, g := w.tc.rec.Seq(), verifx.GoID()
				ok, e := c10nsUnsealAPI(w.tc, w.parentCtx(d.owner), d.owner.name, bad)
				w.logf("unseal %s with %s -> %v %s", d.owner.path, what, ok, e)
				w.classes["unseal-wrong:"+mode]++
				if ok || !w.nsSealed(d.owner) {
					d.sealed = false
					w.viol(rt, "namespace-unsealed-with-wrong-shares:"+mode, nil, "namespace %q (threshold %d of %d) was unsealed with %s", d.owner.path, d.thr, len(d.shares), what)
					return
				}
				if mode == "too-few" {
					if _, progress, r := c10nsSealStatus(w.tc, w.parentCtx(d.owner), d.owner.name); r.ok() && progress != len(bad) {
						w.viol(rt, "namespace-unseal-progress", nil, "after %d distinct shares seal-status of %q reports progress %d", len(bad), d.owner.path, progress)
					}
				}
				var ops []*verifx.Op
				for _, o := range w.tc.rec.OpsSince(seq) {
					if o.G == g {
						ops = append(ops, o)
					}
				}
				if o := w.sealedTouch(d, ops); o != nil {
					w.viol(rt, "namespace-sealed-storage-touched", map[string]any{"op": o.String()}, "the refused unseal of %q (%s) performed the storage operation %s %q", d.owner.path, what, o.Kind, o.Key)
				}
				w.verifyAll(rt, "after refused unseal of "+d.name)
			case "restart":
				w.restart(rt, fairIndex(rt, "fullRestart", 3) > 0)
				w.verifyAll(rt, "after restart (namespaces sealed)")
				// unseal a generated subset of the namespaces again
				for _, d := range sealable() {
					if rapid.Bool().Draw(rt, "unsealAfterRestart") {
						w.unsealRight(rt, d, "after restart")
					}
				}
				w.verifyAll(rt, "after restart and namespace unseals")
			case "rotate-plain":
				// rotation endpoints in a namespace WITHOUT its own barrier are refused and change nothing
				var plain []*c10nsNS
				for _, n := range w.nss {
					if n.path != "" && n.dom.owner != n && !n.dom.sealed {
						plain = append(plain, n)
					}
				}
				if len(plain) == 0 {
					skip("no served plain namespace")
				}
				n := plain[fairIndex(rt, "plainNS", len(plain))]
				path := []string{"sys/rotate/keyring", "sys/rotate/root"}[fairIndex(rt, "endpoint", 2)]
				seq, g := w.tc.rec.Seq(), verifx.GoID()
				res := w.reqIn(n, false, logical.UpdateOperation, path, nil)
				w.logf("%s in plain namespace %s -> %v", path, n.path, res.rr)
				var muts []string
				for _, o := range w.tc.rec.OpsSince(seq) {
					if o.G == g && o.Err == nil && (o.Kind == "put" || o.Kind == "delete") {
						muts = append(muts, o.Kind+" "+o.Key)
					}
				}
				if res.ok() || len(muts) > 0 {
					w.viol(rt, "namespace-rotation-in-non-sealable-namespace", map[string]any{"writes": muts}, "%s in the non-sealable namespace %q: result %v, storage writes %v", path, n.path, res.rr, muts)
				}
			}
		}
		rt.Repeat(map[string]func(*rapid.T){"step": step})

		// ---- final rotation-type operation on a namespace barrier, every crash prefix of it
		ds := sealable()
		d := ds[fairIndex(rt, "finalNS", len(ds))]
		if d.sealed {
			w.unsealRight(rt, d, "before the final operation")
			if d.sealed {
				return
			}
		}
		hasVal := false
		for _, m := range d.members {
			hasVal = hasVal || len(m.vals) > 0
		}
		if !hasVal {
			w.nval++
			val := fmt.Sprintf("VAL-%d-%s", w.nval, d.owner.name)
			res := w.reqIn(d.owner, false, logical.UpdateOperation, "m/kv/k0", map[string]any{"v": val})
			if !res.ok() {
				w.viol(rt, "namespace-write-failed", nil, "write in the unsealed namespace %q failed: %v", d.owner.path, res.rr)
				return
			}
			d.owner.vals["k0"] = val
			d.postWrites++
			w.logf("write %sk0=%s", d.owner.path, val)
		}
		final := []string{"rekey", "rekey", "rotate-root", "rotate-keyring"}[fairIndex(rt, "final", 4)]
		var op *c10nsOp
		switch final {
		case "rekey":
			ns := 1 + fairIndex(rt, "finalShares", 3)
			nt := c10nsThreshold(rt, ns, "finalThreshold")
			op = w.rekey(rt, d, ns, nt)
		case "rotate-root":
			op = w.rotateRoot(rt, d)
		case "rotate-keyring":
			op = w.rotateKeyring(rt, d)
		}
		if op == nil {
			return
		}
		w.log[len(w.log)-1] = "FINAL " + w.log[len(w.log)-1]
		w.verifyAll(rt, "after the final "+final)
		w.crashEnumerate(rt, op)
		cls := fmt.Sprintf("history:sealable=%d,child=%v,root=%s", len(ds), len(w.nss) > 2+len(ds), map[bool]string{true: "shamir", false: "stored-key"}[w.tc.opts.shamir])
		hist := append([]string(nil), w.log...)
		rec.Case(cls, w.nontriv, verifx.Digest(hist), func() any { return map[string]any{"history": hist} })
		if w.nontriv {
			rec.Class("histories-with-rotation-then-reseal(values before and after)", 1)
		}
		for k, v := range w.classes {
			rec.Class(k, v)
		}
	})
}

// TestVerifRepro_C10ns_ShamirKekHA is a fixed reproduction (not a check; runs only with VERIF_C10NS_REPRO=1) of the
// consequence of the namespace rekey writing its Shamir KEK to the ROOT key core/shamir-kek: on an HA node with a
// Shamir root seal the next leadership acquisition cannot reload the root's KEK and the node shuts itself down.
func TestVerifRepro_C10ns_ShamirKekHA(t *testing.T) {
	if os.Getenv("VERIF_C10NS_REPRO") == "" {
		t.Skip("set VERIF_C10NS_REPRO=1")
	}
	for _, doRekey := range []bool{false, true} {
		tc := mustBoot(t, coreOpts{shamir: true, shares: 1, threshold: 1, ha: true})
		r := tc.req(logical.UpdateOperation, "sys/namespaces/s1", tc.root, map[string]any{"seal": c10nsSealJSON(1, 1)})
		resp := tc.mustOK(r, "create s1")
		keys, err := c10nsDecodeKeys(resp.Data["key_shares"])
		if err != nil {
			t.Fatal(err)
		}
		if ok, e := c10nsUnsealAPI(tc, tc.ctx, "s1", keys); !ok {
			t.Fatalf("unseal s1: %s", e)
		}
		ns, _ := tc.c.namespaceStore.GetNamespaceByPath(tc.ctx, "s1/")
		if doRekey {
			ir := tc.reqNS(ns, logical.UpdateOperation, "sys/rotate/root/init", tc.root, map[string]any{"secret_shares": 1, "secret_threshold": 1})
			nonce, _ := tc.mustOK(ir, "rekey init").Data["nonce"].(string)
			ur := tc.reqNS(ns, logical.UpdateOperation, "sys/rotate/root/update", tc.root, map[string]any{"key": hex.EncodeToString(keys[0]), "nonce": nonce})
			if !ur.ok() || ur.resp == nil || ur.resp.Data["keys"] == nil {
				t.Fatalf("rekey s1: %v", ur)
			}
		}
		_, gerr := tc.c.barrier.Get(tc.ctx, "core/shamir-kek")
		t.Logf("namespace rekey=%v: root barrier Get(core/shamir-kek) error: %v; reloadShamirKey: %v", doRekey, gerr, tc.c.reloadShamirKey(tc.ctx))
		// step down: the node must become active again
		serr := tc.c.StepDown(context.Background(), &logical.Request{Operation: logical.UpdateOperation, Path: "sys/step-down", ClientToken: tc.root})
		werr := error(nil)
		sawStandby := false
		for i := 0; i < 5000; i++ {
			if tc.c.Sealed() {
				werr = fmt.Errorf("core sealed itself")
				break
			}
			if tc.c.Standby() {
				sawStandby = true
			} else if sawStandby {
				break
			}
			time.Sleep(time.Millisecond)
		}
		if werr == nil && tc.c.Standby() {
			werr = fmt.Errorf("still standby after 5s")
		}
		t.Logf("namespace rekey=%v: step-down err=%v, leadership re-acquisition: %v (sealed=%v standby=%v)", doRekey, serr, werr, tc.c.Sealed(), tc.c.Standby())
		tc.shutdown()
	}
}
