//go:build verif

package vault

// C02, race unit: "Policy and token changes are honoured by the very next request" also when the change overlaps a
// request that is loading the same policy into a cold cache (first use after a restart or an eviction).

import (
	"fmt"
	"testing"
	"time"

	"github.com/openbao/openbao/sdk/v2/helper/verifx"
	"github.com/openbao/openbao/sdk/v2/logical"
	"pgregory.net/rapid"
)

func TestVerif_C02_PolicyRace(t *testing.T) {
	rec := verifx.NewRecorder("C02", "policy-race", "a token holds policy p1; the server is restarted (cold policy cache); then a request with that token (which loads p1 from storage) runs concurrently with a root request that rewrites p1 (grant -> read-only / deny, or read-only -> grant), deletes it, or revokes the token; the harness interleaves the two requests at storage-operation granularity with a scheduling point before each operation and another when it has come back (stay-or-switch random walk); oracle once BOTH requests have returned: the very next request with the token is decided by the policy now stored (refused after a narrowing / deletion / revocation without reaching the backend, served after a widening), and again after one more request (nothing stale was cached); the concurrent request itself may go either way; non-trivial = a switch between the two unfinished requests")
	defer rec.Flush()
	rapid.Check(t, func(rt *rapid.T) {
		defer recoverWedged(rec)
		hub := newRecHub()
		tc := mustBoot(t, coreOpts{transactional: rapid.Bool().Draw(rt, "transactionalStorage"), cacheOff: true,
			logical: map[string]logical.Factory{"recbe": hub.factory("recbe", logical.TypeLogical)}})
		defer func() { tc.shutdown() }()
		tc.mount("rb", "recbe", nil)
		grant := `path "rb/kv/*" { capabilities = ["create","read","update","delete","list"] }`
		readOnly := `path "rb/kv/*" { capabilities = ["read"] }`
		deny := `path "rb/kv/*" { capabilities = ["deny"] }`
		change := []string{"narrow", "narrow", "deny", "delete", "widen", "revoke-token"}[fairIndex(rt, "change", 6)]
		before, after := grant, readOnly
		switch change {
		case "deny":
			after = deny
		case "widen":
			before, after = readOnly, grant
		}
		tc.writePolicy("p1", before)
		tok, _, r := tc.createToken(tc.root, map[string]any{"policies": []string{"p1"}, "no_default_policy": true, "ttl": "1h"})
		if tok == "" {
			t.Fatalf("harness: token: %v", r)
		}
		// cold policy cache: restart on the same storage
		tc.shutdown()
		ntc, err := tc.restartOn(tc.phys)
		if err != nil {
			t.Fatalf("harness: restart: %v", err)
		}
		tc = ntc
		sched := verifx.NewSched(tc.rec)
		sched.AfterOps = true
		defer func() {
			sched.RunToEnd(20 * time.Second)
			tc.rec.Gate, tc.rec.GateAfter, tc.rec.TaskOf = nil, nil, nil
		}()
		var resA, resB rr
		sched.Spawn("request", func() {
			resA = tc.req(logical.UpdateOperation, "rb/kv/a", tok, map[string]any{"v": 1})
		})
		sched.Spawn("change", func() {
			switch change {
			case "delete":
				resB = tc.req(logical.DeleteOperation, "sys/policy/p1", tc.root, nil)
			case "revoke-token":
				resB = tc.req(logical.UpdateOperation, "auth/token/revoke", tc.root, map[string]any{"token": tok})
			default:
				resB = tc.req(logical.UpdateOperation, "sys/policy/p1", tc.root, map[string]any{"policy": after})
			}
		})
		switches, cur := 0, -1
		serr := sched.Run(func(parked []int) int {
			stay := false
			for _, p := range parked {
				if p == cur {
					stay = true
				}
			}
			if stay && rapid.IntRange(0, 9).Draw(rt, "step") < 6 {
				return cur
			}
			pick := parked[rapid.IntRange(0, len(parked)-1).Draw(rt, "pick")]
			if cur >= 0 && pick != cur && !sched.Tasks()[cur].Done {
				switches++
			}
			cur = pick
			return pick
		})
		trace := sched.Trace
		if serr != nil {
			sched.RunToEnd(10 * time.Second)
			t.Fatalf("harness: %v", serr)
		}
		tc.rec.Gate, tc.rec.GateAfter = nil, nil
		if len(trace) > 120 {
			trace = trace[:120]
		}
		detail := map[string]any{"change": change, "concurrent_request": resA.String(), "change_request": resB.String(), "schedule": trace, "transactional": tc.opts.transactional}
		if !resB.ok() {
			// the change itself failed (e.g. a transaction conflict with the concurrent request): nothing is owed
			rec.Case("change-failed:"+change, false, verifx.Digest(change, trace), func() any { return detail })
			return
		}
		wantServed := change == "widen"
		for round := 1; round <= 2; round++ {
			callsBefore := len(hub.handlerCalls())
			res := tc.req(logical.UpdateOperation, fmt.Sprintf("rb/kv/next%d", round), tok, map[string]any{"v": round})
			reached := len(hub.handlerCalls()) > callsBefore
			detail[fmt.Sprintf("next_request_%d", round)] = res.String()
			if wantServed && (!res.ok() || !reached) {
				rec.Violation(rt, "granted-request-refused-after-concurrent-policy-write", detail, "policy p1 was widened to grant update (the write has returned) but request %d after it is refused: %v; the concurrent request had answered %v", round, res, resA)
			}
			if !wantServed && (res.ok() || reached) {
				rec.Violation(rt, "stale-policy-served-after-concurrent-change", detail, "the %s of policy p1 / the token has returned, but request %d after it is still served under the old grant (ok=%v, reached the backend=%v); the concurrent request had answered %v", change, round, res.ok(), reached, resA)
			}
		}
		rec.Case(change, switches > 0, verifx.Digest(change, trace), func() any { return detail })
		if switches > 0 {
			rec.Class("with-preemption", 1)
		}
		blocked := 0
		for _, tk := range sched.Tasks() {
			blocked += tk.Blocked
		}
		if blocked > 0 {
			rec.Class("lock-blocked-seen", 1)
		}
	})
}
