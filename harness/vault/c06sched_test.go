//go:build verif

package vault

// C06, schedules unit: a request that generates a leased secret (or a token) overlaps a synchronous revocation of the
// mount's leases by prefix, a forced revocation, or a tune/unmount-style operation: once both have returned, the lease
// and index records are consistent and every generated secret is leased or revoked at its backend.

import (
	"fmt"
	"testing"
	"time"

	"github.com/openbao/openbao/sdk/v2/helper/verifx"
	"github.com/openbao/openbao/sdk/v2/logical"
	"pgregory.net/rapid"
)

func TestVerif_C06_Schedules(t *testing.T) {
	rec := verifx.NewRecorder("C06", "schedules", "a request that generates a leased secret (plain, by a non-orphan batch child, or in a child namespace) or a token runs concurrently with one of: sys/leases/revoke-prefix of the mount's leases, sys/leases/revoke-force, revocation of the requesting token, a second lease-generating request with the same token; the harness interleaves the two requests at storage-operation granularity (stay-or-switch random walk); oracle once both have returned (and the expiration queue has drained): a secret handed out has its lease record and token index entry or has been revoked at its backend; no token index entry names a lease without record, no lease record lacks its index entry, every secret the backend generated is covered by a lease or revoked there, no usable token lacks a lease; non-trivial = a switch between the two unfinished requests")
	defer rec.Flush()
	rapid.Check(t, func(rt *rapid.T) {
		defer recoverWedged(rec)
		w := newC06World(t, rapid.Bool().Draw(rt, "transactionalStorage"))
		defer func() { w.tc.shutdown() }()
		tc := w.tc
		kindA := []string{"secret", "secret", "secret-batch-child", "secret-in-namespace", "create"}[fairIndex(rt, "request", 5)]
		kindB := []string{"revoke-prefix", "revoke-prefix", "revoke-force", "revoke-requesting-token", "second-secret"}[fairIndex(rt, "other", 5)]
		// some leases already exist under the prefix
		for i, n := 0, fairIndex(rt, "existingLeases", 3); i < n; i++ {
			w.request("secret")
		}
		tokensBefore := w.keysUnder("sys/token/id/")
		sched := verifx.NewSched(tc.rec)
		defer func() {
			sched.RunToEnd(20 * time.Second)
			tc.rec.Gate, tc.rec.GateAfter, tc.rec.TaskOf = nil, nil, nil
		}()
		var resA, resB rr
		sched.Spawn("request", func() { resA = w.request(kindA) })
		sched.Spawn("other", func() {
			switch kindB {
			case "revoke-prefix":
				resB = tc.req(logical.UpdateOperation, "sys/leases/revoke-prefix/rb/creds", tc.root, map[string]any{"sync": true})
			case "revoke-force":
				resB = tc.req(logical.UpdateOperation, "sys/leases/revoke-force/rb/creds", tc.root, nil)
			case "revoke-requesting-token":
				resB = tc.req(logical.UpdateOperation, "auth/token/revoke", tc.root, map[string]any{"token": w.parent})
			default:
				resB = w.request("secret")
			}
		})
		switches, cur := 0, -1
		serr := sched.Run(func(parked []int) int {
			stay := false
			for _, p := range parked {
				if p == cur {
					stay = true
				}
			}
			if stay && rapid.IntRange(0, 9).Draw(rt, "step") < 6 {
				return cur
			}
			pick := parked[rapid.IntRange(0, len(parked)-1).Draw(rt, "pick")]
			if cur >= 0 && pick != cur && !sched.Tasks()[cur].Done {
				switches++
			}
			cur = pick
			return pick
		})
		trace := sched.Trace
		if serr != nil {
			sched.RunToEnd(10 * time.Second)
			t.Fatalf("harness: %v", serr)
		}
		tc.rec.Gate, tc.rec.GateAfter = nil, nil
		tc.waitExpirationIdle(3 * time.Second)
		if len(trace) > 150 {
			trace = trace[:150]
		}
		detail := map[string]any{"request": kindA, "request_result": resA.String(), "other": kindB, "other_result": resB.String(), "schedule": trace, "transactional": tc.opts.transactional}
		// revocations are queued: poll the invariant for a while before judging (a lease being revoked may be
		// half gone for a moment)
		deadline := time.Now().Add(5 * time.Second)
		var sig, msg string
		for {
			sig, msg = w.invariant(tokensBefore)
			if sig == "" || time.Now().After(deadline) {
				break
			}
			time.Sleep(5 * time.Millisecond)
		}
		if sig == "usable-token-without-lease" && kindB == "revoke-requesting-token" {
			// the token is being revoked: its lease goes first; judged by C04
			sig = ""
		}
		if sig != "" {
			rec.Violation(rt, sig+":concurrent", detail, "%s (request %s -> %v overlapping %s -> %v)", msg, kindA, resA, kindB, resB)
		}
		rec.Case(kindA+"||"+kindB, switches > 0, verifx.Digest(kindA, kindB, trace), func() any { return detail })
		if switches > 0 {
			rec.Class("with-preemption", 1)
		}
		blocked := 0
		for _, tk := range sched.Tasks() {
			blocked += tk.Blocked
		}
		if blocked > 0 {
			rec.Class("lock-blocked-seen", 1)
		}
		_ = fmt.Sprint
	})
}
