//go:build verif

package vault

import (
	"context"
	"fmt"
	"strings"
	"sync"
	"testing"
	"time"

	"github.com/openbao/openbao/sdk/v2/helper/verifx"
	"github.com/openbao/openbao/sdk/v2/logical"
	"github.com/openbao/openbao/v2/internal/helper/namespace"
	"pgregory.net/rapid"
)

const c19Policy = `
path "rb/*" { capabilities = ["create","read","update","delete","list"] }
path "ns1/rb/*" { capabilities = ["create","read","update","delete","list"] }
path "auth/token/create" { capabilities = ["update"] }
path "auth/token/create-orphan" { capabilities = ["update", "sudo"] }
path "auth/token/create/*" { capabilities = ["update"] }
`

type c19Task struct {
	kind string // echo kvread kvwrite denied creds lookup child
	ok   bool
	res  rr
}

// c19Env is one core prepared for use-limit experiments; it is reused for several tokens.
type c19Env struct {
	tc  *tcore
	hub *recHub
	ns1 *namespace.Namespace
	// cancels: backend path -> cancel function of the request context of the request that is addressed to it; the
	// recording backend's handler calls it (the client goes away while its request is being served)
	cancels sync.Map
}

func newC19Env(t *testing.T, transactional bool) *c19Env {
	hub := newRecHub()
	// revocation retries back off from 40ms instead of 10s, so that a revocation that failed during a generated
	// storage outage is retried within the wait of a case
	tc := mustBoot(t, coreOpts{transactional: transactional, cacheOff: true, retryBase: 40 * time.Millisecond,
		logical:    map[string]logical.Factory{"recbe": hub.factory("recbe", logical.TypeLogical)},
		credential: map[string]logical.Factory{"recauth": hub.factory("recauth", logical.TypeCredential)}})
	hub.physSeq = tc.rec.Seq
	tc.mount("rb", "recbe", nil)
	// an auth method whose logins may carry a use limit and an identity alias (histories unit)
	tc.enableAuth("ra", "recauth")
	tc.mount("other", "recbe", nil)
	tc.writePolicy("c19", c19Policy)
	// a child namespace with the same backend: a token of the root namespace may be used there too
	tc.mustOK(tc.req(logical.UpdateOperation, "sys/namespaces/ns1", tc.root, nil), "namespace ns1")
	ns1, err := tc.c.namespaceStore.GetNamespaceByPath(tc.ctx, "ns1/")
	if err != nil || ns1 == nil {
		t.Fatalf("harness: namespace lookup: %v", err)
	}
	tc.mustOK(tc.reqNS(ns1, logical.UpdateOperation, "sys/mounts/rb", tc.root, map[string]any{"type": "recbe"}), "mount in ns1")
	tc.mustOK(tc.req(logical.UpdateOperation, "auth/token/roles/c19orphan", tc.root, map[string]any{"orphan": true, "allowed_policies": "default,c19"}), "orphan role")
	e := &c19Env{tc: tc, hub: hub, ns1: ns1}
	hub.mu.Lock()
	hub.hook = func(stage string, ctx context.Context, req *logical.Request) {
		if f, ok := e.cancels.Load(stage + ":" + req.Path); ok {
			f.(context.CancelFunc)()
			select {
			case <-ctx.Done():
			case <-time.After(time.Second):
			}
		}
	}
	hub.mu.Unlock()
	return e
}

func (e *c19Env) request(kind string, i int, tok string) rr {
	tc := e.tc
	switch kind {
	case "echo":
		return tc.req(logical.ReadOperation, fmt.Sprintf("rb/echo/t%d", i), tok, nil)
	case "kvread":
		return tc.req(logical.ReadOperation, fmt.Sprintf("rb/kv/k%d", i), tok, nil)
	case "kvwrite":
		return tc.req(logical.UpdateOperation, fmt.Sprintf("rb/kv/k%d", i), tok, map[string]any{"v": i})
	case "denied":
		return tc.req(logical.ReadOperation, fmt.Sprintf("other/echo/t%d", i), tok, nil)
	case "creds":
		return tc.req(logical.ReadOperation, fmt.Sprintf("rb/creds/c%d", i), tok, nil)
	case "echo-client-gone", "kvwrite-client-gone":
		// the client's context ends while the backend is serving the request (in the existence check of the write,
		// in the handler of the read): the use is spent all the same
		ctx, cancel := context.WithCancel(tc.ctx)
		defer cancel()
		if kind == "echo-client-gone" {
			e.cancels.Store(fmt.Sprintf("handle:echo/t%d", i), cancel)
			return tc.doCtx(ctx, &logical.Request{Operation: logical.ReadOperation, Path: fmt.Sprintf("rb/echo/t%d", i), ClientToken: tok})
		}
		e.cancels.Store(fmt.Sprintf("exist:kv/t%d", i), cancel)
		return tc.doCtx(ctx, &logical.Request{Operation: logical.UpdateOperation, Path: fmt.Sprintf("rb/kv/t%d", i), ClientToken: tok, Data: map[string]any{"v": i}})
	case "ns-echo":
		// the same token presented on a request addressed to the child namespace (namespace by context)
		return tc.reqNS(e.ns1, logical.ReadOperation, fmt.Sprintf("rb/echo/t%d", i), tok, nil)
	case "ns-kvwrite":
		// ... and with the namespace given as a path prefix
		return tc.req(logical.UpdateOperation, fmt.Sprintf("ns1/rb/kv/k%d", i), tok, map[string]any{"v": i})
	case "lookup":
		return tc.req(logical.ReadOperation, "auth/token/lookup-self", tok, nil)
	case "child":
		return tc.req(logical.UpdateOperation, "auth/token/create", tok, map[string]any{"ttl": "10m"})
	case "child-orphan":
		return tc.req(logical.UpdateOperation, "auth/token/create-orphan", tok, map[string]any{"ttl": "10m", "policies": []string{"default"}})
	case "child-role":
		return tc.req(logical.UpdateOperation, "auth/token/create/c19orphan", tok, map[string]any{"ttl": "10m"})
	}
	panic(kind)
}

var c19Kinds = []string{"echo", "kvread", "kvwrite", "denied", "creds", "lookup", "child", "child-orphan", "child-role", "ns-echo", "ns-kvwrite", "ns-echo", "echo-client-gone", "kvwrite-client-gone"}

func (e *c19Env) accessors() map[string]bool {
	r := e.tc.req(logical.ListOperation, "auth/token/accessors/", e.tc.root, nil)
	out := map[string]bool{}
	if r.ok() && r.resp != nil {
		if ks, ok := r.resp.Data["keys"].([]string); ok {
			for _, k := range ks {
				out[k] = true
			}
		}
	}
	return out
}

// awaitRevocation: all uses of tok are spent. Its revocation and that of its leases is queued for the expiration
// workers: bounded wait, then a verdict on whether anything is still going to happen.
func (e *c19Env) awaitRevocation(rt *rapid.T, rec *verifx.Recorder, tok, salted, acc string, n int, describe func() map[string]any) {
	tc, hub := e.tc, e.hub
	deadline := time.Now().Add(10 * time.Second)
	var out []string
	entry, stored := true, false
	for {
		out = hub.outstanding()
		stored = false
		lr := tc.req(logical.UpdateOperation, "auth/token/lookup-accessor", tc.root, map[string]any{"accessor": acc})
		entry = lr.ok() && lr.resp != nil
		if !entry {
			// not visible any more is not yet gone: an entry that is marked as awaiting its revocation (or whose
			// lease is gone) is hidden from lookups but still stored, with its accessor, parent index and
			// cubbyhole, until a revocation has gone through; look at the stored record itself
			if raw, rerr := tc.c.tokenStore.idView(namespace.RootNamespace).Get(tc.ctx, salted); rerr != nil || raw != nil {
				entry, stored = true, raw != nil
			}
		}
		if (len(out) == 0 && !entry) || time.Now().After(deadline) {
			break
		}
		time.Sleep(2 * time.Millisecond)
	}
	if entry {
		// Nothing happened within the wait. Decide whether anything is still going to happen: the exhausted
		// token is revoked through its lease, which the last use moves into the past. If the entry is still
		// stored, its lease still expires far in the future and no revocation job is queued, nobody will ever
		// revoke it (until its own TTL lapses): that is not slowness but the statement's "after its last use
		// the token is revoked together with the leases issued under it" broken.
		te, lerr := tc.c.tokenStore.lookupInternal(tc.ctx, tok, false, true)
		if lerr == nil && te == nil && stored && tc.c.expiration.jobManager.GetPendingJobCount() == 0 {
			// no lookup returns the token any more (the lease that drives its revocation is gone, so the expiration
			// manager is done with it) but its record is still in storage
			rec.Violation(rt, "exhausted-token-never-revoked", describe(), "all %d uses of the token are spent (it is refused) and no lookup returns it, but 10s later its entry is still in storage (sys/token/id/%s) and no revocation is queued; secrets leased under it that are still outstanding: %v", n, salted, out)
		}
		if lerr == nil && te != nil && tc.c.expiration.jobManager.GetPendingJobCount() == 0 {
			le, ferr := tc.c.expiration.FetchLeaseTimesByToken(tc.ctx, te)
			scheduled := false
			if ferr == nil && le != nil {
				// a lease with a timer (first attempt or retry) is in the pending map; one that is parked as
				// non-expiring, or not tracked at all, will never be looked at again
				_, scheduled = tc.c.expiration.pending.Load(le.LeaseID)
			}
			switch {
			case ferr != nil:
			case le == nil:
				rec.Violation(rt, "exhausted-token-never-revoked", describe(), "all %d uses of the token are spent (it is refused), but 10s later its entry is still stored while the lease that drives its revocation is gone and no revocation is queued; secrets still outstanding: %v", n, out)
			case !scheduled:
				rec.Violation(rt, "exhausted-token-never-revoked", describe(), "all %d uses of the token are spent (it is refused), but 10s later its entry is still stored, its lease (expiry %v) has no timer and no revocation is queued; secrets still outstanding: %v", n, le.ExpireTime.Format(time.RFC3339), out)
			case le.ExpireTime.After(time.Now().Add(5 * time.Minute)):
				rec.Violation(rt, "exhausted-token-never-revoked", describe(), "all %d uses of the token are spent (it is refused), but 10s later its entry is still stored, its lease expires only at %v, no revocation is queued, and the secrets %v leased under it are not revoked", n, le.ExpireTime.Format(time.RFC3339), out)
			}
		}
	}
	if len(out) > 0 || entry {
		rec.Note("inconclusive: after 10s secrets %v not revoked / token entry present=%v", out, entry)
		hub.mu.Lock()
		for _, id := range out {
			hub.revoked[id] = -1
		}
		hub.mu.Unlock()
		rec.Class("inconclusive-revocation-wait", 1)
	}
}

// saltedID: the key of the token's records (the stored id need not be the string handed to the client).
func (e *c19Env) saltedID(t *testing.T, tok string) string {
	te, err := e.tc.c.tokenStore.lookupInternal(e.tc.ctx, tok, false, true)
	if err != nil || te == nil {
		t.Fatalf("harness: fresh token not found: %v", err)
	}
	salted, err := e.tc.c.tokenStore.SaltID(e.tc.ctx, te.ID)
	if err != nil {
		t.Fatalf("harness: salt: %v", err)
	}
	return salted
}

func TestVerif_C19_UseLimit(t *testing.T) {
	rec := verifx.NewRecorder("C19", "use-limit", "token with num_uses n in 1..4 and m in n+1..n+3 concurrent requests (echo/kv read/kv write/policy-denied/lease-generating/lookup-self/child-token create, and echo/kv write addressed to a child namespace the token's policy reaches into) presenting it, interleaved at storage-operation granularity by a generated schedule (stay-or-switch random walk, shrinks to few preemptions); oracle: requests that reached a backend handler or succeeded at the token store <= n, no child token, token dead afterwards, every secret leased under it revoked; also sequential histories (exact count), a third of them with a restart of the server between two uses; non-trivial = at least one context switch between two unfinished tasks inside the requests")
	defer rec.Flush()
	// one core per storage flavour, reused for a number of cases (every case makes its own token and paths)
	envs := map[bool]*c19Env{}
	used := map[bool]int{}
	defer func() {
		for _, e := range envs {
			e.tc.shutdown()
		}
	}()
	rapid.Check(t, func(rt *rapid.T) {
		defer recoverWedged(rec)
		txn := rapid.Bool().Draw(rt, "transactionalStorage")
		if envs[txn] == nil || used[txn] >= 40 {
			if envs[txn] != nil {
				envs[txn].tc.shutdown()
			}
			envs[txn] = newC19Env(t, txn)
			used[txn] = 0
		}
		used[txn]++
		env := envs[txn]
		tc, hub := env.tc, env.hub
		n := rapid.IntRange(1, 4).Draw(rt, "n")
		m := rapid.IntRange(n+1, n+3).Draw(rt, "m")
		sequential := rapid.IntRange(0, 4).Draw(rt, "mode") == 0
		tasks := make([]*c19Task, m)
		for i := range tasks {
			tasks[i] = &c19Task{kind: rapid.SampledFrom(c19Kinds).Draw(rt, fmt.Sprintf("kind%d", i))}
		}
		// who the use-limited token is: a token with a policy and a lifetime, or a token root made for itself without
		// naming policies (a root token), with or without a lifetime
		shape := []string{"policy", "policy", "policy", "root-no-ttl", "root-ttl"}[fairIndex(rt, "tokenShape", 5)]
		rootShape := shape != "policy"
		createArgs := map[string]any{"policies": []string{"c19"}, "ttl": "1h", "num_uses": n}
		switch shape {
		case "root-no-ttl":
			createArgs = map[string]any{"num_uses": n}
		case "root-ttl":
			createArgs = map[string]any{"num_uses": n, "ttl": "1h"}
		}
		// a storage outage while the exhausted token is being revoked: the first 1..3 reads/writes of the records of the
		// secrets leased under it fail, then storage works again (sequential mode, the token holds a lease, the last use
		// is a plain read)
		outage := 0
		if sequential && n >= 2 && fairIndex(rt, "outageDuringRevocation", 4) == 0 {
			outage = rapid.IntRange(1, 3).Draw(rt, "outageOps")
			tasks[0].kind = "creds"
			tasks[n-1].kind = "echo"
		}
		tok, acc, r := tc.createToken(tc.root, createArgs)
		if tok == "" {
			t.Fatalf("harness: cannot create use-limited token: %v", r)
		}
		rec.Class("token-shape:"+shape, 1)
		salted := env.saltedID(t, tok)
		accBefore := env.accessors()
		callsBefore := len(hub.handlerCalls())
		sched := verifx.NewSched(tc.rec)
		defer func() {
			// rapid may abort the property from inside a draw (e.g. while shrinking): never leave a task parked
			sched.RunToEnd(20 * time.Second)
			tc.rec.Gate = nil
			tc.rec.TaskOf = nil
		}()
		switches := 0
		var trace []string
		restartAt := -1
		if sequential && outage == 0 && fairIndex(rt, "restartBetweenUses", 3) == 0 {
			// the server is restarted between two uses: the uses already spent must stay spent
			restartAt = rapid.IntRange(0, m-2).Draw(rt, "restartAfterRequest")
		}
		if sequential {
			tc.rec.Gate = nil
			for i, tk := range tasks {
				if outage > 0 && i == n-1 {
					var mu sync.Mutex
					left := outage
					tc.rec.SetFault(func(o *verifx.Op) error {
						if !strings.HasPrefix(o.Key, "sys/expire/id/rb/creds/") || (o.Kind != "get" && o.Kind != "put" && o.Kind != "delete") {
							return nil
						}
						mu.Lock()
						defer mu.Unlock()
						if left == 0 {
							return nil
						}
						left--
						return fmt.Errorf("verif: storage outage")
					})
					defer tc.rec.SetFault(nil)
					rec.Class("outage-during-revocation", 1)
				}
				tk.res = env.request(tk.kind, i, tok)
				tk.ok = tk.res.ok()
				if i == restartAt {
					tc.waitExpirationIdle(2 * time.Second)
					tc.shutdown()
					ntc, err := tc.restartOn(tc.phys)
					if err != nil {
						t.Fatalf("harness: restart: %v", err)
					}
					env.tc, tc = ntc, ntc
					rec.Class("sequential-with-restart", 1)
				}
			}
		} else {
			for i, tk := range tasks {
				i, tk := i, tk
				sched.Spawn(fmt.Sprintf("T%d-%s", i, tk.kind), func() {
					tk.res = env.request(tk.kind, i, tok)
					tk.ok = tk.res.ok()
				})
			}
			cur := -1
			err := sched.Run(func(parked []int) int {
				stay := false
				for _, p := range parked {
					if p == cur {
						stay = true
					}
				}
				c := rapid.IntRange(0, 9).Draw(rt, "step")
				if stay && c < 6 {
					return cur
				}
				pick := parked[rapid.IntRange(0, len(parked)-1).Draw(rt, "pick")]
				if cur >= 0 && pick != cur && !sched.Tasks()[cur].Done {
					switches++
				}
				cur = pick
				return pick
			})
			trace = sched.Trace
			if err != nil {
				sched.RunToEnd(10 * time.Second)
				t.Fatalf("harness: %v", err)
			}
		}
		tc.rec.Gate = nil
		tc.waitExpirationIdle(5 * time.Second)

		// ---- oracle
		describe := func() map[string]any {
			ks := make([]string, len(tasks))
			for i, tk := range tasks {
				ks[i] = tk.kind + "=" + tk.res.String()
			}
			tr := trace
			if len(tr) > 80 {
				tr = tr[:80]
			}
			return map[string]any{"n": n, "m": m, "token": shape, "outage_ops_during_revocation": outage, "sequential": sequential, "restart_after_request": restartAt, "tasks": ks, "schedule": tr, "transactional": tc.opts.transactional}
		}
		// requests that were authorised: reached a recbe handler, or returned success from the token store
		reached := 0
		perTask := map[int]int{}
		for _, c := range hub.handlerCalls()[callsBefore:] {
			if c.Revoke || c.Renew {
				continue
			}
			reached++
			var idx int
			if _, err := fmt.Sscanf(c.Path[strings.LastIndex(c.Path, "/")+1:], "t%d", &idx); err == nil {
				perTask[idx]++
			}
		}
		tsOK := 0
		for _, tk := range tasks {
			if (tk.kind == "lookup" || strings.HasPrefix(tk.kind, "child")) && tk.ok {
				tsOK++
			}
		}
		// a policy-denied request never reaches the handler but consumes a use when processed: count the ones
		// that ran to the ACL check in sequential mode
		if reached+tsOK > n {
			rec.Violation(rt, "more-than-n-uses", describe(), "token with num_uses=%d authorised %d requests (%d reached a backend handler, %d succeeded at the token store)", n, reached+tsOK, reached, tsOK)
		}
		// a request whose client went away may or may not have got as far as spending a use
		gone := 0
		for _, tk := range tasks {
			if strings.HasSuffix(tk.kind, "-client-gone") {
				gone++
			}
		}
		if gone > 0 {
			rec.Class("with-client-gone-request", 1)
		}
		if sequential && gone == 0 {
			// the first n requests consume the uses; exactly those among them that the policy allows succeed
			for i, tk := range tasks {
				want := i < n && (tk.kind != "denied" || rootShape) && !strings.HasPrefix(tk.kind, "child")
				if tk.kind == "creds" && i == n-1 {
					// final use: the leased secret must not be returned
					if tk.res.resp != nil && tk.res.resp.Secret != nil && tk.res.resp.Secret.LeaseID != "" {
						rec.Violation(rt, "secret-returned-on-final-use", describe(), "request %d (lease-generating) consumed the last use but the secret was returned", i)
					}
					continue
				}
				if tk.ok != want {
					rec.Violation(rt, "sequential-count", describe(), "sequential request %d (%s) with num_uses=%d: success=%v, expected %v (%v)", i, tk.kind, n, tk.ok, want, tk.res)
				}
			}
		}
		for i, tk := range tasks {
			if strings.HasPrefix(tk.kind, "child") && tk.ok {
				rec.Violation(rt, "child-created", describe(), "request %d created a child token with a use-limited token", i)
			}
			if tk.res.err != nil && strings.Contains(tk.res.err.Error(), "PANIC") {
				rec.Violation(rt, "panic", describe(), "request %d panicked: %v", i, tk.res.err)
			}
		}
		accAfter := env.accessors()
		for a := range accAfter {
			if !accBefore[a] {
				rec.Violation(rt, "child-created", describe(), "a new token accessor %s appeared while only a use-limited token was used", a)
			}
		}
		// all m > n requests are done: the token must be dead now
		if m-gone < n {
			// fewer than n requests are certain to have spent a use: the token may legitimately be alive; retire it
			tc.req(logical.UpdateOperation, "auth/token/revoke", tc.root, map[string]any{"token": tok})
			rec.Case("uses-uncertain", switches > 0, verifx.Digest(n, m, trace, sequential, "gone"), func() any { return describe() })
			return
		}
		before := len(hub.handlerCalls())
		post := tc.req(logical.ReadOperation, "rb/echo/after", tok, nil)
		postReached := false
		for _, c := range hub.handlerCalls()[before:] {
			// revocations / rollbacks of background workers may arrive meanwhile; only the probe itself counts
			if c.Path == "echo/after" && !c.Revoke && !c.Renew {
				postReached = true
			}
		}
		if post.ok() || postReached {
			rec.Violation(rt, "alive-after-uses", describe(), "token still authorises a request after %d requests with num_uses=%d", m, n)
		}
		env.awaitRevocation(rt, rec, tok, salted, acc, n, describe)
		cls := "concurrent"
		if sequential {
			cls = "sequential"
		}
		kinds := make([]string, len(tasks))
		for i, tk := range tasks {
			kinds[i] = tk.kind
		}
		rec.Case(cls, sequential || switches > 0, verifx.Digest(n, m, kinds, trace, sequential), func() any { return describe() })
		if switches > 0 {
			rec.Class("with-preemption", 1)
		}
		blocked := 0
		for _, tk := range sched.Tasks() {
			blocked += tk.Blocked
		}
		if blocked > 0 {
			rec.Class("lock-blocked-seen", 1)
		}
	})
}
