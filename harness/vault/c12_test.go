//go:build verif

package vault

import (
	"time"
	"sort"
	"context"
	"encoding/json"
	"fmt"
	"strings"
	"testing"

	"github.com/openbao/openbao/sdk/v2/helper/verifx"
	"github.com/openbao/openbao/sdk/v2/logical"
	"github.com/openbao/openbao/v2/internal/helper/namespace"
	"pgregory.net/rapid"
)

type c12NS struct {
	path     string // "", "a/", "a/b/", "s/"
	ns       *namespace.Namespace
	sealable bool
	sealed   bool
	keys     [][]byte
	physPfx  string // physical prefix of everything in the namespace ("" for root)
	token    string // token with path "*" policy in this namespace
	child    string // child of token
	nsRoot   string // the namespace's own root token (policy "root" issued in this namespace)
}

type c12Mount struct {
	// emptySeg: a key with an empty path segment ("a//b", "/abs", "") was written through this mount; Core.moveStorage
	// walks such a tree forever (path.Join drops the empty segment and the same directory is listed again and again),
	// so these mounts are not remounted. Observation outside this property (a hang, not a confinement breach).
	emptySeg bool
	ns      *c12NS
	path    string // "m1/"
	physPfx string
	id      int
}

type c12World struct {
	t      *testing.T
	tc     *tcore
	hub    *recHub
	nss    []*c12NS
	mounts []*c12Mount
	log    []string
	nwrite int
	page   *c12Page // what the recording backend is told to list with the PAGINATED listing inside the next handler
}

// c12Page: a paginated listing the backend performs on the storage view it was handed (req.Storage.ListPage), with a
// client-chosen prefix, cursor and limit, next to the plain listing of the same prefix.
type c12Page struct {
	prefix, after string
	limit         int
	ran           bool
	names         []string
	err           error
	plain         []string
	plainErr      error
}

func (w *c12World) pageHook(stage string, ctx context.Context, req *logical.Request) {
	pg := w.page
	if stage != "handle" || pg == nil || pg.ran || req.Path != "raw" {
		return
	}
	pg.ran = true
	pg.names, pg.err = req.Storage.ListPage(ctx, pg.prefix, pg.after, pg.limit)
	pg.plain, pg.plainErr = req.Storage.List(ctx, pg.prefix)
}

// c12StorageErr is a failed storage call; cause may be context.DeadlineExceeded / context.Canceled, as returned by
// storage engines with per-call deadlines.
type c12StorageErr struct {
	what  string
	cause error
}

func (e *c12StorageErr) Error() string { return "verif: injected storage fault (" + e.what + ")" }
func (e *c12StorageErr) Unwrap() error { return e.cause }

func (w *c12World) logf(f string, a ...any) { w.log = append(w.log, fmt.Sprintf(f, a...)) }

func (w *c12World) ctx(n *c12NS) context.Context {
	if n.path == "" {
		return w.tc.ctx
	}
	return namespace.ContextWithNamespace(context.Background(), n.ns)
}

const c12AllPolicy = `path "*" { capabilities = ["create","read","update","delete","list","sudo"] }`

func newC12World(t *testing.T, rt *rapid.T) *c12World {
	hub := newRecHub()
	// half of the servers run with unsafe_cross_namespace_identity (identity groups may then have members that live in
	// other namespaces); the group-policy application mode stays the default
	tc := mustBoot(t, coreOpts{transactional: rapid.Bool().Draw(rt, "transactionalStorage"), cacheOff: true, crossNSIdentity: rapid.Bool().Draw(rt, "crossNamespaceIdentity"),
		logical: map[string]logical.Factory{"recbe": hub.factory("recbe", logical.TypeLogical)}})
	hub.physSeq = tc.rec.Seq
	w := &c12World{t: t, tc: tc, hub: hub}
	hub.hook = w.pageHook
	w.nss = append(w.nss, &c12NS{path: "", ns: namespace.RootNamespace, token: tc.root})
	mk := func(path string, sealable bool) {
		parentPath := path[:strings.LastIndex(strings.TrimSuffix(path, "/"), "/")+1]
		var parent *c12NS
		for _, n := range w.nss {
			if n.path == parentPath {
				parent = n
			}
		}
		n := &c12NS{path: path, sealable: sealable}
		name := strings.TrimSuffix(strings.TrimPrefix(path, parentPath), "/")
		if sealable {
			nsObj := &namespace.Namespace{Path: path}
			keys, err := tc.c.namespaceStore.SetNamespaceWithSeal(w.ctx(parent), nsObj, &SealConfig{Type: "shamir", SecretShares: 1, SecretThreshold: 1})
			if err != nil {
				t.Fatalf("harness: sealable namespace: %v", err)
			}
			n.keys = keys
			n.sealed = true
		} else {
			r := tc.doCtx(w.ctx(parent), &logical.Request{Operation: logical.UpdateOperation, Path: "sys/namespaces/" + name, ClientToken: tc.root})
			tc.mustOK(r, "create namespace "+path)
		}
		obj, err := tc.c.namespaceStore.GetNamespaceByPath(tc.ctx, path)
		if err != nil || obj == nil {
			t.Fatalf("harness: namespace lookup %s: %v", path, err)
		}
		n.ns = obj
		n.physPfx = "namespaces/" + obj.UUID + "/"
		w.nss = append(w.nss, n)
		if sealable {
			w.unseal(n)
		}
	}
	mk("a/", false)
	if rapid.Bool().Draw(rt, "nested") {
		mk("a/b/", false)
	}
	if rapid.Bool().Draw(rt, "prefixSibling") {
		// a sibling whose name merely starts with the other's name is not below it
		mk("ab/", false)
	}
	mk("s/", true)
	// mounts, policy and tokens in every namespace
	id := 0
	for _, n := range w.nss {
		paths := []string{"m1/", "m2/"}
		if n.path == "" {
			paths = append(paths, "deep/x/")
		}
		for _, p := range paths {
			r := tc.doCtx(w.ctx(n), &logical.Request{Operation: logical.UpdateOperation, Path: "sys/mounts/" + strings.TrimSuffix(p, "/"), ClientToken: tc.root, Data: map[string]any{"type": "recbe"}})
			tc.mustOK(r, "mount "+n.path+p)
			m := &c12Mount{ns: n, path: p, id: id}
			id++
			// learn the physical prefix from a probe write
			seq := tc.rec.Seq()
			pr := tc.doCtx(w.ctx(n), &logical.Request{Operation: logical.UpdateOperation, Path: p + "kv/__probe", ClientToken: tc.root, Data: map[string]any{"v": "probe"}})
			tc.mustOK(pr, "probe "+n.path+p)
			for _, o := range tc.rec.OpsSince(seq) {
				if o.Kind == "put" && strings.HasSuffix(o.Key, "/__probe") {
					m.physPfx = strings.TrimSuffix(o.Key, "__probe")
				}
			}
			if m.physPfx == "" || !strings.HasPrefix(m.physPfx, n.physPfx) {
				t.Fatalf("harness: cannot learn storage prefix of mount %s%s (got %q, namespace prefix %q)", n.path, p, m.physPfx, n.physPfx)
			}
			// a key name that exists in this mount only
			tc.mustOK(tc.doCtx(w.ctx(n), &logical.Request{Operation: logical.UpdateOperation, Path: fmt.Sprintf("%skv/only-m%d", p, m.id), ClientToken: tc.root, Data: map[string]any{"v": "only"}}), "unique key "+n.path+p)
			w.mounts = append(w.mounts, m)
		}
		if n.path != "" {
			r := tc.doCtx(w.ctx(n), &logical.Request{Operation: logical.UpdateOperation, Path: "sys/policy/all", ClientToken: tc.root, Data: map[string]any{"policy": c12AllPolicy}})
			tc.mustOK(r, "policy in "+n.path)
			tr := tc.doCtx(w.ctx(n), &logical.Request{Operation: logical.UpdateOperation, Path: "auth/token/create", ClientToken: tc.root, Data: map[string]any{"policies": []string{"all", "default"}, "ttl": "1h"}})
			if !tr.ok() || tr.resp == nil || tr.resp.Auth == nil {
				t.Fatalf("harness: token in %s: %v", n.path, tr)
			}
			n.token = tr.resp.Auth.ClientToken
		} else {
			tc.writePolicy("all", c12AllPolicy)
			tok, _, r := tc.createToken(tc.root, map[string]any{"policies": []string{"all", "default"}, "ttl": "1h"})
			if tok == "" {
				t.Fatalf("harness: %v", r)
			}
			n.token = tok
		}
		if n.path != "" {
			if te, err := tc.c.tokenStore.rootToken(w.ctx(n)); err == nil && te != nil {
				n.nsRoot = te.ID
			}
		}
		cr := tc.doCtx(w.ctx(n), &logical.Request{Operation: logical.UpdateOperation, Path: "auth/token/create", ClientToken: n.token, Data: map[string]any{"policies": []string{"all", "default"}, "ttl": "30m"}})
		if cr.ok() && cr.resp != nil && cr.resp.Auth != nil {
			n.child = cr.resp.Auth.ClientToken
		}
	}
	return w
}

func (w *c12World) unseal(n *c12NS) {
	for _, k := range n.keys {
		ok, err := TestNamespaceUnseal(w.tc.c, n.ns, k)
		if err != nil {
			w.t.Fatalf("harness: unseal namespace %s: %v", n.path, err)
		}
		if ok {
			break
		}
	}
	if w.tc.c.NamespaceSealed(n.ns) {
		w.t.Fatalf("harness: namespace %s still sealed", n.path)
	}
	n.sealed = false
}

var c12HostileKeys = []string{"k", "k2", "../x", "a/../../b", "..", "../../sys/token/id/x", "/abs", "", "./k", "a//b", "\x00k", "é/ü", "logical/other/k"}

func isDescendantOrSelf(child, parent string) bool { return strings.HasPrefix(child, parent) }

func TestVerif_C12_Confinement(t *testing.T) {
	rec := verifx.NewRecorder("C12", "confinement", "a core with namespaces a/, optionally a/b/, and a separately sealed namespace s/; a recording backend mounted twice per namespace (and at a nested path in the root); a broad-policy token and a child token per namespace; actions: backend requests whose storage key is client-controlled (hostile keys: '..', absolute, other mounts' prefixes, NUL, empty, unicode) in every operation, with every namespace's token in every namespace, namespace by context or path prefix; cubbyhole writes and reads by every other token; seal/unseal of s/; restart of the server on the same storage; remount of a mount (internal call) and sys/remount called inside a namespace with that namespace's own token and a body destination naming itself, a descendant or - with '..', './..', an absolute path - a namespace outside its subtree (no foreign namespace's mount table may change); paginated listings (req.Storage.ListPage) by the backend with client-chosen prefix / cursor / limit ('..' prefixes naming another mount's or namespace's storage, hostile cursors); a custom-id token's cubbyhole, its revocation during which the n-th storage operation (below its cubbyhole directory, or any) fails once with a plain error or one wrapping context.DeadlineExceeded / context.Canceled, then the same id issued again (no old data readable or listable; nothing left in storage after a revocation reported successful); oracle: every physical key touched by the goroutine running a backend handler lies under that mount's own storage prefix; reads never return a value written through another mount; a token works only in its own namespace and below; cubbyhole values reach only their writer; a sealed namespace serves nothing and no storage operation falls under its prefix; non-trivial = a hostile key or a cross-namespace / cross-token attempt that reached routing")
	defer rec.Flush()
	rapid.Check(t, func(rt *rapid.T) {
		defer recoverWedged(rec)
		w := newC12World(t, rt)
		defer func() { w.tc.shutdown() }()
		tc := w.tc
		nontrivial := false
		restarts := 0
		hostileN, crossNS, cubbyN, sealedN := 0, 0, 0, 0
		lateShares := 0
		pagedN, faultedRevokes := 0, 0
		fail := func(sig, msg string) {
			rec.Violation(rt, sig, map[string]any{"history": w.log}, "%s; history=%v", msg, w.log)
		}
		cubby := map[string]string{} // token -> marker it wrote
		rt.Repeat(map[string]func(*rapid.T){
			"backend-request": func(rt *rapid.T) {
				m := w.mounts[fairIndex(rt, "mount", len(w.mounts))]
				user := w.nss[fairIndex(rt, "tokenOf", len(w.nss))]
				key := c12HostileKeys[fairIndex(rt, "key", len(c12HostileKeys))]
				if fairIndex(rt, "useOtherPrefix", 6) == 0 {
					other := w.mounts[fairIndex(rt, "otherMount", len(w.mounts))]
					key = other.physPfx + "k"
					if fairIndex(rt, "dotdot", 2) == 0 {
						key = "../" + strings.TrimPrefix(other.physPfx, m.ns.physPfx+"logical/") + "k"
					}
				}
				op := []logical.Operation{logical.UpdateOperation, logical.ReadOperation, logical.DeleteOperation, logical.ListOperation}[fairIndex(rt, "op", 4)]
				viaPrefix := m.ns.path != "" && fairIndex(rt, "viaPrefix", 3) == 0
				ctx, path := w.ctx(m.ns), m.path+"raw"
				if viaPrefix {
					ctx, path = tc.ctx, m.ns.path+m.path+"raw"
				}
				w.nwrite++
				marker := fmt.Sprintf("MARK-m%d-%d", m.id, w.nwrite)
				data := map[string]any{"key": key}
				if op == logical.UpdateOperation {
					data["v"] = marker
				}
				tok := user.token
				switch fairIndex(rt, "whichToken", 5) {
				case 0:
					if user.child != "" {
						tok = user.child
					}
				case 1:
					if user.nsRoot != "" {
						tok = user.nsRoot
					}
				}
				if op == logical.UpdateOperation && (key == "" || strings.Contains(key, "//") || strings.HasPrefix(key, "/") || strings.HasSuffix(key, "/")) {
					m.emptySeg = true
				}
				authorised := isDescendantOrSelf(m.ns.path, user.path) && !m.ns.sealed && !user.sealed
				callsBefore := len(w.hub.handlerCalls())
				seq0 := tc.rec.Seq()
				g := verifx.GoID()
				res := tc.doCtx(ctx, &logical.Request{Operation: op, Path: path, ClientToken: tok, Data: data})
				calls := w.hub.handlerCalls()[callsBefore:]
				desc := fmt.Sprintf("%s %s%sraw key=%q token-of=%q prefix=%v sealed=%v -> %v calls=%d", op, m.ns.path, m.path, key, user.path, viaPrefix, m.ns.sealed, res, len(calls))
				w.logf("%s", desc)
				if key != "k" && key != "k2" {
					hostileN++
					nontrivial = true
				}
				if m.ns.path != user.path {
					crossNS++
					nontrivial = true
				}
				if !authorised {
					if res.ok() || len(calls) > 0 {
						fail("request-outside-token-namespace-served", "a request with a token of namespace "+fmt.Sprintf("%q", user.path)+" was served in namespace "+fmt.Sprintf("%q", m.ns.path)+": "+desc)
					}
				} else if len(calls) != 1 {
					fail("authorised-request-not-routed", "an authorised request did not reach the backend exactly once: "+desc)
				}
				// (1) storage confinement of the handler
				for _, c := range calls {
					for _, o := range tc.rec.OpsSince(seq0) {
						if o.G != c.G || o.Seq <= c.Enter || o.Seq > c.Exit {
							continue
						}
						if strings.Contains("/"+o.Key+"/", "/../") {
							fail("relative-key-reached-storage", fmt.Sprintf("handler of mount %s%s sent %s with the relative physical key %q to storage: %s", m.ns.path, m.path, o.Kind, o.Key, desc))
						}
						if !strings.HasPrefix(o.Key, m.physPfx) && o.Kind != "begintx" && o.Kind != "beginrotx" && o.Kind != "commit" && o.Kind != "rollback" {
							fail("backend-touched-storage-outside-its-mount", fmt.Sprintf("handler of mount %s%s performed %s on physical key %q outside its prefix %q: %s", m.ns.path, m.path, o.Kind, o.Key, m.physPfx, desc))
						}
					}
				}
				_ = g
				// cross-mount data: a read must never show a marker of another mount
				if res.resp != nil {
					b, _ := json.Marshal(res.resp.Data)
					for _, o := range w.mounts {
						if o != m && strings.Contains(string(b), fmt.Sprintf("MARK-m%d-", o.id)) {
							fail("read-returned-other-mounts-data", fmt.Sprintf("a response from mount %s%s contains data written through mount %s%s: %s", m.ns.path, m.path, o.ns.path, o.path, desc))
						}
					}
				}
				// (4) sealed namespace: nothing under its prefix
				if m.ns.sealed {
					sealedN++
					nontrivial = true
					for _, o := range tc.rec.OpsSince(seq0) {
						if o.G == g && strings.HasPrefix(o.Key, m.ns.physPfx+"logical/") {
							fail("sealed-namespace-storage-touched", fmt.Sprintf("request into sealed namespace %s performed %s %q: %s", m.ns.path, o.Kind, o.Key, desc))
						}
					}
				}
			},
			"cubbyhole": func(rt *rapid.T) {
				owner := w.nss[fairIndex(rt, "owner", len(w.nss))]
				if owner.sealed {
					rt.Skip("sealed")
				}
				tok := owner.token
				if fairIndex(rt, "child", 2) == 0 && owner.child != "" {
					tok = owner.child
				}
				w.nwrite++
				marker := fmt.Sprintf("CUBBY-%d", w.nwrite)
				r := tc.doCtx(w.ctx(owner), &logical.Request{Operation: logical.UpdateOperation, Path: "cubbyhole/c", ClientToken: tok, Data: map[string]any{"v": marker}})
				if !r.ok() {
					fail("cubbyhole-write-failed", fmt.Sprintf("cubbyhole write with a live token of %q failed: %v", owner.path, r))
				}
				cubby[tok] = marker
				w.logf("cubbyhole write by token of %q", owner.path)
				// everybody else tries to read it, in every namespace
				for _, other := range w.nss {
					for _, otok := range []string{other.token, other.child, tc.root} {
						if otok == "" {
							continue
						}
						for _, in := range w.nss {
							if in.sealed {
								continue
							}
							cubbyN++
							rr2 := tc.doCtx(w.ctx(in), &logical.Request{Operation: logical.ReadOperation, Path: "cubbyhole/c", ClientToken: otok})
							if rr2.resp == nil || rr2.resp.Data == nil {
								continue
							}
							got, _ := rr2.resp.Data["v"].(string)
							if got == "" {
								continue
							}
							if want, ok := cubby[otok]; !ok || got != want {
								fail("cubbyhole-leak", fmt.Sprintf("token of %q read cubbyhole value %q which it did not write (its own: %q) in namespace %q", other.path, got, cubby[otok], in.path))
							}
						}
					}
				}
				nontrivial = true
			},
			// The backend lists its storage with the PAGINATED listing (req.Storage.ListPage), prefix, cursor and limit
			// dictated by the client: prefixes with '..' segments that name another mount's storage (sibling uuid, climb to
			// the top and down into another namespace), absolute-looking prefixes, hostile cursors. The view handed to the
			// backend is the mount's chroot for this call like for the other four.
			"paginated-listing": func(rt *rapid.T) {
				var cands []*c12Mount
				for _, m := range w.mounts {
					if !m.ns.sealed {
						cands = append(cands, m)
					}
				}
				if len(cands) == 0 {
					rt.Skip("no mount")
				}
				m := cands[fairIndex(rt, "mount", len(cands))]
				other := w.mounts[fairIndex(rt, "otherMount", len(w.mounts))]
				seg := func(pfx string) string { // last path segment of a storage prefix: the mount's uuid
					f := strings.Split(strings.TrimSuffix(pfx, "/"), "/")
					return f[len(f)-1]
				}
				ups := strings.Repeat("../", strings.Count(m.physPfx, "/"))
				prefixes := []string{"", "k/", "../" + seg(other.physPfx) + "/", ups + other.physPfx, "x/../../" + seg(other.physPfx) + "/", "../", "../../", other.physPfx, "..", "./", "../" + seg(other.physPfx) + "/only-m"}
				afters := []string{"", "", "k", "..", "../", "../" + seg(other.physPfx) + "/", "\x00", "zzz", "__probe"}
				limits := []int{-1, 0, 1, 2, 100}
				pg := &c12Page{prefix: prefixes[fairIndex(rt, "prefix", len(prefixes))], after: afters[fairIndex(rt, "after", len(afters))], limit: limits[fairIndex(rt, "limit", len(limits))]}
				w.page = pg
				callsBefore := len(w.hub.handlerCalls())
				seq0 := tc.rec.Seq()
				res := tc.doCtx(w.ctx(m.ns), &logical.Request{Operation: logical.ListOperation, Path: m.path + "raw", ClientToken: tc.root, Data: map[string]any{"key": "k/"}})
				w.page = nil
				calls := w.hub.handlerCalls()[callsBefore:]
				desc := fmt.Sprintf("paginated listing in %s%s prefix=%q after=%q limit=%d (other mount %s%s) -> %v err=%v / plain %v err=%v; request %v", m.ns.path, m.path, pg.prefix, pg.after, pg.limit, other.ns.path, other.path, pg.names, pg.err, pg.plain, pg.plainErr, res)
				w.logf("%s", desc)
				if !pg.ran {
					t.Fatalf("harness: the backend of %s%s was not invoked: %s", m.ns.path, m.path, desc)
				}
				pagedN++
				if strings.Contains(pg.prefix, "..") || strings.Contains(pg.after, "..") || pg.prefix == other.physPfx {
					hostileN++
					nontrivial = true
				}
				for _, c := range calls {
					for _, o := range tc.rec.OpsSince(seq0) {
						if o.G != c.G || o.Seq <= c.Enter || o.Seq > c.Exit {
							continue
						}
						if strings.Contains("/"+o.Key+"/", "/../") {
							fail("relative-key-reached-storage", fmt.Sprintf("handler of mount %s%s sent %s with the relative physical key %q to storage: %s", m.ns.path, m.path, o.Kind, o.Key, desc))
						}
						if !strings.HasPrefix(o.Key, m.physPfx) && o.Kind != "begintx" && o.Kind != "beginrotx" && o.Kind != "commit" && o.Kind != "rollback" {
							fail("backend-touched-storage-outside-its-mount", fmt.Sprintf("handler of mount %s%s performed %s on physical key %q outside its prefix %q: %s", m.ns.path, m.path, o.Kind, o.Key, m.physPfx, desc))
						}
					}
				}
				if pg.err == nil {
					// what the view shows page-wise is part of what it shows at all, and never a name only another mount holds
					for _, o := range w.mounts {
						for _, nm := range pg.names {
							if o != m && strings.Contains(nm, fmt.Sprintf("only-m%d", o.id)) {
								fail("paginated-listing-shows-other-mounts-keys", fmt.Sprintf("the paginated listing of mount %s%s shows %q, a key of mount %s%s: %s", m.ns.path, m.path, nm, o.ns.path, o.path, desc))
							}
						}
					}
					if pg.plainErr != nil && strings.Contains("/"+pg.prefix+"/", "/../") {
						fail("paginated-listing-accepts-prefix-refused-elsewhere", fmt.Sprintf("the view of mount %s%s refuses the prefix for a plain listing (%v) and serves it paginated: %s", m.ns.path, m.path, pg.plainErr, desc))
					} else if pg.plainErr == nil {
						have := map[string]bool{}
						for _, nm := range pg.plain {
							have[nm] = true
						}
						for _, nm := range pg.names {
							if !have[nm] {
								fail("paginated-listing-shows-names-the-mount-does-not-hold", fmt.Sprintf("the paginated listing of mount %s%s shows %q which the plain listing of the same prefix does not: %s", m.ns.path, m.path, nm, desc))
							}
						}
					}
				}
			},
			// a token with an operator-chosen id writes to its cubbyhole and is revoked; a new token created later with
			// the same id is a different token: it must not see the old data
			"cubbyhole-after-token-id-reuse": func(rt *rapid.T) {
				w.nwrite++
				id := fmt.Sprintf("c12custom%d", w.nwrite)
				mkTok := func() (string, rr) {
					r := tc.req(logical.UpdateOperation, "auth/token/create", tc.root, map[string]any{"id": id, "policies": []string{"all", "default"}, "ttl": "1h"})
					if !r.ok() || r.resp == nil || r.resp.Auth == nil {
						return "", r
					}
					return r.resp.Auth.ClientToken, r
				}
				tok, cr := mkTok()
				if tok == "" {
					t.Fatalf("harness: token with custom id: %v", cr)
				}
				// one to three entries, one of them nested; the physical keys they land on are learnt from the op log
				names := []string{"c", "d/e", "f"}[:1+fairIndex(rt, "entries", 3)]
				markers := map[string]string{}
				var physKeys []string
				for _, nm := range names {
					w.nwrite++
					markers[nm] = fmt.Sprintf("CUBBY-%d", w.nwrite)
					seq := tc.rec.Seq()
					if r := tc.req(logical.UpdateOperation, "cubbyhole/"+nm, tok, map[string]any{"v": markers[nm]}); !r.ok() {
						fail("cubbyhole-write-failed", fmt.Sprintf("cubbyhole write with a live custom-id token failed: %v", r))
					}
					for _, o := range tc.rec.OpsSince(seq) {
						if o.Kind == "put" && strings.HasSuffix(o.Key, "/"+nm) {
							physKeys = append(physKeys, o.Key)
						}
					}
				}
				if len(physKeys) != len(names) {
					t.Fatalf("harness: cannot learn the storage keys of the cubbyhole entries: %v", physKeys)
				}
				cubbyDir := strings.TrimSuffix(physKeys[0], "c")
				how := []string{"auth/token/revoke", "auth/token/revoke-self", "auth/token/revoke-orphan"}[fairIndex(rt, "revokeHow", 3)]
				// fault point: during the revocation the n-th storage operation below the token's cubbyhole directory (or
				// the n-th storage operation at all) fails once - with a plain error, or with one that wraps
				// context.DeadlineExceeded / context.Canceled like a storage engine with per-call deadlines; storage is
				// healthy again afterwards
				faultKind := []string{"none", "plain", "deadline", "canceled", "deadline", "canceled"}[fairIndex(rt, "fault", 6)]
				faultScope := []string{"cubbyhole", "cubbyhole", "any"}[fairIndex(rt, "faultScope", 3)]
				faultN := 1 + fairIndex(rt, "faultNth", 6)
				var fired func() *verifx.Op
				if faultKind != "none" {
					var ferr error
					switch faultKind {
					case "plain":
						ferr = &c12StorageErr{what: "i/o error"}
					case "deadline":
						ferr = &c12StorageErr{what: "call timed out", cause: context.DeadlineExceeded}
					case "canceled":
						ferr = &c12StorageErr{what: "call cancelled", cause: context.Canceled}
					}
					var f func(o *verifx.Op) error
					f, fired = verifx.FailNth(func(o *verifx.Op) bool {
						if faultScope == "cubbyhole" {
							return strings.HasPrefix(o.Key, cubbyDir)
						}
						return o.Kind != "commit" && o.Kind != "rollback"
					}, faultN)
					tc.rec.SetFault(func(o *verifx.Op) error {
						if f(o) != nil {
							return ferr
						}
						return nil
					})
				}
				var r rr
				if how == "auth/token/revoke-self" {
					r = tc.req(logical.UpdateOperation, how, tok, nil)
				} else {
					r = tc.req(logical.UpdateOperation, how, tc.root, map[string]any{"token": tok})
				}
				tc.rec.SetFault(nil)
				hit := ""
				if fired != nil {
					if o := fired(); o != nil {
						hit = o.Kind + " " + o.Key
						faultedRevokes++
					}
				}
				w.logf("custom-id token %s: %d cubbyhole entries, %s with fault=%s scope=%s nth=%d (hit: %q) -> %v", id, len(names), how, faultKind, faultScope, faultN, hit, r)
				if !r.ok() && faultKind == "none" {
					t.Fatalf("harness: %s: %v", how, r)
				}
				left := func() []string {
					var out []string
					for _, k := range physKeys {
						if e, err := tc.rec.Inner.Get(context.Background(), k); err == nil && e != nil {
							out = append(out, k)
						}
					}
					return out
				}
				leftSig, leftMsg := "", ""
				if r.ok() {
					// the revocation was reported as done: the token is gone, and with it everything in its cubbyhole
					// (reported after the re-issued id has been tried, which is the stronger evidence)
					if l := left(); len(l) > 0 && !tc.tokenAlive(tok) {
						leftSig, leftMsg = "cubbyhole-data-left-after-revocation:"+faultKind, fmt.Sprintf("%s of a custom-id token answered %v (storage fault %s at %q) and the token is gone, but its cubbyhole entries %v are still in storage", how, r, faultKind, hit, l)
					}
				} else {
					// refused or failed half way: storage is healthy again, the revocation is repeated (by the API if the
					// token is still visible there, else the way the expiration manager repeats it)
					r2 := tc.req(logical.UpdateOperation, "auth/token/revoke-orphan", tc.root, map[string]any{"token": tok})
					var ierr error
					if !r2.ok() {
						ierr = tc.c.tokenStore.revokeOrphan(tc.ctx, tok)
					}
					w.logf("revocation repeated -> %v / %v", r2, ierr)
				}
				tok2, cr2 := mkTok()
				if tok2 == "" {
					// the id is still taken (the first token is not gone): nothing to compare
					w.logf("same id not issued again: %v", cr2)
					if leftSig != "" {
						fail(leftSig, leftMsg)
					}
					return
				}
				for _, nm := range names {
					rr2 := tc.req(logical.ReadOperation, "cubbyhole/"+nm, tok2, nil)
					w.logf("same id created again, read %s -> %v", nm, rr2)
					if rr2.resp != nil && rr2.resp.Data != nil {
						if got, _ := rr2.resp.Data["v"].(string); got != "" {
							fail("cubbyhole-survives-its-token", fmt.Sprintf("cubbyhole value %q written by a token that was revoked (%s, storage fault %s at %q, answered %v) is readable with a new token created with the same id", got, how, faultKind, hit, r))
						}
					}
				}
				if lr := tc.req(logical.ListOperation, "cubbyhole/", tok2, nil); lr.resp != nil && lr.resp.Data != nil {
					if ks, _ := lr.resp.Data["keys"].([]string); len(ks) > 0 {
						fail("cubbyhole-survives-its-token", fmt.Sprintf("a new token created with the id of a revoked token (%s, storage fault %s at %q, answered %v) lists %v in its cubbyhole without having written anything", how, faultKind, hit, r, ks))
					}
				}
				if leftSig != "" {
					fail(leftSig, leftMsg)
				}
				tc.req(logical.UpdateOperation, "auth/token/revoke", tc.root, map[string]any{"token": tok2})
				cubbyN++
				nontrivial = true
			},
			// a token of one namespace whose policy NAME points into another namespace ("../<uuid>/all"): policy names are
			// client-controlled strings; the token must still be confined to its own namespace
			"foreign-policy-name": func(rt *rapid.T) {
				home := w.nss[1+fairIndex(rt, "home", len(w.nss)-1)]
				if home.sealed {
					rt.Skip("sealed")
				}
				victim := w.nss[fairIndex(rt, "victim", len(w.nss))]
				if isDescendantOrSelf(victim.path, home.path) || victim.sealed {
					rt.Skip("victim inside the token's own scope")
				}
				uuid := namespace.RootNamespaceUUID
				if victim.path != "" {
					uuid = victim.ns.UUID
				}
				name := []string{"../" + uuid + "/all", uuid + "/all", "../../" + uuid + "/all", "./../" + uuid + "/all"}[fairIndex(rt, "form", 4)]
				// warm the victim namespace's policy cache
				tc.doCtx(w.ctx(victim), &logical.Request{Operation: logical.ReadOperation, Path: "m1/kv/__probe", ClientToken: victim.token})
				r := tc.doCtx(w.ctx(home), &logical.Request{Operation: logical.UpdateOperation, Path: "auth/token/create", ClientToken: tc.root,
					Data: map[string]any{"policies": []string{name}, "no_default_policy": true, "ttl": "30m"}})
				if !r.ok() || r.resp == nil || r.resp.Auth == nil {
					w.logf("token with policy name %q in %q refused: %v", name, home.path, r)
					return
				}
				tok := r.resp.Auth.ClientToken
				before := len(w.hub.handlerCalls())
				res := tc.doCtx(w.ctx(victim), &logical.Request{Operation: logical.ReadOperation, Path: "m1/kv/__probe", ClientToken: tok})
				served := res.ok() || len(w.hub.handlerCalls()) > before
				w.logf("token of %q with policy name %q used in %q -> %v served=%v", home.path, name, victim.path, res, served)
				nontrivial = true
				if served {
					fail("foreign-policy-name-grants-other-namespace", fmt.Sprintf("a token created in namespace %q with the policy name %q was served in namespace %q (outside its own namespace and descendants)", home.path, name, victim.path))
				}
			},
			// move a mount to another path, possibly in another namespace: afterwards it must serve (only) its own data from
			// a storage prefix inside the destination namespace
			"remount": func(rt *rapid.T) {
				var cands []*c12Mount
				for _, m := range w.mounts {
					if !m.ns.sealed && m.path != "deep/x/" && !m.emptySeg {
						cands = append(cands, m)
					}
				}
				if len(cands) == 0 {
					rt.Skip("nothing to move")
				}
				m := cands[fairIndex(rt, "mount", len(cands))]
				var dsts []*c12NS
				for _, n := range w.nss {
					if !n.sealed && !n.sealable && !m.ns.sealable {
						dsts = append(dsts, n)
					}
				}
				if len(dsts) == 0 {
					rt.Skip("no destination")
				}
				dst := dsts[fairIndex(rt, "dst", len(dsts))]
				w.nwrite++
				newPath := fmt.Sprintf("mv%d/", w.nwrite)
				// a marker written before the move
				marker := fmt.Sprintf("MARK-m%d-%d", m.id, w.nwrite)
				pre := tc.doCtx(w.ctx(m.ns), &logical.Request{Operation: logical.UpdateOperation, Path: m.path + "kv/moved", ClientToken: tc.root, Data: map[string]any{"v": marker}})
				if !pre.ok() {
					t.Fatalf("harness: write before remount: %v", pre)
				}
				err := tc.c.remountSecretsEngine(tc.ctx, namespace.MountPathDetails{Namespace: m.ns.ns, MountPath: m.path}, namespace.MountPathDetails{Namespace: dst.ns, MountPath: newPath}, true)
				if err != nil {
					w.logf("remount %s%s -> %s%s refused: %v", m.ns.path, m.path, dst.path, newPath, err)
					return
				}
				w.logf("remount %s%s -> %s%s", m.ns.path, m.path, dst.path, newPath)
				oldNS := m.ns
				m.ns, m.path = dst, newPath
				// the data written before the move must be served at the new place
				rd := tc.doCtx(w.ctx(dst), &logical.Request{Operation: logical.ReadOperation, Path: newPath + "kv/moved", ClientToken: tc.root})
				if !rd.ok() || rd.resp == nil || rd.resp.Data["v"] != marker {
					fail("data-lost-by-remount", fmt.Sprintf("the value written through %s before the remount is not served at %s%s: %v", oldNS.path, dst.path, newPath, rd))
				}
				// learn the new storage prefix from a probe write and require it to lie inside the destination namespace
				seq := tc.rec.Seq()
				pr := tc.doCtx(w.ctx(dst), &logical.Request{Operation: logical.UpdateOperation, Path: newPath + "kv/__probe", ClientToken: tc.root, Data: map[string]any{"v": "probe"}})
				if !pr.ok() {
					fail("moved-mount-unusable", fmt.Sprintf("write through the moved mount failed: %v", pr))
				}
				newPfx := ""
				for _, o := range tc.rec.OpsSince(seq) {
					if o.Kind == "put" && strings.HasSuffix(o.Key, "/__probe") {
						newPfx = strings.TrimSuffix(o.Key, "__probe")
					}
				}
				if newPfx == "" || !strings.HasPrefix(newPfx, dst.physPfx) || (dst.path == "" && strings.HasPrefix(newPfx, "namespaces/")) {
					fail("moved-mount-writes-outside-its-namespace", fmt.Sprintf("after the remount to %s%s the mount writes to physical prefix %q, outside the destination namespace's storage %q", dst.path, newPath, newPfx, dst.physPfx))
				}
				m.physPfx = newPfx
				nontrivial = true
			},
			// While the separately sealed namespace is sealed, the root namespace is asked to mount a backend at a path
			// below the sealed namespace's path. Whether that is accepted is not the property's business (observation);
			// if it is, the mount is the root namespace's: what it stores lies outside the sealed namespace's storage.
			"root-mount-below-sealed-namespace-path": func(rt *rapid.T) {
				var sealedNS *c12NS
				for _, n := range w.nss {
					if n.sealable && n.sealed {
						sealedNS = n
					}
				}
				if sealedNS == nil {
					rt.Skip("no sealed namespace")
				}
				w.nwrite++
				mp := fmt.Sprintf("%sshadow%d", sealedNS.path, w.nwrite)
				mr := tc.req(logical.UpdateOperation, "sys/mounts/"+mp, tc.root, map[string]any{"type": "recbe"})
				w.logf("root namespace mounts at %q while %q is sealed -> %v", mp, sealedNS.path, mr)
				if !mr.ok() {
					rec.Class("observation:root-mount-below-sealed-namespace-path:refused", 1)
					return
				}
				rec.Class("observation:root-mount-below-sealed-namespace-path:accepted", 1)
				seq := tc.rec.Seq()
				wr := tc.req(logical.UpdateOperation, mp+"/kv/x", tc.root, map[string]any{"v": "shadow"})
				for _, o := range tc.rec.OpsSince(seq) {
					if (o.Kind == "put" || o.Kind == "delete" || o.Kind == "get") && strings.HasPrefix(o.Key, sealedNS.physPfx) {
						fail("sealed-namespace-storage-touched", fmt.Sprintf("a request to the root namespace's mount %q (made while %q is sealed) performed %s %q below the sealed namespace's storage (%v)", mp, sealedNS.path, o.Kind, o.Key, wr))
					}
				}
				if ur := tc.req(logical.DeleteOperation, "sys/mounts/"+mp, tc.root, nil); !ur.ok() {
					t.Fatalf("harness: unmount %s: %v", mp, ur)
				}
			},
			// A batch token carries its namespace inside its protected payload; the ".<namespace id>" suffix of the id is
			// only a routing hint that whoever presents the token can cut off or replace. However it is presented, a
			// batch token of namespace N authorises nothing outside N and its descendants.
			"batch-token-resuffixed": func(rt *rapid.T) {
				var homes []*c12NS
				for _, n := range w.nss {
					if n.path != "" && !n.sealed {
						homes = append(homes, n)
					}
				}
				if len(homes) == 0 {
					rt.Skip("no namespace")
				}
				home := homes[fairIndex(rt, "home", len(homes))]
				cr := tc.doCtx(w.ctx(home), &logical.Request{Operation: logical.UpdateOperation, Path: "auth/token/create", ClientToken: home.token,
					Data: map[string]any{"type": "batch", "policies": []string{"all", "default"}, "ttl": "30m"}})
				if !cr.ok() || cr.resp == nil || cr.resp.Auth == nil {
					t.Fatalf("harness: batch token in %s: %v", home.path, cr)
				}
				tok := cr.resp.Auth.ClientToken
				suffix := "." + home.ns.ID
				if !strings.HasSuffix(tok, suffix) {
					rt.Skip("batch token without namespace suffix")
				}
				var victims []*c12NS
				for _, n := range w.nss {
					if !n.sealed && !isDescendantOrSelf(n.path, home.path) {
						victims = append(victims, n)
					}
				}
				victim := victims[fairIndex(rt, "victim", len(victims))]
				presented := strings.TrimSuffix(tok, suffix)
				how := "suffix removed"
				if victim.path != "" && rapid.Bool().Draw(rt, "swapSuffix") {
					presented += "." + victim.ns.ID
					how = "suffix of " + victim.path
				}
				var vm *c12Mount
				for _, m := range w.mounts {
					if m.ns == victim {
						vm = m
					}
				}
				if vm == nil {
					rt.Skip("no mount in the victim namespace")
				}
				callsBefore := len(w.hub.handlerCalls())
				res := tc.doCtx(w.ctx(victim), &logical.Request{Operation: logical.ReadOperation, Path: vm.path + "raw", ClientToken: presented, Data: map[string]any{"key": "k"}})
				pol := tc.doCtx(w.ctx(victim), &logical.Request{Operation: logical.ReadOperation, Path: "sys/policy/all", ClientToken: presented})
				served := res.ok() || pol.ok() || len(w.hub.handlerCalls()) > callsBefore
				w.logf("batch token of %q presented with %s in %q -> %v / %v", home.path, how, victim.path, res, pol)
				crossNS++
				nontrivial = true
				if served {
					fail("resuffixed-batch-token-served-outside-its-namespace", fmt.Sprintf("a batch token issued in namespace %q, presented with its %s, was served in namespace %q (backend read: %v, sys/policy read: %v)", home.path, how, victim.path, res, pol))
				}
			},
			// An identity group of an ANCESTOR namespace that carries policies and has a member entity living in a
			// descendant namespace (possible only with unsafe_cross_namespace_identity): with the default group-policy
			// application mode the member's token - a token of the descendant namespace - gains nothing in the ancestor.
			"ancestor-group-member": func(rt *rapid.T) {
				var kids []*c12NS
				for _, n := range w.nss {
					if n.path != "" && !n.sealed && !n.sealable {
						kids = append(kids, n)
					}
				}
				if len(kids) == 0 {
					rt.Skip("no namespace")
				}
				kid := kids[fairIndex(rt, "memberNamespace", len(kids))]
				w.nwrite++
				er, err := tc.c.identityStore.HandleRequest(w.ctx(kid), &logical.Request{Operation: logical.UpdateOperation, Path: "entity", Data: map[string]any{"name": fmt.Sprintf("member%d", w.nwrite)}})
				if err != nil || er == nil || er.IsError() {
					t.Fatalf("harness: entity in %s: %v %v", kid.path, er, err)
				}
				entID, _ := er.Data["id"].(string)
				gr, gerr := tc.c.identityStore.HandleRequest(tc.ctx, &logical.Request{Operation: logical.UpdateOperation, Path: "group",
					Data: map[string]any{"name": fmt.Sprintf("platform%d", w.nwrite), "policies": []string{"all"}, "member_entity_ids": []string{entID}}})
				if gerr != nil || gr == nil || gr.IsError() {
					w.logf("root group with a member entity of %q refused: %v %v", kid.path, gr, gerr)
					return
				}
				te := &logical.TokenEntry{Path: "test", Policies: []string{"default"}, EntityID: entID, TTL: time.Hour, NamespaceID: kid.ns.ID}
				testMakeTokenDirectly(t, w.ctx(kid), tc.c.tokenStore, te)
				var rm *c12Mount
				for _, m := range w.mounts {
					if m.ns.path == "" && m.path != "deep/x/" {
						rm = m
					}
				}
				if rm == nil {
					rt.Skip("no mount left in the root namespace")
				}
				callsBefore := len(w.hub.handlerCalls())
				res := tc.doCtx(tc.ctx, &logical.Request{Operation: logical.ReadOperation, Path: rm.path + "raw", ClientToken: te.ID, Data: map[string]any{"key": "k"}})
				served := res.ok() || len(w.hub.handlerCalls()) > callsBefore
				w.logf("token of an entity of %q that is member of a root-namespace group with policy all, used in the root namespace -> %v", kid.path, res)
				crossNS++
				nontrivial = true
				if served {
					fail("ancestor-group-policy-applied-to-descendant-token", fmt.Sprintf("a token of namespace %q whose entity is a member of a root-namespace group carrying the policy 'all' was served in the root namespace (%v): with the default group-policy application mode a token authorises requests only in its own namespace and below", kid.path, res))
				}
			},
			// sys/remount called inside a namespace by that namespace's own administrator token, with a destination given
			// in the request body that names the same namespace, a descendant, or - climbing with '..' / './..' or with an
			// absolute path - a namespace outside the caller's subtree. Whatever the request answers, the token has no
			// authority outside its namespace and its descendants: no mount may appear in, or vanish from, any other
			// namespace.
			"remount-api": func(rt *rapid.T) {
				var cands []*c12Mount
				for _, m := range w.mounts {
					if m.ns.path != "" && !m.ns.sealed && !m.ns.sealable && !m.emptySeg {
						cands = append(cands, m)
					}
				}
				if len(cands) == 0 {
					rt.Skip("nothing to move")
				}
				m := cands[fairIndex(rt, "mount", len(cands))]
				src := m.ns
				var dsts []*c12NS
				for _, n := range w.nss {
					if !n.sealed && !n.sealable {
						dsts = append(dsts, n)
					}
				}
				dst := dsts[fairIndex(rt, "dst", len(dsts))]
				w.nwrite++
				leaf := fmt.Sprintf("mv%d", w.nwrite)
				inside := isDescendantOrSelf(dst.path, src.path)
				var to string
				if inside {
					to = strings.TrimPrefix(dst.path, src.path) + leaf
					if rapid.IntRange(0, 3).Draw(rt, "dotPrefix") == 0 {
						to = "./" + to
					}
				} else {
					ups := strings.Repeat("../", strings.Count(src.path, "/"))
					to = []string{ups + dst.path + leaf, "./" + ups + dst.path + leaf, "/" + dst.path + leaf, "x/../" + ups + dst.path + leaf}[rapid.IntRange(0, 3).Draw(rt, "climbForm")]
				}
				tables := func() map[string]string {
					out := map[string]string{}
					for _, n := range w.nss {
						if n.sealed {
							continue
						}
						r := tc.doCtx(w.ctx(n), &logical.Request{Operation: logical.ReadOperation, Path: "sys/mounts", ClientToken: tc.root})
						var ks []string
						if r.ok() && r.resp != nil {
							for k := range r.resp.Data {
								ks = append(ks, k)
							}
						}
						sort.Strings(ks)
						out[n.path] = strings.Join(ks, " ")
					}
					return out
				}
				before := tables()
				marker := fmt.Sprintf("MARK-m%d-%d", m.id, w.nwrite)
				if pre := tc.doCtx(w.ctx(src), &logical.Request{Operation: logical.UpdateOperation, Path: m.path + "kv/moved", ClientToken: tc.root, Data: map[string]any{"v": marker}}); !pre.ok() {
					t.Fatalf("harness: write before remount: %v", pre)
				}
				res := tc.doCtx(w.ctx(src), &logical.Request{Operation: logical.UpdateOperation, Path: "sys/remount", ClientToken: src.token, Data: map[string]any{"from": m.path, "to": to}})
				status := "refused"
				if res.ok() && res.resp != nil {
					id, _ := res.resp.Data["migration_id"].(string)
					status = "in-progress"
					deadline := time.Now().Add(15 * time.Second)
					for id != "" && time.Now().Before(deadline) {
						if info := tc.c.readMigrationStatus(id); info != nil {
							status = info.MigrationStatus
						}
						if status == "success" || status == "failure" {
							break
						}
						time.Sleep(2 * time.Millisecond)
					}
				}
				w.logf("sys/remount in %s by its own token: from=%s to=%q -> %v (migration %s)", src.path, m.path, to, res, status)
				if status != "refused" && status != "success" && status != "failure" {
					// the model no longer knows where the mount is: the rest of the case would be judged on a guess
					rec.Note("inconclusive: remount migration in state %q after 15s", status)
					panic(errCoreWedged)
				}
				after := tables()
				for _, n := range w.nss {
					if n.sealed || isDescendantOrSelf(n.path, src.path) {
						continue
					}
					if before[n.path] != after[n.path] {
						fail("remount-by-namespace-token-changes-foreign-namespace", fmt.Sprintf("sys/remount from=%q to=%q called in %q with that namespace's own token answered %v; the mount table of namespace %q, outside the caller's namespace and descendants, changed from [%s] to [%s]", m.path, to, src.path, res, n.path, before[n.path], after[n.path]))
					}
				}
				nontrivial = nontrivial || !inside
				if status != "success" {
					return
				}
				// accepted and finished: the mount now lives where the (lexically resolved) destination says; find it
				var landed *c12NS
				landedPath := ""
				for _, n := range w.nss {
					if n.sealed {
						continue
					}
					for _, e := range strings.Fields(after[n.path]) {
						// an absolute-looking destination is taken relative to the caller's namespace: "/a/mv1" becomes the mount a/mv1/ there
						if e == leaf+"/" || strings.HasSuffix(e, "/"+leaf+"/") {
							landed, landedPath = n, e
						}
					}
				}
				if landed == nil {
					fail("data-lost-by-remount", fmt.Sprintf("sys/remount from=%q to=%q in %q finished with success but no namespace lists a mount ending in %s/", m.path, to, src.path, leaf))
					return
				}
				m.ns, m.path = landed, landedPath
				rd := tc.doCtx(w.ctx(landed), &logical.Request{Operation: logical.ReadOperation, Path: m.path + "kv/moved", ClientToken: tc.root})
				if !rd.ok() || rd.resp == nil || rd.resp.Data["v"] != marker {
					fail("data-lost-by-remount", fmt.Sprintf("the value written before sys/remount to=%q is not served at %s%s: %v", to, landed.path, m.path, rd))
				}
				seq := tc.rec.Seq()
				pr := tc.doCtx(w.ctx(landed), &logical.Request{Operation: logical.UpdateOperation, Path: m.path + "kv/__probe", ClientToken: tc.root, Data: map[string]any{"v": "probe"}})
				newPfx := ""
				for _, o := range tc.rec.OpsSince(seq) {
					if o.Kind == "put" && strings.HasSuffix(o.Key, "/__probe") {
						newPfx = strings.TrimSuffix(o.Key, "__probe")
					}
				}
				if !pr.ok() || newPfx == "" || !strings.HasPrefix(newPfx, landed.physPfx) {
					fail("moved-mount-writes-outside-its-namespace", fmt.Sprintf("after sys/remount to=%q the mount %s%s writes to physical prefix %q, outside that namespace's storage %q (%v)", to, landed.path, m.path, newPfx, landed.physPfx, pr))
				}
				m.physPfx = newPfx
			},
			// the server is restarted on the same storage: mounts, remounts, tokens and cubbyholes are where they were,
			// the separately sealed namespace comes back sealed
			"restart": func(rt *rapid.T) {
				if restarts >= 1 {
					rt.Skip("enough restarts")
				}
				restarts++
				w.tc.shutdown()
				ntc, err := w.tc.restartOn(w.tc.phys)
				if err != nil {
					fail("restart-failed", fmt.Sprintf("core does not restart: %v", err))
					return
				}
				w.tc, tc = ntc, ntc
				for _, n := range w.nss {
					if n.sealable {
						n.sealed = true
						if !ntc.c.NamespaceSealed(n.ns) {
							fail("sealable-namespace-unsealed-after-restart", fmt.Sprintf("namespace %s has its own seal but is unsealed right after a restart", n.path))
						}
					}
				}
				w.logf("restart")
			},
			"seal-toggle": func(rt *rapid.T) {
				var s *c12NS
				for _, n := range w.nss {
					if n.sealable {
						s = n
					}
				}
				if s == nil {
					rt.Skip("no sealable namespace")
				}
				if s.sealed {
					w.unseal(s)
					w.logf("unseal %s", s.path)
				} else {
					parent := w.nss[0]
					// what a peer of an HA cluster would answer right now to "which namespace keys do you have for me":
					// the namespace's root key, wrapped with the shared keyring (key sharing spares the operator unsealing
					// a namespace on every node)
					inFlight, kerr := tc.c.NamespaceKeys(tc.ctx, []string{s.ns.UUID})
					how := []string{"api", "api", "followed"}[rapid.IntRange(0, 2).Draw(rt, "sealSeenAs")]
					if how == "api" {
						if err := tc.c.namespaceStore.SealNamespace(w.ctx(parent), strings.TrimSuffix(s.path, "/")); err != nil {
							t.Fatalf("harness: seal namespace: %v", err)
						}
					} else {
						// the way a standby learns of it: the namespace's storage entry says manually sealed, and the
						// invalidation of that entry is delivered
						stored, err := tc.c.namespaceStore.GetNamespace(tc.ctx, s.ns.UUID)
						if err != nil || stored == nil {
							t.Fatalf("harness: namespace entry: %v", err)
						}
						stored.ManuallySealed = true
						if err := tc.c.namespaceStore.writeNamespace(tc.ctx, tc.c.NamespaceView(namespace.RootNamespace), stored); err != nil {
							t.Fatalf("harness: write namespace entry: %v", err)
						}
						if _, _, err := tc.c.namespaceStore.Invalidate(tc.ctx, namespace.RootNamespaceUUID, s.ns.UUID); err != nil {
							t.Fatalf("harness: invalidate namespace entry: %v", err)
						}
					}
					if !tc.c.NamespaceSealed(s.ns) {
						t.Fatalf("harness: namespace not sealed after seal (%s)", how)
					}
					s.sealed = true
					w.logf("seal %s (%s)", s.path, how)
					if kerr == nil && len(inFlight[s.ns.UUID]) > 0 && rapid.Bool().Draw(rt, "lateKeyShare") {
						// the key-sharing answer produced before the seal arrives after it: an operator sealed the namespace
						// and nobody supplied unseal shares since, so it stays sealed
						err := tc.c.SetNamespaceKeys(tc.ctx, map[string][]byte{s.ns.UUID: inFlight[s.ns.UUID]})
						w.logf("late key-sharing message for %s -> %v", s.path, err)
						lateShares++
						if !tc.c.NamespaceSealed(s.ns) {
							fail("manually-sealed-namespace-unsealed-by-late-key-share:"+how, fmt.Sprintf("namespace %s was sealed by an operator (%s); a key-sharing message produced before the seal and delivered after it unsealed it again, nobody supplied unseal shares", s.path, how))
						}
					}
				}
			},
		})
		rec.Case(fmt.Sprintf("nested=%v", len(w.nss) > 3), nontrivial, verifx.Digest(w.log), func() any { return map[string]any{"history": w.log} })
		rec.Class("hostile-key-requests", int64(hostileN))
		rec.Class("cross-namespace-requests", int64(crossNS))
		rec.Class("cubbyhole-cross-reads", int64(cubbyN))
		rec.Class("requests-into-sealed-namespace", int64(sealedN))
		rec.Class("late-key-share-after-seal", int64(lateShares))
		rec.Class("paginated-listings", int64(pagedN))
		rec.Class("revocations-with-storage-fault-hit", int64(faultedRevokes))
	})
}
