//go:build verif

package vault

// C10, unit ha-rotation: seal state and key rotation across the nodes of an HA cluster.
//
// Two or three cores share one in-memory physical store and one in-memory HA backend (Shamir seal with generated
// shares/threshold, or the stored-key test seal). Exactly one node is active; the others are unsealed standbys or
// sealed. A generated history moves key material and leadership around: canary writes, keyring rotation, share-based
// rekeys in four flavours (legacy / seal-manager, each with and without verification, plus a verified rotation that
// is abandoned), share-less root-key rotation, step-down, seal of the active node, seal / unseal / reboot of
// standbys, restart of the whole cluster. The model tracks the currently valid share set, the share sets that are no
// longer (or never became) valid, and the acknowledged canaries. Every history ends with a restart of the whole
// cluster and a tour of the leadership through every node.
//
// Which node wins the HA lock is decided by the harness (a gate in front of the shared lock), so a history replays
// the same way: the environment (the HA backend) is free to choose any candidate, the harness merely fixes the choice.

import (
	"context"
	"fmt"
	"os"
	"sort"
	"strings"
	"sync"
	"testing"
	"time"

	log "github.com/hashicorp/go-hclog"
	"github.com/openbao/openbao/sdk/v2/helper/verifx"
	"github.com/openbao/openbao/sdk/v2/logical"
	"github.com/openbao/openbao/sdk/v2/physical"
	"github.com/openbao/openbao/sdk/v2/physical/inmem"
	"github.com/openbao/openbao/v2/internal/helper/namespace"
	"pgregory.net/rapid"
)

// ---- the HA lock, with the harness choosing the winner

type c10haGate struct {
	mu        sync.Mutex
	preferred int
	changed   chan struct{}
}

func newC10haGate() *c10haGate { return &c10haGate{changed: make(chan struct{})} }

func (g *c10haGate) set(i int) {
	g.mu.Lock()
	if g.preferred != i {
		g.preferred = i
		close(g.changed)
		g.changed = make(chan struct{})
	}
	g.mu.Unlock()
}

func (g *c10haGate) permit(i int) (<-chan struct{}, bool) {
	g.mu.Lock()
	defer g.mu.Unlock()
	return g.changed, g.preferred == i
}

type c10haBackend struct {
	physical.HABackend
	g   *c10haGate
	idx int
}

func (b *c10haBackend) LockWith(key, value string) (physical.Lock, error) {
	l, err := b.HABackend.LockWith(key, value)
	if err != nil {
		return nil, err
	}
	return &c10haLock{inner: l, g: b.g, idx: b.idx}, nil
}

type c10haLock struct {
	inner physical.Lock
	g     *c10haGate
	idx   int
}

func (l *c10haLock) Unlock() error                { return l.inner.Unlock() }
func (l *c10haLock) Value() (bool, string, error) { return l.inner.Value() }

// Lock lets a candidate through to the shared lock only while the harness prefers it.
func (l *c10haLock) Lock(stopCh <-chan struct{}) (<-chan struct{}, error) {
	for {
		ch, ok := l.g.permit(l.idx)
		if ok {
			break
		}
		select {
		case <-stopCh:
			return nil, nil
		case <-ch:
		}
	}
	return l.inner.Lock(stopCh)
}

// ---- world

type c10haShares struct {
	keys [][]byte
	why  string // "superseded" | "never-verified"
}

type c10haNode struct {
	tc     *tcore
	sealed bool
	// down: the process was stopped (a standby cannot be sealed through the API: "please restart instead"); the node
	// comes back as a new core. A node sealed while it was active stays up and may be unsealed in place.
	down bool
	// stale: a rekey was completed by another node since this node was unsealed (the node holds key material from
	// before the rekey; only used to classify histories)
	stale bool
}

type c10haWorld struct {
	t             *testing.T
	rt            *rapid.T
	rec           *verifx.Recorder
	phys          physical.Backend
	hab           physical.HABackend
	gate          *c10haGate
	shamir        bool
	transactional bool
	nodes         []*c10haNode
	active        int // index of the active node, -1 when every node is sealed
	keys          [][]byte
	thr           int
	recKeys       [][]byte
	recThr        int
	invalid       []c10haShares
	root          string
	canaries      map[string]string
	log           []string
	ctx           context.Context

	nRekey, nFailover, nRootRot, nKeyring, nRestart, nUnseal, nRecovery int
	staleLeader                                                         bool // leadership went to a node that is stale
	chain                                                               bool // ... and that node then rotated the root key without shares
}

func (w *c10haWorld) logf(f string, a ...any) { w.log = append(w.log, fmt.Sprintf(f, a...)) }

func (w *c10haWorld) sealName() string {
	if w.shamir {
		return "shamir"
	}
	return "stored-key"
}

func (w *c10haWorld) detail(extra map[string]any) map[string]any {
	st := make([]string, len(w.nodes))
	for i, n := range w.nodes {
		st[i] = fmt.Sprintf("node%d: model sealed=%v core sealed=%v standby=%v stale=%v", i, n.sealed, n.tc.c.Sealed(), n.tc.c.Standby(), n.stale)
	}
	d := map[string]any{"seal": w.sealName(), "nodes": len(w.nodes), "transactional": w.transactional, "active": w.active, "history": append([]string(nil), w.log...), "node_state": st, "valid_shares": len(w.keys), "threshold": w.thr}
	for k, v := range extra {
		d[k] = v
	}
	return d
}

// viol reports a violation (fails the case unless the signature is a listed finding; the case is abandoned either way).
func (w *c10haWorld) viol(sig string, extra map[string]any, format string, a ...any) {
	w.rec.Violation(w.rt, sig, w.detail(extra), format, a...)
	panic(c10haAbandon{})
}

type c10haAbandon struct{}

func (w *c10haWorld) newCore(i int, first bool) *tcore {
	ct := &caseT{T: w.t}
	o := coreOpts{shamir: w.shamir, phys: w.phys, noInit: !first, transactional: w.transactional}
	conf := newCoreConfig(ct, &o)
	conf.HAPhysical = &c10haBackend{HABackend: w.hab, g: w.gate, idx: i}
	conf.RedirectAddr = fmt.Sprintf("http://127.0.0.1:%d", 8200+i)
	c, err := NewCore(conf)
	if err != nil {
		ct.done()
		w.t.Fatalf("harness: NewCore for node %d: %v", i, err)
	}
	return &tcore{t: w.t, ct: ct, c: c, phys: w.phys, rec: verifx.RecOf(w.phys), opts: o, ctx: w.ctx, root: w.root}
}

func (w *c10haWorld) shutdownAll() {
	// the active node last, so that no standby takes over only to be shut down
	for i, n := range w.nodes {
		if i != w.active && n != nil && n.tc != nil {
			n.tc.shutdown()
		}
	}
	if w.active >= 0 && w.active < len(w.nodes) && w.nodes[w.active] != nil {
		w.nodes[w.active].tc.shutdown()
	}
}

// awaitActive waits (bounded) until node i leads.
func (w *c10haWorld) awaitActive(i int, when string) {
	c := w.nodes[i].tc.c
	deadline := time.Now().Add(60 * time.Second)
	for time.Now().Before(deadline) {
		if c.Sealed() {
			w.viol("takeover-node-sealed-itself:"+when, map[string]any{"node": i}, "node %d was unsealed and due to take over as active node (%s) but sealed itself", i, when)
		}
		if !c.Standby() {
			w.active = i
			return
		}
		time.Sleep(200 * time.Microsecond)
	}
	w.t.Fatalf("harness: node %d did not become active within 60s (%s); history %v", i, when, w.log)
}

func (w *c10haWorld) awaitStandby(i int) {
	c := w.nodes[i].tc.c
	deadline := time.Now().Add(60 * time.Second)
	for time.Now().Before(deadline) {
		if c.Standby() || c.Sealed() {
			return
		}
		time.Sleep(200 * time.Microsecond)
	}
	w.t.Fatalf("harness: node %d did not give up leadership within 60s; history %v", i, w.log)
}

func (w *c10haWorld) act() *tcore { return w.nodes[w.active].tc }

func (w *c10haWorld) unsealedStandbys() []int {
	var out []int
	for i, n := range w.nodes {
		if !n.sealed && i != w.active {
			out = append(out, i)
		}
	}
	return out
}

func (w *c10haWorld) sealedNodes() []int {
	var out []int
	for i, n := range w.nodes {
		if n.sealed {
			out = append(out, i)
		}
	}
	return out
}

// ---- invariants

// checkNodes: the seal state of every node is the one the history produced; a sealed node serves nothing.
func (w *c10haWorld) checkNodes(when string) {
	for i, n := range w.nodes {
		cs := n.tc.c.Sealed()
		if cs && !n.sealed {
			w.viol("node-sealed-itself:"+when, map[string]any{"node": i}, "node %d was unsealed with valid shares and never sealed by the history, but is sealed (%s)", i, when)
		}
		if !cs && n.sealed {
			w.viol("sealed-node-is-unsealed:"+when, map[string]any{"node": i}, "node %d was sealed by the history but reports unsealed (%s)", i, when)
		}
		if !n.sealed {
			continue
		}
		for _, k := range c10haSortedKeys(w.canaries) {
			r := n.tc.req(logical.ReadOperation, "cubbyhole/"+k, w.root, nil)
			if r.ok() && r.resp != nil && r.resp.Data != nil {
				w.viol("sealed-node-serves-read", map[string]any{"node": i, "key": k}, "sealed node %d answered a read of %s (%s): %v", i, k, when, r.resp.Data)
			}
			break
		}
		if e, err := n.tc.c.barrier.Get(w.ctx, "core/mounts"); err == nil && e != nil {
			w.viol("sealed-node-serves-read", map[string]any{"node": i, "key": "core/mounts"}, "the barrier of sealed node %d decrypted core/mounts (%s)", i, when)
		}
	}
}

// checkCanaries: every acknowledged canary reads back through the active node.
func (w *c10haWorld) checkCanaries(when string) {
	if w.active < 0 {
		return
	}
	a := w.act()
	if a.c.Sealed() || a.c.Standby() {
		w.viol("active-node-lost-leadership:"+when, map[string]any{"node": w.active}, "node %d was the active node but reports sealed=%v standby=%v (%s)", w.active, a.c.Sealed(), a.c.Standby(), when)
	}
	for _, k := range c10haSortedKeys(w.canaries) {
		r := a.req(logical.ReadOperation, "cubbyhole/"+k, w.root, nil)
		got := any(nil)
		if r.ok() && r.resp != nil {
			got = r.resp.Data["v"]
		}
		if got != w.canaries[k] {
			w.viol("canary-lost:"+when, map[string]any{"key": k, "want": w.canaries[k], "got": fmt.Sprint(got), "response": r.String()}, "canary %s written earlier (%q) reads back as %v (%v) through active node %d (%s)", k, w.canaries[k], got, r, w.active, when)
		}
	}
}

func c10haSortedKeys(m map[string]string) []string {
	ks := make([]string, 0, len(m))
	for k := range m {
		ks = append(ks, k)
	}
	sort.Strings(ks)
	return ks
}

// ---- actions

func (w *c10haWorld) write(k, v string) {
	r := w.act().req(logical.UpdateOperation, "cubbyhole/"+k, w.root, map[string]any{"v": v})
	w.logf("write %s=%s via node%d", k, v, w.active)
	if !r.ok() {
		w.viol("active-node-refuses-write", map[string]any{"key": k, "response": r.String()}, "the active node %d refused the write of %s: %v", w.active, k, r)
	}
	w.canaries[k] = v
}

func (w *c10haWorld) rotateKeyring() {
	r := w.act().req(logical.UpdateOperation, "sys/rotate/keyring", w.root, nil)
	w.logf("rotate keyring via node%d", w.active)
	if !r.ok() {
		w.t.Fatalf("harness: sys/rotate/keyring: %v; history %v", r, w.log)
	}
	w.nKeyring++
}

func (w *c10haWorld) rotateRoot() {
	if w.nodes[w.active].stale {
		w.chain = true
	}
	r := w.act().req(logical.UpdateOperation, "sys/rotate/root", w.root, nil)
	w.logf("rotate root key (no shares) via node%d", w.active)
	if !r.ok() {
		w.t.Fatalf("harness: sys/rotate/root: %v; history %v", r, w.log)
	}
	w.nRootRot++
}

// authShares: a threshold of the shares that currently authorise a rekey (unseal shares, or recovery shares of the
// stored-key seal), starting at a generated offset.
func (w *c10haWorld) authShares(label string) [][]byte {
	keys, thr := w.keys, w.thr
	if !w.shamir {
		keys, thr = w.recKeys, w.recThr
	}
	off := 0
	if len(keys) > thr {
		off = rapid.IntRange(0, len(keys)-thr).Draw(w.rt, label)
	}
	return keys[off : off+thr]
}

// rekey runs one complete share-based rekey of the barrier on the active node.
func (w *c10haWorld) rekey(flavour string, shares, thr int) {
	a := w.act()
	c := a.c
	auth := w.authShares("rekeyShareOffset")
	verify := strings.Contains(flavour, "verify") || strings.Contains(flavour, "abandon")
	abandon := strings.Contains(flavour, "abandon")
	cfg := &SealConfig{SecretShares: shares, SecretThreshold: thr, VerificationRequired: verify}
	var res *RekeyResult
	rejected := func(step string, err error) {
		w.logf("rekey(%s) to %d/%d via node%d: %s refused", flavour, thr, shares, w.active, step)
		w.viol("valid-shares-rejected:rekey", map[string]any{"flavour": flavour, "step": step, "error": err.Error()}, "the currently valid shares were refused by a rekey (%s, %s) on active node %d: %v", flavour, step, w.active, err)
	}
	if strings.HasPrefix(flavour, "legacy") {
		_ = c.RekeyCancel(false)
		if herr := c.BarrierRekeyInit(cfg); herr != nil {
			w.t.Fatalf("harness: rekey init (%s): %v; history %v", flavour, herr, w.log)
		}
		rc, herr := c.RekeyConfig(false)
		if herr != nil || rc == nil {
			w.t.Fatalf("harness: rekey config (%s): %v", flavour, herr)
		}
		for j, k := range auth {
			var herr logical.HTTPCodedError
			if res, herr = c.BarrierRekeyUpdate(w.ctx, TestKeyCopy(k), rc.Nonce); herr != nil {
				rejected(fmt.Sprintf("update %d/%d", j+1, len(auth)), herr)
			}
		}
	} else {
		sm := c.sealManager
		ns := namespace.RootNamespace
		_ = sm.CancelRotation(w.ctx, ns.UUID, false)
		if _, err := sm.InitRotation(w.ctx, ns, cfg, false); err != nil {
			w.t.Fatalf("harness: rotation init (%s): %v; history %v", flavour, err, w.log)
		}
		rc := sm.RotationConfig(ns.UUID, false)
		if rc == nil {
			w.t.Fatalf("harness: no rotation config after init (%s)", flavour)
		}
		for j, k := range auth {
			var err error
			if res, err = sm.UpdateRotation(w.ctx, ns, TestKeyCopy(k), rc.Nonce, false); err != nil {
				rejected(fmt.Sprintf("update %d/%d", j+1, len(auth)), err)
			}
		}
	}
	if res == nil {
		w.t.Fatalf("harness: rekey (%s) did not complete with a threshold of shares; history %v", flavour, w.log)
	}
	if !w.shamir {
		// stored-key seal: the barrier's root key was replaced, no shares are handed out
		w.logf("rekey(%s) authorised by recovery shares via node%d", flavour, w.active)
		w.rekeyDone()
		return
	}
	if len(res.SecretShares) != shares {
		w.t.Fatalf("harness: rekey (%s) returned %d shares, want %d", flavour, len(res.SecretShares), shares)
	}
	issued := res.SecretShares
	if verify {
		if !res.VerificationRequired {
			w.t.Fatalf("harness: rekey (%s) did not wait for verification", flavour)
		}
		if abandon {
			if strings.HasPrefix(flavour, "legacy") {
				if herr := c.RekeyCancel(false); herr != nil {
					w.t.Fatalf("harness: rekey cancel: %v", herr)
				}
			} else if err := c.sealManager.CancelRotation(w.ctx, namespace.RootNamespaceUUID, false); err != nil {
				w.t.Fatalf("harness: rotation cancel: %v", err)
			}
			w.invalid = append(w.invalid, c10haShares{keys: issued, why: "never-verified"})
			w.logf("rekey(%s) to %d/%d via node%d: shares handed out, verification abandoned", flavour, thr, shares, w.active)
			return
		}
		done := false
		for j := 0; j < thr; j++ {
			var vr *RekeyVerifyResult
			var err error
			if strings.HasPrefix(flavour, "legacy") {
				var herr logical.HTTPCodedError
				vr, herr = c.RekeyVerify(w.ctx, TestKeyCopy(issued[j]), res.VerificationNonce, false)
				if herr != nil {
					err = herr
				}
			} else {
				vr, err = c.sealManager.VerifyRotation(w.ctx, namespace.RootNamespace, TestKeyCopy(issued[j]), res.VerificationNonce, false)
			}
			if err != nil {
				w.logf("rekey(%s) to %d/%d via node%d: verification refused", flavour, thr, shares, w.active)
				w.viol("issued-shares-fail-verification", map[string]any{"flavour": flavour, "error": err.Error()}, "the shares handed out by the rekey (%s) were refused by its verification: %v", flavour, err)
			}
			done = vr != nil && vr.Complete
		}
		if !done {
			w.t.Fatalf("harness: verification of rekey (%s) did not complete with a threshold of the new shares", flavour)
		}
	}
	w.invalid = append(w.invalid, c10haShares{keys: w.keys, why: "superseded"})
	w.keys, w.thr = issued, thr
	w.logf("rekey(%s) to %d/%d via node%d", flavour, thr, shares, w.active)
	w.rekeyDone()
}

// rotateRecovery replaces the recovery shares of the stored-key seal (they authorise the rekey of the barrier); the
// superseded recovery shares must not authorise anything afterwards.
func (w *c10haWorld) rotateRecovery(shares, thr int) {
	c := w.act().c
	sm := c.sealManager
	ns := namespace.RootNamespace
	auth := w.authShares("recoveryShareOffset")
	_ = sm.CancelRotation(w.ctx, ns.UUID, true)
	if _, err := sm.InitRotation(w.ctx, ns, &SealConfig{SecretShares: shares, SecretThreshold: thr}, true); err != nil {
		w.t.Fatalf("harness: recovery rotation init: %v; history %v", err, w.log)
	}
	rc := sm.RotationConfig(ns.UUID, true)
	if rc == nil {
		w.t.Fatalf("harness: no recovery rotation config after init")
	}
	var res *RekeyResult
	for j, k := range auth {
		var err error
		if res, err = sm.UpdateRotation(w.ctx, ns, TestKeyCopy(k), rc.Nonce, true); err != nil {
			w.logf("rotation of the recovery shares to %d/%d via node%d: update %d refused", thr, shares, w.active, j+1)
			w.viol("valid-shares-rejected:recovery-rotation", map[string]any{"error": err.Error()}, "the currently valid recovery shares were refused by a rotation of the recovery shares on active node %d: %v", w.active, err)
		}
	}
	if res == nil || len(res.SecretShares) != shares {
		w.t.Fatalf("harness: recovery rotation did not hand out %d shares: %+v", shares, res)
	}
	old := w.recKeys[:w.recThr]
	w.recKeys, w.recThr = res.SecretShares, thr
	w.logf("rotation of the recovery shares to %d/%d via node%d", thr, shares, w.active)
	w.nRecovery++
	// the superseded recovery shares authorise no rekey
	_ = c.RekeyCancel(false)
	if herr := c.BarrierRekeyInit(&SealConfig{}); herr != nil {
		w.t.Fatalf("harness: rekey init (probe with superseded recovery shares): %v", herr)
	}
	prc, herr := c.RekeyConfig(false)
	if herr != nil || prc == nil {
		w.t.Fatalf("harness: rekey config (probe): %v", herr)
	}
	for _, k := range old {
		pres, herr := c.BarrierRekeyUpdate(w.ctx, TestKeyCopy(k), prc.Nonce)
		if herr != nil {
			break
		}
		if pres != nil {
			w.logf("superseded recovery shares authorised a rekey")
			w.viol("superseded-recovery-shares-authorise-rekey", nil, "after the rotation of the recovery shares the superseded shares still authorised a rekey of the barrier on node %d", w.active)
		}
	}
	_ = c.RekeyCancel(false)
}

func (w *c10haWorld) rekeyDone() {
	w.nRekey++
	for i, n := range w.nodes {
		if i != w.active && !n.sealed {
			n.stale = true
		}
	}
	w.nodes[w.active].stale = false
}

// moveLeadership hands the lead to an unsealed standby: the active node steps down, or is sealed.
func (w *c10haWorld) moveLeadership(target int, bySeal bool, when string) {
	old := w.active
	w.gate.set(target)
	if bySeal {
		if err := w.act().seal(); err != nil {
			w.t.Fatalf("harness: seal of active node %d: %v", old, err)
		}
		w.nodes[old].sealed = true
		w.logf("seal active node%d, node%d takes over", old, target)
	} else {
		a := w.act()
		a.quiesceRestore()
		if err := a.c.StepDown(context.Background(), &logical.Request{Operation: logical.UpdateOperation, Path: "sys/step-down", ClientToken: w.root}); err != nil {
			w.t.Fatalf("harness: step-down of node %d: %v", old, err)
		}
		w.logf("step-down of node%d, node%d takes over", old, target)
	}
	if w.nodes[target].stale {
		w.staleLeader = true
	}
	w.nFailover++
	w.awaitStandby(old)
	w.awaitActive(target, when)
	w.act().quiesceRestore()
}

// sealNode: the active node is sealed (the process stays up); a standby is stopped.
func (w *c10haWorld) sealNode(i int) {
	n := w.nodes[i]
	if i == w.active {
		if err := n.tc.seal(); err != nil {
			w.t.Fatalf("harness: seal of node %d: %v", i, err)
		}
		w.active = -1
	} else {
		n.tc.shutdown()
		if n.tc.abandoned {
			panic(errCoreWedged)
		}
		n.down = true
	}
	n.sealed = true
}

// tryInvalid offers share sets that are not valid (superseded by a completed rekey, or handed out by a rotation whose
// verification was abandoned) to a sealed node: none of them may unseal it.
func (w *c10haWorld) tryInvalid(i int, when string) {
	if !w.shamir {
		return
	}
	c := w.nodes[i].tc.c
	from := 0
	if len(w.invalid) > 3 {
		from = len(w.invalid) - 3
	}
	for _, s := range w.invalid[from:] {
		for _, k := range s.keys {
			_, _ = c.Unseal(TestKeyCopy(k))
			if !c.Sealed() {
				break
			}
		}
		if !c.Sealed() {
			w.logf("node%d unsealed by %s shares", i, s.why)
			w.viol(s.why+"-shares-unseal", map[string]any{"node": i, "when": when}, "node %d was unsealed by %s shares (%s)", i, s.why, when)
		}
		c.ResetUnsealProcess()
	}
}

// reboot replaces the core object of a node (process restart).
func (w *c10haWorld) reboot(i int) {
	n := w.nodes[i]
	n.tc.shutdown()
	if n.tc.abandoned {
		panic(errCoreWedged)
	}
	n.tc = w.newCore(i, false)
}

// unsealNode brings a sealed node back with the currently valid shares; reboot replaces the core object (a process
// restart) instead of re-using the sealed one.
func (w *c10haWorld) unsealNode(i int, reboot, probeInvalid bool, when string) {
	n := w.nodes[i]
	reboot = reboot || n.down
	if reboot {
		w.reboot(i)
	}
	if probeInvalid {
		w.tryInvalid(i, when)
	}
	var keys [][]byte
	if w.shamir {
		off := 0
		if len(w.keys) > w.thr {
			off = rapid.IntRange(0, len(w.keys)-w.thr).Draw(w.rt, "unsealShareOffset")
		}
		keys = w.keys[off : off+w.thr]
	}
	w.logf("unseal node%d (reboot=%v) with the valid shares", i, reboot)
	err := n.tc.unseal(keys)
	if err != nil && !reboot && w.shamir {
		// The statement promises readability "after a restart". A process that was sealed while active keeps the seal
		// configuration it had cached; when a rekey on another node changed the threshold meanwhile, it miscounts the
		// shares until it is restarted. That refusal is counted and reported, the verdict is taken after the restart.
		// A refusal by a node whose cached configuration is current is a violation right away.
		cached, _ := n.tc.c.seal.BarrierConfig(w.ctx)
		if cached != nil && cached.SecretThreshold != w.thr {
			w.rec.Class("in-place unseal refused the valid shares (sealed process holds the share threshold from before a rekey elsewhere); verdict after its restart", 1)
			w.logf("node%d refused them in place (cached threshold %d, valid threshold %d); restarted", i, cached.SecretThreshold, w.thr)
			if os.Getenv("VERIF_C10HA_STRICT") != "" {
				w.viol("valid-shares-rejected:in-place-unseal-with-stale-threshold", map[string]any{"node": i, "cached_threshold": cached.SecretThreshold, "error": err.Error()}, "node %d, sealed while active and not restarted, refuses the currently valid shares after a rekey on another node changed the threshold %d -> %d: %v", i, cached.SecretThreshold, w.thr, err)
			}
			w.reboot(i)
			reboot = true
			err = n.tc.unseal(keys)
		}
	}
	if err != nil {
		w.viol("valid-shares-rejected:"+when, map[string]any{"node": i, "reboot": reboot, "error": err.Error()}, "node %d does not unseal with a threshold of the currently valid shares (%s): %v", i, when, err)
	}
	n.sealed, n.stale, n.down = false, false, false
	w.nUnseal++
	if w.active < 0 {
		w.gate.set(i)
		w.awaitActive(i, when)
		w.act().quiesceRestore()
	}
}

// restartAll seals every node and brings every node back with the currently valid shares.
func (w *c10haWorld) restartAll(when string) {
	activeFirst := rapid.Bool().Draw(w.rt, "sealActiveFirst")
	old := w.active
	order := []int{}
	for i, n := range w.nodes {
		if !n.sealed && i != old {
			order = append(order, i)
		}
	}
	if old >= 0 {
		if activeFirst {
			order = append([]int{old}, order...)
		} else {
			order = append(order, old)
		}
	}
	// the gate keeps preferring the old active node: no standby takes over while the cluster goes down
	for _, i := range order {
		w.sealNode(i)
	}
	w.active = -1
	w.logf("seal the active node and stop the standbys (active first=%v)", activeFirst)
	w.checkNodes(when)
	first := rapid.IntRange(0, len(w.nodes)-1).Draw(w.rt, "firstUp")
	for j := range w.nodes {
		i := (first + j) % len(w.nodes)
		w.unsealNode(i, rapid.Bool().Draw(w.rt, "reboot"), j == 0 || rapid.Bool().Draw(w.rt, "probeInvalid"), when)
	}
	w.nRestart++
	w.checkNodes(when)
	w.checkCanaries(when)
}

func TestVerif_C10_HARotation(t *testing.T) {
	rec := verifx.NewRecorder("C10", "ha-rotation", "2 or 3 cores on one in-memory store and one in-memory HA lock (Shamir seal with generated shares/threshold, or the stored-key test seal); generated history of canary write / keyring rotation / share-based rekey (legacy or seal-manager, plain, verified, or verification abandoned) / share-less root-key rotation / rotation of the recovery shares (stored-key seal) on the active node, step-down or seal of the active node (leadership moves to a generated standby), stop of a standby (the API refuses to seal one), unseal of a sealed node in place or as a new process, restart of the whole cluster; always ends with a restart of the whole cluster and a tour of the leadership through every node; oracle: every node unseals with a threshold of the currently valid shares, superseded or never-verified shares unseal nothing, sealed nodes serve nothing, every acknowledged canary reads back through every active node; non-trivial = at least one rekey or root-key rotation and at least one change of leadership before the final restart")
	defer rec.Flush()
	manualStepDownSleepPeriod = 5 * time.Millisecond
	maxSteps := verifx.Scale(10, 16)
	rapid.Check(t, func(rt *rapid.T) {
		defer recoverWedged(rec)
		w := &c10haWorld{t: t, rt: rt, rec: rec, active: -1, canaries: map[string]string{}, ctx: namespace.RootContext(context.Background())}
		w.shamir = rapid.IntRange(0, 3).Draw(rt, "sealKind") > 0
		shares := rapid.IntRange(1, 3).Draw(rt, "shares")
		thr := c10haThreshold(rt, shares, "threshold")
		nNodes := 2
		if rapid.IntRange(0, 2).Draw(rt, "thirdNode") == 0 {
			nNodes = 3
		}
		w.transactional = rapid.Bool().Draw(rt, "transactionalStorage")
		w.phys = verifx.NewRec(verifx.NewInmem(w.transactional))
		hab, err := inmem.NewInmemHA(nil, log.NewNullLogger())
		if err != nil {
			t.Fatalf("harness: %v", err)
		}
		w.hab = hab.(physical.HABackend)
		w.gate = newC10haGate()
		defer w.shutdownAll()
		defer func() {
			if r := recover(); r != nil {
				if _, ok := r.(c10haAbandon); !ok {
					panic(r)
				}
			}
		}()

		// ---- node 0 initialises the cluster and leads; the others join as unsealed standbys
		n0 := w.newCore(0, true)
		w.nodes = append(w.nodes, &c10haNode{tc: n0, sealed: true})
		params := &InitParams{BarrierConfig: &SealConfig{SecretShares: shares, SecretThreshold: thr}}
		if !w.shamir {
			params.RecoveryConfig = &SealConfig{SecretShares: shares, SecretThreshold: thr}
		}
		res, err := n0.c.Initialize(w.ctx, params)
		if err != nil {
			t.Fatalf("harness: Initialize: %v", err)
		}
		w.keys, w.thr = res.SecretShares, thr
		if !w.shamir {
			w.keys, w.thr = nil, 0
			w.recKeys, w.recThr = res.RecoveryShares, thr
		}
		if w.root, err = n0.c.DecodeSSCToken(res.RootToken); err != nil {
			t.Fatalf("harness: root token: %v", err)
		}
		n0.root = w.root
		for i := 1; i < nNodes; i++ {
			w.nodes = append(w.nodes, &c10haNode{tc: w.newCore(i, false), sealed: true})
		}
		w.logf("%s seal %d/%d, %d nodes, transactional=%v", w.sealName(), thr, shares, nNodes, w.transactional)
		for i := range w.nodes {
			w.unsealNode(i, false, false, "first-unseal")
		}
		w.nUnseal = 0
		w.write("k0", "base")

		steps := rapid.IntRange(2, maxSteps).Draw(rt, "steps")
		prev := ""
		for s := 0; s < steps; s++ {
			// The actions the current state allows, weighted. Key material and leadership are what the unit is about, and
			// their interleaving is where nodes can disagree: after an operation on key material a change of leadership
			// is favoured, after a change of leadership an operation on key material.
			var acts []string
			add := func(n int, as ...string) {
				for ; n > 0; n-- {
					acts = append(acts, as...)
				}
			}
			if w.active >= 0 {
				kw, lw := 4, 2
				switch prev {
				case "key":
					kw, lw = 2, 5
				case "lead":
					kw, lw = 5, 1
				}
				add(kw, "rekey", "rekey", "rotate-root", "rotate-root", "rotate-keyring")
				if !w.shamir {
					add(kw, "rotate-recovery")
				}
				if len(w.unsealedStandbys()) > 0 {
					add(lw, "step-down", "step-down", "step-down", "seal-active", "seal-active")
					add(1, "stop-standby", "stop-standby")
				} else {
					add(1, "seal-active")
				}
				add(1, "write", "write", "write", "write", "write", "restart-all", "restart-all")
			}
			if len(w.sealedNodes()) > 0 {
				add(1, "unseal", "unseal", "unseal", "unseal")
				if w.active < 0 {
					add(4, "unseal")
				}
			}
			if len(acts) == 0 {
				acts = append(acts, "restart-all")
			}
			a := acts[fairIndex(rt, "action", len(acts))]
			switch a {
			case "rekey", "rotate-root", "rotate-keyring", "rotate-recovery":
				prev = "key"
			case "step-down", "seal-active":
				prev = "lead"
			default:
				prev = ""
			}
			switch a {
			case "write":
				k := fmt.Sprintf("k%d", rapid.IntRange(0, 3).Draw(rt, "key"))
				w.write(k, fmt.Sprintf("v%d", s))
			case "rotate-keyring":
				w.rotateKeyring()
			case "rotate-root":
				w.rotateRoot()
			case "rekey":
				fl := []string{"legacy", "seal-manager"}
				if w.shamir {
					fl = []string{"legacy", "seal-manager", "legacy", "seal-manager", "legacy+verify", "seal-manager+verify", "legacy+abandon", "seal-manager+abandon"}
				}
				flavour := fl[fairIndex(rt, "rekeyFlavour", len(fl))]
				ns := rapid.IntRange(1, 3).Draw(rt, "newShares")
				nt := c10haThreshold(rt, ns, "newThreshold")
				w.rekey(flavour, ns, nt)
			case "rotate-recovery":
				ns := rapid.IntRange(1, 3).Draw(rt, "newRecoveryShares")
				nt := c10haThreshold(rt, ns, "newRecoveryThreshold")
				w.rotateRecovery(ns, nt)
			case "step-down", "seal-active":
				sb := w.unsealedStandbys()
				if len(sb) == 0 {
					// the only unsealed node is sealed: the cluster is down until a node is unsealed
					old := w.active
					w.sealNode(old)
					w.logf("seal active node%d, nobody left to take over", old)
				} else {
					target := sb[fairIndex(rt, "successor", len(sb))]
					w.moveLeadership(target, a == "seal-active", "takeover")
				}
			case "stop-standby":
				sb := w.unsealedStandbys()
				i := sb[fairIndex(rt, "standby", len(sb))]
				w.sealNode(i)
				w.logf("stop standby node%d", i)
			case "unseal":
				sn := w.sealedNodes()
				i := sn[fairIndex(rt, "sealedNode", len(sn))]
				w.unsealNode(i, rapid.Bool().Draw(rt, "reboot"), rapid.Bool().Draw(rt, "probeInvalid"), "unseal")
			case "restart-all":
				w.restartAll("restart")
			}
			w.checkNodes("step")
			w.checkCanaries("step")
		}

		// ---- every history ends with a restart of the whole cluster and a tour of the leadership
		nontrivial := w.nRekey+w.nRootRot > 0 && w.nFailover > 0
		w.restartAll("final-restart")
		for j := 1; j < len(w.nodes); j++ {
			target := (w.active + 1) % len(w.nodes)
			w.moveLeadership(target, false, "tour")
			w.checkNodes("tour")
			w.checkCanaries("tour")
		}

		cls := fmt.Sprintf("%s,nodes=%d", w.sealName(), len(w.nodes))
		hist := append([]string(nil), w.log...)
		rec.Case(cls, nontrivial, verifx.Digest(hist), func() any { return map[string]any{"history": hist} })
		if w.nRekey > 0 {
			rec.Class("history has a completed rekey", 1)
		}
		if w.nRootRot > 0 {
			rec.Class("history has a share-less root-key rotation", 1)
		}
		if w.nKeyring > 0 {
			rec.Class("history has a keyring rotation", 1)
		}
		if w.nFailover > len(w.nodes)-1 {
			rec.Class("history has a change of leadership before the final restart", 1)
		}
		if w.nRecovery > 0 {
			rec.Class("history has a rotation of the recovery shares (stored-key seal)", 1)
		}
		if w.nRestart > 1 {
			rec.Class("history has a restart of the whole cluster before the final one", 1)
		}
		if w.staleLeader {
			rec.Class("chain:rekey>leader-was-standby-during-it", 1)
		}
		if w.chain {
			rec.Class("chain:rekey>leader-was-standby-during-it>shareless-root-rotation>restart", 1)
		}
	})
}

// c10haThreshold draws a threshold valid for the share count (one share: 1; several shares: at least 2).
func c10haThreshold(rt *rapid.T, shares int, label string) int {
	if shares <= 1 {
		return 1
	}
	return rapid.IntRange(2, shares).Draw(rt, label)
}
