//go:build verif

package vault

// Shared harness code for the /verif checks that run against a whole in-memory core.

import (
	"context"
	"encoding/json"
	"errors"
	"fmt"
	"sort"
	"strings"
	"sync"
	"sync/atomic"
	"testing"
	"time"

	log "github.com/hashicorp/go-hclog"
	"github.com/openbao/openbao/sdk/v2/helper/verifx"
	"github.com/openbao/openbao/sdk/v2/helper/wrapping"
	"github.com/openbao/openbao/sdk/v2/logical"
	"github.com/openbao/openbao/sdk/v2/physical"
	"github.com/openbao/openbao/sdk/v2/physical/inmem"
	"github.com/openbao/openbao/v2/internal/audit"
	"github.com/openbao/openbao/v2/internal/helper/namespace"
	"github.com/openbao/openbao/v2/internal/vault/seal"
	"pgregory.net/rapid"
)

// vSeq is the global logical clock shared by recording backends and audit devices.
var vSeq int64

func nextSeq() int64 { return atomic.AddInt64(&vSeq, 1) }

// caseT adapts *testing.T for helpers that want Cleanup per generated case.
type caseT struct {
	*testing.T
	cleanups []func()
}

func (c *caseT) Cleanup(f func()) { c.cleanups = append(c.cleanups, f) }
func (c *caseT) done() {
	for i := len(c.cleanups) - 1; i >= 0; i-- {
		func() {
			defer func() { _ = recover() }()
			c.cleanups[i]()
		}()
	}
	c.cleanups = nil
}

type coreOpts struct {
	transactional bool
	phys          physical.Backend // if set, used instead of a fresh recording in-memory backend
	shamir        bool
	shares        int
	threshold     int
	cacheOff      bool
	logical       map[string]logical.Factory
	credential    map[string]logical.Factory
	audits        map[string]audit.Factory
	noInit        bool // storage already initialised (restart)
	keys          [][]byte
	ha            bool // single node with an in-memory HA lock: unseal goes to standby, then acquires leadership
	retryBase     time.Duration // base of the revocation retry back-off (0 = the default of 10s)
	crossNSIdentity bool        // unsafe_cross_namespace_identity: identity groups may have members from other namespaces
	raw             bool        // raw_storage_endpoint: sys/raw is served
}

// errCoreWedged: a core did not finish its shutdown within the harness' patience (a liveness problem outside the
// listed properties, see DESIGN.md 10.6). A second core must not be started on the same storage while the first may
// still be writing to it, so the case is abandoned as inconclusive.
var errCoreWedged = errors.New("harness: a core did not shut down; case abandoned")

// recoverWedged turns the abandonment of a case into a counted, inconclusive outcome; deferred by properties that
// restart cores on the same storage.
func recoverWedged(rec *verifx.Recorder) {
	if r := recover(); r != nil {
		if e, ok := r.(error); ok && errors.Is(e, errCoreWedged) {
			rec.Class("inconclusive:core-shutdown-wedged", 1)
			return
		}
		panic(r)
	}
}

type tcore struct {
	abandoned bool // shutdown timed out; the core may still be running
	t     *testing.T
	ct    *caseT
	c     *Core
	keys  [][]byte
	recoveryKeys [][]byte
	root  string
	phys  physical.Backend
	rec   *verifx.Rec
	opts  coreOpts
	ctx   context.Context
	close sync.Once
}

func newCoreConfig(ct *caseT, o *coreOpts) *CoreConfig {
	conf := testCoreConfig(ct, o.phys, log.NewNullLogger())
	for k, v := range o.logical {
		conf.LogicalBackends[k] = v
	}
	for k, v := range o.credential {
		conf.CredentialBackends[k] = v
	}
	for k, v := range o.audits {
		conf.AuditBackends[k] = v
	}
	if o.shamir {
		conf.Seal = NewTestSeal(ct, &seal.TestSealOpts{Wrapper: seal.WrapperTypeShamir, Logger: log.NewNullLogger()})
		if o.noInit {
			// NewTestSeal pre-loads a 1-of-1 configuration; a restarted server reads core/seal-config from storage
			if s, ok := conf.Seal.(interface{ SetCachedBarrierConfig(*SealConfig) }); ok {
				s.SetCachedBarrierConfig(nil)
			}
		}
	} else {
		conf.Seal = NewTestSeal(ct, &seal.TestSealOpts{Logger: log.NewNullLogger()})
	}
	conf.NumExpirationWorkers = numExpirationWorkersTest
	conf.ExpirationRevokeRetryBase = o.retryBase
	conf.UnsafeCrossNamespaceIdentity = o.crossNSIdentity
	conf.EnableRaw = o.raw
	if o.ha {
		hab, err := inmem.NewInmemHA(nil, log.NewNullLogger())
		if err != nil {
			panic(err)
		}
		conf.HAPhysical = hab.(physical.HABackend)
		conf.RedirectAddr = "http://127.0.0.1:8200"
		manualStepDownSleepPeriod = 5 * time.Millisecond
	}
	return conf
}

// bootCore creates, initialises and unseals a core; returns an error instead of failing the test.
func bootCore(t *testing.T, o coreOpts) (*tcore, error) {
	ct := &caseT{T: t}
	if o.phys == nil {
		o.phys = verifx.NewRec(verifx.NewInmem(o.transactional))
	}
	tc := &tcore{t: t, ct: ct, phys: o.phys, rec: verifx.RecOf(o.phys), opts: o, ctx: namespace.RootContext(context.Background())}
	conf := newCoreConfig(ct, &o)
	c, err := NewCore(conf)
	if err != nil {
		ct.done()
		return nil, fmt.Errorf("NewCore: %w", err)
	}
	tc.c = c
	if !o.noInit {
		shares, thr := o.shares, o.threshold
		if shares == 0 {
			shares, thr = 3, 3
			if o.shamir {
				shares, thr = 1, 1
			}
		}
		params := &InitParams{BarrierConfig: &SealConfig{SecretShares: shares, SecretThreshold: thr}}
		if !o.shamir {
			params.RecoveryConfig = &SealConfig{SecretShares: shares, SecretThreshold: thr}
		}
		res, err := c.Initialize(tc.ctx, params)
		if err != nil {
			tc.shutdown()
			return nil, fmt.Errorf("Initialize: %w", err)
		}
		tc.keys = res.SecretShares
		tc.recoveryKeys = res.RecoveryShares
		tc.root, err = c.DecodeSSCToken(res.RootToken)
		if err != nil {
			tc.shutdown()
			return nil, err
		}
	} else {
		tc.keys = o.keys
	}
	if err := tc.unseal(tc.keys); err != nil {
		tc.shutdown()
		return nil, err
	}
	if o.cacheOff {
		tc.c.physicalCache.SetEnabled(false)
		tc.c.physicalCache.Purge(tc.ctx)
	}
	return tc, nil
}

func (tc *tcore) unseal(keys [][]byte) error {
	for _, k := range keys {
		if _, err := tc.c.Unseal(TestKeyCopy(k)); err != nil {
			return fmt.Errorf("unseal: %w", err)
		}
	}
	if tc.c.Sealed() {
		if err := tc.c.UnsealWithStoredKeys(context.Background()); err != nil {
			return fmt.Errorf("unseal with stored keys: %w", err)
		}
	}
	if tc.c.Sealed() {
		return fmt.Errorf("core still sealed after unseal")
	}
	if tc.opts.ha {
		if err := tc.waitActive(30 * time.Second); err != nil {
			return err
		}
	}
	return nil
}

// stepDown makes the active node of an HA-enabled single-node cluster give up leadership and waits until it has
// acquired it again (new expiration manager, leases restored from storage).
func (tc *tcore) stepDown() error {
	tc.quiesceRestore()
	old := tc.c.expiration
	if err := tc.c.StepDown(context.Background(), &logical.Request{Operation: logical.UpdateOperation, Path: "sys/step-down", ClientToken: tc.root}); err != nil {
		tc.t.Fatalf("harness: step-down: %v", err)
	}
	deadline := time.Now().Add(30 * time.Second)
	for time.Now().Before(deadline) {
		tc.c.stateLock.RLock()
		cur, standby := tc.c.expiration, tc.c.Standby()
		tc.c.stateLock.RUnlock()
		if cur != nil && cur != old && !standby {
			break
		}
		time.Sleep(time.Millisecond)
	}
	if err := tc.waitActive(30 * time.Second); err != nil {
		return err
	}
	if tc.opts.cacheOff {
		tc.c.physicalCache.SetEnabled(false)
		tc.c.physicalCache.Purge(tc.ctx)
	}
	tc.quiesceRestore()
	return nil
}

// waitActive waits until an HA-enabled core has acquired leadership and finished its post-unseal setup.
func (tc *tcore) waitActive(d time.Duration) error {
	deadline := time.Now().Add(d)
	for time.Now().Before(deadline) {
		if tc.c.Sealed() {
			return fmt.Errorf("core sealed while waiting for leadership")
		}
		if !tc.c.Standby() {
			return nil
		}
		time.Sleep(time.Millisecond)
	}
	return fmt.Errorf("core did not become active within %v", d)
}

// quiesceRestore waits (bounded) until the expiration manager has finished restoring leases. Sealing or shutting
// down while the restore is still distributing leases can hang for good in this tree: ExpirationManager.Stop closes
// quitCh, the restore workers leave, the distributor goroutine stays blocked in its unconditional `broker <- lease`
// send, restore() never returns from wg.Wait(), and Stop() spins in `for m.inRestoreMode()` while the caller holds
// the state lock (observed in the thorough tier of C01; a liveness defect outside the listed properties, see
// DESIGN.md 10.6). The harness therefore never seals during a restore.
func (tc *tcore) quiesceRestore() {
	deadline := time.Now().Add(20 * time.Second)
	for time.Now().Before(deadline) {
		m := tc.c.expiration
		if m == nil || !m.inRestoreMode() {
			return
		}
		time.Sleep(2 * time.Millisecond)
	}
}

// seal seals the core (after any lease restore has finished).
func (tc *tcore) seal() error {
	tc.quiesceRestore()
	return tc.c.sealInternal()
}

func (tc *tcore) shutdown() {
	tc.close.Do(func() {
		if p := verifx.Try(tc.quiesceRestore); p != nil {
			tc.t.Logf("harness: quiesceRestore: %v", p)
		}
		done := make(chan struct{})
		go func() {
			defer close(done)
			defer func() { _ = recover() }()
			_ = tc.c.ShutdownWait()
		}()
		select {
		case <-done:
		case <-time.After(30 * time.Second):
			// a wedged core (e.g. a goroutine of a failed case still holds the state lock) is abandoned
			tc.t.Logf("harness: core shutdown did not finish within 30s; abandoning it")
			tc.abandoned = true
		}
		tc.ct.done()
	})
}

// restartOn boots a new core on the given physical backend (already initialised).
func (tc *tcore) restartOn(phys physical.Backend) (*tcore, error) {
	if tc.abandoned && phys == tc.phys {
		panic(errCoreWedged)
	}
	o := tc.opts
	o.phys = phys
	o.noInit = true
	o.keys = tc.keys
	n, err := bootCore(tc.t, o)
	if err != nil {
		return nil, err
	}
	n.root = tc.root
	return n, nil
}

func mustBoot(t *testing.T, o coreOpts) *tcore {
	tc, err := bootCore(t, o)
	if err != nil {
		t.Fatalf("harness: cannot boot core: %v", err)
	}
	return tc
}

// ---- requests

type rr struct {
	resp *logical.Response
	err  error
}

// ok: the request succeeded (no Go error, no error response).
func (r rr) ok() bool { return r.err == nil && (r.resp == nil || !r.resp.IsError()) }

func (r rr) String() string {
	if r.err != nil {
		return "err:" + verifx.Trunc(r.err.Error(), 120)
	}
	if r.resp == nil {
		return "nil"
	}
	if r.resp.IsError() {
		return "errresp:" + verifx.Trunc(fmt.Sprint(r.resp.Data["error"]), 120)
	}
	return "ok"
}

func (tc *tcore) do(req *logical.Request) rr {
	return tc.doCtx(tc.ctx, req)
}

func (tc *tcore) doCtx(ctx context.Context, req *logical.Request) (out rr) {
	if req.Connection == nil {
		req.Connection = &logical.Connection{RemoteAddr: "127.0.0.1"}
	}
	if p := verifx.Try(func() { out.resp, out.err = tc.c.HandleRequest(ctx, req) }); p != nil {
		out.err = fmt.Errorf("PANIC in HandleRequest: %v", p)
	}
	return out
}

func (tc *tcore) req(op logical.Operation, path, token string, data map[string]any) rr {
	return tc.do(&logical.Request{Operation: op, Path: path, ClientToken: token, Data: data})
}

func (tc *tcore) reqNS(ns *namespace.Namespace, op logical.Operation, path, token string, data map[string]any) rr {
	ctx := namespace.ContextWithNamespace(context.Background(), ns)
	return tc.doCtx(ctx, &logical.Request{Operation: op, Path: path, ClientToken: token, Data: data})
}

func (tc *tcore) mustOK(r rr, what string) *logical.Response {
	if !r.ok() {
		tc.t.Fatalf("harness: %s failed: %v", what, r)
	}
	return r.resp
}

func (tc *tcore) writePolicy(name, hcl string) {
	tc.mustOK(tc.req(logical.UpdateOperation, "sys/policy/"+name, tc.root, map[string]any{"policy": hcl}), "write policy "+name)
}

func (tc *tcore) mount(path, typ string, cfg map[string]any) {
	d := map[string]any{"type": typ}
	if cfg != nil {
		d["config"] = cfg
	}
	tc.mustOK(tc.req(logical.UpdateOperation, "sys/mounts/"+path, tc.root, d), "mount "+path)
}

func (tc *tcore) enableAuth(path, typ string) {
	tc.mustOK(tc.req(logical.UpdateOperation, "sys/auth/"+path, tc.root, map[string]any{"type": typ}), "enable auth "+path)
}

// createToken returns (token, accessor).
func (tc *tcore) createToken(parent string, data map[string]any) (string, string, rr) {
	r := tc.req(logical.UpdateOperation, "auth/token/create", parent, data)
	if !r.ok() || r.resp == nil || r.resp.Auth == nil {
		return "", "", r
	}
	return r.resp.Auth.ClientToken, r.resp.Auth.Accessor, r
}

func (tc *tcore) tokenAlive(tok string) bool {
	r := tc.req(logical.ReadOperation, "auth/token/lookup-self", tok, nil)
	return r.ok() && r.resp != nil
}

// waitExpirationIdle waits until the expiration manager's job queue has been seen empty a few times in a
// row. It is only a heuristic to let queued revocations start; oracles that depend on their completion
// poll for the fact itself with a bounded wait.
func (tc *tcore) waitExpirationIdle(d time.Duration) bool {
	deadline := time.Now().Add(d)
	idle := 0
	for time.Now().Before(deadline) {
		if tc.c.expiration == nil || tc.c.expiration.jobManager == nil || tc.c.expiration.jobManager.GetPendingJobCount() == 0 {
			idle++
			if idle >= 3 {
				return true
			}
		} else {
			idle = 0
		}
		time.Sleep(500 * time.Microsecond)
	}
	return false
}

// ---- recording logical / credential backend (E3)

type recCall struct {
	Seq     int64
	Mount   string
	Op      logical.Operation
	Path    string
	Token   string
	G       int64
	Enter   int64 // rec seq at handler entry
	Exit    int64
	ReqID   string
	Exist   bool // existence check, not a handler invocation
	Revoke  bool
	Renew   bool
	SecretN string
}

type recBE struct {
	name    string
	typ     logical.BackendType
	special *logical.Paths
	sys     logical.SystemView
	hub     *recHub
	uuid    string
}

// recHub collects what all recBE instances of one core saw.
type recHub struct {
	mu       sync.Mutex
	calls    []recCall
	issued   map[string]bool // secret ids handed out by creds/
	revoked  map[string]int
	renewed  map[string]int
	issuedBy map[string]string // secret id -> uuid of the backend instance that issued it
	misrouted []string         // revocations that arrived at a backend instance other than the issuing one
	failRevoke bool
	// the next failRevokeN revocations fail with failRevokeErr; revokeFailed counts them
	failRevokeN   int
	failRevokeErr error
	revokeFailed  int
	renewHook  func(ctx context.Context, req *logical.Request) // set before the requests start, called inside a renewal
	honourCtx  bool // a revocation arriving with a cancelled context fails (like a backend that hands ctx to its database)
	special  map[string]*logical.Paths // by backend type name
	nextID   int64
	// loginAuth, if set, produces the Auth a login returns
	loginAuth func(req *logical.Request) *logical.Auth
	physSeq   func() int64
	// hook, if set, runs inside the backend: stage "exist" at the start of an existence check, stage "handle" at the
	// start of a client operation's handler (after the invocation was recorded)
	hook func(stage string, ctx context.Context, req *logical.Request)
}

func newRecHub() *recHub {
	return &recHub{issued: map[string]bool{}, revoked: map[string]int{}, renewed: map[string]int{}, special: map[string]*logical.Paths{}}
}

func (h *recHub) factory(typeName string, typ logical.BackendType) logical.Factory {
	return func(ctx context.Context, conf *logical.BackendConfig) (logical.Backend, error) {
		h.mu.Lock()
		sp := h.special[typeName]
		h.mu.Unlock()
		if sp == nil {
			sp = &logical.Paths{Unauthenticated: []string{"unauth/*", "login"}, Root: []string{"root/*"}}
			if typ != logical.TypeCredential {
				sp.Unauthenticated = []string{"unauth/*"}
			}
		}
		return &recBE{name: typeName, typ: typ, special: sp, sys: conf.System, hub: h, uuid: conf.BackendUUID}, nil
	}
}

func (h *recHub) handlerCalls() []recCall {
	h.mu.Lock()
	defer h.mu.Unlock()
	var out []recCall
	for _, c := range h.calls {
		// periodic rollback calls of the rollback manager are not client requests
		if !c.Exist && c.Op != logical.RollbackOperation {
			out = append(out, c)
		}
	}
	return out
}

func (h *recHub) callCount() int {
	h.mu.Lock()
	defer h.mu.Unlock()
	n := 0
	for _, c := range h.calls {
		if !c.Exist && !c.Revoke && !c.Renew && c.Op != logical.RollbackOperation {
			n++
		}
	}
	return n
}

func (h *recHub) outstanding() []string {
	h.mu.Lock()
	defer h.mu.Unlock()
	var out []string
	for id := range h.issued {
		if h.revoked[id] == 0 {
			out = append(out, id)
		}
	}
	sort.Strings(out)
	return out
}

func (b *recBE) Initialize(ctx context.Context, r *logical.InitializationRequest) error { return nil }
func (b *recBE) SpecialPaths() *logical.Paths                                          { return b.special }
func (b *recBE) System() logical.SystemView                                            { return b.sys }
func (b *recBE) Logger() log.Logger                                                    { return log.NewNullLogger() }
func (b *recBE) Cleanup(ctx context.Context)                                           {}
func (b *recBE) InvalidateKey(ctx context.Context, key string)                         {}
func (b *recBE) Setup(ctx context.Context, config *logical.BackendConfig) error        { return nil }
func (b *recBE) Type() logical.BackendType                                             { return b.typ }

func (b *recBE) HandleExistenceCheck(ctx context.Context, req *logical.Request) (bool, bool, error) {
	b.hub.mu.Lock()
	b.hub.calls = append(b.hub.calls, recCall{Seq: nextSeq(), Mount: req.MountPoint, Op: req.Operation, Path: req.Path, Token: req.ClientToken, Exist: true, ReqID: req.ID})
	hook := b.hub.hook
	b.hub.mu.Unlock()
	if hook != nil {
		hook("exist", ctx, req)
	}
	if strings.HasPrefix(req.Path, "kv/") {
		e, err := req.Storage.Get(ctx, strings.TrimPrefix(req.Path, "kv/"))
		if err != nil {
			return true, false, nil
		}
		return true, e != nil, nil
	}
	return false, false, nil
}

func (b *recBE) HandleRequest(ctx context.Context, req *logical.Request) (*logical.Response, error) {
	h := b.hub
	call := recCall{Seq: nextSeq(), Mount: req.MountPoint, Op: req.Operation, Path: req.Path, Token: req.ClientToken, G: verifx.GoID(), ReqID: req.ID}
	if h.physSeq != nil {
		call.Enter = h.physSeq()
	}
	switch req.Operation {
	case logical.RevokeOperation:
		call.Revoke = true
	case logical.RenewOperation:
		call.Renew = true
	}
	idx := 0
	h.mu.Lock()
	h.calls = append(h.calls, call)
	idx = len(h.calls) - 1
	hook := h.hook
	h.mu.Unlock()
	if hook != nil && !call.Revoke && !call.Renew && req.Operation != logical.RollbackOperation {
		hook("handle", ctx, req)
	}
	if rh := h.renewHook; rh != nil && call.Renew {
		rh(ctx, req) // the secrets engine is working on a renewal: a scheduling point for harnesses that own the schedule
	}
	defer func() {
		if h.physSeq != nil {
			x := h.physSeq()
			h.mu.Lock()
			h.calls[idx].Exit = x
			h.mu.Unlock()
		}
	}()

	switch req.Operation {
	case logical.RevokeOperation:
		id, _ := req.Secret.InternalData["id"].(string)
		h.mu.Lock()
		fail := h.failRevoke
		var scripted error
		if !fail && h.failRevokeN > 0 {
			h.failRevokeN--
			fail, scripted = true, h.failRevokeErr
			h.revokeFailed++
		}
		if h.honourCtx && ctx.Err() != nil {
			h.mu.Unlock()
			return nil, ctx.Err()
		}
		if by, ok := h.issuedBy[id]; ok && by != b.uuid {
			h.misrouted = append(h.misrouted, fmt.Sprintf("secret %s issued by mount instance %s, revocation arrived at instance %s (mount %q)", id, by, b.uuid, req.MountPoint))
		} else if !fail {
			h.revoked[id]++
		}
		h.mu.Unlock()
		if fail {
			if scripted != nil {
				return nil, scripted
			}
			return nil, fmt.Errorf("recbe: revocation refused by script")
		}
		return nil, nil
	case logical.RenewOperation:
		if req.Secret != nil {
			id, _ := req.Secret.InternalData["id"].(string)
			h.mu.Lock()
			h.renewed[id]++
			h.mu.Unlock()
			resp := &logical.Response{Secret: req.Secret}
			return resp, nil
		}
		if req.Auth != nil {
			return &logical.Response{Auth: req.Auth}, nil
		}
		return nil, nil
	case logical.RollbackOperation:
		return nil, nil
	case logical.HelpOperation:
		return logical.HelpResponse("recbe", nil, nil), nil
	}

	p := req.Path
	switch {
	case strings.HasPrefix(p, "kv/") || p == "kv":
		key := strings.TrimPrefix(p, "kv/")
		if p == "kv" {
			key = ""
		}
		return b.kvOp(ctx, req, key)
	case p == "raw":
		key, _ := req.Data["key"].(string)
		return b.kvOp(ctx, req, key)
	case strings.HasPrefix(p, "creds/"):
		h.mu.Lock()
		h.nextID++
		id := fmt.Sprintf("sec-%d", h.nextID)
		h.issued[id] = true
		if h.issuedBy == nil {
			h.issuedBy = map[string]string{}
		}
		h.issuedBy[id] = b.uuid
		h.mu.Unlock()
		ttl := time.Hour
		if s, ok := req.Data["ttl"].(string); ok {
			if d, err := time.ParseDuration(s); err == nil {
				ttl = d
			}
		}
		if n, ok := req.Data["ttl_seconds"].(int); ok {
			ttl = time.Duration(n) * time.Second
		}
		var maxTTL time.Duration
		if n, ok := req.Data["max_ttl_seconds"].(int); ok {
			maxTTL = time.Duration(n) * time.Second
		}
		renewable := true
		if v, ok := req.Data["renewable"].(bool); ok {
			renewable = v
		}
		marker, _ := req.Data["marker"].(string)
		return &logical.Response{
			Secret: &logical.Secret{
				LeaseOptions: logical.LeaseOptions{TTL: ttl, MaxTTL: maxTTL, Renewable: renewable},
				InternalData: map[string]any{"id": id, "secret_type": "recbe"},
			},
			Data: map[string]any{"secret_id": id, "password": "pw-" + id, "marker": marker},
		}, nil
	case p == "login" || strings.HasPrefix(p, "login/"):
		if b.typ != logical.TypeCredential {
			return logical.ErrorResponse("not a credential backend"), nil
		}
		var a *logical.Auth
		if h.loginAuth != nil {
			a = h.loginAuth(req)
		}
		if a == nil {
			a = &logical.Auth{Policies: []string{"default"}, LeaseOptions: logical.LeaseOptions{TTL: time.Hour, Renewable: true}, DisplayName: "rec"}
		}
		return &logical.Response{Auth: a}, nil
	case strings.HasPrefix(p, "unauth/"), strings.HasPrefix(p, "root/"), strings.HasPrefix(p, "echo/"):
		marker, _ := req.Data["marker"].(string)
		resp := &logical.Response{Data: map[string]any{"path": p, "marker": marker, "op": string(req.Operation)}}
		if n, ok := req.Data["self_wrap_ttl_seconds"].(int); ok && n > 0 {
			// an engine that asks for its response to be wrapped (as pki, ssh or approle paths may), optionally
			// filling in more of the wrap info than the TTL
			cp, _ := req.Data["self_wrap_creation_path"].(string)
			resp.WrapInfo = &wrapping.ResponseWrapInfo{TTL: time.Duration(n) * time.Second, CreationPath: cp}
		}
		return resp, nil
	}
	return nil, logical.ErrUnsupportedPath
}

func (b *recBE) kvOp(ctx context.Context, req *logical.Request, key string) (*logical.Response, error) {
	switch req.Operation {
	case logical.ReadOperation:
		e, err := req.Storage.Get(ctx, key)
		if err != nil {
			return nil, err
		}
		if e == nil {
			return nil, nil
		}
		var d map[string]any
		if err := json.Unmarshal(e.Value, &d); err != nil {
			return nil, err
		}
		return &logical.Response{Data: d}, nil
	case logical.CreateOperation, logical.UpdateOperation, logical.PatchOperation:
		d := map[string]any{}
		for k, v := range req.Data {
			if k != "key" {
				d[k] = v
			}
		}
		buf, _ := json.Marshal(d)
		if err := req.Storage.Put(ctx, &logical.StorageEntry{Key: key, Value: buf}); err != nil {
			return nil, err
		}
		return nil, nil
	case logical.DeleteOperation:
		return nil, req.Storage.Delete(ctx, key)
	case logical.ListOperation, logical.ScanOperation:
		ks, err := req.Storage.List(ctx, key)
		if err != nil {
			return nil, err
		}
		return logical.ListResponse(ks), nil
	}
	return nil, logical.ErrUnsupportedOperation
}

// fairIndex draws an index in [0,n) from fair coin flips (rapid's integer and SampledFrom generators
// favour boundary values, which starves weighted choices).
func fairIndex(rt *rapid.T, label string, n int) int {
	if n <= 1 {
		return 0
	}
	v := 0
	for bits := 0; (1 << bits) < n*4; bits++ {
		v <<= 1
		if rapid.Bool().Draw(rt, label) {
			v |= 1
		}
	}
	return v % n
}
