//go:build verif

package vault

import (
	"encoding/json"
	"fmt"
	"strings"
	"testing"
	"time"

	"github.com/openbao/openbao/sdk/v2/helper/verifx"
	"github.com/openbao/openbao/sdk/v2/logical"
	"pgregory.net/rapid"
)

const c18Policy = `
path "rb/*" { capabilities = ["create","read","update","delete","list"] }
`

type c18Env struct {
	tc    *tcore
	hub   *recHub
	entUser string // requester whose access to rb/ comes from the policies of its identity entity
	user  string // requester token
	other string // third-party token (default policy only)
	n     int
}

func newC18Env(t *testing.T, transactional bool) *c18Env {
	hub := newRecHub()
	tc := mustBoot(t, coreOpts{transactional: transactional, cacheOff: true, retryBase: 40 * time.Millisecond,
		logical:    map[string]logical.Factory{"recbe": hub.factory("recbe", logical.TypeLogical)},
		credential: map[string]logical.Factory{"recauth": hub.factory("recauth", logical.TypeCredential)}})
	tc.mount("rb", "recbe", nil)
	tc.enableAuth("ra", "recauth")
	tc.writePolicy("c18", c18Policy)
	e := &c18Env{tc: tc, hub: hub}
	e.user, _, _ = tc.createToken(tc.root, map[string]any{"policies": []string{"default", "c18"}, "ttl": "1h"})
	tc.writePolicy("c18wrap", `path "sys/wrapping/*" { capabilities = ["update"] }`)
	e.other, _, _ = tc.createToken(tc.root, map[string]any{"policies": []string{"default", "c18wrap"}, "ttl": "1h"})
	if e.user == "" || e.other == "" {
		t.Fatalf("harness: cannot create tokens")
	}
	// a requester bound to an identity entity that carries the policy (its token only has "default")
	er, err := tc.c.identityStore.HandleRequest(tc.ctx, &logical.Request{Operation: logical.UpdateOperation, Path: "entity",
		Data: map[string]any{"name": "c18-entity", "policies": []string{"c18"}}})
	if err != nil || er == nil || er.IsError() {
		t.Fatalf("harness: entity: %v %v", er, err)
	}
	entityID, _ := er.Data["id"].(string)
	te := &logical.TokenEntry{Path: "test", Policies: []string{"default"}, EntityID: entityID, TTL: time.Hour}
	testMakeTokenDirectly(t, tc.ctx, tc.c.tokenStore, te)
	e.entUser = te.ID
	if r := tc.req(logical.ReadOperation, "rb/echo/probe", e.entUser, nil); !r.ok() {
		t.Fatalf("harness: the entity-bound requester cannot use its identity policy: %v", r)
	}
	for i := 0; i < 3; i++ {
		tc.mustOK(tc.req(logical.UpdateOperation, fmt.Sprintf("rb/kv/list/k%d", i), tc.root, map[string]any{"v": i}), "seed kv")
	}
	return e
}

// containsCanary searches a response (data, raw body, auth metadata, wrap info excluded) for the canary.
func containsCanary(resp *logical.Response, canary string) bool {
	if resp == nil {
		return false
	}
	b, _ := json.Marshal(resp.Data)
	if strings.Contains(string(b), canary) {
		return true
	}
	if raw, ok := resp.Data[logical.HTTPRawBody]; ok {
		switch v := raw.(type) {
		case []byte:
			if strings.Contains(string(v), canary) {
				return true
			}
		case string:
			if strings.Contains(v, canary) {
				return true
			}
		}
	}
	if resp.Auth != nil {
		ab, _ := json.Marshal(resp.Auth)
		if strings.Contains(string(ab), canary) {
			return true
		}
	}
	if resp.Secret != nil {
		sb, _ := json.Marshal(resp.Secret)
		if strings.Contains(string(sb), canary) {
			return true
		}
	}
	return false
}

var c18Sources = []string{"echo", "secret", "login", "kvread", "list", "selfwrap"}
var c18Attempts = []string{"unwrap-self", "unwrap-3p", "rewrap", "lookup", "revoke", "cubby-read", "misuse"}

type c18Task struct {
	kind      string
	res       rr
	delivered bool
	newTok    string // rewrap result
}

func TestVerif_C18_UnwrapOnce(t *testing.T) {
	rec := verifx.NewRecorder("C18", "unwrap-once", "a wrapped response (echo / leased secret / login / kv read / list) is created, then 2-4 concurrent attempts from {unwrap with the token as client token, unwrap with the token in the body under another token, rewrap, lookup, revoke by accessor, cubbyhole/response read, use on an ordinary path} run under a generated storage-step schedule (or sequentially, optionally after the wrap TTL lapsed, optionally with a restart of the server between two attempts); oracle: requester's response has wrap info only; payload deliveries over the whole chain (rewrapped tokens are redeemed afterwards) <= 1, and == 1 when every attempt was a redeeming one and none failed for another reason; afterwards token, accessor and cubbyhole entry are gone; lookup reports creation path and TTL; non-trivial = >=2 redeeming attempts (unwrap/rewrap/cubby-read) overlapping in the schedule, or a TTL lapse")
	defer rec.Flush()
	envs := map[bool]*c18Env{}
	defer func() {
		for _, e := range envs {
			e.tc.shutdown()
		}
	}()
	rapid.Check(t, func(rt *rapid.T) {
		defer recoverWedged(rec)
		txn := rapid.Bool().Draw(rt, "transactionalStorage")
		if envs[txn] == nil || envs[txn].n >= 30 {
			if envs[txn] != nil {
				envs[txn].tc.shutdown()
			}
			envs[txn] = newC18Env(t, txn)
		}
		e := envs[txn]
		e.n++
		tc := e.tc
		source := rapid.SampledFrom(c18Sources).Draw(rt, "source")
		canary := "CNRY" + rapid.StringMatching("[A-Za-z0-9]{20}").Draw(rt, "canary")
		mode := rapid.IntRange(0, 29).Draw(rt, "mode") // 0: sequential with TTL lapse, 1-5 sequential, else concurrent
		// the TTL-lapse mode waits 2.5 s: it must not be the value shrinking steers every failing case to
		switch mode {
		case 11, 17, 23:
			mode = 0
		case 0:
			mode = 6
		}
		k := rapid.IntRange(2, 4).Draw(rt, "attempts")
		tasks := make([]*c18Task, k)
		for i := range tasks {
			tasks[i] = &c18Task{kind: rapid.SampledFrom(c18Attempts).Draw(rt, fmt.Sprintf("attempt%d", i))}
		}
		wrapTTL := 5 * time.Minute
		if mode == 0 {
			wrapTTL = time.Second
		}
		requester := e.user
		viaEntity := fairIndex(rt, "requesterViaEntity", 3) == 0
		if viaEntity {
			requester = e.entUser
		}
		// ---- create the wrapped response
		var creq *logical.Request
		selfOnly := false
		switch source {
		case "echo":
			creq = &logical.Request{Operation: logical.UpdateOperation, Path: "rb/echo/w", ClientToken: requester, Data: map[string]any{"marker": canary}}
		case "secret":
			creq = &logical.Request{Operation: logical.UpdateOperation, Path: "rb/creds/w", ClientToken: requester, Data: map[string]any{"marker": canary}}
		case "selfwrap":
			// the engine asks for the wrapping itself and may fill in a creation path of its own choosing; the
			// path that created the token is the request's all the same
			creq = &logical.Request{Operation: logical.UpdateOperation, Path: "rb/echo/sw", ClientToken: requester, Data: map[string]any{"marker": canary,
				"self_wrap_ttl_seconds":   int(wrapTTL / time.Second),
				"self_wrap_creation_path": []string{"", "auth/approle/role/deploy/secret-id", "rb/echo/other", "sys/wrapping/rewrap"}[fairIndex(rt, "engineCreationPath", 4)]}}
			selfOnly = rapid.Bool().Draw(rt, "onlyTheEngineAsks")
		case "login":
			e.hub.mu.Lock()
			e.hub.loginAuth = func(req *logical.Request) *logical.Auth {
				m, _ := req.Data["marker"].(string)
				return &logical.Auth{Policies: []string{"default"}, Metadata: map[string]string{"marker": m}, LeaseOptions: logical.LeaseOptions{TTL: time.Hour, Renewable: true}}
			}
			e.hub.mu.Unlock()
			creq = &logical.Request{Operation: logical.UpdateOperation, Path: "auth/ra/login", Data: map[string]any{"marker": canary}}
		case "kvread":
			tc.mustOK(tc.req(logical.UpdateOperation, "rb/kv/wrapped", tc.root, map[string]any{"v": canary}), "seed")
			creq = &logical.Request{Operation: logical.ReadOperation, Path: "rb/kv/wrapped", ClientToken: requester}
		case "list":
			// a wrapped list response: the key names are the payload
			tc.mustOK(tc.req(logical.UpdateOperation, fmt.Sprintf("rb/kv/lst%d/%s", e.n, canary), tc.root, map[string]any{"v": "x"}), "seed")
			creq = &logical.Request{Operation: logical.ListOperation, Path: fmt.Sprintf("rb/kv/lst%d/", e.n), ClientToken: requester}
		}
		if !selfOnly {
			creq.WrapInfo = &logical.RequestWrapInfo{TTL: wrapTTL}
		}
		seq0 := tc.rec.Seq()
		cres := tc.do(creq)
		if !cres.ok() || cres.resp == nil || cres.resp.WrapInfo == nil || cres.resp.WrapInfo.Token == "" {
			t.Fatalf("harness: wrapping request failed: %v", cres)
		}
		wi := cres.resp.WrapInfo
		var cubbyKeys []string
		for _, o := range tc.rec.OpsSince(seq0) {
			if o.Kind == "put" && strings.HasPrefix(o.Key, "logical/") && strings.HasSuffix(o.Key, "/response") && o.Err == nil {
				cubbyKeys = append(cubbyKeys, o.Key)
			}
		}
		describe := func() map[string]any {
			ks := make([]string, len(tasks))
			for i, tk := range tasks {
				ks[i] = fmt.Sprintf("%s=%v delivered=%v", tk.kind, tk.res, tk.delivered)
			}
			return map[string]any{"source": source, "mode": mode, "attempts": ks, "transactional": txn, "requester_policies_via_entity": viaEntity}
		}
		if containsCanary(cres.resp, canary) {
			rec.Violation(rt, "payload-returned-to-requester", describe(), "the response to the original requester contains the wrapped payload")
		}
		// lookup before use reports creation path and ttl
		if lr := tc.req(logical.UpdateOperation, "sys/wrapping/lookup", e.other, map[string]any{"token": wi.Token}); !lr.ok() || lr.resp == nil {
			rec.Violation(rt, "lookup-failed", describe(), "sys/wrapping/lookup of a fresh wrapping token failed: %v", lr)
		} else {
			cp, _ := lr.resp.Data["creation_path"].(string)
			if cp != creq.Path {
				rec.Violation(rt, "lookup-wrong-path", describe(), "lookup reports creation_path %q, the wrapped request was %q", cp, creq.Path)
			}
			if ttl, ok := lr.resp.Data["creation_ttl"].(int64); ok && ttl != int64(wrapTTL/time.Second) {
				rec.Violation(rt, "lookup-wrong-ttl", describe(), "lookup reports creation_ttl %d, requested %d", ttl, int64(wrapTTL/time.Second))
			}
		}
		attempt := func(tk *c18Task, tok string) {
			switch tk.kind {
			case "unwrap-self":
				tk.res = tc.req(logical.UpdateOperation, "sys/wrapping/unwrap", tok, nil)
			case "unwrap-3p":
				tk.res = tc.req(logical.UpdateOperation, "sys/wrapping/unwrap", e.other, map[string]any{"token": tok})
			case "rewrap":
				tk.res = tc.req(logical.UpdateOperation, "sys/wrapping/rewrap", e.other, map[string]any{"token": tok})
				if tk.res.ok() && tk.res.resp != nil && tk.res.resp.WrapInfo != nil {
					tk.newTok = tk.res.resp.WrapInfo.Token
				}
			case "lookup":
				tk.res = tc.req(logical.UpdateOperation, "sys/wrapping/lookup", e.other, map[string]any{"token": tok})
			case "revoke":
				tk.res = tc.req(logical.UpdateOperation, "auth/token/revoke-accessor", tc.root, map[string]any{"accessor": wi.Accessor})
			case "cubby-read":
				tk.res = tc.req(logical.ReadOperation, "cubbyhole/response", tok, nil)
			case "misuse":
				before := e.hub.callCount()
				tk.res = tc.req(logical.ReadOperation, "rb/echo/misuse", tok, nil)
				if tk.res.ok() || e.hub.callCount() != before {
					tk.delivered = false
					tk.kind = "misuse-SUCCEEDED"
				}
			}
			if tk.res.ok() && containsCanary(tk.res.resp, canary) {
				tk.delivered = true
			}
		}
		lapsed := false
		overlapRedeem := false
		var trace []string
		if mode <= 5 {
			if mode == 0 {
				// the revocation the expiration manager starts when the wrap TTL runs out may itself be late or fail: in
				// half of these histories every listing of a token's children (the first storage step of a token
				// revocation) fails from before the expiry until the attempts are over. Late or not, the payload is
				// obtainable only before the TTL elapses.
				if rapid.Bool().Draw(rt, "expiryRevocationFails") {
					tc.rec.SetFault(func(o *verifx.Op) error {
						if o.Kind == "list" && strings.HasPrefix(o.Key, "sys/token/parent/") {
							return fmt.Errorf("verif: storage outage")
						}
						return nil
					})
					defer tc.rec.SetFault(nil)
					rec.Class("ttl-lapse-with-failing-expiry-revocation", 1)
				}
				time.Sleep(2500 * time.Millisecond)
				lapsed = true
			}
			// in sequential histories the server may be restarted between the attempts: the single right to the payload
			// and its loss are durable
			restartAt := -1
			if mode >= 1 && fairIndex(rt, "restartBetweenAttempts", 3) == 0 {
				restartAt = fairIndex(rt, "restartBeforeAttempt", len(tasks))
			}
			for i, tk := range tasks {
				if i == restartAt {
					tc.waitExpirationIdle(2 * time.Second)
					tc.shutdown()
					ntc, err := tc.restartOn(tc.phys)
					if err != nil {
						t.Fatalf("harness: restart: %v", err)
					}
					e.tc, tc = ntc, ntc
					rec.Class("restart-between-attempts", 1)
				}
				attempt(tk, wi.Token)
			}
			tc.rec.SetFault(nil)
		} else {
			sched := verifx.NewSched(tc.rec)
			defer func() {
				sched.RunToEnd(20 * time.Second)
				tc.rec.Gate = nil
				tc.rec.TaskOf = nil
			}()
			for i, tk := range tasks {
				tk := tk
				sched.Spawn(fmt.Sprintf("T%d-%s", i, tk.kind), func() { attempt(tk, wi.Token) })
			}
			cur := -1
			started := map[int]bool{}
			err := sched.Run(func(parked []int) int {
				stay := false
				for _, p := range parked {
					if p == cur {
						stay = true
					}
				}
				pick := cur
				if !(stay && rapid.IntRange(0, 9).Draw(rt, "step") < 6) {
					pick = parked[rapid.IntRange(0, len(parked)-1).Draw(rt, "pick")]
				}
				redeeming := func(i int) bool {
					k := tasks[i].kind
					return k == "unwrap-self" || k == "unwrap-3p" || k == "rewrap" || k == "cubby-read"
				}
				if !started[pick] && redeeming(pick) {
					for j := range started {
						if j != pick && redeeming(j) && !sched.Tasks()[j].Done {
							overlapRedeem = true
						}
					}
				}
				started[pick] = true
				cur = pick
				return pick
			})
			if err != nil {
				t.Fatalf("harness: %v", err)
			}
			tc.rec.Gate = nil
			trace = sched.Trace
			if len(trace) > 400 {
				trace = trace[:400]
			}
		}
		// redeem rewrapped tokens: the single right moved along the chain
		deliveries := 0
		for _, tk := range tasks {
			if tk.delivered {
				deliveries++
			}
		}
		chain := 0
		for _, tk := range tasks {
			tok := tk.newTok
			for tok != "" && chain < 6 {
				chain++
				// the right may travel further along a chain of rewraps; every generation reports the path that
				// created the wrapped response, and the previous generation is dead
				for hop, hops := 0, fairIndex(rt, "furtherRewraps", 3); hop < hops; hop++ {
					// the rewrap request may itself ask for a wrap TTL (the documented way to get a shorter- or
					// longer-lived copy): shorter than, equal to or longer than the original one
					rwReq := &logical.Request{Operation: logical.UpdateOperation, Path: "sys/wrapping/rewrap", ClientToken: e.other, Data: map[string]any{"token": tok}}
					rwTTL := []time.Duration{0, 0, wrapTTL / 2, wrapTTL, 2 * wrapTTL, 37 * time.Second}[fairIndex(rt, "rewrapRequestTTL", 6)]
					if rwTTL > 0 && wrapTTL > 2*time.Second {
						rwReq.WrapInfo = &logical.RequestWrapInfo{TTL: rwTTL}
						rec.Class("rewrap-with-request-ttl", 1)
					}
					rr2 := tc.do(rwReq)
					if !rr2.ok() || rr2.resp == nil || rr2.resp.WrapInfo == nil {
						break
					}
					prev := tok
					tok = rr2.resp.WrapInfo.Token
					rec.Class("rewrap-chain-hop", 1)
					if cp := rr2.resp.WrapInfo.CreationPath; cp != creq.Path {
						rec.Violation(rt, "lookup-wrong-path:after-rewrap", describe(), "the wrap info returned by rewrap number %d reports creation_path %q, the wrapped request was %q", hop+2, cp, creq.Path)
					}
					if lr := tc.req(logical.UpdateOperation, "sys/wrapping/lookup", e.other, map[string]any{"token": tok}); lr.ok() && lr.resp != nil {
						if cp, _ := lr.resp.Data["creation_path"].(string); cp != creq.Path {
							rec.Violation(rt, "lookup-wrong-path:after-rewrap", describe(), "lookup of the token produced by rewrap number %d reports creation_path %q, the wrapped request was %q", hop+2, cp, creq.Path)
						}
					} else {
						rec.Violation(rt, "lookup-failed:after-rewrap", describe(), "sys/wrapping/lookup of a freshly rewrapped token failed: %v", lr)
					}
					if pr := tc.req(logical.UpdateOperation, "sys/wrapping/unwrap", e.other, map[string]any{"token": prev}); pr.ok() && containsCanary(pr.resp, canary) {
						deliveries++
					}
				}
				r := tc.req(logical.UpdateOperation, "sys/wrapping/unwrap", tok, nil)
				if r.ok() && containsCanary(r.resp, canary) {
					deliveries++
				}
				// a second redemption of the same rewrapped token must fail
				r2 := tc.req(logical.UpdateOperation, "sys/wrapping/unwrap", e.other, map[string]any{"token": tok})
				if r2.ok() && containsCanary(r2.resp, canary) {
					deliveries++
				}
				tok = ""
			}
		}
		d := describe()
		d["schedule"] = trace
		d["deliveries"] = deliveries
		for _, tk := range tasks {
			if tk.kind == "misuse-SUCCEEDED" {
				rec.Violation(rt, "wrapping-token-grants-other-path", d, "a request on an ordinary path succeeded with the wrapping token")
			}
			if tk.res.err != nil && strings.Contains(tk.res.err.Error(), "PANIC") {
				rec.Violation(rt, "panic", d, "attempt panicked: %v", tk.res.err)
			}
		}
		if deliveries > 1 {
			rec.Violation(rt, "payload-delivered-more-than-once", d, "the wrapped payload was delivered %d times", deliveries)
		}
		if lapsed && deliveries > 0 {
			rec.Violation(rt, "payload-delivered-after-ttl", d, "the wrapped payload was delivered after the wrap TTL had elapsed")
		}
		allRedeeming := true
		for _, tk := range tasks {
			if !(tk.kind == "unwrap-self" || tk.kind == "unwrap-3p" || tk.kind == "rewrap" || tk.kind == "cubby-read") {
				allRedeeming = false
			}
		}
		if allRedeeming && !lapsed && deliveries != 1 {
			rec.Violation(rt, "payload-lost", d, "every attempt was a redeeming one and ran to completion, but the payload was delivered %d times (expected exactly once)", deliveries)
		}
		// afterwards: if something redeemed or revoked it, token, accessor and stored payload are gone
		consumed := deliveries > 0 || lapsed
		for _, tk := range tasks {
			if tk.kind == "revoke" && tk.res.ok() {
				consumed = true
			}
			if tk.kind == "misuse" || tk.kind == "rewrap" && tk.res.ok() {
				consumed = true
			}
		}
		if consumed {
			wait := 10 * time.Second
			if mode > 5 {
				for _, tk := range tasks {
					if tk.kind == "revoke" && tk.res.ok() {
						wait = 3 * time.Second // candidate for known finding F8 (never completes): do not wait long
					}
				}
			}
			deadline := time.Now().Add(wait)
			for {
				lr := tc.req(logical.UpdateOperation, "sys/wrapping/lookup", e.other, map[string]any{"token": wi.Token})
				ar := tc.req(logical.UpdateOperation, "auth/token/lookup-accessor", tc.root, map[string]any{"accessor": wi.Accessor})
				remaining := ""
				for _, ck := range cubbyKeys {
					if ent, err := tc.rec.Inner.Get(tc.ctx, ck); err == nil && ent != nil {
						remaining = ck
					}
				}
				if !(lr.ok() && lr.resp != nil) && !(ar.ok() && ar.resp != nil) && remaining == "" {
					break
				}
				if time.Now().After(deadline) {
					if lapsed {
						rec.Class("inconclusive-expiry-wait", 1)
						break
					}
					var all []string
					for _, o := range tc.rec.OpsSince(seq0) {
						if len(all) < 400 {
							all = append(all, fmt.Sprintf("g%d[%s] %s %s err=%v", o.G, o.Task, o.Kind, keyClass(o.Key), o.Err))
						}
					}
					d["all_storage_ops"] = all
					sig := "wrapping-token-remains"
					if mode > 5 {
						rv, rd := false, false
						for _, tk := range tasks {
							if tk.kind == "revoke" && tk.res.ok() {
								rv = true
							}
							if tk.kind == "unwrap-self" || tk.kind == "unwrap-3p" || tk.kind == "rewrap" || tk.kind == "cubby-read" || tk.kind == "misuse" {
								rd = true
							}
						}
						if rv && rd {
							// two revocations of the same token in flight at once: an explicit one and the one a use of the token triggers
							sig = "wrapping-token-remains:explicit-revoke-races-use"
						}
					}
					rec.Violation(rt, sig, d, "after the payload was redeemed/revoked the wrapping token still exists (lookup ok=%v, accessor ok=%v, stored payload key %q)", lr.ok() && lr.resp != nil, ar.ok() && ar.resp != nil, remaining)
					break
				}
				time.Sleep(3 * time.Millisecond)
			}
		}
		cls := "concurrent"
		if mode <= 5 {
			cls = "sequential"
		}
		if lapsed {
			cls = "ttl-lapse"
		}
		kinds := make([]string, len(tasks))
		for i, tk := range tasks {
			kinds[i] = tk.kind
		}
		rec.Case(cls+":"+source, overlapRedeem || lapsed, verifx.Digest(source, mode, kinds, trace), func() any { return d })
	})
}
