//go:build verif

package vault

import (
	"fmt"
	"strings"
	"sync"
	"testing"
	"time"

	"github.com/openbao/openbao/sdk/v2/helper/verifx"
	"github.com/openbao/openbao/sdk/v2/logical"
	"pgregory.net/rapid"
)

// kinds of requests of a sequential history (every one of them is certain to have been processed when it returns)
var c19HistKinds = []string{"echo", "kvread", "kvwrite", "denied", "creds", "lookup", "child", "child-orphan", "ns-echo", "ns-kvwrite"}

// usesLeft asks the server (as root, by accessor: this does not present the token) how many uses it still grants.
func (e *c19Env) usesLeft(acc string) (int, bool) {
	lr := e.tc.req(logical.UpdateOperation, "auth/token/lookup-accessor", e.tc.root, map[string]any{"accessor": acc})
	if !lr.ok() || lr.resp == nil {
		return 0, false
	}
	switch v := lr.resp.Data["num_uses"].(type) {
	case int:
		return v, true
	case int64:
		return int(v), true
	}
	return 0, false
}

// TestVerif_C19_Histories: sequential multi-step histories of one use-limited token. The dimensions that the schedule
// unit does not have: where the token comes from (created by root, or the login token of an auth method that sets a use
// limit and an identity alias, so that the token belongs to an entity), what happens to that entity between two uses
// (disabled for a window of the history and enabled again, or deleted), and a single failing storage read met by the
// background revocation of the spent token (which record, which read).
func TestVerif_C19_Histories(t *testing.T) {
	rec := verifx.NewRecorder("C19", "histories", "sequential history of m in n+1..n+3 requests (echo/kv/policy-denied/lease-generating/lookup-self/child create/child namespace) presenting one token with a use limit n in 1..4; the token is made by root or is the login token of an auth method (token_num_uses + identity alias: bound to an entity); the entity is disabled before request a and enabled again before request b (or only before the final probe), or deleted before request a; optionally the revocation that follows the final use meets ONE failing storage read (the j-th read, j in 1..3, of the token entry or of the token's lease record by a goroutine other than the requester's) and has to be retried; oracle: no request after the n-th is served, the server never reports more than n-k uses left after k requests (denied ones included), the first n requests succeed exactly when policy and entity allow, no child token, token refused afterwards (entity enabled), entry and every secret leased under it gone after a bounded wait; non-trivial = every case (m > n requests were processed)")
	defer rec.Flush()
	envs := map[bool]*c19Env{}
	used := map[bool]int{}
	defer func() {
		for _, e := range envs {
			e.tc.shutdown()
		}
	}()
	rapid.Check(t, func(rt *rapid.T) {
		defer recoverWedged(rec)
		self := verifx.GoID()
		txn := rapid.Bool().Draw(rt, "transactionalStorage")
		if envs[txn] == nil || used[txn] >= 40 {
			if envs[txn] != nil {
				envs[txn].tc.shutdown()
			}
			envs[txn] = newC19Env(t, txn)
			used[txn] = 0
		}
		used[txn]++
		env := envs[txn]
		tc, hub := env.tc, env.hub
		tc.rec.Gate = nil
		n := rapid.IntRange(1, 4).Draw(rt, "n")
		m := rapid.IntRange(n+1, n+3).Draw(rt, "m")
		tasks := make([]*c19Task, m)
		for i := range tasks {
			tasks[i] = &c19Task{kind: rapid.SampledFrom(c19HistKinds).Draw(rt, fmt.Sprintf("kind%d", i))}
		}
		source := []string{"login-entity", "login-entity", "create"}[fairIndex(rt, "tokenSource", 3)]
		// what happens to the token's entity: nothing; disabled before request `from`, enabled again before request
		// `until` (until == m: only before the final probe); deleted before request `from`
		script, from, until := "none", -1, -1
		if source == "login-entity" {
			script = []string{"none", "disabled-window", "disabled-window", "deleted"}[fairIndex(rt, "entityScript", 4)]
			if script != "none" {
				from = rapid.IntRange(0, m-1).Draw(rt, "entityEventBeforeRequest")
			}
			if script == "disabled-window" {
				until = rapid.IntRange(from+1, m).Draw(rt, "entityEnabledBeforeRequest")
			}
		}
		entityOK := func(i int) bool {
			switch script {
			case "disabled-window":
				return i < from || i >= until
			case "deleted":
				return i < from
			}
			return true
		}
		// one failing read for the revocation that the final use queues
		faultKey, faultNth := "none", 0
		if fairIndex(rt, "faultDuringRevocation", 2) == 0 {
			faultKey = []string{"token-entry", "token-entry", "token-lease"}[fairIndex(rt, "faultRecord", 3)]
			faultNth = 1 + fairIndex(rt, "faultNthRead", 3)
			if n >= 2 && rapid.Bool().Draw(rt, "tokenHoldsLease") {
				tasks[0].kind = "creds"
			}
		}

		// ---- the token
		var tok, acc, entityID string
		if source == "create" {
			var r rr
			tok, acc, r = tc.createToken(tc.root, map[string]any{"policies": []string{"c19"}, "ttl": "1h", "num_uses": n})
			if tok == "" {
				t.Fatalf("harness: cannot create use-limited token: %v", r)
			}
		} else {
			alias := fmt.Sprintf("c19u%d", nextSeq())
			hub.mu.Lock()
			hub.loginAuth = func(req *logical.Request) *logical.Auth {
				return &logical.Auth{Policies: []string{"c19"}, NumUses: n, Alias: &logical.Alias{Name: alias},
					LeaseOptions: logical.LeaseOptions{TTL: time.Hour, Renewable: true}, DisplayName: "rec"}
			}
			hub.mu.Unlock()
			r := tc.do(&logical.Request{Operation: logical.UpdateOperation, Path: "auth/ra/login"})
			if !r.ok() || r.resp == nil || r.resp.Auth == nil || r.resp.Auth.ClientToken == "" {
				t.Fatalf("harness: login failed: %v", r)
			}
			tok, acc, entityID = r.resp.Auth.ClientToken, r.resp.Auth.Accessor, r.resp.Auth.EntityID
			if entityID == "" {
				t.Fatalf("harness: login token has no entity")
			}
			if r.resp.Auth.NumUses != n {
				t.Fatalf("harness: login token has num_uses %d, wanted %d", r.resp.Auth.NumUses, n)
			}
		}
		salted := env.saltedID(t, tok)
		setDisabled := func(d bool) {
			tc.mustOK(tc.req(logical.UpdateOperation, "identity/entity/id/"+entityID, tc.root, map[string]any{"disabled": d}), "entity disabled flag")
		}
		accBefore := env.accessors()

		var mu sync.Mutex
		seen, fired := 0, ""
		results := make([]string, 0, m)
		describe := func() map[string]any {
			mu.Lock()
			f := fired
			mu.Unlock()
			return map[string]any{"n": n, "m": m, "token": source, "entity_script": script, "entity_event_before_request": from, "entity_enabled_before_request": until,
				"fault_record": faultKey, "fault_nth_background_read": faultNth, "fault_fired_at": f, "requests": results, "transactional": txn}
		}
		for i, tk := range tasks {
			if i == from {
				if script == "deleted" {
					tc.mustOK(tc.req(logical.DeleteOperation, "identity/entity/id/"+entityID, tc.root, nil), "entity delete")
				} else {
					setDisabled(true)
				}
			}
			if i == until {
				setDisabled(false)
			}
			if faultKey != "none" && i == n-1 {
				tc.rec.SetFault(func(o *verifx.Op) error {
					if o.Kind != "get" || o.G == self {
						return nil
					}
					switch faultKey {
					case "token-entry":
						if o.Key != "sys/token/id/"+salted {
							return nil
						}
					case "token-lease":
						if !strings.HasPrefix(o.Key, "sys/expire/id/auth/") || !strings.HasSuffix(o.Key, "/"+salted) {
							return nil
						}
					}
					mu.Lock()
					defer mu.Unlock()
					seen++
					if seen != faultNth {
						return nil
					}
					fired = o.String()
					return fmt.Errorf("verif: storage read failed")
				})
				defer tc.rec.SetFault(nil)
			}
			before := len(hub.handlerCalls())
			tk.res = env.request(tk.kind, i, tok)
			tk.ok = tk.res.ok()
			reached := 0
			for _, c := range hub.handlerCalls()[before:] {
				if !c.Revoke && !c.Renew {
					reached++
				}
			}
			results = append(results, fmt.Sprintf("%s=%v reached-backend=%d entity-ok=%v", tk.kind, tk.res, reached, entityOK(i)))
			if tk.res.err != nil && strings.Contains(tk.res.err.Error(), "PANIC") {
				rec.Violation(rt, "panic", describe(), "request %d panicked: %v", i, tk.res.err)
			}
			if strings.HasPrefix(tk.kind, "child") && tk.ok {
				rec.Violation(rt, "child-created", describe(), "request %d created a child token with a use-limited token", i)
			}
			if i >= n && (tk.ok || reached > 0) {
				rec.Violation(rt, "more-than-n-uses", describe(), "token with num_uses=%d: request %d (the %d-th that presented it, earlier ones denied or not) was served (success=%v, backend handler invocations=%d)", n, i, i+1, tk.ok, reached)
			}
			if i < n {
				if tk.kind == "creds" && i == n-1 {
					if tk.res.resp != nil && tk.res.resp.Secret != nil && tk.res.resp.Secret.LeaseID != "" {
						rec.Violation(rt, "secret-returned-on-final-use", describe(), "request %d (lease-generating) consumed the last use but the secret was returned", i)
					}
				} else if want := entityOK(i) && tk.kind != "denied" && !strings.HasPrefix(tk.kind, "child"); tk.ok != want {
					rec.Violation(rt, "sequential-count", describe(), "request %d (%s) with num_uses=%d, entity usable=%v: success=%v, expected %v (%v)", i, tk.kind, n, entityOK(i), tk.ok, want, tk.res)
				}
				// k = i+1 requests presented the token, whatever their outcome: at most n-k uses can be left
				if left, ok := env.usesLeft(acc); ok && left > n-i-1 {
					rec.Violation(rt, "use-not-counted", describe(), "token with num_uses=%d: after %d requests that presented it (this one: %s -> %v) the server reports %d uses left", n, i+1, tk.kind, tk.res, left)
				}
			}
		}
		if script == "disabled-window" && until == m {
			setDisabled(false)
		}
		tc.waitExpirationIdle(2 * time.Second)
		for a := range env.accessors() {
			if !accBefore[a] {
				rec.Violation(rt, "child-created", describe(), "a new token accessor %s appeared while only a use-limited token was used", a)
			}
		}
		// m > n requests are done (and the entity, if it still exists, is enabled): the token must be dead
		before := len(hub.handlerCalls())
		post := tc.req(logical.ReadOperation, "rb/echo/after", tok, nil)
		postReached := false
		for _, c := range hub.handlerCalls()[before:] {
			if c.Path == "echo/after" && !c.Revoke && !c.Renew {
				postReached = true
			}
		}
		if post.ok() || postReached {
			rec.Violation(rt, "alive-after-uses", describe(), "token still authorises a request after %d requests with num_uses=%d", m, n)
		}
		if left, ok := env.usesLeft(acc); ok && left > 0 {
			rec.Violation(rt, "use-not-counted", describe(), "token with num_uses=%d: after %d requests that presented it the server reports %d uses left", n, m+1, left)
		}
		env.awaitRevocation(rt, rec, tok, salted, acc, n, describe)
		mu.Lock()
		didFire := fired != ""
		mu.Unlock()
		if faultKey != "none" {
			if didFire {
				rec.Class("revocation-read-fault-fired:"+faultKey, 1)
			} else {
				rec.Class("revocation-read-fault-not-reached", 1)
			}
		}
		rec.Class("entity:"+script, 1)
		kinds := make([]string, len(tasks))
		for i, tk := range tasks {
			kinds[i] = tk.kind
		}
		rec.Case(source+"/"+script, true, verifx.Digest(n, m, kinds, source, script, from, until, faultKey, faultNth, txn), func() any { return describe() })
	})
}
