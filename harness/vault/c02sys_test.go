//go:build verif

package vault

// C02, system / auth backend unit: the statement covers "a secrets, auth or system backend handler". The authz unit
// judges recording secrets backends; this unit sends state-changing and root-protected requests to the system backend,
// the token backend and a credential backend with tokens whose policies are generated over exactly those paths.

import (
	"context"
	"encoding/json"
	"fmt"
	"sort"
	"strings"
	"testing"
	"time"

	"github.com/openbao/openbao/sdk/v2/helper/verifx"
	"github.com/openbao/openbao/sdk/v2/logical"
	"github.com/openbao/openbao/v2/internal/helper/namespace"
	"pgregory.net/rapid"
)

// c02SysItem is one kind of request against a built-in backend.
type c02SysItem struct {
	name     string
	op       logical.Operation
	path     string // relative to the request namespace
	data     func(i int) map[string]any
	sudo     bool // listed as root-protected in docs/concepts/policies.mdx ("Root protected API endpoints")
	rootOnly bool // only sent in the root namespace
	// skipAllowed: the request is only sent when the reference says it must be refused (its effect would disturb
	// the harness: asynchronous, or needs a device the test core does not have)
	skipAllowed bool
	recbe       bool // served by the recording credential backend: handler invocations are observable
	unauth      bool // declared unauthenticated by the backend
}

var c02SysItems = []c02SysItem{
	{name: "mount-enable", op: logical.UpdateOperation, path: "sys/mounts/m1", data: func(int) map[string]any { return map[string]any{"type": "recbe"} }},
	{name: "mount-disable", op: logical.DeleteOperation, path: "sys/mounts/m1"},
	{name: "mount-tune", op: logical.UpdateOperation, path: "sys/mounts/rb/tune", data: func(i int) map[string]any { return map[string]any{"description": fmt.Sprintf("d%d", i)} }},
	{name: "auth-enable", op: logical.UpdateOperation, path: "sys/auth/a1", sudo: true, data: func(int) map[string]any { return map[string]any{"type": "rbauth"} }},
	{name: "auth-disable", op: logical.DeleteOperation, path: "sys/auth/a1", sudo: true},
	{name: "auth-tune", op: logical.UpdateOperation, path: "sys/auth/rbauth/tune", sudo: true, rootOnly: true, data: func(i int) map[string]any { return map[string]any{"description": fmt.Sprintf("d%d", i)} }},
	{name: "auth-tune-read", op: logical.ReadOperation, path: "sys/auth/rbauth/tune", sudo: true, rootOnly: true},
	{name: "policy-write", op: logical.UpdateOperation, path: "sys/policy/px", data: func(i int) map[string]any {
		return map[string]any{"policy": fmt.Sprintf("path \"rb/kv/v%d\" { capabilities = [\"read\"] }", i)}
	}},
	{name: "policy-write-acl", op: logical.UpdateOperation, path: "sys/policies/acl/px", data: func(i int) map[string]any {
		return map[string]any{"policy": fmt.Sprintf("path \"rb/kv/w%d\" { capabilities = [\"read\"] }", i)}
	}},
	{name: "policy-delete", op: logical.DeleteOperation, path: "sys/policy/px"},
	{name: "policy-read", op: logical.ReadOperation, path: "sys/policy/px"},
	{name: "namespace-create", op: logical.UpdateOperation, path: "sys/namespaces/nx"},
	{name: "namespace-delete", op: logical.DeleteOperation, path: "sys/namespaces/nx"},
	{name: "rotate", op: logical.UpdateOperation, path: "sys/rotate", sudo: true, rootOnly: true},
	{name: "rotate-keyring", op: logical.UpdateOperation, path: "sys/rotate/keyring", sudo: true, rootOnly: true},
	{name: "revoke-prefix", op: logical.UpdateOperation, path: "sys/leases/revoke-prefix/rb/creds", sudo: true},
	{name: "revoke-force", op: logical.UpdateOperation, path: "sys/leases/revoke-force/rb/creds", sudo: true},
	{name: "leases-list", op: logical.ListOperation, path: "sys/leases/lookup/rb/creds/", sudo: true},
	{name: "cors-write", op: logical.UpdateOperation, path: "sys/config/cors", sudo: true, rootOnly: true, data: func(i int) map[string]any {
		return map[string]any{"allowed_origins": fmt.Sprintf("http://o%d.example", i)}
	}},
	{name: "cors-delete", op: logical.DeleteOperation, path: "sys/config/cors", sudo: true, rootOnly: true},
	{name: "cors-read", op: logical.ReadOperation, path: "sys/config/cors", sudo: true, rootOnly: true},
	{name: "audited-header-write", op: logical.UpdateOperation, path: "sys/config/auditing/request-headers/X-C02", sudo: true, rootOnly: true, data: func(i int) map[string]any { return map[string]any{"hmac": i%2 == 0} }},
	{name: "audited-header-delete", op: logical.DeleteOperation, path: "sys/config/auditing/request-headers/X-C02", sudo: true, rootOnly: true},
	{name: "audit-list", op: logical.ReadOperation, path: "sys/audit", sudo: true, rootOnly: true},
	{name: "audit-enable", op: logical.UpdateOperation, path: "sys/audit/dev", sudo: true, rootOnly: true, skipAllowed: true, data: func(int) map[string]any {
		return map[string]any{"type": "file", "options": map[string]any{"file_path": "discard"}}
	}},
	{name: "remount", op: logical.UpdateOperation, path: "sys/remount", sudo: true, rootOnly: true, skipAllowed: true, data: func(int) map[string]any { return map[string]any{"from": "rb", "to": "moved"} }},
	{name: "plugin-register", op: logical.UpdateOperation, path: "sys/plugins/catalog/secret/c02", sudo: true, rootOnly: true, skipAllowed: true, data: func(int) map[string]any { return map[string]any{"sha256": strings.Repeat("ab", 32), "command": "c02"} }},
	{name: "router-inspect", op: logical.ReadOperation, path: "sys/internal/inspect/router/root", sudo: true, rootOnly: true},
	{name: "token-accessors", op: logical.ListOperation, path: "auth/token/accessors/", sudo: true},
	{name: "lease-revoke", op: logical.UpdateOperation, path: "sys/leases/revoke", data: func(int) map[string]any { return nil }},
	{name: "entity-write", op: logical.UpdateOperation, path: "identity/entity", rootOnly: true, data: func(i int) map[string]any { return map[string]any{"name": "c02ent", "metadata": map[string]any{"k": fmt.Sprintf("v%d", i)}} }},
	{name: "cred-kv-write", op: logical.UpdateOperation, path: "auth/rbauth/kv/k", rootOnly: true, recbe: true, data: func(i int) map[string]any { return map[string]any{"v": i} }},
	{name: "cred-kv-read", op: logical.ReadOperation, path: "auth/rbauth/kv/k", rootOnly: true, recbe: true},
	{name: "cred-root", op: logical.UpdateOperation, path: "auth/rbauth/root/r", rootOnly: true, recbe: true, sudo: true, data: func(i int) map[string]any { return map[string]any{"marker": "m"} }},
	{name: "cred-unauth", op: logical.UpdateOperation, path: "auth/rbauth/unauth/u", rootOnly: true, recbe: true, unauth: true, data: func(i int) map[string]any { return map[string]any{"marker": "m"} }},
	{name: "cred-login", op: logical.UpdateOperation, path: "auth/rbauth/login", rootOnly: true, recbe: true, unauth: true},
}

// policy patterns offered to the generator: the exact paths of the catalogue and globs above them
func c02SysPatterns() []string {
	seen := map[string]bool{}
	var out []string
	add := func(p string) {
		if !seen[p] {
			seen[p] = true
			out = append(out, p)
		}
	}
	for _, it := range c02SysItems {
		add(it.path)
		parts := strings.Split(strings.TrimSuffix(it.path, "/"), "/")
		for i := 1; i < len(parts); i++ {
			add(strings.Join(parts[:i], "/") + "/*")
		}
	}
	add("*")
	sort.Strings(out)
	return out
}

type c02SysWorld struct {
	t    *testing.T
	tc   *tcore
	hub  *recHub
	ns1  *namespace.Namespace
	pols map[string]c02Policy
	toks []*c02Tok
	log  []string
}

func (w *c02SysWorld) logf(f string, a ...any) { w.log = append(w.log, fmt.Sprintf(f, a...)) }

func (w *c02SysWorld) nsCtx(ns string) context.Context {
	if ns == "" {
		return w.tc.ctx
	}
	return namespace.ContextWithNamespace(context.Background(), w.ns1)
}

func (w *c02SysWorld) root(ns string, op logical.Operation, path string, data map[string]any) rr {
	return w.tc.doCtx(w.nsCtx(ns), &logical.Request{Operation: op, Path: path, ClientToken: w.tc.root, Data: data})
}

// fingerprint is the configuration observable through the API with the root token, plus the stored leases.
func (w *c02SysWorld) fingerprint() map[string]string {
	out := map[string]any{}
	grab := func(label, ns string, op logical.Operation, path string) {
		r := w.root(ns, op, path, nil)
		if r.resp != nil {
			d := map[string]any{}
			for k, v := range r.resp.Data {
				if ks, ok := v.([]string); ok && k == "keys" {
					// the order of some listings (namespaces) is not stable
					ks = append([]string(nil), ks...)
					sort.Strings(ks)
					v = ks
				}
				d[k] = v
			}
			out[label] = d
		} else {
			out[label] = fmt.Sprint(r.err)
		}
	}
	for _, ns := range []string{"", "ns1/"} {
		grab(ns+"mounts", ns, logical.ReadOperation, "sys/mounts")
		grab(ns+"auth", ns, logical.ReadOperation, "sys/auth")
		grab(ns+"policies", ns, logical.ListOperation, "sys/policy/")
		grab(ns+"px", ns, logical.ReadOperation, "sys/policy/px")
		grab(ns+"namespaces", ns, logical.ListOperation, "sys/namespaces/")
		keys, err := logical.CollectKeys(w.nsCtx(ns), w.tc.c.expiration.leaseView(map[bool]*namespace.Namespace{true: namespace.RootNamespace, false: w.ns1}[ns == ""]))
		if err != nil {
			w.t.Fatalf("harness: collect leases: %v", err)
		}
		sort.Strings(keys)
		out[ns+"leases"] = keys
	}
	grab("cors", "", logical.ReadOperation, "sys/config/cors")
	grab("audited-headers", "", logical.ReadOperation, "sys/config/auditing/request-headers")
	grab("audit", "", logical.ReadOperation, "sys/audit")
	grab("key-status", "", logical.ReadOperation, "sys/key-status")
	grab("entity", "", logical.ReadOperation, "identity/entity/name/c02ent")
	grab("cred-kv", "", logical.ReadOperation, "auth/rbauth/kv/k")
	grab("plugins", "", logical.ListOperation, "sys/plugins/catalog/secret/")
	if d, ok := out["key-status"].(map[string]any); ok {
		delete(d, "encryptions") // advances with every barrier write
	}
	if d, ok := out["entity"].(map[string]any); ok {
		delete(d, "last_update_time")
	}
	fp := map[string]string{}
	for k, v := range out {
		b, err := json.Marshal(v)
		if err != nil {
			w.t.Fatalf("harness: fingerprint: %v", err)
		}
		fp[k] = string(b)
	}
	return fp
}

func c02FpDiff(a, b map[string]string) string {
	var ks []string
	for k := range a {
		if a[k] != b[k] {
			ks = append(ks, k)
		}
	}
	for k := range b {
		if _, ok := a[k]; !ok {
			ks = append(ks, k)
		}
	}
	sort.Strings(ks)
	var sb strings.Builder
	for _, k := range ks {
		fmt.Fprintf(&sb, "[%s: before=%s after=%s] ", k, verifx.Trunc(a[k], 600), verifx.Trunc(b[k], 600))
	}
	return sb.String()
}

func newC02SysWorld(t *testing.T, transactional bool) *c02SysWorld {
	hub := newRecHub()
	tc := mustBoot(t, coreOpts{transactional: transactional, cacheOff: true,
		logical:    map[string]logical.Factory{"recbe": hub.factory("recbe", logical.TypeLogical)},
		credential: map[string]logical.Factory{"rbauth": hub.factory("rbauth", logical.TypeCredential)}})
	hub.physSeq = tc.rec.Seq
	w := &c02SysWorld{t: t, tc: tc, hub: hub, pols: map[string]c02Policy{}}
	tc.mount("rb", "recbe", nil)
	tc.enableAuth("rbauth", "rbauth")
	tc.mustOK(tc.req(logical.UpdateOperation, "sys/namespaces/ns1", tc.root, nil), "create namespace")
	ns, err := tc.c.namespaceStore.GetNamespaceByPath(tc.ctx, "ns1/")
	if err != nil || ns == nil {
		t.Fatalf("harness: namespace lookup: %v", err)
	}
	w.ns1 = ns
	tc.mustOK(w.root("ns1/", logical.UpdateOperation, "sys/mounts/rb", map[string]any{"type": "recbe"}), "mount in ns1")
	return w
}

// a leased secret under rb/creds in the given namespace, so that revoke-prefix / lease-revoke have something to act on
func (w *c02SysWorld) ensureLease(ns string) string {
	r := w.root(ns, logical.UpdateOperation, "rb/creds/s", map[string]any{"ttl": "1h"})
	if !r.ok() || r.resp == nil || r.resp.Secret == nil {
		w.t.Fatalf("harness: lease: %v", r)
	}
	return r.resp.Secret.LeaseID
}

var c02SysCapSets = [][]string{{"read"}, {"create", "update"}, {"delete"}, {"list"}, {"read", "list", "create", "update", "delete"}, {"sudo"}, {"read", "list", "create", "update", "delete", "sudo"}, {"create", "update", "sudo"}, {"deny"}}

func TestVerif_C02_Sys(t *testing.T) {
	rec := verifx.NewRecorder("C02", "sys", "rapid state machine on a real core: tokens (root namespace and child namespace ns1, no default policy) hold generated policies whose patterns are the exact paths of a catalogue of 37 state-changing or root-protected requests to the system backend (mounts, auth methods, policies, namespaces, key rotation, lease revocation by prefix, CORS, audited headers, audit devices, remount, plugin catalogue, router inspection), the token backend (accessor listing), identity and a recording credential backend (authenticated, root-protected, unauthenticated and login paths), or globs above them, with capability sets incl. sudo and deny; requests of the catalogue are sent with these tokens, with no / garbage / revoked tokens, in the root namespace or ns1 (by context or path prefix); reference: documented decision (exact over longest glob, union with sticky deny) plus sudo on the paths the documentation lists as root-protected; refused => error response, the configuration observable with the root token (mount / auth tables, policies, namespaces, CORS, audited headers, audit devices, key term, stored leases, entity, credential-backend data) is unchanged, the request goroutine wrote nothing to storage and no backend handler ran; authorised => never answered with permission denied, and the credential backend's handler ran exactly once; non-trivial = a refused request by a live token, or a request whose outcome depends on sudo")
	defer rec.Flush()
	patterns := c02SysPatterns()
	rapid.Check(t, func(rt *rapid.T) {
		w := newC02SysWorld(t, rapid.Bool().Draw(rt, "transactionalStorage"))
		defer func() { w.tc.shutdown() }()
		tc := w.tc
		nontrivial := false
		fail := func(sig, msg string) {
			rec.Violation(rt, sig, map[string]any{"history": w.log}, "%s; history=%v", msg, w.log)
		}
		w.toks = append(w.toks, &c02Tok{name: "root", id: tc.root, alive: true, root: true})
		genPolicy := func(rt *rapid.T, ns string, around *c02SysItem) c02Policy {
			p := c02Policy{ns: ns}
			n := 1 + fairIndex(rt, "stanzas", 3)
			seen := map[string]bool{}
			for i := 0; i < n; i++ {
				var pat string
				if around != nil && i == 0 {
					// a stanza that matters for a catalogue item: its exact path or a glob above it
					parts := strings.Split(strings.TrimSuffix(around.path, "/"), "/")
					cut := fairIndex(rt, "globDepth", len(parts)+1)
					if cut == 0 || cut == len(parts) {
						pat = around.path
					} else {
						pat = strings.Join(parts[:cut], "/") + "/*"
					}
				} else {
					pat = patterns[rapid.IntRange(0, len(patterns)-1).Draw(rt, "pattern")]
				}
				if ns == "" && fairIndex(rt, "intoChild", 6) == 0 {
					pat = "ns1/" + pat
				}
				if seen[pat] {
					continue
				}
				seen[pat] = true
				p.stanzas = append(p.stanzas, c02Stanza{pattern: pat, caps: c02SysCapSets[fairIndex(rt, "caps", len(c02SysCapSets))]})
			}
			return p
		}
		writePolicy := func(rt *rapid.T, ns, name string, around *c02SysItem) {
			p := genPolicy(rt, ns, around)
			if r := w.root(ns, logical.UpdateOperation, "sys/policy/"+name, map[string]any{"policy": p.hcl()}); !r.ok() {
				t.Fatalf("harness: policy write: %v", r)
			}
			w.pols[ns+name] = p
			w.logf("policy %s%s = %s", ns, name, strings.ReplaceAll(p.hcl(), "\n", " "))
		}
		newToken := func(rt *rapid.T) {
			ns := []string{"", "", "ns1/"}[fairIndex(rt, "tokenNS", 3)]
			names := []string{"p1", "p2", "p3"}
			var pl []string
			for _, n := range names {
				if fairIndex(rt, "has-"+n, 2) == 0 {
					pl = append(pl, n)
				}
			}
			if len(pl) == 0 {
				pl = []string{"p1"}
			}
			r := w.root(ns, logical.UpdateOperation, "auth/token/create", map[string]any{"policies": pl, "no_default_policy": true, "ttl": "1h"})
			if !r.ok() || r.resp == nil || r.resp.Auth == nil {
				t.Fatalf("harness: token: %v", r)
			}
			tk := &c02Tok{name: fmt.Sprintf("t%d", len(w.toks)), id: r.resp.Auth.ClientToken, acc: r.resp.Auth.Accessor, ns: ns, policies: pl, alive: true}
			w.toks = append(w.toks, tk)
			w.logf("token %s ns=%q policies=%v", tk.name, ns, pl)
		}
		for _, ns := range []string{"", "ns1/"} {
			for _, n := range []string{"p1", "p2", "p3"} {
				writePolicy(rt, ns, n, &c02SysItems[rapid.IntRange(0, len(c02SysItems)-1).Draw(rt, "around")])
			}
		}
		newToken(rt)
		newToken(rt)
		reqN := 0
		request := func(rt *rapid.T) {
			it := c02SysItems[rapid.IntRange(0, len(c02SysItems)-1).Draw(rt, "item")]
			ns := ""
			if !it.rootOnly && fairIndex(rt, "inChild", 3) == 0 {
				ns = "ns1/"
			}
			viaPfx := ns != "" && fairIndex(rt, "viaPrefix", 2) == 0
			var tk *c02Tok
			tokStr, tokDesc := "", "none"
			switch k := fairIndex(rt, "tokKind", 10); {
			case k == 0:
			case k == 1:
				tokStr, tokDesc = "s.garbagegarbagegarbagegarbage", "garbage"
			default:
				tk = w.toks[rapid.IntRange(0, len(w.toks)-1).Draw(rt, "tok")]
				if tk.root && len(w.toks) > 1 && fairIndex(rt, "notRoot", 4) > 0 {
					tk = w.toks[rapid.IntRange(1, len(w.toks)-1).Draw(rt, "tok2")]
				}
				tokStr, tokDesc = tk.id, tk.name
			}
			reqN++
			var data map[string]any
			if it.data != nil {
				data = it.data(reqN)
			}
			if it.name == "lease-revoke" || it.name == "revoke-prefix" || it.name == "revoke-force" || it.name == "leases-list" {
				id := w.ensureLease(ns)
				if it.name == "lease-revoke" {
					data = map[string]any{"lease_id": id}
				}
			}
			qualified := ns + it.path
			// ---- reference decision
			expect := "denied"
			usesSudo := false
			switch {
			case it.unauth && tk == nil && tokStr == "":
				expect = "allowed"
			case it.unauth:
				expect = "unasserted"
			case tk == nil:
			case !tk.alive:
			case tk.root:
				expect = "allowed"
			case !strings.HasPrefix(ns, tk.ns):
			default:
				caps := c02Decide(func() []c02Policy {
					var out []c02Policy
					for _, n := range tk.policies {
						if p, ok := w.pols[tk.ns+n]; ok {
							out = append(out, p)
						}
					}
					return out
				}(), qualified)
				need := map[logical.Operation][]string{logical.ReadOperation: {"read"}, logical.UpdateOperation: {"create", "update"}, logical.DeleteOperation: {"delete"}, logical.ListOperation: {"list"}}[it.op]
				ok := !caps["deny"]
				for _, c := range need {
					ok = ok && caps[c]
				}
				if ok && it.sudo {
					usesSudo = true
					ok = caps["sudo"]
				}
				if ok {
					expect = "allowed"
				}
			}
			if expect == "allowed" && it.skipAllowed {
				rec.Class("skipped:would-be-allowed:"+it.name, 1)
				return
			}
			ctx := w.nsCtx(ns)
			reqPath := it.path
			if viaPfx {
				ctx, reqPath = tc.ctx, ns+it.path
			}
			var before map[string]string
			if expect == "denied" {
				before = w.fingerprint()
			}
			callsBefore := len(w.hub.handlerCalls())
			seq0 := tc.rec.Seq()
			g := verifx.GoID()
			res := tc.doCtx(ctx, &logical.Request{Operation: it.op, Path: reqPath, ClientToken: tokStr, Data: data})
			var calls []recCall
			for _, c := range w.hub.handlerCalls()[callsBefore:] {
				// logins are preceded by a resolve-role probe of the backend; only the operation itself counts
				if c.Op == it.op || c.Op == logical.CreateOperation && it.op == logical.UpdateOperation {
					calls = append(calls, c)
				}
			}
			var writes []string
			for _, o := range tc.rec.OpsSince(seq0) {
				if o.G == g && (o.Kind == "put" || o.Kind == "delete" || o.Kind == "commit") {
					writes = append(writes, o.Kind+" "+o.Key)
				}
			}
			desc := fmt.Sprintf("%s: ns=%q prefix=%v %s %q token=%s expect=%s -> %v", it.name, ns, viaPfx, it.op, reqPath, tokDesc, expect, res)
			w.logf("%s", desc)
			rec.Class("request:"+expect, 1)
			if res.err != nil && strings.Contains(res.err.Error(), "PANIC") {
				fail("panic", desc)
			}
			refused := !res.ok()
			permDenied := res.err != nil && strings.Contains(res.err.Error(), "permission denied") || res.resp != nil && res.resp.IsError() && strings.Contains(fmt.Sprint(res.resp.Data["error"]), "permission denied")
			switch expect {
			case "denied":
				if tk != nil && tk.alive {
					nontrivial = true
					rec.Class("denied-live-token:"+it.name, 1)
				}
				if usesSudo {
					rec.Class("denied:sudo-missing", 1)
				}
				if !refused {
					fail("denied-request-succeeded:"+it.name, "a request that must be refused returned success: "+desc)
				}
				if len(calls) > 0 {
					fail("denied-request-reached-backend:"+it.name, fmt.Sprintf("a request that must be refused invoked the credential backend's handler (%s %s): %s", calls[0].Op, calls[0].Path, desc))
				}
				if len(writes) > 0 {
					fail("denied-request-wrote-storage:"+it.name, fmt.Sprintf("a request that must be refused wrote to storage %v: %s", writes, desc))
				}
				if d := c02FpDiff(before, w.fingerprint()); d != "" {
					fail("denied-request-changed-state:"+it.name, fmt.Sprintf("a request that must be refused changed the server's configuration: %s; difference: %s", desc, d))
				}
			case "allowed":
				if usesSudo {
					nontrivial = true
					rec.Class("allowed:sudo-held", 1)
				}
				if permDenied {
					fail("allowed-request-refused:"+it.name, "an authorised request was answered with permission denied: "+desc)
				}
				if it.recbe && len(calls) != 1 {
					fail("allowed-request-not-routed:"+it.name, fmt.Sprintf("an authorised request led to %d handler invocations of the credential backend (want 1): %s", len(calls), desc))
				}
				if it.name == "namespace-delete" && res.ok() {
					// deletion is asynchronous: wait until it is finished so that later fingerprints are stable
					deadline := time.Now().Add(10 * time.Second)
					for time.Now().Before(deadline) {
						r := w.root(ns, logical.ReadOperation, "sys/namespaces/nx", nil)
						if r.resp == nil || r.resp.IsError() {
							break
						}
						time.Sleep(2 * time.Millisecond)
					}
				}
				tc.waitExpirationIdle(time.Second)
			default:
				if tk == nil && tokStr != "" && !it.unauth && len(calls) > 0 {
					fail("unauthenticated-request-had-effect", desc)
				}
			}
		}
		slots := []string{"request", "request", "request", "request", "policy", "request", "token", "request", "policy", "revoke", "request"}
		rt.Repeat(map[string]func(*rapid.T){
			"step": func(rt *rapid.T) {
				switch a := slots[fairIndex(rt, "action", len(slots))]; {
				case a == "policy":
					ns := []string{"", "ns1/"}[fairIndex(rt, "policyNS", 2)]
					writePolicy(rt, ns, []string{"p1", "p2", "p3"}[fairIndex(rt, "name", 3)], &c02SysItems[rapid.IntRange(0, len(c02SysItems)-1).Draw(rt, "around")])
				case a == "token" && len(w.toks) < 6:
					newToken(rt)
				case a == "revoke" && len(w.toks) > 2:
					tk := w.toks[rapid.IntRange(1, len(w.toks)-1).Draw(rt, "victim")]
					if tk.alive {
						if r := w.root(tk.ns, logical.UpdateOperation, "auth/token/revoke", map[string]any{"token": tk.id}); !r.ok() {
							t.Fatalf("harness: revoke: %v", r)
						}
						tk.alive = false
						w.logf("revoke %s", tk.name)
					}
				default:
					request(rt)
				}
			},
		})
		rec.Case("sys", nontrivial, verifx.Digest(w.log), func() any { return map[string]any{"history": w.log} })
	})
}
