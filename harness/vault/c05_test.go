//go:build verif

package vault

import (
	"context"
	"fmt"
	"sort"
	"strings"
	"sync"
	"testing"
	"time"

	"github.com/openbao/openbao/sdk/v2/helper/verifx"
	"github.com/openbao/openbao/sdk/v2/logical"
	"github.com/openbao/openbao/v2/internal/helper/namespace"
	"pgregory.net/rapid"
)

type c05Lease struct {
	id       string
	issue    time.Time
	effMax   time.Duration // effective maximum TTL
	token    string        // for token leases
	isToken  bool
	dead     bool
	renewable bool
	expired  bool // its expiry was moved into the past
	lastTTL  time.Duration
	expireAt time.Time // bound derived from the last response
	period   time.Duration // periodic token: every granted TTL is at most the period
}

type c05World struct {
	setupMut int // number of committed writes after the world was set up (a crash never loses those)
	t      *testing.T
	tc     *tcore
	hub    *recHub
	tok    string
	leases []*c05Lease
	log    []string
}

func (w *c05World) logf(f string, a ...any) { w.log = append(w.log, fmt.Sprintf(f, a...)) }

const (
	c05MountMax  = 2 * time.Hour
	c05TokenMax  = 3 * time.Hour
	c05MountDflt = 30 * time.Minute
	c05SystemMax = 32 * 24 * time.Hour // the test core's system-wide maximum lease TTL (768h)
)

func newC05World(t *testing.T, transactional, ha bool) *c05World {
	hub := newRecHub()
	tc := mustBoot(t, coreOpts{transactional: transactional, ha: ha, retryBase: 40 * time.Millisecond,
		logical: map[string]logical.Factory{"recbe": hub.factory("recbe", logical.TypeLogical)}})
	tc.mount("rb", "recbe", map[string]any{"default_lease_ttl": "30m", "max_lease_ttl": "2h"})
	tc.mount("rc", "recbe", nil)
	tc.mustOK(tc.req(logical.UpdateOperation, "sys/mounts/rc/tune", tc.root, map[string]any{"default_lease_ttl": "1000h"}), "tune rc")
	tc.mustOK(tc.req(logical.UpdateOperation, "sys/auth/token/tune", tc.root, map[string]any{"max_lease_ttl": "3h", "default_lease_ttl": "1h"}), "tune")
	tc.writePolicy("c05", `path "rb/*" { capabilities = ["create","read","update","delete","list"] }
path "rc/*" { capabilities = ["create","read","update","delete","list"] }
path "sys/leases/*" { capabilities = ["update"] }`)
	tc.mustOK(tc.req(logical.UpdateOperation, "auth/token/roles/c05max", tc.root, map[string]any{"token_explicit_max_ttl": "40m", "allowed_policies": "default", "orphan": true}), "role c05max")
	tc.mustOK(tc.req(logical.UpdateOperation, "auth/token/roles/c05per", tc.root, map[string]any{"token_period": "30m", "token_explicit_max_ttl": "80m", "allowed_policies": "default", "orphan": true}), "role c05per")
	w := &c05World{t: t, tc: tc, hub: hub}
	w.tok, _, _ = tc.createToken(tc.root, map[string]any{"policies": []string{"default", "c05"}, "no_parent": true, "ttl": "150m"})
	if w.tok == "" {
		t.Fatalf("harness: token")
	}
	w.setupMut = tc.rec.MutationCount()
	return w
}

// trackedSets reads the expiration manager's in-memory lease maps.
func c05Tracked(c *Core) (pending, nonexp, irrev []string) {
	m := c.expiration
	m.pendingLock.RLock()
	defer m.pendingLock.RUnlock()
	m.pending.Range(func(k, v any) bool { pending = append(pending, k.(string)); return true })
	m.nonexpiring.Range(func(k, v any) bool { nonexp = append(nonexp, k.(string)); return true })
	m.irrevocable.Range(func(k, v any) bool { irrev = append(irrev, k.(string)); return true })
	sort.Strings(pending)
	sort.Strings(nonexp)
	sort.Strings(irrev)
	return
}

func c05Stored(t *testing.T, c *Core) []string {
	ctx := namespace.RootContext(context.Background())
	keys, err := logical.CollectKeys(ctx, c.expiration.leaseView(namespace.RootNamespace))
	if err != nil {
		t.Fatalf("harness: collect leases: %v", err)
	}
	sort.Strings(keys)
	return keys
}

// trackingInvariant: after restore completes and with no revocation in flight, the lease ids in storage are
// exactly pending + nonexpiring + irrevocable, pairwise disjoint. Returns "" or a description.
func (w *c05World) trackingInvariant() string {
	c := w.tc.c
	deadline := time.Now().Add(10 * time.Second)
	var msg string
	for {
		for c.expiration.inRestoreMode() && time.Now().Before(deadline) {
			time.Sleep(time.Millisecond)
		}
		w.tc.waitExpirationIdle(2 * time.Second)
		stored := c05Stored(w.t, c)
		p, n, i := c05Tracked(c)
		seen := map[string]int{}
		for _, l := range [][]string{p, n, i} {
			for _, id := range l {
				seen[id]++
			}
		}
		msg = ""
		for id, cnt := range seen {
			if cnt > 1 {
				msg = fmt.Sprintf("lease %s is tracked in %d of the pending/nonexpiring/irrevocable maps", id, cnt)
			}
		}
		st := map[string]bool{}
		for _, id := range stored {
			st[id] = true
			if seen[id] == 0 && msg == "" {
				msg = fmt.Sprintf("lease %s is in storage but not tracked for expiry (pending=%d nonexpiring=%d irrevocable=%d)", id, len(p), len(n), len(i))
			}
		}
		// the converse (tracked although no longer stored, e.g. after a revocation whose index removal failed) is
		// not claimed by the property: such a timer fires, finds no entry and goes away
		_ = st
		// a revocation may be mid-flight (entry deleted, map not yet updated): retry briefly before judging
		if msg == "" || time.Now().After(deadline) {
			return msg
		}
		time.Sleep(5 * time.Millisecond)
	}
}

func TestVerif_C05_Leases(t *testing.T) {
	rec := verifx.NewRecorder("C05", "leases", "rapid state machine on a real core with a recording backend (mount default 30m / max 2h) and the token mount tuned to max 3h: issue leased secrets (ttl/max_ttl/renewable generated) and tokens (ttl, explicit_max_ttl, period), renew with generated increments through sys/leases/renew and auth/token/renew(-self), revoke, make the backend refuse revocation (irrevocable leases), restart on the same storage, restart on the store after a crash prefix of the last operation's writes, restart during which one read of a stored lease entry fails (at once, or only after the unseal call returned), restart with failing requests (renewal of a non-renewable lease, revocation refused by the backend) arriving while the restore is held back, step-down and re-acquisition of leadership on an HA-enabled node; oracle: a node that serves requests after a failed lease restore tracks every stored lease (or it has shut itself down); after every issue/renew the granted expiry never exceeds issue time + effective maximum (+1 s truncation), expired/revoked/non-renewable leases cannot be renewed, and at quiescence the lease ids in storage are all tracked in exactly one of pending / nonexpiring / irrevocable; non-trivial = a renewal that was capped or refused, or a restart/crash with >=2 stored leases")
	defer rec.Flush()
	rapid.Check(t, func(rt *rapid.T) {
		defer recoverWedged(rec)
		ha := fairIndex(rt, "haEnabled", 3) == 0
		w := newC05World(t, rapid.Bool().Draw(rt, "transactionalStorage"), ha)
		stepdowns := 0
		defer func() { w.tc.shutdown() }()
		nontrivial := false
		roleDeleted := false
		restarts := 0
		fail := func(sig, msg string) {
			rec.Violation(rt, sig, map[string]any{"history": w.log}, "%s; history=%v", msg, w.log)
		}
		// callAt: clock read before the request that granted ttl was sent. The server computed ttl after callAt, so the
		// true expiry is at least callAt+ttl; l.issue is read after the issuing request returned, so the lease was issued
		// no later than that. Both estimates err on the side of the code: the verdict does not depend on how long a
		// request took (on a loaded machine: many seconds).
		checkBound := func(l *c05Lease, ttl time.Duration, what string, callAt time.Time) {
			now := callAt
			l.lastTTL = ttl
			if ttl <= 0 {
				return
			}
			if l.period > 0 && ttl > l.period+2*time.Second {
				fail("periodic-ttl-above-period", fmt.Sprintf("%s of periodic lease %s granted ttl %v, above its period %v", what, verifx.Trunc(l.id, 40), ttl, l.period))
			}
			if exp := now.Add(ttl); exp.After(l.issue.Add(l.effMax).Add(2 * time.Second)) {
				fail("expiry-beyond-maximum", fmt.Sprintf("%s of lease %s granted ttl %v at +%v after issue: expiry %v after issue exceeds the effective maximum %v", what, verifx.Trunc(l.id, 40), ttl, now.Sub(l.issue).Round(time.Millisecond), now.Add(ttl).Sub(l.issue).Round(time.Second), l.effMax))
			}
			if ttl < l.effMax {
				// capped below what was asked is checked by the caller
			}
		}
		pick := func(rt *rapid.T, pred func(*c05Lease) bool) *c05Lease {
			var c []*c05Lease
			for _, l := range w.leases {
				if pred(l) {
					c = append(c, l)
				}
			}
			if len(c) == 0 {
				return nil
			}
			return c[fairIndex(rt, "lease", len(c))]
		}
		rt.Repeat(map[string]func(*rapid.T){
			"secret": func(rt *rapid.T) {
				ttl := []int{1200, 3600, 7200, 20000, 0}[fairIndex(rt, "ttl", 5)]
				maxTTL := []int{0, 0, 2400, 5400, 30000}[fairIndex(rt, "maxttl", 5)]
				renewable := fairIndex(rt, "renewable", 4) > 0
				before := time.Now()
				mnt, mountMax := "rb", c05MountMax
				if fairIndex(rt, "mountWithoutOwnMaximum", 4) == 0 {
					// rc/ has no maximum of its own (the system maximum applies) and a default tuned ABOVE the system maximum
					mnt, mountMax = "rc", c05SystemMax
					if fairIndex(rt, "hugeTTL", 2) == 0 {
						ttl = 4000000
					}
				}
				r := w.tc.req(logical.UpdateOperation, mnt+"/creds/s", w.tok, map[string]any{"ttl_seconds": ttl, "max_ttl_seconds": maxTTL, "renewable": renewable})
				if !r.ok() || r.resp == nil || r.resp.Secret == nil || r.resp.Secret.LeaseID == "" {
					w.logf("secret %s ttl=%d max=%d -> %v", mnt, ttl, maxTTL, r)
					return
				}
				eff := mountMax
				if maxTTL > 0 && time.Duration(maxTTL)*time.Second < eff {
					eff = time.Duration(maxTTL) * time.Second
				}
				l := &c05Lease{id: r.resp.Secret.LeaseID, issue: time.Now(), effMax: eff, renewable: renewable}
				w.leases = append(w.leases, l)
				w.logf("secret %s ttl=%d max=%d renewable=%v -> ttl %v", mnt, ttl, maxTTL, renewable, r.resp.Secret.TTL)
				checkBound(l, r.resp.Secret.TTL, "issue", before)
			},
			"token": func(rt *rapid.T) {
				data := map[string]any{"policies": []string{"default"}, "ttl": []string{"20m", "2h", "100h"}[fairIndex(rt, "ttl", 3)]}
				eff := c05TokenMax
				switch fairIndex(rt, "flavour", 4) {
				case 0:
					data["explicit_max_ttl"] = "50m"
					eff = 50 * time.Minute
				case 1:
					data["period"] = "40m"
					data["explicit_max_ttl"] = "90m"
					eff = 90 * time.Minute
				}
				path := "auth/token/create"
				var period time.Duration
				switch fairIndex(rt, "throughRole", 4) {
				case 0:
					// a role with an explicit maximum of its own; the caller may ask for a smaller or a larger one
					path = "auth/token/create/c05max"
					if eff > 40*time.Minute {
						eff = 40 * time.Minute
					}
					switch fairIndex(rt, "callerExplicitMax", 4) {
					case 0:
						data["explicit_max_ttl"] = "2h"
					case 1:
						data["explicit_max_ttl"] = "25m"
						if eff > 25*time.Minute {
							eff = 25 * time.Minute
						}
					case 2:
						// a client that serialises its zero default: "no explicit maximum of my own", the role's stays
						data["explicit_max_ttl"] = []string{"0", "0s"}[fairIndex(rt, "zeroSpelling", 2)]
					default:
						if data["explicit_max_ttl"] == "90m" {
							data["explicit_max_ttl"] = "2h"
						}
					}
					delete(data, "period")
				case 1:
					// a periodic role with an explicit maximum; the caller asks for a longer period and maximum
					path = "auth/token/create/c05per"
					data["period"] = "2h"
					data["explicit_max_ttl"] = "170m"
					eff, period = 80*time.Minute, 30*time.Minute
				}
				before := time.Now()
				r := w.tc.req(logical.UpdateOperation, path, w.tc.root, data)
				if !r.ok() || r.resp == nil || r.resp.Auth == nil {
					w.logf("token %s %v -> %v", path, data, r)
					return
				}
				l := &c05Lease{id: "token", isToken: true, token: r.resp.Auth.ClientToken, issue: time.Now(), effMax: eff, renewable: true, period: period}
				w.leases = append(w.leases, l)
				w.logf("token %s %v -> ttl %v", path, data, r.resp.Auth.TTL)
				checkBound(l, r.resp.Auth.TTL, "issue", before)
			},
			// an operator removes one of the token roles (at most once per history): tokens handed out through it keep
			// the limits they were handed out with, whether their renewal is refused or served
			"role-delete": func(rt *rapid.T) {
				if roleDeleted {
					rt.Skip("a role was already removed")
				}
				name := []string{"c05max", "c05per"}[fairIndex(rt, "role", 2)]
				r := w.tc.req(logical.DeleteOperation, "auth/token/roles/"+name, w.tc.root, nil)
				w.logf("delete role %s -> %v", name, r)
				roleDeleted = true
			},
			"renew": func(rt *rapid.T) {
				l := pick(rt, func(l *c05Lease) bool { return true })
				if l == nil {
					rt.Skip("no lease")
				}
				inc := []int{60, 1800, 7000, 40000, 0}[fairIndex(rt, "increment", 5)]
				var r rr
				var ttl time.Duration
				renewCallAt := time.Now()
				if l.isToken {
					r = w.tc.req(logical.UpdateOperation, "auth/token/renew-self", l.token, map[string]any{"increment": inc})
					if r.ok() && r.resp != nil && r.resp.Auth != nil {
						ttl = r.resp.Auth.TTL
					}
				} else {
					r = w.tc.req(logical.UpdateOperation, "sys/leases/renew", w.tok, map[string]any{"lease_id": l.id, "increment": inc})
					if r.ok() && r.resp != nil && r.resp.Secret != nil {
						ttl = r.resp.Secret.TTL
					}
				}
				w.logf("renew %s +%ds dead=%v -> %v ttl %v", verifx.Trunc(l.id, 30), inc, l.dead, r, ttl)
				if l.dead && r.ok() && ttl > 0 {
					fail("revoked-lease-renewed", fmt.Sprintf("a revoked lease %s was renewed", verifx.Trunc(l.id, 40)))
				}
				if !l.dead && !l.renewable && r.ok() && ttl > 0 {
					fail("non-renewable-lease-renewed", fmt.Sprintf("the non-renewable lease %s was renewed (ttl %v)", verifx.Trunc(l.id, 40), ttl))
				}
				if l.expired && r.ok() && ttl > 0 {
					fail("expired-lease-renewed", fmt.Sprintf("the lease %s, whose expiry has passed, was renewed (ttl %v)", verifx.Trunc(l.id, 40), ttl))
				}
				if r.ok() && ttl > 0 {
					checkBound(l, ttl, "renew", renewCallAt)
					if time.Duration(inc)*time.Second > ttl+2*time.Second {
						nontrivial = true // capped
					}
				} else {
					nontrivial = true // refused
				}
			},
			// let time pass for one lease: its issue and expiry times are moved into the past (as if it had been
			// issued earlier), so that renewals happen a long time after issue
			"age": func(rt *rapid.T) {
				l := pick(rt, func(l *c05Lease) bool { return !l.dead && !l.isToken && l.lastTTL > 10*time.Minute })
				if l == nil {
					rt.Skip("no lease to age")
				}
				frac := []int{2, 3, 4}[fairIndex(rt, "fraction", 3)]
				delta := (l.lastTTL / time.Duration(frac)).Truncate(time.Second)
				ctx := namespace.RootContext(context.Background())
				m := w.tc.c.expiration
				le, err := m.loadEntry(ctx, l.id)
				if err != nil || le == nil {
					rt.Skip("lease not loadable")
				}
				le.IssueTime = le.IssueTime.Add(-delta)
				le.ExpireTime = le.ExpireTime.Add(-delta)
				if le.Secret != nil {
					le.Secret.IssueTime = le.IssueTime
				}
				if err := m.persistEntry(ctx, le); err != nil {
					t.Fatalf("harness: persist aged lease: %v", err)
				}
				m.updatePending(le)
				l.issue = l.issue.Add(-delta)
				l.lastTTL -= delta
				w.logf("age %s by %v", verifx.Trunc(l.id, 30), delta)
			},
			// the lease's expiry passes (moved into the past in storage; the timers are not told): it cannot be renewed
			"expire": func(rt *rapid.T) {
				l := pick(rt, func(l *c05Lease) bool { return !l.dead && !l.isToken && !l.expired })
				if l == nil {
					rt.Skip("no lease")
				}
				ctx := namespace.RootContext(context.Background())
				m := w.tc.c.expiration
				le, err := m.loadEntry(ctx, l.id)
				if err != nil || le == nil {
					rt.Skip("lease not loadable")
				}
				le.ExpireTime = time.Now().Add(-2 * time.Second)
				if err := m.persistEntry(ctx, le); err != nil {
					t.Fatalf("harness: persist expired lease: %v", err)
				}
				l.expired = true
				w.logf("expire %s", verifx.Trunc(l.id, 30))
			},
			// a lease runs out while the secrets engine has a passing problem: the first revocation attempt fails with
			// an ordinary error, or one that wraps a cancellation or a deadline of the engine's own upstream; the lease
			// must be revoked by a retry, or be marked irrevocable, or at least have the failure on its record
			"lapse-while-engine-fails-once": func(rt *rapid.T) {
				w.hub.mu.Lock()
				refusing := w.hub.failRevoke
				w.hub.mu.Unlock()
				if refusing {
					rt.Skip("the engine refuses every revocation at the moment")
				}
				l := pick(rt, func(l *c05Lease) bool { return !l.dead && !l.isToken && !l.expired })
				if l == nil {
					rt.Skip("no lease")
				}
				kind := []string{"plain", "wraps-canceled", "wraps-deadline"}[fairIndex(rt, "engineError", 3)]
				ferr := fmt.Errorf("recbe: upstream unavailable")
				switch kind {
				case "wraps-canceled":
					ferr = fmt.Errorf("recbe: upstream connection torn down: %w", context.Canceled)
				case "wraps-deadline":
					ferr = fmt.Errorf("recbe: upstream timed out: %w", context.DeadlineExceeded)
				}
				ctx := namespace.RootContext(context.Background())
				m := w.tc.c.expiration
				le, err := m.loadEntry(ctx, l.id)
				if err != nil || le == nil {
					rt.Skip("lease not loadable")
				}
				w.hub.mu.Lock()
				w.hub.failRevokeN, w.hub.failRevokeErr = 1, ferr
				base := w.hub.revokeFailed
				w.hub.mu.Unlock()
				le.ExpireTime = time.Now().Add(20 * time.Millisecond)
				if err := m.persistEntry(ctx, le); err != nil {
					t.Fatalf("harness: persist: %v", err)
				}
				m.updatePending(le)
				l.expired = true
				seen := false
				for dl := time.Now().Add(4 * time.Second); time.Now().Before(dl); time.Sleep(5 * time.Millisecond) {
					w.hub.mu.Lock()
					seen = w.hub.revokeFailed > base
					w.hub.mu.Unlock()
					if seen {
						break
					}
				}
				gone := false
				for dl := time.Now().Add(4 * time.Second); seen && time.Now().Before(dl); time.Sleep(10 * time.Millisecond) {
					if e, err := m.loadEntry(ctx, l.id); err == nil && e == nil {
						gone = true
						break
					}
				}
				w.hub.mu.Lock()
				w.hub.failRevokeN = 0
				w.hub.mu.Unlock()
				w.logf("lease %s runs out, first revocation fails (%s): attempt seen=%v, revoked by a retry=%v", verifx.Trunc(l.id, 30), kind, seen, gone)
				if gone {
					l.dead = true
					nontrivial = true
					return
				}
				if !seen {
					return // the timer did not fire within the wait (loaded machine): nothing to judge
				}
				_, irrevocable := m.irrevocable.Load(l.id)
				attempts := -1
				m.pendingLock.RLock()
				if raw, ok := m.pending.Load(l.id); ok {
					attempts = int(raw.(pendingInfo).revokesAttempted)
				}
				m.pendingLock.RUnlock()
				switch {
				case irrevocable:
					rec.Class("lapse: marked irrevocable after the failed attempt", 1)
				case attempts >= 1:
					rec.Class("lapse: retry on record, not yet run (inconclusive)", 1)
				default:
					fail("expired-lease-abandoned-after-failed-revocation:"+kind, fmt.Sprintf("lease %s ran out, its revocation failed at the secrets engine (%v); seconds later it is still stored, not marked irrevocable, and the failure is not on its record (attempts on record: %d): nothing will try again before the next restart", verifx.Trunc(l.id, 40), ferr, attempts))
				}
			},
			"revoke": func(rt *rapid.T) {
				l := pick(rt, func(l *c05Lease) bool { return !l.dead })
				if l == nil {
					rt.Skip("no live lease")
				}
				var r rr
				if l.isToken {
					r = w.tc.req(logical.UpdateOperation, "auth/token/revoke", w.tc.root, map[string]any{"token": l.token})
				} else {
					r = w.tc.req(logical.UpdateOperation, "sys/leases/revoke", w.tok, map[string]any{"lease_id": l.id})
				}
				w.logf("revoke %s -> %v", verifx.Trunc(l.id, 30), r)
				if r.ok() {
					l.dead = true
				}
			},
			// a revocation during which one storage operation of the request fails: whatever the outcome, the lease must
			// stay tracked (pending for a retry, irrevocable, or gone from storage)
			"revoke-with-storage-fault": func(rt *rapid.T) {
				l := pick(rt, func(l *c05Lease) bool { return !l.dead })
				if l == nil {
					rt.Skip("no live lease")
				}
				k := 1 + fairIndex(rt, "faultAt", 24)
				onlyWrites := fairIndex(rt, "onlyWrites", 2) == 0
				g := verifx.GoID()
				f, fired := verifx.FailNth(func(o *verifx.Op) bool {
					return o.G == g && (!onlyWrites || o.Kind == "put" || o.Kind == "delete")
				}, k)
				if fairIndex(rt, "outage", 3) == 0 {
					// the k-th operation of the request and every later one fail (outage / ended request context)
					cnt := 0
					var firstHit *verifx.Op
					f = func(o *verifx.Op) error {
						if o.G != g {
							return nil
						}
						cnt++
						if cnt >= k {
							if firstHit == nil {
								firstHit = o
							}
							return verifx.ErrInjected
						}
						return nil
					}
					fired = func() *verifx.Op { return firstHit }
				}
				w.tc.rec.SetFault(f)
				var r rr
				if l.isToken {
					r = w.tc.req(logical.UpdateOperation, "auth/token/revoke", w.tc.root, map[string]any{"token": l.token})
				} else {
					r = w.tc.req(logical.UpdateOperation, "sys/leases/revoke", w.tok, map[string]any{"lease_id": l.id})
				}
				w.tc.rec.SetFault(nil)
				hit := "none"
				if h := fired(); h != nil {
					hit = h.Kind + " " + keyClass(h.Key)
					nontrivial = true
				}
				w.logf("revoke %s with fault at op %d (writes only %v) = %s -> %v", verifx.Trunc(l.id, 30), k, onlyWrites, hit, r)
				// a failed revocation leaves a lease that is still valid for the per-lease model; the tracking
				// invariant (below, after every step) decides whether it is still followed to expiry
				if r.ok() {
					l.dead = true
				}
			},
			"backend-refuses-revocation": func(rt *rapid.T) {
				w.hub.mu.Lock()
				w.hub.failRevoke = !w.hub.failRevoke
				f := w.hub.failRevoke
				w.hub.mu.Unlock()
				w.logf("backend refuses revocation = %v", f)
			},
			"restart": func(rt *rapid.T) {
				if restarts >= 2 {
					rt.Skip("enough restarts")
				}
				restarts++
				stored := len(c05Stored(t, w.tc.c))
				crash := fairIndex(rt, "crash", 3) == 0
				phys := w.tc.phys
				if crash {
					// lose the last 1-3 committed writes (a crash inside the most recent operation)
					n := w.tc.rec.MutationCount()
					k := 1 + fairIndex(rt, "lost", 3)
					if n-k < w.setupMut {
						k = n - w.setupMut
					}
					phys = w.tc.rec.ForkAt(n-k, w.tc.opts.transactional)
				}
				w.tc.shutdown()
				ntc, err := w.tc.restartOn(phys)
				if err != nil {
					fail("restart-failed", fmt.Sprintf("core does not restart (crash=%v): %v", crash, err))
					return
				}
				w.tc = ntc
				w.logf("restart crash=%v stored-leases=%d", crash, stored)
				if crash {
					// the model of individual leases may be ahead of the store: forget it (the tracking invariant is global)
					w.leases = nil
				}
				if stored >= 2 {
					nontrivial = true
				}
			},
			// leadership change on an HA-enabled node: the active node steps down (its expiration manager is torn down)
			// and acquires leadership again, which restores the leases from storage
			"step-down": func(rt *rapid.T) {
				if !ha {
					rt.Skip("not an HA node")
				}
				if stepdowns >= 3 {
					rt.Skip("enough leadership changes")
				}
				stepdowns++
				stored := len(c05Stored(t, w.tc.c))
				if err := w.tc.stepDown(); err != nil {
					fail("not-active-after-step-down", fmt.Sprintf("the only node of the cluster did not become active again after a step-down: %v", err))
					return
				}
				w.logf("step-down stored-leases=%d", stored)
				if stored >= 2 {
					nontrivial = true
				}
			},
			// restart; while the expiration manager is still restoring the leases (its listing of the lease entries is held
			// back), requests that fail arrive for leases it has not reached yet: a renewal of a non-renewable lease, a
			// revocation the backend refuses. When the restore has finished every stored lease must be tracked all the same.
			"restart-with-failing-requests-during-restore": func(rt *rapid.T) {
				if restarts >= 2 {
					rt.Skip("enough restarts")
				}
				var cands []*c05Lease
				for _, l := range w.leases {
					if !l.dead && !l.isToken {
						cands = append(cands, l)
					}
				}
				if len(cands) == 0 {
					rt.Skip("no secret lease")
				}
				restarts++
				w.tc.shutdown()
				me := verifx.GoID()
				release := make(chan struct{})
				prec := w.tc.rec
				prec.Gate = func(o *verifx.Op) {
					// the restore is held where it collects the lease ids (before a worker holds any lease's lock)
					if o.G == me || (o.Kind != "list" && o.Kind != "listpage") || !strings.Contains(o.Key, "sys/expire/id") {
						return
					}
					select {
					case <-release:
					case <-time.After(20 * time.Second):
					}
				}
				ntc, err := w.tc.restartOn(w.tc.phys)
				if err != nil {
					close(release)
					prec.Gate = nil
					fail("restart-failed", fmt.Sprintf("core does not restart: %v", err))
					return
				}
				w.tc = ntc
				inRestore := ntc.c.expiration.inRestoreMode()
				n := 1 + fairIndex(rt, "failingRequests", 3)
				for i := 0; i < n; i++ {
					l := cands[fairIndex(rt, "victim", len(cands))]
					var r rr
					what := ""
					if !l.renewable || fairIndex(rt, "how", 2) == 0 {
						what = "renew"
						r = ntc.req(logical.UpdateOperation, "sys/leases/renew", w.tok, map[string]any{"lease_id": l.id, "increment": 600})
						if r.ok() && !l.renewable {
							fail("non-renewable-lease-renewed", fmt.Sprintf("the non-renewable lease %s was renewed during the restore", verifx.Trunc(l.id, 40)))
						}
					} else {
						what = "revoke refused by the backend"
						w.hub.mu.Lock()
						was := w.hub.failRevoke
						w.hub.failRevoke = true
						w.hub.mu.Unlock()
						r = ntc.req(logical.UpdateOperation, "sys/leases/revoke", w.tok, map[string]any{"lease_id": l.id})
						w.hub.mu.Lock()
						w.hub.failRevoke = was
						w.hub.mu.Unlock()
						if r.ok() {
							l.dead = true
						}
					}
					w.logf("during restore (in restore mode=%v): %s of %s -> %v", inRestore, what, verifx.Trunc(l.id, 30), r)
					if !r.ok() {
						nontrivial = true
						rec.Class("failed-request-during-restore", 1)
					}
				}
				close(release)
				prec.Gate = nil
			},
			// restart during which ONE read of a stored lease entry fails while the expiration manager restores the
			// leases: either at once, or (like a storage timeout) only after the unseal call has returned. Afterwards
			// the node must either refuse to serve (the restore error handler shuts the core down) or track every
			// stored lease; serving with a stored lease nobody follows to expiry breaks the property.
			"restart-with-restore-read-fault": func(rt *rapid.T) {
				if restarts >= 2 {
					rt.Skip("enough restarts")
				}
				stored := len(c05Stored(t, w.tc.c))
				if stored == 0 {
					rt.Skip("no stored lease")
				}
				restarts++
				k := 1 + fairIndex(rt, "failedLeaseRead", stored)
				late := fairIndex(rt, "faultAfterUnsealReturned", 2) == 0
				w.tc.shutdown()
				var mu sync.Mutex
				cnt := 0
				var victim *verifx.Op
				release := make(chan struct{})
				prec := w.tc.rec
				prec.Gate = func(o *verifx.Op) {
					if o.Kind != "get" || !strings.Contains(o.Key, "sys/expire/id/") {
						return
					}
					mu.Lock()
					cnt++
					mine := victim == nil && cnt == k
					if mine {
						victim = o
					}
					mu.Unlock()
					if mine && late {
						select {
						case <-release:
						case <-time.After(20 * time.Second):
						}
					}
				}
				prec.SetFault(func(o *verifx.Op) error {
					mu.Lock()
					defer mu.Unlock()
					if o == victim {
						return verifx.ErrInjected
					}
					return nil
				})
				ntc, err := w.tc.restartOn(w.tc.phys)
				close(release)
				fired := func() bool { mu.Lock(); defer mu.Unlock(); return victim != nil }
				outcome := ""
				if err != nil {
					outcome = "unseal-refused"
				} else {
					// let the restore finish, then give the error handler (Core.Shutdown) a moment to seal the core
					deadline := time.Now().Add(15 * time.Second)
					for ntc.c.expiration != nil && ntc.c.expiration.inRestoreMode() && time.Now().Before(deadline) {
						time.Sleep(time.Millisecond)
					}
					grace := time.Now().Add(3 * time.Second)
					for fired() && !ntc.c.Sealed() && time.Now().Before(grace) {
						time.Sleep(time.Millisecond)
					}
					switch {
					case ntc.c.Sealed():
						outcome = "shut-down"
					default:
						outcome = "serving"
						ow := *w
						ow.tc = ntc
						if msg := ow.trackingInvariant(); msg != "" && fired() {
							when := "during-unseal"
							if late {
								when = "after-unseal"
							}
							prec.Gate = nil
							prec.SetFault(nil)
							w.logf("restart with read fault on lease read %d/%d (%s) -> serving, %s", k, stored, when, msg)
							w.tc = ntc
							fail("stored-lease-not-tracked:restore-read-fault-"+when, fmt.Sprintf("after a restart during which read %d of %d stored lease entries failed (%s) the node serves requests, yet %s", k, stored, when, msg))
							return
						}
					}
				}
				prec.Gate = nil
				prec.SetFault(nil)
				w.logf("restart with read fault on lease read %d/%d late=%v fired=%v -> %s", k, stored, late, fired(), outcome)
				rec.Class(fmt.Sprintf("restore-read-fault late=%v fired=%v -> %s", late, fired(), outcome), 1)
				if outcome != "serving" {
					if ntc != nil {
						ntc.shutdown()
					}
					// the operator restarts the node once more, storage healthy again
					ntc, err = w.tc.restartOn(w.tc.phys)
					if err != nil {
						fail("restart-failed", fmt.Sprintf("core does not restart after a failed lease restore: %v", err))
						return
					}
				}
				w.tc = ntc
				if fired() && stored >= 2 {
					nontrivial = true
				}
			},
			"": func(rt *rapid.T) {
				if msg := w.trackingInvariant(); msg != "" {
					fail("stored-lease-not-tracked", msg)
				}
			},
		})
		rec.Case(fmt.Sprintf("restarts=%d ha=%v stepdowns=%d", restarts, ha, stepdowns), nontrivial, verifx.Digest(strings.Join(w.log, "|")), func() any { return map[string]any{"history": w.log} })
	})
}
