//go:build verif

package vault

// C05, schedules unit: renewals, revocations and new registrations of the same leases overlap at storage-operation
// granularity. Once the requests have returned, a lease whose revocation was acknowledged is gone for good (no
// renewal wrote it back), every stored lease is tracked, and every granted expiry is within its bound.

import (
	"context"
	"fmt"
	"strings"
	"testing"
	"time"

	"github.com/openbao/openbao/sdk/v2/helper/verifx"
	"github.com/openbao/openbao/sdk/v2/logical"
	"github.com/openbao/openbao/v2/internal/helper/namespace"
	"pgregory.net/rapid"
)

func TestVerif_C05_Schedules(t *testing.T) {
	rec := verifx.NewRecorder("C05", "schedules", "a core with a recording backend (mount maximum 2h), one or two leased secrets and a service token with leases; two or three of the following requests run concurrently under a harness-owned storage-step schedule (stay-or-switch random walk): renew a lease (increment generated), revoke it, revoke the mount's leases by prefix, issue a new leased secret, renew the token, revoke the token, tune the mount's maximum TTL down; oracle once all have returned and the expiration queue has drained: a lease whose revocation was acknowledged is absent from storage, revoked at the backend and cannot be renewed (no overlapping renewal wrote it back); every granted expiry is within issue time + effective maximum; every lease in storage is tracked in exactly one of pending / nonexpiring / irrevocable; non-trivial = a switch between unfinished requests that touch the same lease")
	defer rec.Flush()
	rapid.Check(t, func(rt *rapid.T) {
		defer recoverWedged(rec)
		hub := newRecHub()
		tc := mustBoot(t, coreOpts{transactional: rapid.Bool().Draw(rt, "transactionalStorage"), cacheOff: true,
			logical: map[string]logical.Factory{"recbe": hub.factory("recbe", logical.TypeLogical)}})
		defer func() { tc.shutdown() }()
		tc.mount("rb", "recbe", map[string]any{"default_lease_ttl": "30m", "max_lease_ttl": "2h"})
		tc.writePolicy("c05s", `path "rb/*" { capabilities = ["create","read","update","delete","list"] }
path "sys/leases/*" { capabilities = ["update"] }`)
		tok, _, r := tc.createToken(tc.root, map[string]any{"policies": []string{"default", "c05s"}, "no_parent": true, "ttl": "90m"})
		if tok == "" {
			t.Fatalf("harness: token: %v", r)
		}
		type lease struct {
			id, secret string
			issue      time.Time
		}
		var leases []*lease
		issue := func() *lease {
			before := time.Now()
			r := tc.req(logical.UpdateOperation, "rb/creds/s", tok, map[string]any{"ttl_seconds": 1800})
			if !r.ok() || r.resp == nil || r.resp.Secret == nil {
				return nil
			}
			sid, _ := r.resp.Data["secret_id"].(string)
			return &lease{id: r.resp.Secret.LeaseID, secret: sid, issue: before}
		}
		for i, n := 0, 1+fairIndex(rt, "leases", 2); i < n; i++ {
			if l := issue(); l != nil {
				leases = append(leases, l)
			} else {
				t.Fatalf("harness: cannot issue a lease")
			}
		}
		type task struct {
			kind  string
			l     *lease
			inc   int
			res   rr
			ttl   time.Duration
			at    time.Time
			newL  *lease
		}
		kinds := []string{"renew", "renew", "revoke", "revoke", "revoke-prefix", "issue", "renew-token", "revoke-token", "tune-down", "renew"}
		n := 2 + fairIndex(rt, "extraTask", 2)
		tasks := make([]*task, n)
		for i := range tasks {
			tk := &task{kind: kinds[fairIndex(rt, fmt.Sprintf("kind%d", i), len(kinds))]}
			tk.l = leases[fairIndex(rt, fmt.Sprintf("lease%d", i), len(leases))]
			tk.inc = []int{60, 1800, 7000, 40000}[fairIndex(rt, fmt.Sprintf("inc%d", i), 4)]
			tasks[i] = tk
		}
		sched := verifx.NewSched(tc.rec)
		defer func() {
			sched.RunToEnd(20 * time.Second)
			tc.rec.Gate, tc.rec.GateAfter, tc.rec.TaskOf = nil, nil, nil
		}()
		for i, tk := range tasks {
			tk := tk
			sched.Spawn(fmt.Sprintf("T%d-%s", i, tk.kind), func() {
				switch tk.kind {
				case "renew":
					tk.res = tc.req(logical.UpdateOperation, "sys/leases/renew", tok, map[string]any{"lease_id": tk.l.id, "increment": tk.inc})
					tk.at = time.Now()
					if tk.res.ok() && tk.res.resp != nil && tk.res.resp.Secret != nil {
						tk.ttl = tk.res.resp.Secret.TTL
					}
				case "revoke":
					tk.res = tc.req(logical.UpdateOperation, "sys/leases/revoke", tok, map[string]any{"lease_id": tk.l.id})
				case "revoke-prefix":
					tk.res = tc.req(logical.UpdateOperation, "sys/leases/revoke-prefix/rb/creds", tc.root, nil)
				case "issue":
					before := time.Now()
					tk.res = tc.req(logical.UpdateOperation, "rb/creds/s", tok, map[string]any{"ttl_seconds": 1800})
					if tk.res.ok() && tk.res.resp != nil && tk.res.resp.Secret != nil {
						sid, _ := tk.res.resp.Data["secret_id"].(string)
						tk.newL = &lease{id: tk.res.resp.Secret.LeaseID, secret: sid, issue: before}
					}
				case "renew-token":
					tk.res = tc.req(logical.UpdateOperation, "auth/token/renew-self", tok, map[string]any{"increment": tk.inc})
				case "revoke-token":
					tk.res = tc.req(logical.UpdateOperation, "auth/token/revoke", tc.root, map[string]any{"token": tok})
				case "tune-down":
					tk.res = tc.req(logical.UpdateOperation, "sys/mounts/rb/tune", tc.root, map[string]any{"max_lease_ttl": "45m"})
				}
			})
		}
		switches, cur := 0, -1
		serr := sched.Run(func(parked []int) int {
			stay := false
			for _, p := range parked {
				if p == cur {
					stay = true
				}
			}
			if stay && rapid.IntRange(0, 9).Draw(rt, "step") < 6 {
				return cur
			}
			pick := parked[rapid.IntRange(0, len(parked)-1).Draw(rt, "pick")]
			if cur >= 0 && pick != cur && !sched.Tasks()[cur].Done {
				switches++
			}
			cur = pick
			return pick
		})
		trace := sched.Trace
		if serr != nil {
			sched.RunToEnd(10 * time.Second)
			t.Fatalf("harness: %v", serr)
		}
		tc.rec.Gate, tc.rec.GateAfter = nil, nil
		tc.waitExpirationIdle(3 * time.Second)
		if len(trace) > 150 {
			trace = trace[:150]
		}
		var hist []string
		for i, tk := range tasks {
			hist = append(hist, fmt.Sprintf("T%d %s lease=%s inc=%d -> %v ttl=%v", i, tk.kind, verifx.Trunc(tk.l.id, 24), tk.inc, tk.res, tk.ttl))
		}
		detail := map[string]any{"tasks": hist, "schedule": trace, "transactional": tc.opts.transactional}
		// ---- oracle
		tokenRevoked, prefixRevoked := false, false
		revoked := map[string]bool{}
		for _, tk := range tasks {
			if !tk.res.ok() {
				continue
			}
			switch tk.kind {
			case "revoke":
				revoked[tk.l.id] = true
			case "revoke-token":
				tokenRevoked = true
			case "revoke-prefix":
				prefixRevoked = true
			case "renew":
				if tk.ttl > 0 {
					if exp := tk.at.Add(tk.ttl); exp.After(tk.l.issue.Add(c05MountMax).Add(2 * time.Second)) {
						rec.Violation(rt, "expiry-beyond-maximum:concurrent", detail, "renewal of %s granted ttl %v: expiry %v after issue exceeds the mount maximum %v; %v", tk.l.id, tk.ttl, exp.Sub(tk.l.issue).Round(time.Second), c05MountMax, hist)
					}
				}
			}
		}
		ctx := namespace.RootContext(context.Background())
		stored := func(id string) bool {
			le, err := tc.c.expiration.loadEntry(ctx, id)
			return err == nil && le != nil
		}
		// acknowledged revocations are final: wait (bounded) for the entry to go, then it must stay gone
		deadline := time.Now().Add(5 * time.Second)
		for id := range revoked {
			for stored(id) && time.Now().Before(deadline) {
				time.Sleep(2 * time.Millisecond)
			}
			if stored(id) {
				le, _ := tc.c.expiration.loadEntry(ctx, id)
				if le != nil && le.ExpireTime.After(time.Now().Add(time.Minute)) && !le.isIrrevocable() {
					rec.Violation(rt, "revoked-lease-written-back", detail, "the revocation of lease %s was acknowledged, yet the lease is in storage again with expiry %v (an overlapping request wrote it back); %v", id, le.ExpireTime.Format(time.RFC3339), hist)
				}
				continue
			}
			rr2 := tc.req(logical.UpdateOperation, "sys/leases/renew", tc.root, map[string]any{"lease_id": id, "increment": 600})
			if rr2.ok() && rr2.resp != nil && rr2.resp.Secret != nil && rr2.resp.Secret.TTL > 0 {
				rec.Violation(rt, "revoked-lease-renewed:concurrent", detail, "lease %s was revoked (acknowledged) and could be renewed afterwards; %v", id, hist)
			}
		}
		for _, l := range leases {
			if revoked[l.id] {
				hub.mu.Lock()
				n := hub.revoked[l.secret]
				hub.mu.Unlock()
				if n == 0 && !strings.Contains(fmt.Sprint(hist), "refuses") {
					rec.Violation(rt, "revoked-lease-not-revoked-at-backend:concurrent", detail, "the revocation of lease %s was acknowledged but the backend never saw a revocation of secret %s; %v", l.id, l.secret, hist)
				}
			}
		}
		_ = tokenRevoked
		_ = prefixRevoked
		// every stored lease is tracked
		w := &c05World{t: t, tc: tc, hub: hub}
		if msg := w.trackingInvariant(); msg != "" {
			rec.Violation(rt, "stored-lease-not-tracked:concurrent", detail, "%s; %v", msg, hist)
		}
		same := false
		for i := range tasks {
			for j := i + 1; j < len(tasks); j++ {
				a, b := tasks[i], tasks[j]
				if a.l == b.l || a.kind == "revoke-prefix" || b.kind == "revoke-prefix" || a.kind == "revoke-token" || b.kind == "revoke-token" {
					same = true
				}
			}
		}
		rec.Case(fmt.Sprintf("tasks=%d", n), switches > 0 && same, verifx.Digest(hist, trace), func() any { return detail })
		if switches > 0 {
			rec.Class("with-preemption", 1)
		}
		blocked := 0
		for _, tk := range sched.Tasks() {
			blocked += tk.Blocked
		}
		if blocked > 0 {
			rec.Class("lock-blocked-seen", 1)
		}
	})
}
