//go:build verif

package vault

import (
	"encoding/hex"
	"fmt"
	"testing"

	"github.com/openbao/openbao/sdk/v2/logical"

	"github.com/openbao/openbao/sdk/v2/helper/verifx"
	"pgregory.net/rapid"
)

// TestVerif_C20_UnsealThreshold: an unseal proceeds only once the configured threshold of DISTINCT valid shares has
// been supplied.
func TestVerif_C20_UnsealThreshold(t *testing.T) {
	rec := verifx.NewRecorder("C20", "unseal-threshold", "a Shamir-sealed core with generated n (2..5) and threshold t (2..n) is sealed and fed a generated sequence of shares: valid shares (possibly repeated), shares of an older generation (from before a rekey), shares with a flipped byte, truncated shares, optional progress resets; model = the set of distinct valid current shares supplied since the last reset; oracle: the core is unsealed iff the model holds >= t distinct valid shares (an invalid share among the first t makes the combination fail and resets progress, as documented); it never unseals with fewer than t distinct valid shares; non-trivial = a sequence with a duplicate or invalid share before the threshold was reached")
	defer rec.Flush()
	rapid.Check(t, func(rt *rapid.T) {
		n := 2 + fairIndex(rt, "n", 4)
		th := 2 + fairIndex(rt, "t", n-1)
		tc, err := bootCore(t, coreOpts{shamir: true, shares: n, threshold: th, transactional: true})
		if err != nil {
			t.Fatalf("harness: %v", err)
		}
		defer tc.shutdown()
		old := tc.keys
		cur := tc.keys
		rekeyed := false
		if fairIndex(rt, "rekeyFirst", 3) == 0 {
			w := &c10World{t: t, tc: tc, shamir: true, keys: tc.keys, thr: th, secrets: map[string]string{}}
			keys, err := w.rekey(n, th)
			if err != nil {
				t.Fatalf("harness: rekey: %v", err)
			}
			cur = keys
			rekeyed = true
		}
		if err := tc.seal(); err != nil {
			t.Fatalf("harness: seal: %v", err)
		}
		supplied := map[int]bool{} // distinct valid current shares since the last reset
		var hist []string
		nontrivial := false
		steps := 3 + fairIndex(rt, "steps", 10)
		for i := 0; i < steps && tc.c.Sealed(); i++ {
			kind := []string{"valid", "valid", "valid", "duplicate", "old", "flipped", "truncated", "reset"}[fairIndex(rt, "kind", 8)]
			var key []byte
			idx := -1
			switch kind {
			case "valid":
				idx = fairIndex(rt, "share", n)
				key = TestKeyCopy(cur[idx])
			case "duplicate":
				if len(supplied) == 0 {
					continue
				}
				for j := range cur {
					if supplied[j] {
						idx = j
						break
					}
				}
				key = TestKeyCopy(cur[idx])
			case "old":
				if !rekeyed {
					continue
				}
				key = TestKeyCopy(old[fairIndex(rt, "oldshare", len(old))])
			case "flipped":
				key = TestKeyCopy(cur[fairIndex(rt, "share", n)])
				key[fairIndex(rt, "pos", len(key)-1)] ^= 0x41
			case "truncated":
				key = TestKeyCopy(cur[0])[:8]
			case "reset":
				tc.c.ResetUnsealProcess()
				supplied = map[int]bool{}
				hist = append(hist, "reset")
				continue
			}
			before := len(supplied)
			unsealed, uerr := tc.c.Unseal(key)
			hist = append(hist, fmt.Sprintf("%s(share %d) -> unsealed=%v err=%v", kind, idx, unsealed, uerr != nil))
			if kind != "valid" || supplied[idx] {
				if before < th {
					nontrivial = true
				}
			}
			detail := map[string]any{"n": n, "t": th, "rekeyed_before": rekeyed, "history": hist}
			switch kind {
			case "valid", "duplicate":
				if uerr == nil || unsealed {
					supplied[idx] = true
				}
				if unsealed && len(supplied) < th {
					rec.Violation(rt, "unsealed-below-threshold", detail, "the core unsealed after only %d distinct valid shares (threshold %d): %v", len(supplied), th, hist)
				}
				if !unsealed && uerr == nil && len(supplied) >= th {
					rec.Violation(rt, "not-unsealed-at-threshold", detail, "%d distinct valid shares supplied (threshold %d) but the core is still sealed: %v", len(supplied), th, hist)
				}
				if uerr != nil && !unsealed {
					// a bad share supplied earlier poisons the combination: progress is reset by the core
					supplied = map[int]bool{}
				}
			default:
				if unsealed {
					rec.Violation(rt, "unsealed-with-invalid-share", detail, "the core unsealed right after an invalid share (%s): %v", kind, hist)
				}
				// An invalid share is either rejected outright (wrong length; progress unaffected), accepted into the
				// progress (the combination at the threshold will then fail), or it completed the threshold count and
				// the failed combination already reset the progress. The harness resets the progress explicitly so
				// that the model starts clean in all three cases.
				tc.c.ResetUnsealProcess()
				supplied = map[int]bool{}
				hist = append(hist, "reset(after invalid share)")
			}
		}
		rec.Case(fmt.Sprintf("n=%d,t=%d", n, th), nontrivial, verifx.Digest(n, th, rekeyed, hist), func() any {
			return map[string]any{"n": n, "t": th, "rekeyed_before": rekeyed, "history": hist, "unsealed_at_end": !tc.c.Sealed()}
		})
	})
}

// TestVerif_C20_RotateThreshold: a root-key rotation (rekey) proceeds only once the configured threshold of distinct
// valid shares has been supplied - unseal shares for a Shamir seal, recovery shares for a stored-key seal.
func TestVerif_C20_RotateThreshold(t *testing.T) {
	rec := verifx.NewRecorder("C20", "rotate-threshold", "a core with a Shamir seal (n shares, threshold t) or the stored-key test seal with n recovery shares (threshold t) starts a root-key rotation through sys/rotate/root/init and is fed a generated sequence of shares through sys/rotate/root/update: valid distinct shares, duplicates, corrupted shares, shares with a wrong nonce; model = distinct valid shares since the rotation was (re)initialised; oracle: the rotation completes exactly when the t-th distinct valid share is supplied, never earlier, duplicates and wrong nonces do not count; after an invalid share the harness re-initialises the rotation; non-trivial = a duplicate, corrupted or wrong-nonce share was supplied before completion, or t >= 2")
	defer rec.Flush()
	rapid.Check(t, func(rt *rapid.T) {
		shamir := fairIndex(rt, "seal", 2) == 0
		n := 1 + fairIndex(rt, "n", 5)
		th := 1
		if n > 1 {
			th = 2 + fairIndex(rt, "t", n-1)
		}
		tc, err := bootCore(t, coreOpts{shamir: shamir, shares: n, threshold: th, transactional: true})
		if err != nil {
			t.Fatalf("harness: %v", err)
		}
		defer tc.shutdown()
		auth := tc.keys
		if !shamir {
			auth = tc.recoveryKeys
		}
		if len(auth) != n {
			t.Fatalf("harness: expected %d authorising shares, got %d", n, len(auth))
		}
		var hist []string
		initRotation := func() string {
			tc.req(logical.DeleteOperation, "sys/rotate/root/init", tc.root, nil)
			r := tc.req(logical.UpdateOperation, "sys/rotate/root/init", tc.root, map[string]any{"secret_shares": 1, "secret_threshold": 1})
			if !r.ok() || r.resp == nil {
				t.Fatalf("harness: rotate init: %v", r)
			}
			nonce, _ := r.resp.Data["nonce"].(string)
			if nonce == "" {
				t.Fatalf("harness: rotate init returned no nonce: %v", r.resp.Data)
			}
			return nonce
		}
		nonce := initRotation()
		supplied := map[int]bool{}
		nontrivial := th >= 2
		done := false
		steps := 3 + fairIndex(rt, "steps", 10)
		for i := 0; i < steps && !done; i++ {
			kind := []string{"valid", "valid", "valid", "duplicate", "flipped", "wrong-nonce"}[fairIndex(rt, "kind", 6)]
			idx := fairIndex(rt, "share", n)
			key := TestKeyCopy(auth[idx])
			useNonce := nonce
			switch kind {
			case "duplicate":
				found := false
				for j := range auth {
					if supplied[j] {
						idx, found = j, true
						break
					}
				}
				if !found {
					continue
				}
				key = TestKeyCopy(auth[idx])
			case "flipped":
				key[fairIndex(rt, "pos", len(key)-1)] ^= 0x41
			case "wrong-nonce":
				useNonce = "00000000-0000-0000-0000-000000000000"
			}
			r := tc.req(logical.UpdateOperation, "sys/rotate/root/update", tc.root, map[string]any{"key": hex.EncodeToString(key), "nonce": useNonce})
			complete := false
			if r.ok() && r.resp != nil {
				complete, _ = r.resp.Data["complete"].(bool)
			}
			hist = append(hist, fmt.Sprintf("%s(share %d) -> complete=%v %v", kind, idx, complete, r))
			detail := map[string]any{"seal": map[bool]string{true: "shamir", false: "stored-key with recovery shares"}[shamir], "n": n, "t": th, "history": hist}
			if kind != "valid" || supplied[idx] {
				nontrivial = true
			}
			switch kind {
			case "valid", "duplicate":
				already := supplied[idx]
				if r.ok() {
					supplied[idx] = true
				}
				if complete && len(supplied) < th {
					rec.Violation(rt, "rotation-completed-below-threshold", detail, "the rotation completed after only %d distinct valid shares (threshold %d): %v", len(supplied), th, hist)
				}
				if already && complete {
					rec.Violation(rt, "rotation-completed-by-duplicate-share", detail, "a repeated share completed the rotation: %v", hist)
				}
				if !complete && !already && r.ok() && len(supplied) >= th {
					rec.Violation(rt, "rotation-not-completed-at-threshold", detail, "%d distinct valid shares supplied (threshold %d) but the rotation did not complete: %v", len(supplied), th, hist)
				}
				if !r.ok() && !already {
					rec.Violation(rt, "valid-share-rejected", detail, "a valid, not yet supplied share was rejected: %v", hist)
				}
				if complete {
					done = true
				}
			case "wrong-nonce":
				if complete || r.ok() {
					rec.Violation(rt, "share-accepted-with-wrong-nonce", detail, "a share supplied with a wrong nonce was accepted: %v", hist)
				}
			case "flipped":
				if complete {
					rec.Violation(rt, "rotation-completed-with-invalid-share", detail, "the rotation completed right after a corrupted share: %v", hist)
				}
				// the corrupted share may have entered the progress: start over
				nonce = initRotation()
				supplied = map[int]bool{}
				hist = append(hist, "re-init")
			}
		}
		rec.Case(fmt.Sprintf("shamir=%v,t=%d", shamir, th), nontrivial, verifx.Digest(shamir, n, th, hist), func() any {
			return map[string]any{"shamir": shamir, "n": n, "t": th, "history": hist, "completed": done}
		})
	})
}
