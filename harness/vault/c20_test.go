//go:build verif

package vault

import (
	"context"
	"encoding/hex"
	"errors"
	"fmt"
	"strings"
	"testing"

	"github.com/openbao/openbao/sdk/v2/logical"
	"github.com/openbao/openbao/v2/internal/helper/namespace"

	"github.com/openbao/openbao/sdk/v2/helper/verifx"
	"pgregory.net/rapid"
)

// TestVerif_C20_UnsealThreshold: an unseal proceeds only once the configured threshold of DISTINCT valid shares has
// been supplied.
func TestVerif_C20_UnsealThreshold(t *testing.T) {
	rec := verifx.NewRecorder("C20", "unseal-threshold", "a Shamir-sealed core with generated n (2..5) and threshold t (2..n) is sealed and fed a generated sequence of shares: valid shares (possibly repeated), shares of an older generation (from before a rekey), shares with a flipped byte, truncated shares, optional progress resets; model = the set of distinct valid current shares supplied since the last reset; oracle: the core is unsealed iff the model holds >= t distinct valid shares (an invalid share among the first t makes the combination fail and resets progress, as documented); it never unseals with fewer than t distinct valid shares; non-trivial = a sequence with a duplicate or invalid share before the threshold was reached")
	defer rec.Flush()
	rapid.Check(t, func(rt *rapid.T) {
		defer recoverWedged(rec)
		n := 2 + fairIndex(rt, "n", 4)
		th := 2 + fairIndex(rt, "t", n-1)
		tc, err := bootCore(t, coreOpts{shamir: true, shares: n, threshold: th, transactional: true})
		if err != nil {
			t.Fatalf("harness: %v", err)
		}
		defer tc.shutdown()
		old := tc.keys
		cur := tc.keys
		rekeyed := false
		if fairIndex(rt, "rekeyFirst", 3) == 0 {
			w := &c10World{t: t, tc: tc, shamir: true, keys: tc.keys, thr: th, secrets: map[string]string{}}
			keys, err := w.rekey(n, th)
			if err != nil {
				t.Fatalf("harness: rekey: %v", err)
			}
			cur = keys
			rekeyed = true
		}
		var hist []string
		restarted := rapid.Bool().Draw(rt, "restartInsteadOfSeal")
		if restarted {
			// a new process on the same storage: nothing of the seal's configuration is in memory yet
			tc.keys = cur
			tc.shutdown()
			ntc, err := tc.restartSealed()
			if err != nil {
				t.Fatalf("harness: restart: %v", err)
			}
			tc = ntc
			defer ntc.shutdown()
			hist = append(hist, "restart (sealed)")
		} else if err := tc.seal(); err != nil {
			t.Fatalf("harness: seal: %v", err)
		}
		supplied := map[int]bool{} // distinct valid current shares since the last reset that are certainly part of the progress
		maybe := map[int]bool{}    // valid current shares of requests that failed on an injected storage fault: recorded or not
		nontrivial := false
		faulted := 0
		steps := 3 + fairIndex(rt, "steps", 10)
		for i := 0; i < steps && tc.c.Sealed(); i++ {
			kind := []string{"valid", "valid", "valid", "duplicate", "old", "flipped", "truncated", "reset", "faulted"}[fairIndex(rt, "kind", 9)]
			if i == 0 && restarted && rapid.Bool().Draw(rt, "firstShareMeetsOutage") {
				kind = "faulted"
			}
			var key []byte
			idx := -1
			fired := 0
			switch kind {
			case "valid", "faulted":
				idx = fairIndex(rt, "share", n)
				key = TestKeyCopy(cur[idx])
				if kind == "faulted" {
					// the storage fails the k-th read made while this share is handled, or that one and all later ones
					k, outage, reads := fairIndex(rt, "failRead", 6), rapid.Bool().Draw(rt, "outage"), 0
					tc.rec.SetFault(func(o *verifx.Op) error {
						if o.Kind == "get" || o.Kind == "list" {
							reads++
							if reads-1 == k || outage && reads-1 > k {
								fired++
								return errors.New("verif: injected read fault")
							}
						}
						return nil
					})
				}
			case "duplicate":
				if len(supplied) == 0 {
					continue
				}
				for j := range cur {
					if supplied[j] {
						idx = j
						break
					}
				}
				key = TestKeyCopy(cur[idx])
			case "old":
				if !rekeyed {
					continue
				}
				key = TestKeyCopy(old[fairIndex(rt, "oldshare", len(old))])
			case "flipped":
				key = TestKeyCopy(cur[fairIndex(rt, "share", n)])
				key[fairIndex(rt, "pos", len(key)-1)] ^= 0x41
			case "truncated":
				key = TestKeyCopy(cur[0])[:8]
			case "reset":
				tc.c.ResetUnsealProcess()
				supplied, maybe = map[int]bool{}, map[int]bool{}
				hist = append(hist, "reset")
				continue
			}
			before := len(supplied)
			unsealed, uerr := tc.c.Unseal(key)
			tc.rec.SetFault(nil)
			hist = append(hist, fmt.Sprintf("%s(share %d) -> unsealed=%v err=%v faults=%d", kind, idx, unsealed, uerr != nil, fired))
			if kind != "valid" || supplied[idx] {
				if before < th {
					nontrivial = true
				}
			}
			detail := map[string]any{"n": n, "t": th, "rekeyed_before": rekeyed, "restarted": restarted, "history": hist}
			if kind == "faulted" {
				if fired == 0 {
					kind = "valid" // the request needed no read: an ordinary share
				} else {
					faulted++
					upper := map[int]bool{idx: true}
					for j := range supplied {
						upper[j] = true
					}
					for j := range maybe {
						upper[j] = true
					}
					if unsealed && len(upper) < th {
						rec.Violation(rt, "unsealed-below-threshold", detail, "the core unsealed after at most %d distinct valid shares (threshold %d): %v", len(upper), th, hist)
					}
					if uerr != nil {
						// the share may have been recorded before the failing read, and a failed combination drops
						// the progress: from here on only the upper bound is known
						maybe, supplied = upper, map[int]bool{}
					} else {
						supplied[idx] = true
					}
					continue
				}
			}
			switch kind {
			case "valid", "duplicate":
				if uerr != nil && !unsealed {
					// the progress holds valid shares of the current generation only (the harness resets it after every
					// invalid one) and the storage answered: nothing entitles the core to refuse this share
					rec.Violation(rt, "valid-share-refused", detail, "a valid share was refused (%v) although only valid shares of the current generation had been supplied since the last reset (%d certain, %d after failed requests): %v", uerr, len(supplied), len(maybe), hist)
				}
				if uerr == nil || unsealed {
					supplied[idx] = true
				}
				upper := len(supplied)
				for j := range maybe {
					if !supplied[j] {
						upper++
					}
				}
				if unsealed && upper < th {
					rec.Violation(rt, "unsealed-below-threshold", detail, "the core unsealed after only %d distinct valid shares (threshold %d): %v", upper, th, hist)
				}
				if !unsealed && uerr == nil && len(supplied) >= th {
					rec.Violation(rt, "not-unsealed-at-threshold", detail, "%d distinct valid shares supplied (threshold %d) but the core is still sealed: %v", len(supplied), th, hist)
				}
				if uerr != nil && !unsealed {
					// a bad share supplied earlier poisons the combination: progress is reset by the core
					supplied = map[int]bool{}
				}
			default:
				if unsealed {
					rec.Violation(rt, "unsealed-with-invalid-share", detail, "the core unsealed right after an invalid share (%s): %v", kind, hist)
				}
				// An invalid share is either rejected outright (wrong length; progress unaffected), accepted into the
				// progress (the combination at the threshold will then fail), or it completed the threshold count and
				// the failed combination already reset the progress. The harness resets the progress explicitly so
				// that the model starts clean in all three cases.
				tc.c.ResetUnsealProcess()
				supplied, maybe = map[int]bool{}, map[int]bool{}
				hist = append(hist, "reset(after invalid share)")
			}
		}
		if faulted > 0 {
			nontrivial = true
			rec.Class("share-met-a-storage-outage", 1)
			if restarted {
				rec.Class("share-met-a-storage-outage:after-restart", 1)
			}
		}
		rec.Case(fmt.Sprintf("n=%d,t=%d", n, th), nontrivial, verifx.Digest(n, th, rekeyed, hist), func() any {
			return map[string]any{"n": n, "t": th, "rekeyed_before": rekeyed, "history": hist, "unsealed_at_end": !tc.c.Sealed()}
		})
	})
}

// TestVerif_C20_RotateThreshold: a root-key rotation (rekey) proceeds only once the configured threshold of distinct
// valid shares has been supplied - unseal shares for a Shamir seal, recovery shares for a stored-key seal.
func TestVerif_C20_RotateThreshold(t *testing.T) {
	rec := verifx.NewRecorder("C20", "rotate-threshold", "a core with a Shamir seal (n shares, threshold t) or the stored-key test seal with n recovery shares (threshold t) starts a root-key rotation through sys/rotate/root/init and is fed a generated sequence of shares through sys/rotate/root/update: valid distinct shares, duplicates, corrupted shares, shares with a wrong nonce; model = distinct valid shares since the rotation was (re)initialised; oracle: the rotation completes exactly when the t-th distinct valid share is supplied, never earlier, duplicates and wrong nonces do not count; after an invalid share the harness re-initialises the rotation; non-trivial = a duplicate, corrupted or wrong-nonce share was supplied before completion, or t >= 2")
	defer rec.Flush()
	rapid.Check(t, func(rt *rapid.T) {
		defer recoverWedged(rec)
		shamir := fairIndex(rt, "seal", 2) == 0
		n := 1 + fairIndex(rt, "n", 5)
		th := 1
		if n > 1 {
			th = 2 + fairIndex(rt, "t", n-1)
		}
		tc, err := bootCore(t, coreOpts{shamir: shamir, shares: n, threshold: th, transactional: true})
		if err != nil {
			t.Fatalf("harness: %v", err)
		}
		defer tc.shutdown()
		auth := tc.keys
		if !shamir {
			auth = tc.recoveryKeys
		}
		if len(auth) != n {
			t.Fatalf("harness: expected %d authorising shares, got %d", n, len(auth))
		}
		var hist []string
		initRotation := func() string {
			tc.req(logical.DeleteOperation, "sys/rotate/root/init", tc.root, nil)
			r := tc.req(logical.UpdateOperation, "sys/rotate/root/init", tc.root, map[string]any{"secret_shares": 1, "secret_threshold": 1})
			if !r.ok() || r.resp == nil {
				t.Fatalf("harness: rotate init: %v", r)
			}
			nonce, _ := r.resp.Data["nonce"].(string)
			if nonce == "" {
				t.Fatalf("harness: rotate init returned no nonce: %v", r.resp.Data)
			}
			return nonce
		}
		nonce := initRotation()
		supplied := map[int]bool{}
		nontrivial := th >= 2
		done := false
		steps := 3 + fairIndex(rt, "steps", 10)
		for i := 0; i < steps && !done; i++ {
			kind := []string{"valid", "valid", "valid", "duplicate", "flipped", "wrong-nonce"}[fairIndex(rt, "kind", 6)]
			idx := fairIndex(rt, "share", n)
			key := TestKeyCopy(auth[idx])
			useNonce := nonce
			switch kind {
			case "duplicate":
				found := false
				for j := range auth {
					if supplied[j] {
						idx, found = j, true
						break
					}
				}
				if !found {
					continue
				}
				key = TestKeyCopy(auth[idx])
			case "flipped":
				key[fairIndex(rt, "pos", len(key)-1)] ^= 0x41
			case "wrong-nonce":
				useNonce = "00000000-0000-0000-0000-000000000000"
			}
			r := tc.req(logical.UpdateOperation, "sys/rotate/root/update", tc.root, map[string]any{"key": hex.EncodeToString(key), "nonce": useNonce})
			complete := false
			if r.ok() && r.resp != nil {
				complete, _ = r.resp.Data["complete"].(bool)
			}
			hist = append(hist, fmt.Sprintf("%s(share %d) -> complete=%v %v", kind, idx, complete, r))
			detail := map[string]any{"seal": map[bool]string{true: "shamir", false: "stored-key with recovery shares"}[shamir], "n": n, "t": th, "history": hist}
			if kind != "valid" || supplied[idx] {
				nontrivial = true
			}
			switch kind {
			case "valid", "duplicate":
				already := supplied[idx]
				if r.ok() {
					supplied[idx] = true
				}
				if complete && len(supplied) < th {
					rec.Violation(rt, "rotation-completed-below-threshold", detail, "the rotation completed after only %d distinct valid shares (threshold %d): %v", len(supplied), th, hist)
				}
				if already && complete {
					rec.Violation(rt, "rotation-completed-by-duplicate-share", detail, "a repeated share completed the rotation: %v", hist)
				}
				if !complete && !already && r.ok() && len(supplied) >= th {
					rec.Violation(rt, "rotation-not-completed-at-threshold", detail, "%d distinct valid shares supplied (threshold %d) but the rotation did not complete: %v", len(supplied), th, hist)
				}
				if !r.ok() && !already {
					rec.Violation(rt, "valid-share-rejected", detail, "a valid, not yet supplied share was rejected: %v", hist)
				}
				if complete {
					done = true
				}
			case "wrong-nonce":
				if complete || r.ok() {
					rec.Violation(rt, "share-accepted-with-wrong-nonce", detail, "a share supplied with a wrong nonce was accepted: %v", hist)
				}
			case "flipped":
				if complete {
					rec.Violation(rt, "rotation-completed-with-invalid-share", detail, "the rotation completed right after a corrupted share: %v", hist)
				}
				// the corrupted share may have entered the progress: start over
				nonce = initRotation()
				supplied = map[int]bool{}
				hist = append(hist, "re-init")
			}
		}
		rec.Case(fmt.Sprintf("shamir=%v,t=%d", shamir, th), nontrivial, verifx.Digest(shamir, n, th, hist), func() any {
			return map[string]any{"shamir": shamir, "n": n, "t": th, "history": hist, "completed": done}
		})
	})
}

// TestVerif_C20_ShareGatedHistory: histories that mix share-gated operations fed with made-up, outdated and genuine
// shares (root-token generation, root-key rotation with shares) with operations that need no shares (root-key
// rotation through sys/rotate/root, keyring rotation) and with seal / restart; whatever happened before, the core
// unseals exactly with the threshold of distinct genuine current shares and with nothing else.
func TestVerif_C20_ShareGatedHistory(t *testing.T) {
	rec := verifx.NewRecorder("C20", "share-gated-history", "a Shamir-sealed core with generated n (2..5) and threshold t (2..n) runs a generated history of: root-token generation attempts (sys/generate-root) fed with made-up shares of the right shape, shares of an older generation, genuine shares, or t-1 genuine plus one made-up share; rekey to new shares with genuine shares; root-key rotation without shares (sys/rotate/root); keyring rotation; writes; then seal or restart on the same storage and unseal attempts first with made-up / outdated share sets, then with the genuine ones; oracle: a root token is produced exactly when t distinct genuine current shares were supplied; made-up or outdated share sets never unseal, the threshold of genuine current shares always does, and every value written earlier reads back; non-trivial = a rejected share-gated attempt followed by a share-less root-key rotation or a rekey before the seal")
	defer rec.Flush()
	rapid.Check(t, func(rt *rapid.T) {
		defer recoverWedged(rec)
		n := 2 + fairIndex(rt, "n", 4)
		th := 2 + fairIndex(rt, "t", n-1)
		tc, err := bootCore(t, coreOpts{shamir: true, shares: n, threshold: th, transactional: rapid.Bool().Draw(rt, "transactionalStorage")})
		if err != nil {
			t.Fatalf("harness: %v", err)
		}
		defer func() { tc.shutdown() }()
		w := &c10World{t: t, tc: tc, shamir: true, keys: tc.keys, thr: th, secrets: map[string]string{}}
		var old [][]byte
		var hist []string
		nontrivial := false
		rejectedSeen, rotatedAfterReject := false, false
		forgedSets := [][][]byte{}
		forge := func(label string, cnt int) [][]byte {
			out := make([][]byte, cnt)
			for i := range out {
				b := rapid.SliceOfN(rapid.Byte(), len(w.keys[0]), len(w.keys[0])).Draw(rt, fmt.Sprintf("%s%d", label, i))
				b[len(b)-1] = byte(i + 1) // distinct, non-zero x-coordinates: a well-formed share set
				out[i] = b
			}
			return out
		}
		fail := func(sig, msg string) {
			rec.Violation(rt, sig, map[string]any{"n": n, "t": th, "history": hist}, "%s; history=%v", msg, hist)
		}
		generateRoot := func(shares [][]byte, genuine bool, what string) {
			c := tc.c
			_ = c.GenerateRootCancel(tc.ctx)
			otp := strings.Repeat("A", TokenPrefixLength+TokenLength)
			if err := c.GenerateRootInit(tc.ctx, otp, "", GenerateStandardRootTokenStrategy); err != nil {
				t.Fatalf("harness: generate-root init: %v", err)
			}
			conf, err := c.GenerateRootConfiguration(tc.ctx)
			if err != nil || conf == nil {
				t.Fatalf("harness: generate-root config: %v", err)
			}
			produced := false
			var lastErr error
			for _, s := range shares {
				res, err := c.GenerateRootUpdate(tc.ctx, TestKeyCopy(s), conf.Nonce, GenerateStandardRootTokenStrategy)
				lastErr = err
				if err == nil && res != nil && res.EncodedToken != "" {
					produced = true
				}
				if err != nil {
					break
				}
			}
			_ = c.GenerateRootCancel(tc.ctx)
			hist = append(hist, fmt.Sprintf("generate-root with %s -> token=%v err=%v", what, produced, lastErr != nil))
			if produced && !genuine {
				fail("root-token-generated-without-genuine-threshold", fmt.Sprintf("a root token was generated from %s", what))
			}
			if !produced && genuine {
				fail("root-token-refused-with-genuine-threshold", fmt.Sprintf("root token generation with %d distinct genuine shares (threshold %d) failed: %v", len(shares), th, lastErr))
			}
			if !produced {
				rejectedSeen = true
			}
		}
		steps := 2 + fairIndex(rt, "steps", 6)
		for i := 0; i < steps; i++ {
			switch []string{"genroot-forged", "genroot-forged", "genroot-mixed", "genroot-genuine", "genroot-old", "rekey", "rotate-root", "rotate-root", "rotate-keyring", "write", "genroot-cancelled-then-short"}[fairIndex(rt, "op", 11)] {
			case "genroot-forged":
				f := forge(fmt.Sprintf("forged%d-", i), th)
				forgedSets = append(forgedSets, f)
				generateRoot(f, false, "made-up shares")
			case "genroot-mixed":
				f := forge(fmt.Sprintf("mixed%d-", i), 1)
				set := append([][]byte{}, w.keys[:th-1]...)
				f[0][len(f[0])-1] = 0xfe
				set = append(set, f[0])
				forgedSets = append(forgedSets, set)
				generateRoot(set, false, fmt.Sprintf("%d genuine shares and one made-up share", th-1))
			case "genroot-cancelled-then-short":
				// k < t genuine shares go into an attempt that is then cancelled; a NEW attempt fed with only t-k genuine
				// shares must not succeed: shares count per attempt
				c := tc.c
				_ = c.GenerateRootCancel(tc.ctx)
				otp := strings.Repeat("B", TokenPrefixLength+TokenLength)
				if err := c.GenerateRootInit(tc.ctx, otp, "", GenerateStandardRootTokenStrategy); err != nil {
					t.Fatalf("harness: generate-root init: %v", err)
				}
				conf, err := c.GenerateRootConfiguration(tc.ctx)
				if err != nil || conf == nil {
					t.Fatalf("harness: generate-root config: %v", err)
				}
				k := 1 + fairIndex(rt, fmt.Sprintf("firstAttemptShares%d", i), th-1)
				for j := 0; j < k; j++ {
					if _, err := c.GenerateRootUpdate(tc.ctx, TestKeyCopy(w.keys[j]), conf.Nonce, GenerateStandardRootTokenStrategy); err != nil {
						t.Fatalf("harness: genuine share refused: %v", err)
					}
				}
				if err := c.GenerateRootCancel(tc.ctx); err != nil {
					t.Fatalf("harness: cancel: %v", err)
				}
				if err := c.GenerateRootInit(tc.ctx, otp, "", GenerateStandardRootTokenStrategy); err != nil {
					t.Fatalf("harness: generate-root init (2): %v", err)
				}
				conf2, err := c.GenerateRootConfiguration(tc.ctx)
				if err != nil || conf2 == nil {
					t.Fatalf("harness: generate-root config (2): %v", err)
				}
				produced := false
				for j := k; j < th && th-k < th; j++ {
					res, err := c.GenerateRootUpdate(tc.ctx, TestKeyCopy(w.keys[j]), conf2.Nonce, GenerateStandardRootTokenStrategy)
					if err == nil && res != nil && res.EncodedToken != "" {
						produced = true
					}
				}
				prog, _ := c.GenerateRootProgress(tc.ctx)
				_ = c.GenerateRootCancel(tc.ctx)
				hist = append(hist, fmt.Sprintf("generate-root: %d shares into a cancelled attempt, then %d into a new one -> token=%v progress=%d", k, th-k, produced, prog))
				if produced {
					fail("root-token-generated-below-threshold:shares-of-a-cancelled-attempt-counted", fmt.Sprintf("a root token was issued after only %d of %d shares were supplied to the attempt (%d more had gone into an earlier, cancelled attempt)", th-k, th, k))
				}
				if prog != th-k {
					fail("root-generation-progress-wrong:shares-of-a-cancelled-attempt-counted", fmt.Sprintf("the new attempt reports progress %d after %d shares (the cancelled attempt had received %d)", prog, th-k, k))
				}
			case "genroot-genuine":
				generateRoot(w.keys[:th], true, "the threshold of genuine shares")
			case "genroot-old":
				if old == nil {
					continue
				}
				generateRoot(old[:th], false, "shares of the generation before the rekey")
			case "rekey":
				keys, err := w.rekey(n, th)
				if err != nil {
					fail("rekey-with-genuine-shares-failed", err.Error())
					return
				}
				old, w.keys = w.keys, keys
				hist = append(hist, "rekey with genuine shares")
				if rejectedSeen {
					rotatedAfterReject = true
				}
			case "rotate-root":
				r := tc.req(logical.UpdateOperation, "sys/rotate/root", tc.root, nil)
				hist = append(hist, fmt.Sprintf("sys/rotate/root -> %v", r))
				if r.ok() && rejectedSeen {
					rotatedAfterReject = true
				}
			case "rotate-keyring":
				r := tc.req(logical.UpdateOperation, "sys/rotate", tc.root, nil)
				hist = append(hist, fmt.Sprintf("sys/rotate -> %v", r))
			case "write":
				k := fmt.Sprintf("k%d", i)
				w.write(k, "v"+k)
				hist = append(hist, "write "+k)
			}
		}
		w.write("last", "vlast")
		// ---- seal or restart, then unseal attempts
		if fairIndex(rt, "restart", 2) == 0 {
			tc.shutdown()
			o := tc.opts
			o.phys, o.noInit, o.keys = tc.phys, true, nil
			ct := &caseT{T: t}
			conf := newCoreConfig(ct, &o)
			c, err := NewCore(conf)
			if err != nil {
				t.Fatalf("harness: NewCore on the same storage: %v", err)
			}
			ntc := &tcore{t: t, ct: ct, c: c, phys: tc.phys, rec: tc.rec, opts: o, ctx: tc.ctx, root: tc.root}
			tc = ntc
			w.tc = ntc
			hist = append(hist, "restart")
		} else {
			if err := tc.seal(); err != nil {
				t.Fatalf("harness: seal: %v", err)
			}
			hist = append(hist, "seal")
		}
		try := func(set [][]byte) bool {
			tc.c.ResetUnsealProcess()
			for _, s := range set {
				if ok, _ := tc.c.Unseal(TestKeyCopy(s)); ok {
					return true
				}
			}
			tc.c.ResetUnsealProcess()
			return !tc.c.Sealed()
		}
		for _, f := range forgedSets {
			if try(f) {
				fail("unsealed-with-shares-that-are-not-genuine", "the core was unsealed with a share set that contains made-up shares")
				return
			}
		}
		if old != nil && try(old[:th]) {
			fail("unsealed-with-outdated-shares", "the core was unsealed with the shares that were valid before a completed rekey")
			return
		}
		if th > 1 && try(w.keys[:th-1]) {
			fail("unsealed-below-threshold", fmt.Sprintf("the core was unsealed with %d genuine shares (threshold %d)", th-1, th))
			return
		}
		if !try(w.keys[n-th:]) {
			fail("genuine-threshold-does-not-unseal", fmt.Sprintf("%d distinct genuine current shares (threshold %d) do not unseal the core", th, th))
			return
		}
		for k, v := range w.secrets {
			r := tc.req(logical.ReadOperation, "cubbyhole/"+k, tc.root, nil)
			if !r.ok() || r.resp == nil || r.resp.Data["v"] != v {
				fail("value-lost", fmt.Sprintf("value %s written before the seal does not read back: %v", k, r))
			}
		}
		nontrivial = rotatedAfterReject
		rec.Case(fmt.Sprintf("n=%d,t=%d", n, th), nontrivial, verifx.Digest(n, th, hist), func() any { return map[string]any{"n": n, "t": th, "history": hist} })
	})
}

// restartSealed: a new core on the storage of tc (which must have been shut down), left sealed.
func (tc *tcore) restartSealed() (*tcore, error) {
	if tc.abandoned {
		panic(errCoreWedged)
	}
	o := tc.opts
	o.phys, o.noInit, o.keys = tc.phys, true, tc.keys
	ct := &caseT{T: tc.t}
	n := &tcore{t: tc.t, ct: ct, phys: o.phys, rec: verifx.RecOf(o.phys), opts: o, ctx: tc.ctx, keys: tc.keys, root: tc.root}
	c, err := NewCore(newCoreConfig(ct, &o))
	if err != nil {
		ct.done()
		return nil, fmt.Errorf("NewCore: %w", err)
	}
	n.c = c
	return n, nil
}

// TestVerif_C20_NamespaceUnsealThreshold: the same threshold rule for the Shamir seal of a sealable namespace, whose
// shares arrive one request at a time with the request's context - requests that are abandoned by their client or
// meet a storage fault must not change what the following shares add up to.
func TestVerif_C20_NamespaceUnsealThreshold(t *testing.T) {
	rec := verifx.NewRecorder("C20", "namespace-unseal-threshold", "a namespace with a Shamir seal of its own (n 2..5 shares, threshold t 2..n) is created on a core, the core is restarted on its storage (or only the namespace is left sealed as created) and the namespace seal is fed a generated sequence of shares: valid (possibly repeated), flipped, truncated, progress resets, and valid shares whose request was abandoned by the client (context cancelled) or met a failing k-th storage read; model = lower and upper bound of the distinct valid shares in the progress; oracle: never unsealed below t distinct valid shares, unsealed at t, and a valid share is never refused while the progress holds valid shares only and the storage answers; non-trivial = a share request failed for an outage or a cancelled context before the threshold was reached")
	defer rec.Flush()
	rapid.Check(t, func(rt *rapid.T) {
		defer recoverWedged(rec)
		n := 2 + fairIndex(rt, "n", 4)
		th := 2 + fairIndex(rt, "t", n-1)
		tc, err := bootCore(t, coreOpts{transactional: rapid.Bool().Draw(rt, "transactionalStorage"), cacheOff: true})
		if err != nil {
			t.Fatalf("harness: %v", err)
		}
		defer func() { tc.shutdown() }()
		r := tc.req(logical.UpdateOperation, "sys/namespaces/vault", tc.root, map[string]any{"seal": c10nsSealJSON(n, th)})
		resp := tc.mustOK(r, "create sealable namespace")
		cur, err := c10nsDecodeKeys(resp.Data["key_shares"])
		if err != nil || len(cur) != n {
			t.Fatalf("harness: key shares: %v (%d)", err, len(cur))
		}
		var hist []string
		restarted := fairIndex(rt, "restart", 3) > 0
		if restarted {
			tc.shutdown()
			ntc, err := tc.restartOn(tc.phys)
			if err != nil {
				t.Fatalf("harness: restart: %v", err)
			}
			tc = ntc
			hist = append(hist, "restart of the core")
		}
		ns, err := tc.c.namespaceStore.GetNamespaceByPath(tc.ctx, "vault/")
		if err != nil || ns == nil || ns.Path != "vault/" {
			t.Fatalf("harness: namespace lookup: %v", err)
		}
		if !tc.c.NamespaceSealed(ns) {
			// created unsealed on this tree: seal it
			tc.mustOK(tc.req(logical.UpdateOperation, "sys/namespaces/vault/seal", tc.root, nil), "seal namespace")
		}
		nsCtx := namespace.ContextWithNamespace(context.Background(), ns)
		supplied, maybe := map[int]bool{}, map[int]bool{}
		failedBefore := 0
		steps := 3 + fairIndex(rt, "steps", 10)
		for i := 0; i < steps && tc.c.NamespaceSealed(ns); i++ {
			kind := []string{"valid", "valid", "valid", "duplicate", "flipped", "truncated", "reset", "faulted", "faulted"}[fairIndex(rt, "kind", 9)]
			if i == 0 && rapid.Bool().Draw(rt, "firstShareFails") {
				kind = "faulted"
			}
			var key []byte
			idx := -1
			ctx := nsCtx
			fired := 0
			how := ""
			switch kind {
			case "valid", "faulted":
				idx = fairIndex(rt, "share", n)
				key = TestKeyCopy(cur[idx])
				if kind == "faulted" {
					if rapid.Bool().Draw(rt, "clientGone") {
						c, cancel := context.WithCancel(nsCtx)
						cancel()
						ctx, how = c, "context cancelled"
					} else {
						k, reads := fairIndex(rt, "failRead", 4), 0
						how = fmt.Sprintf("read %d fails", k)
						tc.rec.SetFault(func(o *verifx.Op) error {
							if o.Kind == "get" || o.Kind == "list" {
								reads++
								if reads-1 == k {
									fired++
									return errors.New("verif: injected read fault")
								}
							}
							return nil
						})
					}
				}
			case "duplicate":
				for j := range cur {
					if supplied[j] {
						idx = j
						break
					}
				}
				if idx < 0 {
					continue
				}
				key = TestKeyCopy(cur[idx])
			case "flipped":
				key = TestKeyCopy(cur[fairIndex(rt, "share", n)])
				key[fairIndex(rt, "pos", len(key)-1)] ^= 0x41
			case "truncated":
				key = TestKeyCopy(cur[0])[:8]
			case "reset":
				tc.mustOK(tc.req(logical.UpdateOperation, "sys/namespaces/vault/unseal", tc.root, map[string]any{"reset": true}), "reset")
				supplied, maybe = map[int]bool{}, map[int]bool{}
				hist = append(hist, "reset")
				continue
			}
			unsealed, uerr := tc.c.sealManager.UnsealNamespace(ctx, ns, key)
			tc.rec.SetFault(nil)
			hist = append(hist, fmt.Sprintf("%s(share %d %s) -> unsealed=%v err=%v", kind, idx, how, unsealed, uerr != nil))
			detail := map[string]any{"n": n, "t": th, "restarted": restarted, "history": hist}
			upper := map[int]bool{}
			for j := range supplied {
				upper[j] = true
			}
			for j := range maybe {
				upper[j] = true
			}
			switch kind {
			case "faulted":
				upper[idx] = true
				if unsealed && len(upper) < th {
					rec.Violation(rt, "unsealed-below-threshold:namespace", detail, "the namespace unsealed after at most %d distinct valid shares (threshold %d): %v", len(upper), th, hist)
				}
				if uerr != nil {
					if len(upper) < th {
						failedBefore++
					}
					maybe, supplied = upper, map[int]bool{}
				} else {
					supplied[idx] = true
				}
			case "valid", "duplicate":
				if uerr != nil && !unsealed {
					rec.Violation(rt, "valid-share-refused:namespace", detail, "a valid share was refused (%v) although only valid shares had been supplied since the last reset (%d certain, %d from failed requests) and the storage answered: %v", uerr, len(supplied), len(maybe), hist)
					supplied, maybe = map[int]bool{}, map[int]bool{}
					break
				}
				supplied[idx] = true
				upper[idx] = true
				if unsealed && len(upper) < th {
					rec.Violation(rt, "unsealed-below-threshold:namespace", detail, "the namespace unsealed after only %d distinct valid shares (threshold %d): %v", len(upper), th, hist)
				}
				if !unsealed && len(supplied) >= th && len(maybe) > 0 {
					// Shares recorded by requests that failed afterwards stay in the progress; supplying them again is
					// a no-op ("already supplied") and the threshold is only evaluated when a NEW share arrives, so the
					// progress can be complete while the namespace stays sealed until a reset or a further share. The
					// statement demands "only once the threshold has been supplied", not promptness: counted, not judged.
					rec.Class("observation:progress-complete-but-still-sealed-after-failed-share-requests", 1)
				} else if !unsealed && len(supplied) >= th {
					rec.Violation(rt, "not-unsealed-at-threshold:namespace", detail, "%d distinct valid shares supplied (threshold %d) but the namespace is still sealed: %v", len(supplied), th, hist)
				}
			default:
				if unsealed {
					rec.Violation(rt, "unsealed-with-invalid-share:namespace", detail, "the namespace unsealed right after an invalid share (%s): %v", kind, hist)
				}
				tc.mustOK(tc.req(logical.UpdateOperation, "sys/namespaces/vault/unseal", tc.root, map[string]any{"reset": true}), "reset")
				supplied, maybe = map[int]bool{}, map[int]bool{}
				hist = append(hist, "reset(after invalid share)")
			}
		}
		if failedBefore > 0 {
			rec.Class("namespace:share-request-failed-before-threshold", 1)
		}
		rec.Case(fmt.Sprintf("ns:n=%d,t=%d", n, th), failedBefore > 0, verifx.Digest("ns", n, th, restarted, hist), func() any {
			return map[string]any{"n": n, "t": th, "restarted": restarted, "history": hist, "unsealed_at_end": !tc.c.NamespaceSealed(ns)}
		})
	})
}
