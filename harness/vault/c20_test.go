//go:build verif

package vault

import (
	"fmt"
	"testing"

	"github.com/openbao/openbao/sdk/v2/helper/verifx"
	"pgregory.net/rapid"
)

// TestVerif_C20_UnsealThreshold: an unseal proceeds only once the configured threshold of DISTINCT valid shares has
// been supplied.
func TestVerif_C20_UnsealThreshold(t *testing.T) {
	rec := verifx.NewRecorder("C20", "unseal-threshold", "a Shamir-sealed core with generated n (2..5) and threshold t (2..n) is sealed and fed a generated sequence of shares: valid shares (possibly repeated), shares of an older generation (from before a rekey), shares with a flipped byte, truncated shares, optional progress resets; model = the set of distinct valid current shares supplied since the last reset; oracle: the core is unsealed iff the model holds >= t distinct valid shares (an invalid share among the first t makes the combination fail and resets progress, as documented); it never unseals with fewer than t distinct valid shares; non-trivial = a sequence with a duplicate or invalid share before the threshold was reached")
	defer rec.Flush()
	rapid.Check(t, func(rt *rapid.T) {
		n := 2 + fairIndex(rt, "n", 4)
		th := 2 + fairIndex(rt, "t", n-1)
		tc, err := bootCore(t, coreOpts{shamir: true, shares: n, threshold: th, transactional: true})
		if err != nil {
			t.Fatalf("harness: %v", err)
		}
		defer tc.shutdown()
		old := tc.keys
		cur := tc.keys
		rekeyed := false
		if fairIndex(rt, "rekeyFirst", 3) == 0 {
			w := &c10World{t: t, tc: tc, shamir: true, keys: tc.keys, thr: th, secrets: map[string]string{}}
			keys, err := w.rekey(n, th)
			if err != nil {
				t.Fatalf("harness: rekey: %v", err)
			}
			cur = keys
			rekeyed = true
		}
		if err := tc.c.sealInternal(); err != nil {
			t.Fatalf("harness: seal: %v", err)
		}
		supplied := map[int]bool{} // distinct valid current shares since the last reset
		var hist []string
		nontrivial := false
		steps := 3 + fairIndex(rt, "steps", 10)
		for i := 0; i < steps && tc.c.Sealed(); i++ {
			kind := []string{"valid", "valid", "valid", "duplicate", "old", "flipped", "truncated", "reset"}[fairIndex(rt, "kind", 8)]
			var key []byte
			idx := -1
			switch kind {
			case "valid":
				idx = fairIndex(rt, "share", n)
				key = TestKeyCopy(cur[idx])
			case "duplicate":
				if len(supplied) == 0 {
					continue
				}
				for j := range cur {
					if supplied[j] {
						idx = j
						break
					}
				}
				key = TestKeyCopy(cur[idx])
			case "old":
				if !rekeyed {
					continue
				}
				key = TestKeyCopy(old[fairIndex(rt, "oldshare", len(old))])
			case "flipped":
				key = TestKeyCopy(cur[fairIndex(rt, "share", n)])
				key[fairIndex(rt, "pos", len(key)-1)] ^= 0x41
			case "truncated":
				key = TestKeyCopy(cur[0])[:8]
			case "reset":
				tc.c.ResetUnsealProcess()
				supplied = map[int]bool{}
				hist = append(hist, "reset")
				continue
			}
			before := len(supplied)
			unsealed, uerr := tc.c.Unseal(key)
			hist = append(hist, fmt.Sprintf("%s(share %d) -> unsealed=%v err=%v", kind, idx, unsealed, uerr != nil))
			if kind != "valid" || supplied[idx] {
				if before < th {
					nontrivial = true
				}
			}
			detail := map[string]any{"n": n, "t": th, "rekeyed_before": rekeyed, "history": hist}
			switch kind {
			case "valid", "duplicate":
				if uerr == nil || unsealed {
					supplied[idx] = true
				}
				if unsealed && len(supplied) < th {
					rec.Violation(rt, "unsealed-below-threshold", detail, "the core unsealed after only %d distinct valid shares (threshold %d): %v", len(supplied), th, hist)
				}
				if !unsealed && uerr == nil && len(supplied) >= th {
					rec.Violation(rt, "not-unsealed-at-threshold", detail, "%d distinct valid shares supplied (threshold %d) but the core is still sealed: %v", len(supplied), th, hist)
				}
				if uerr != nil && !unsealed {
					// a bad share supplied earlier poisons the combination: progress is reset by the core
					supplied = map[int]bool{}
				}
			default:
				if unsealed {
					rec.Violation(rt, "unsealed-with-invalid-share", detail, "the core unsealed right after an invalid share (%s): %v", kind, hist)
				}
				// An invalid share is either rejected outright (wrong length; progress unaffected), accepted into the
				// progress (the combination at the threshold will then fail), or it completed the threshold count and
				// the failed combination already reset the progress. The harness resets the progress explicitly so
				// that the model starts clean in all three cases.
				tc.c.ResetUnsealProcess()
				supplied = map[int]bool{}
				hist = append(hist, "reset(after invalid share)")
			}
		}
		rec.Case(fmt.Sprintf("n=%d,t=%d", n, th), nontrivial, verifx.Digest(n, th, rekeyed, hist), func() any {
			return map[string]any{"n": n, "t": th, "rekeyed_before": rekeyed, "history": hist, "unsealed_at_end": !tc.c.Sealed()}
		})
	})
}
