//go:build verif

package vault

// C05 across namespaces: leases and tokens of the namespaces n1/, n1/n2/ (plain) and s/ (separately sealable), with
// namespace seal/unseal (ExpirationManager.StopNamespace / RestoreNamespace), namespace deletion, restarts and crash
// restarts. The root-only state machine is TestVerif_C05_Leases in c05_test.go; this file shares nothing with it
// besides the helpers of common_test.go.

import (
	"context"
	"fmt"
	"runtime"
	"sort"
	"strings"
	"testing"
	"time"

	"github.com/openbao/openbao/sdk/v2/helper/verifx"
	"github.com/openbao/openbao/sdk/v2/logical"
	"github.com/openbao/openbao/v2/internal/helper/namespace"
	"pgregory.net/rapid"
)

const c05nPolicy = `
path "rb/*" { capabilities = ["create","read","update","delete","list"] }
path "+/rb/*" { capabilities = ["create","read","update","delete","list"] }
path "+/+/rb/*" { capabilities = ["create","read","update","delete","list"] }
path "sys/leases/*" { capabilities = ["update"] }
path "+/sys/leases/*" { capabilities = ["update"] }
path "+/+/sys/leases/*" { capabilities = ["update"] }
`

const c05nMountDflt = 30 * time.Minute

type c05nNS struct {
	path     string
	name     string // last path segment
	parent   int    // index into world.nss, -1 for root
	ns       *namespace.Namespace
	sealable bool
	sealed   bool
	deleted  bool
	keys     [][]byte
	tok      string        // a token of this namespace carrying the c05n policy
	mountMax time.Duration // max_lease_ttl of this namespace's rb/ mount
	tokenMax time.Duration // max_lease_ttl of this namespace's token mount
	base     int           // leases in this namespace's storage right after the set-up (the namespace's own tokens)
	weight   int
}

func (n *c05nNS) usable() bool { return !n.sealed && !n.deleted }

func (n *c05nNS) kind() string {
	switch {
	case n.parent < 0:
		return "root-namespace"
	case n.sealable:
		return "sealable-namespace"
	}
	return "plain-namespace"
}

type c05nLease struct {
	id       string // lease id; for tokens learned from the storage listing ("" if that was ambiguous)
	ns       int
	by       int // namespace of the token that obtained it
	secretID string
	token    string
	isToken  bool
	issue    time.Time // latest possible issue time (clock read after the issuing request returned)
	effMax   time.Duration
	// rootMax: for a token of a non-root namespace, the effective maximum computed with the ROOT namespace's token mount
	// maximum in place of its own namespace's (0 otherwise); only used to give that deviation its own signature
	rootMax    time.Duration
	renewable  bool
	dead       bool // revoked successfully (or its namespace was deleted)
	aged       bool // issue and expiry were moved into the past
	expired    bool // expiry moved into the past in storage
	mustVanish bool // expired, and the expiration manager has (re)loaded it since: it has to be revoked now
	uncertain  bool // a revocation with an injected storage fault failed half-way: may or may not exist
	lastTTL    time.Duration
	// boundReported: an expiry beyond the maximum has been reported for this lease (once is enough)
	boundReported bool
}

type c05nWorld struct {
	callAt time.Time // clock read before the latest request was sent (see checkBound)
	t      *testing.T
	tc     *tcore
	hub    *recHub
	nss    []*c05nNS
	leases []*c05nLease
	log    []string
	floor  int // committed writes a crash never loses (set-up, namespace seal/unseal/deletion)
	// extra leases stored in s/ when it was last sealed (or the core last stopped with s/ unsealed)
	sExtraAtSeal int
	// failedUnseals: unseal attempts of s/ that ended in an error (injected lease read fault)
	failedUnseals     int
	sealedTrackedSeen bool
	observe           func(class string)
	// wedged: an unseal of s/ never returned (ExpirationManager.restore blocked for good); the case ends here
	wedged bool
}

func (w *c05nWorld) logf(f string, a ...any) { w.log = append(w.log, fmt.Sprintf(f, a...)) }

func (w *c05nWorld) ctx(i int) context.Context {
	if i == 0 {
		return w.tc.ctx
	}
	return namespace.ContextWithNamespace(context.Background(), w.nss[i].ns)
}

// reqIn sends a request into namespace i: by context while the namespace exists, by path prefix from the root once it
// has been deleted (what a client would still be able to send).
func (w *c05nWorld) reqIn(i int, op logical.Operation, path, token string, data map[string]any) rr {
	w.callAt = time.Now()
	if w.nss[i].deleted {
		return w.tc.doCtx(w.tc.ctx, &logical.Request{Operation: op, Path: w.nss[i].path + path, ClientToken: token, Data: data})
	}
	return w.tc.doCtx(w.ctx(i), &logical.Request{Operation: op, Path: path, ClientToken: token, Data: data})
}

// chain returns i and its ancestors, nearest first.
func (w *c05nWorld) chain(i int) []int {
	var out []int
	for ; i >= 0; i = w.nss[i].parent {
		out = append(out, i)
	}
	return out
}

func c05nDur(d time.Duration) string { return fmt.Sprintf("%dm", int(d/time.Minute)) }

func newC05nWorld(t *testing.T, transactional bool) *c05nWorld {
	hub := newRecHub()
	tc := mustBoot(t, coreOpts{transactional: transactional,
		logical: map[string]logical.Factory{"recbe": hub.factory("recbe", logical.TypeLogical)}})
	w := &c05nWorld{t: t, tc: tc, hub: hub}
	w.nss = []*c05nNS{
		{path: "", parent: -1, ns: namespace.RootNamespace, mountMax: 2 * time.Hour, tokenMax: 3 * time.Hour, weight: 1},
		{path: "n1/", name: "n1", parent: 0, mountMax: 100 * time.Minute, tokenMax: 150 * time.Minute, weight: 2},
		{path: "n1/n2/", name: "n2", parent: 1, mountMax: 80 * time.Minute, tokenMax: 2 * time.Hour, weight: 2},
		{path: "s/", name: "s", parent: 0, sealable: true, mountMax: time.Hour, tokenMax: 100 * time.Minute, weight: 3},
	}
	tc.mustOK(tc.req(logical.UpdateOperation, "sys/namespaces/n1", tc.root, nil), "namespace n1")
	tc.mustOK(tc.req(logical.UpdateOperation, "n1/sys/namespaces/n2", tc.root, nil), "namespace n1/n2")
	keys, err := tc.c.namespaceStore.SetNamespaceWithSeal(tc.ctx, &namespace.Namespace{Path: "s/"}, &SealConfig{Type: "shamir", SecretShares: 1, SecretThreshold: 1})
	if err != nil {
		t.Fatalf("harness: sealable namespace: %v", err)
	}
	w.nss[3].keys = keys
	w.nss[3].sealed = true
	w.reload()
	w.unseal(3)
	for i, n := range w.nss {
		tc.mustOK(w.reqIn(i, logical.UpdateOperation, "sys/mounts/rb", tc.root, map[string]any{"type": "recbe",
			"config": map[string]any{"default_lease_ttl": c05nDur(c05nMountDflt), "max_lease_ttl": c05nDur(n.mountMax)}}), "mount rb in "+n.path)
		tc.mustOK(w.reqIn(i, logical.UpdateOperation, "sys/auth/token/tune", tc.root, map[string]any{"max_lease_ttl": c05nDur(n.tokenMax), "default_lease_ttl": "1h"}), "tune token mount in "+n.path)
		tc.mustOK(w.reqIn(i, logical.UpdateOperation, "sys/policy/c05n", tc.root, map[string]any{"policy": c05nPolicy}), "policy in "+n.path)
		r := w.reqIn(i, logical.UpdateOperation, "auth/token/create", tc.root, map[string]any{"policies": []string{"default", "c05n"}, "no_parent": true, "ttl": "90m"})
		if !r.ok() || r.resp == nil || r.resp.Auth == nil {
			t.Fatalf("harness: token in %q: %v", n.path, r)
		}
		n.tok = r.resp.Auth.ClientToken
	}
	for i, n := range w.nss {
		n.base = len(w.stored(i))
	}
	w.floor = tc.rec.MutationCount()
	return w
}

// reload fetches the namespace objects from the (new) core and learns whether s/ is sealed.
func (w *c05nWorld) reload() {
	for i, n := range w.nss {
		if i == 0 || n.deleted {
			continue
		}
		obj, err := w.tc.c.namespaceStore.GetNamespaceByPath(w.tc.ctx, n.path)
		if err != nil || obj == nil {
			w.t.Fatalf("harness: namespace %s not found: %v", n.path, err)
		}
		n.ns = obj
		if n.sealable {
			n.sealed = w.tc.c.NamespaceSealed(obj)
		}
	}
}

func (w *c05nWorld) unseal(i int) {
	n := w.nss[i]
	for _, k := range n.keys {
		ok, err := TestNamespaceUnseal(w.tc.c, n.ns, k)
		if err != nil {
			w.t.Fatalf("harness: unseal namespace %s: %v", n.path, err)
		}
		if ok {
			break
		}
	}
	if w.tc.c.NamespaceSealed(n.ns) {
		w.t.Fatalf("harness: namespace %s still sealed", n.path)
	}
	n.sealed = false
}

// stored lists the lease ids in the storage of namespace i (which must be unsealed and not deleted).
func (w *c05nWorld) stored(i int) []string {
	keys, err := logical.CollectKeys(w.ctx(i), w.tc.c.expiration.leaseView(w.nss[i].ns))
	if err != nil {
		w.t.Fatalf("harness: collect leases of %q: %v", w.nss[i].path, err)
	}
	sort.Strings(keys)
	return keys
}

// extra is the number of stored leases of namespace i beyond those of the set-up.
func (w *c05nWorld) extra(i int) int {
	if !w.nss[i].usable() {
		return 0
	}
	if x := len(w.stored(i)) - w.nss[i].base; x > 0 {
		return x
	}
	return 0
}

// c05nTracked reads the expiration manager's in-memory maps: lease id -> number of maps holding it; pastDue counts
// pending leases whose expiry has passed (their revocation is imminent or running).
func c05nTracked(c *Core) (seen map[string]int, sizes [3]int, pastDue int) {
	m := c.expiration
	seen = map[string]int{}
	m.pendingLock.RLock()
	defer m.pendingLock.RUnlock()
	now := time.Now()
	m.pending.Range(func(k, v any) bool {
		seen[k.(string)]++
		sizes[0]++
		// (an entry with a failed attempt on record waits 10-30 s for its retry: nothing is imminent there)
		if pi, ok := v.(pendingInfo); ok && pi.revokesAttempted == 0 && pi.cachedLeaseInfo != nil && pi.cachedLeaseInfo.ExpireTime.Before(now) {
			pastDue++
		}
		return true
	})
	m.nonexpiring.Range(func(k, v any) bool { seen[k.(string)]++; sizes[1]++; return true })
	m.irrevocable.Range(func(k, v any) bool { seen[k.(string)]++; sizes[2]++; return true })
	return
}

// c05nRevocationRetried: the lease sits in the pending map with at least one failed revocation attempt on record, or has
// been marked irrevocable.
func c05nRevocationRetried(c *Core, id string) bool {
	m := c.expiration
	m.pendingLock.RLock()
	defer m.pendingLock.RUnlock()
	if v, ok := m.pending.Load(id); ok {
		if pi, ok := v.(pendingInfo); ok && pi.revokesAttempted > 0 {
			return true
		}
	}
	_, irr := m.irrevocable.Load(id)
	return irr
}

// ownedBy: the lease id belongs to namespace n according to its ".<namespace id>" suffix (root: no suffix).
func c05nOwnedBy(id string, n *c05nNS) bool {
	last := id[strings.LastIndex(id, "/")+1:]
	dot := strings.LastIndex(last, ".")
	if n.parent < 0 {
		return dot < 0
	}
	return dot >= 0 && last[dot+1:] == n.ns.ID
}

func c05nTime(v any) (time.Time, bool) {
	switch x := v.(type) {
	case time.Time:
		return x, !x.IsZero()
	case *time.Time:
		if x != nil {
			return *x, !x.IsZero()
		}
	case string:
		if tm, err := time.Parse(time.RFC3339Nano, x); err == nil {
			return tm, true
		}
	}
	return time.Time{}, false
}

// c05nBoundSig classifies an expiry: "" when it is within issue + effective maximum (+2 s for rounding).
func c05nBoundSig(l *c05nLease, exp time.Time) string {
	if !exp.After(l.issue.Add(l.effMax).Add(2 * time.Second)) {
		return ""
	}
	if l.isToken && l.ns != 0 && l.rootMax > l.effMax && !exp.After(l.issue.Add(l.rootMax).Add(2*time.Second)) {
		// beyond the maximum of the token mount of the token's own namespace, but within the one of the root namespace
		return "expiry-beyond-maximum:namespace-token-mount-max-ignored"
	}
	return "expiry-beyond-maximum"
}

func c05nBoundNote(l *c05nLease, sig string) string {
	if strings.HasSuffix(sig, ":namespace-token-mount-max-ignored") {
		return fmt.Sprintf(" (the expiry is within %v, the maximum of the ROOT namespace's token mount: the max_lease_ttl tuned on the token mount of the token's own namespace was not applied)", l.rootMax)
	}
	return ""
}

// invariantOnce evaluates the oracle on the present state; "" = holds.
func (w *c05nWorld) invariantOnce() (sig, msg string) {
	c := w.tc.c
	storedBy := make([]map[string]bool, len(w.nss))
	for i, n := range w.nss {
		if n.usable() {
			storedBy[i] = map[string]bool{}
			for _, id := range w.stored(i) {
				storedBy[i][id] = true
			}
		}
	}
	seen, sizes, _ := c05nTracked(c)
	ids := make([]string, 0, len(seen))
	for id := range seen {
		ids = append(ids, id)
	}
	sort.Strings(ids)
	for _, id := range ids {
		if seen[id] > 1 {
			return "lease-tracked-twice", fmt.Sprintf("lease %s is tracked in %d of the pending/nonexpiring/irrevocable maps", id, seen[id])
		}
	}
	for i, n := range w.nss {
		switch {
		case n.deleted:
			// a lease of a deleted namespace that is still tracked (tracked, not stored) is outside the property's claim;
			// it is counted as an observation at the end of the case
		case n.sealed && w.failedUnseals > 0:
			// the re-seal that ends a failed unseal can overtake a revocation started by that unseal's lease restore, whose
			// failure handler then puts the lease back into the pending map for its retry: tracked although sealed is not
			// claimed either way by the property; counted
			for _, id := range ids {
				if c05nOwnedBy(id, n) && !w.sealedTrackedSeen && w.observe != nil {
					w.sealedTrackedSeen = true
					w.observe("lease-of-sealed-namespace-tracked-after-failed-unseal")
				}
			}
		case n.sealed:
			for _, id := range ids {
				if c05nOwnedBy(id, n) {
					return "sealed-namespace-lease-still-tracked", fmt.Sprintf("namespace %s is sealed but its lease %s still has a timer in the expiration manager", n.path, id)
				}
			}
		default:
			var st []string
			for id := range storedBy[i] {
				st = append(st, id)
			}
			sort.Strings(st)
			for _, id := range st {
				if !c05nOwnedBy(id, n) {
					w.t.Fatalf("harness: lease id %q found in the storage of namespace %q does not carry that namespace's id %q", id, n.path, n.ns.ID)
				}
				if seen[id] == 0 {
					return "stored-lease-not-tracked:" + n.kind(), fmt.Sprintf("lease %s is in the storage of namespace %q but not tracked for expiry (pending=%d nonexpiring=%d irrevocable=%d, %d leases stored in that namespace)", id, n.path, sizes[0], sizes[1], sizes[2], len(st))
				}
			}
		}
	}
	// the model's leases
	for _, l := range w.leases {
		n := w.nss[l.ns]
		if !n.usable() {
			continue
		}
		what := "lease"
		if l.isToken {
			what = "token lease"
		}
		if l.dead {
			if l.id != "" && storedBy[l.ns][l.id] {
				return "revoked-lease-still-stored", fmt.Sprintf("%s %s of namespace %q was revoked successfully but is in storage (again)", what, l.id, n.path)
			}
			// (after a revocation that failed half-way on an injected fault the entry can be gone from storage while its
			// timer and cached copy remain until the timer fires; the property does not claim the converse direction)
			if !l.isToken && !l.uncertain {
				if r := w.reqIn(l.ns, logical.UpdateOperation, "sys/leases/lookup", w.tc.root, map[string]any{"lease_id": l.id}); r.ok() && r.resp != nil {
					return "revoked-lease-answered-by-lookup", fmt.Sprintf("lease %s of namespace %q was revoked successfully but sys/leases/lookup answers for it", l.id, n.path)
				}
			}
			continue
		}
		if l.mustVanish {
			if l.id != "" && storedBy[l.ns][l.id] && c05nRevocationRetried(c, l.id) {
				// a revocation was attempted and failed (e.g. it ran into the re-seal that ends a failed unseal); the lease
				// is kept for a retry 10-30 s later or marked irrevocable, which is what the property allows
				if w.observe != nil {
					w.observe("expired-lease-revocation-failed-and-is-being-retried")
				}
				l.mustVanish, l.uncertain = false, true
				continue
			}
			if l.id != "" && storedBy[l.ns][l.id] {
				return "expired-lease-not-revoked-after-restore", fmt.Sprintf("%s %s of namespace %q: its expiry passed and its namespace's leases were restored since, but it is still in storage", what, l.id, n.path)
			}
			w.hub.mu.Lock()
			rv := w.hub.revoked[l.secretID]
			mis := append([]string(nil), w.hub.misrouted...)
			w.hub.mu.Unlock()
			if !l.isToken && rv == 0 && !l.uncertain {
				return "expired-lease-not-revoked-after-restore:backend", fmt.Sprintf("lease %s of namespace %q left storage after its expiry passed, but the backend never saw a revocation of %s (misrouted: %v)", l.id, n.path, l.secretID, mis)
			}
			l.dead = true
			continue
		}
		if l.expired || l.uncertain {
			continue
		}
		// a live lease: still there, expiry within the bound
		var exp time.Time
		var have bool
		if l.isToken {
			r := w.reqIn(l.ns, logical.ReadOperation, "auth/token/lookup-self", l.token, nil)
			if !r.ok() || r.resp == nil {
				return "live-token-rejected", fmt.Sprintf("token of namespace %q that was never revoked and has not expired is rejected: %v", n.path, r)
			}
			exp, have = c05nTime(r.resp.Data["expire_time"])
		} else {
			r := w.reqIn(l.ns, logical.UpdateOperation, "sys/leases/lookup", w.tc.root, map[string]any{"lease_id": l.id})
			if !r.ok() || r.resp == nil {
				w.hub.mu.Lock()
				rv := w.hub.revoked[l.secretID]
				w.hub.mu.Unlock()
				if rv == 0 {
					return "live-lease-lost", fmt.Sprintf("lease %s of namespace %q was never revoked (the backend saw no revocation of %s) and has not expired, yet sys/leases/lookup does not know it: %v (in storage: %v)", l.id, n.path, l.secretID, r, storedBy[l.ns][l.id])
				}
				continue
			}
			exp, have = c05nTime(r.resp.Data["expire_time"])
		}
		if bs := c05nBoundSig(l, exp); have && bs != "" && !l.boundReported {
			l.boundReported = true
			return bs, fmt.Sprintf("%s %s of namespace %q expires %v after its issue, beyond the effective maximum %v", what, verifx.Trunc(l.id, 60), n.path, exp.Sub(l.issue).Round(time.Second), l.effMax) + c05nBoundNote(l, bs)
		}
	}
	return "", ""
}

// invariant waits for quiescence (restore finished, no revocation queued) and evaluates the oracle, retrying for a
// bounded time while it does not hold (a revocation may be in flight).
func (w *c05nWorld) invariant() (sig, msg string) {
	deadline := time.Now().Add(10 * time.Second)
	for {
		for w.tc.c.expiration.inRestoreMode() && time.Now().Before(deadline) {
			time.Sleep(time.Millisecond)
		}
		w.tc.waitExpirationIdle(2 * time.Second)
		sig, msg = w.invariantOnce()
		// only the verdicts that a revocation or restore still in flight can explain are worth waiting for
		transient := strings.HasPrefix(sig, "stored-lease-not-tracked") || sig == "lease-tracked-twice" || strings.HasPrefix(sig, "expired-lease-not-revoked-after-restore") ||
			sig == "sealed-namespace-lease-still-tracked" ||
			// a running revocation deletes the entry first and leaves the maps (the source of lookup's cached copy) last
			sig == "revoked-lease-answered-by-lookup"
		if sig == "" || !transient || time.Now().After(deadline) {
			return sig, msg
		}
		time.Sleep(5 * time.Millisecond)
	}
}

// settle waits (bounded) until no pending lease is past its expiry, i.e. no revocation is about to run or running.
func (w *c05nWorld) settle(d time.Duration) bool {
	deadline := time.Now().Add(d)
	for {
		w.tc.waitExpirationIdle(time.Second)
		if _, _, pastDue := c05nTracked(w.tc.c); pastDue == 0 {
			return true
		}
		if time.Now().After(deadline) {
			return false
		}
		time.Sleep(2 * time.Millisecond)
	}
}

// sealedProbes: nothing of a sealed namespace is served.
func (w *c05nWorld) sealedProbes(i int) (sig, msg string) {
	n := w.nss[i]
	before := w.hub.callCount()
	for _, tok := range []string{w.tc.root, n.tok} {
		r := w.reqIn(i, logical.UpdateOperation, "rb/creds/s", tok, map[string]any{"ttl_seconds": 1200})
		if r.ok() || w.hub.callCount() != before {
			return "sealed-namespace-served-request", fmt.Sprintf("a request for a secret in the sealed namespace %q was served: %v (backend reached: %v)", n.path, r, w.hub.callCount() != before)
		}
	}
	if r := w.reqIn(i, logical.ReadOperation, "auth/token/lookup-self", n.tok, nil); r.ok() && r.resp != nil {
		return "sealed-namespace-served-request", fmt.Sprintf("a token of the sealed namespace %q is accepted by lookup-self", n.path)
	}
	probed := 0
	for _, l := range w.leases {
		if l.ns != i || l.isToken || l.id == "" || probed >= 4 {
			continue
		}
		probed++
		for _, in := range []int{i, 0} {
			if r := w.reqIn(in, logical.UpdateOperation, "sys/leases/lookup", w.tc.root, map[string]any{"lease_id": l.id}); r.ok() && r.resp != nil {
				return "sealed-namespace-lease-answered", fmt.Sprintf("sys/leases/lookup (sent to namespace %q) answers for lease %s of the sealed namespace %q", w.nss[in].path, l.id, n.path)
			}
			if r := w.reqIn(in, logical.UpdateOperation, "sys/leases/renew", w.tc.root, map[string]any{"lease_id": l.id, "increment": 60}); r.ok() && r.resp != nil && r.resp.Secret != nil {
				return "sealed-namespace-lease-renewed", fmt.Sprintf("sys/leases/renew (sent to namespace %q) renewed lease %s of the sealed namespace %q", w.nss[in].path, l.id, n.path)
			}
		}
	}
	return "", ""
}

func TestVerif_C05_LeasesNamespaces(t *testing.T) {
	rec := verifx.NewRecorder("C05", "leases-namespaces", "rapid state machine on a real core with the namespaces root, n1/, n1/n2/ and the separately sealed s/ (shamir 1-of-1), a recording backend mounted as rb/ in each with its own max_lease_ttl (2h/100m/80m/1h) and each namespace's token mount tuned (3h/150m/2h/100m): issue leased secrets in a generated namespace with a token of that namespace or of one above it, create tokens (ttl / explicit_max_ttl / period), renew (sys/leases/renew, auth/token/renew-self), revoke, revoke-prefix, revoke with one failing storage operation, move a lease's issue/expiry into the past, seal and unseal s/, delete n1/n2/ and then n1/, restart on the same storage (s/ comes back sealed) and restart on the store after a crash prefix of the last lease operation's writes; oracle after every step at quiescence: in every unsealed namespace every lease id in that namespace's storage is tracked in exactly one of pending/nonexpiring/irrevocable, nothing of a sealed or deleted namespace is tracked or served, granted expiries stay within issue + effective maximum, dead/non-renewable/expired leases are not renewed, revoked leases stay gone, leases of a deleted namespace left storage (whether the backend saw their revocation, and whether they stay tracked, is only counted as observation classes), an expired lease is revoked once its namespace's leases are restored; non-trivial = a lease in a non-root namespace AND (an unseal of s/ holding >=1 generated lease, or a restart with >=2 generated leases stored outside the root namespace)")
	defer rec.Flush()
	rapid.Check(t, func(rt *rapid.T) {
		defer recoverWedged(rec)
		w := newC05nWorld(t, rapid.Bool().Draw(rt, "transactionalStorage"))
		defer func() {
			if w.wedged {
				// the core hangs in its lease restore (see the unseal-with-read-fault action); shutting it down would spin
				// in ExpirationManager.Stop: it is abandoned
				_ = verifx.Try(w.tc.ct.done)
				return
			}
			w.tc.shutdown()
		}()
		w.observe = func(class string) { rec.Class("observation:"+class, 1) }
		restarts, crashes, toggles := 0, 0, 0
		nonRootLease, ancestorIssued := 0, 0
		unsealWithLeases, deleteWithLeases, restartWithLeases := 0, 0, 0
		capped := 0
		fail := func(sig, msg string) {
			rec.Violation(rt, sig, map[string]any{"history": w.log}, "%s; history=%v", msg, w.log)
		}
		// The server computed ttl after the granting request was sent (w.callAt), so the true expiry is at least
		// callAt+ttl; l.issue is read after the issuing request returned. Both estimates err on the side of the code: the
		// verdict does not depend on how long a request took.
		checkBound := func(l *c05nLease, ttl time.Duration, what string) {
			now := w.callAt
			l.lastTTL = ttl
			if ttl <= 0 {
				return
			}
			if exp := now.Add(ttl); c05nBoundSig(l, exp) != "" {
				l.boundReported = true
				fail(c05nBoundSig(l, exp), fmt.Sprintf("%s of lease %s (namespace %q) granted ttl %v at +%v after issue: expiry %v after issue exceeds the effective maximum %v", what, verifx.Trunc(l.id, 60), w.nss[l.ns].path, ttl, now.Sub(l.issue).Round(time.Millisecond), exp.Sub(l.issue).Round(time.Second), l.effMax)+c05nBoundNote(l, c05nBoundSig(l, exp)))
			}
		}
		pick := func(rt *rapid.T, pred func(*c05nLease) bool) *c05nLease {
			var c []*c05nLease
			for _, l := range w.leases {
				if pred(l) {
					c = append(c, l)
				}
			}
			if len(c) == 0 {
				return nil
			}
			return c[fairIndex(rt, "lease", len(c))]
		}
		// drawNS chooses a namespace satisfying pred (weighted towards the non-root ones); -1 if there is none.
		drawNS := func(rt *rapid.T, label string, pred func(*c05nNS) bool) int {
			var c []int
			for i, n := range w.nss {
				if pred(n) {
					for k := 0; k < n.weight; k++ {
						c = append(c, i)
					}
				}
			}
			if len(c) == 0 {
				return -1
			}
			return c[fairIndex(rt, label, len(c))]
		}
		usable := func(n *c05nNS) bool { return n.usable() }
		live := func(l *c05nLease) bool { return !l.dead && w.nss[l.ns].usable() }
		revokeReq := func(l *c05nLease, by int) rr {
			if l.isToken {
				return w.reqIn(l.ns, logical.UpdateOperation, "auth/token/revoke", w.tc.root, map[string]any{"token": l.token})
			}
			return w.reqIn(l.ns, logical.UpdateOperation, "sys/leases/revoke", w.nss[by].tok, map[string]any{"lease_id": l.id})
		}
		// afterRestore: the leases of namespace i have been loaded by the expiration manager
		afterRestore := func(i int) {
			for _, l := range w.leases {
				if l.ns == i && l.expired && !l.dead {
					l.mustVanish = true
				}
			}
		}
		// rapid's Repeat draws very few steps for about half of the cases; a prelude of 8..31 fairly drawn steps runs the
		// same actions first (an action that does not apply ends through the sentinel instead of rt.Skip, which outside
		// of Repeat would discard the whole case)
		inPrelude := false
		skip := func(rt *rapid.T, why string) {
			if inPrelude {
				panic(c05nSkipStep{})
			}
			rt.Skip(why)
		}
		actions := map[string]func(*rapid.T){
			"secret": func(rt *rapid.T) {
				i := drawNS(rt, "ns", usable)
				ch := w.chain(i)
				by := ch[fairIndex(rt, "tokenOf", len(ch))]
				ttl := []int{1200, 3600, 7200, 20000, 0}[fairIndex(rt, "ttl", 5)]
				maxTTL := []int{0, 0, 2400, 5400, 30000}[fairIndex(rt, "maxttl", 5)]
				renewable := fairIndex(rt, "renewable", 4) > 0
				r := w.reqIn(i, logical.UpdateOperation, "rb/creds/s", w.nss[by].tok, map[string]any{"ttl_seconds": ttl, "max_ttl_seconds": maxTTL, "renewable": renewable})
				after := time.Now()
				if !r.ok() || r.resp == nil || r.resp.Secret == nil || r.resp.Secret.LeaseID == "" {
					w.logf("secret in %q by token of %q ttl=%d max=%d -> %v", w.nss[i].path, w.nss[by].path, ttl, maxTTL, r)
					rec.Class("secret-issue-refused", 1)
					return
				}
				eff := w.nss[i].mountMax
				if maxTTL > 0 && time.Duration(maxTTL)*time.Second < eff {
					eff = time.Duration(maxTTL) * time.Second
				}
				sid, _ := r.resp.Data["secret_id"].(string)
				l := &c05nLease{id: r.resp.Secret.LeaseID, ns: i, by: by, secretID: sid, issue: after, effMax: eff, renewable: renewable}
				w.leases = append(w.leases, l)
				w.logf("secret in %q by token of %q ttl=%d max=%d renewable=%v -> ttl %v", w.nss[i].path, w.nss[by].path, ttl, maxTTL, renewable, r.resp.Secret.TTL)
				if !c05nOwnedBy(l.id, w.nss[i]) {
					fail("lease-id-without-its-namespace", fmt.Sprintf("the lease id %s handed out by the mount of namespace %q does not name that namespace", l.id, w.nss[i].path))
				}
				if i != 0 {
					nonRootLease++
				}
				if by != i {
					ancestorIssued++
				}
				checkBound(l, r.resp.Secret.TTL, "issue")
			},
			"token": func(rt *rapid.T) {
				i := drawNS(rt, "ns", usable)
				data := map[string]any{"policies": []string{"default"}, "ttl": []string{"20m", "2h", "100h"}[fairIndex(rt, "ttl", 3)]}
				eff, rootEff := w.nss[i].tokenMax, w.nss[0].tokenMax
				switch fairIndex(rt, "flavour", 4) {
				case 0:
					data["explicit_max_ttl"] = "50m"
					eff, rootEff = 50*time.Minute, 0
				case 1:
					data["period"] = "40m"
					data["explicit_max_ttl"] = "90m"
					eff, rootEff = 90*time.Minute, 0
				}
				w.settle(2 * time.Second)
				pre := map[string]bool{}
				for _, id := range w.stored(i) {
					pre[id] = true
				}
				r := w.reqIn(i, logical.UpdateOperation, "auth/token/create", w.tc.root, data)
				after := time.Now()
				if !r.ok() || r.resp == nil || r.resp.Auth == nil {
					w.logf("token in %q %v -> %v", w.nss[i].path, data, r)
					rec.Class("token-create-refused", 1)
					return
				}
				l := &c05nLease{ns: i, by: i, isToken: true, token: r.resp.Auth.ClientToken, issue: after, effMax: eff, rootMax: rootEff, renewable: true}
				var fresh []string
				for _, id := range w.stored(i) {
					if !pre[id] {
						fresh = append(fresh, id)
					}
				}
				if len(fresh) == 1 {
					l.id = fresh[0]
				}
				w.leases = append(w.leases, l)
				w.logf("token in %q %v -> ttl %v", w.nss[i].path, data, r.resp.Auth.TTL)
				if i != 0 {
					nonRootLease++
				}
				checkBound(l, r.resp.Auth.TTL, "issue")
			},
			"renew": func(rt *rapid.T) {
				// every other time prefer a live lease that has aged: only there the cap relative to the issue time shows
				var l *c05nLease
				if fairIndex(rt, "preferAged", 2) == 0 {
					l = pick(rt, func(l *c05nLease) bool { return live(l) && l.aged && !l.expired })
				}
				if l == nil {
					l = pick(rt, func(l *c05nLease) bool { return true })
				}
				if l == nil {
					skip(rt, "no lease")
				}
				n := w.nss[l.ns]
				inc := []int{60, 1800, 7000, 40000, 0}[fairIndex(rt, "increment", 5)]
				ch := w.chain(l.ns)
				by := ch[fairIndex(rt, "tokenOf", len(ch))]
				var r rr
				var ttl time.Duration
				if l.isToken {
					r = w.reqIn(l.ns, logical.UpdateOperation, "auth/token/renew-self", l.token, map[string]any{"increment": inc})
					if r.ok() && r.resp != nil && r.resp.Auth != nil {
						ttl = r.resp.Auth.TTL
					}
				} else {
					r = w.reqIn(l.ns, logical.UpdateOperation, "sys/leases/renew", w.nss[by].tok, map[string]any{"lease_id": l.id, "increment": inc})
					if r.ok() && r.resp != nil && r.resp.Secret != nil {
						ttl = r.resp.Secret.TTL
					}
				}
				w.logf("renew %s in %q +%ds dead=%v sealed=%v deleted=%v -> %v ttl %v", verifx.Trunc(l.id, 40), n.path, inc, l.dead, n.sealed, n.deleted, r, ttl)
				renewed := r.ok() && ttl > 0
				switch {
				case renewed && n.sealed:
					fail("sealed-namespace-lease-renewed", fmt.Sprintf("lease %s of the sealed namespace %q was renewed", verifx.Trunc(l.id, 60), n.path))
				case renewed && n.deleted:
					fail("deleted-namespace-lease-renewed", fmt.Sprintf("lease %s of the deleted namespace %q was renewed", verifx.Trunc(l.id, 60), n.path))
				case renewed && l.dead:
					fail("revoked-lease-renewed", fmt.Sprintf("a revoked lease %s (namespace %q) was renewed", verifx.Trunc(l.id, 60), n.path))
				case renewed && !l.renewable:
					fail("non-renewable-lease-renewed", fmt.Sprintf("the non-renewable lease %s (namespace %q) was renewed (ttl %v)", verifx.Trunc(l.id, 60), n.path, ttl))
				case renewed && l.expired:
					fail("expired-lease-renewed", fmt.Sprintf("the lease %s (namespace %q), whose expiry has passed, was renewed (ttl %v)", verifx.Trunc(l.id, 60), n.path, ttl))
				}
				if renewed {
					checkBound(l, ttl, "renew")
					if time.Duration(inc)*time.Second > ttl+2*time.Second {
						capped++
					}
				}
			},
			// let time pass for one lease: issue and expiry move into the past (as if it had been issued earlier)
			"age": func(rt *rapid.T) {
				l := pick(rt, func(l *c05nLease) bool {
					return live(l) && l.id != "" && !l.expired && !l.uncertain && l.lastTTL > 10*time.Minute
				})
				if l == nil {
					skip(rt, "no lease to age")
				}
				frac := []int{2, 3, 4}[fairIndex(rt, "fraction", 3)]
				delta := (l.lastTTL / time.Duration(frac)).Truncate(time.Second)
				ctx := w.ctx(l.ns)
				m := w.tc.c.expiration
				le, err := m.loadEntry(ctx, l.id)
				if err != nil || le == nil {
					skip(rt, "lease not loadable")
				}
				le.IssueTime = le.IssueTime.Add(-delta)
				le.ExpireTime = le.ExpireTime.Add(-delta)
				if le.Secret != nil {
					le.Secret.IssueTime = le.IssueTime
				}
				if err := m.persistEntry(ctx, le); err != nil {
					t.Fatalf("harness: persist aged lease: %v", err)
				}
				m.updatePending(le)
				l.issue = l.issue.Add(-delta)
				l.lastTTL -= delta
				l.aged = true
				w.logf("age %s in %q by %v", verifx.Trunc(l.id, 40), w.nss[l.ns].path, delta)
			},
			// the lease's expiry passes (moved into the past in storage; the timers are not told): it cannot be renewed,
			// and the next restore of its namespace's leases has to revoke it
			"expire": func(rt *rapid.T) {
				l := pick(rt, func(l *c05nLease) bool { return live(l) && !l.isToken && !l.expired && !l.uncertain })
				if l == nil {
					skip(rt, "no lease")
				}
				ctx := w.ctx(l.ns)
				m := w.tc.c.expiration
				le, err := m.loadEntry(ctx, l.id)
				if err != nil || le == nil {
					skip(rt, "lease not loadable")
				}
				le.ExpireTime = time.Now().Add(-2 * time.Second)
				if err := m.persistEntry(ctx, le); err != nil {
					t.Fatalf("harness: persist expired lease: %v", err)
				}
				l.expired = true
				w.logf("expire %s in %q", verifx.Trunc(l.id, 40), w.nss[l.ns].path)
			},
			"revoke": func(rt *rapid.T) {
				l := pick(rt, live)
				if l == nil {
					skip(rt, "no live lease")
				}
				ch := w.chain(l.ns)
				by := ch[fairIndex(rt, "tokenOf", len(ch))]
				r := revokeReq(l, by)
				w.logf("revoke %s in %q (token of %q) -> %v", verifx.Trunc(l.id, 40), w.nss[l.ns].path, w.nss[by].path, r)
				if r.ok() {
					l.dead = true
				}
			},
			"revoke-prefix": func(rt *rapid.T) {
				i := drawNS(rt, "ns", usable)
				n := 0
				for _, l := range w.leases {
					if l.ns == i && !l.isToken && !l.dead {
						n++
					}
				}
				if n == 0 {
					skip(rt, "nothing to revoke there")
				}
				r := w.reqIn(i, logical.UpdateOperation, "sys/leases/revoke-prefix/rb/creds", w.tc.root, nil)
				w.logf("revoke-prefix rb/creds in %q (%d live) -> %v", w.nss[i].path, n, r)
				for _, l := range w.leases {
					if l.ns == i && !l.isToken && !l.dead {
						if r.ok() {
							l.dead = true
						} else {
							l.uncertain = true
						}
					}
				}
			},
			// a revocation during which one storage operation of the request fails: whatever the outcome, a lease that
			// remains in storage must stay tracked
			"revoke-with-storage-fault": func(rt *rapid.T) {
				l := pick(rt, live)
				if l == nil {
					skip(rt, "no live lease")
				}
				k := 1 + fairIndex(rt, "faultAt", 24)
				onlyWrites := fairIndex(rt, "onlyWrites", 2) == 0
				g := verifx.GoID()
				f, fired := verifx.FailNth(func(o *verifx.Op) bool {
					return o.G == g && (!onlyWrites || o.Kind == "put" || o.Kind == "delete")
				}, k)
				w.tc.rec.SetFault(f)
				r := revokeReq(l, l.ns)
				w.tc.rec.SetFault(nil)
				hit := "none"
				if h := fired(); h != nil {
					hit = h.Kind + " " + c05nKeyClass(h.Key)
					rec.Class("revocations-with-a-fired-fault", 1)
				}
				w.logf("revoke %s in %q with fault at op %d (writes only %v) = %s -> %v", verifx.Trunc(l.id, 40), w.nss[l.ns].path, k, onlyWrites, hit, r)
				if r.ok() {
					l.dead = true
				} else if fired() != nil {
					l.uncertain = true
				}
			},
			// s/ is sealed and holds leases: unseal it while ONE read of a lease entry of s/ fails (a transient storage
			// error during ExpirationManager.RestoreNamespace, whichever goroutine issues the read), once or twice in a row;
			// then, storage healthy again, unseal it for good. Whatever the failed attempt does is fine as long as s/ ends up
			// sealed or with all its stored leases tracked; after the final unseal every stored lease of s/ must be tracked
			// (the per-step invariant) - leases seen by the failed restore must not count as restored.
			"unseal-with-read-fault": func(rt *rapid.T) {
				s := w.nss[3]
				if !s.sealed {
					skip(rt, "s/ is not sealed")
				}
				if toggles >= 6 {
					skip(rt, "enough seal transitions")
				}
				toggles++
				attempts := 1 + fairIndex(rt, "failedUnseals", 2)
				storedInS := s.base + w.sExtraAtSeal
				if storedInS < 1 {
					storedInS = 1
				}
				nsKey := "core/namespaces/" + s.ns.UUID
				leasePfx := "namespaces/" + s.ns.UUID + "/sys/expire/id/"
				for a := 1; a <= attempts && s.sealed; a++ {
					k := 1 + fairIndex(rt, "failedLeaseRead", storedInS)
					// the entries may still sit in the physical cache from before the seal: evict them, as an LRU may
					w.tc.c.physicalCache.Purge(w.tc.ctx)
					f, fired := verifx.FailNth(func(o *verifx.Op) bool {
						return o.Kind == "get" && strings.Contains(o.Key, leasePfx)
					}, k)
					seq := w.tc.rec.Seq()
					w.tc.rec.SetFault(f)
					var uerr error
					done := make(chan struct{})
					go func(c *Core, ns *namespace.Namespace, keys [][]byte) {
						defer close(done)
						for _, key := range keys {
							ok, err := TestNamespaceUnseal(c, ns, key)
							if ok || err != nil {
								uerr = err
								return
							}
						}
					}(w.tc.c, s.ns, s.keys)
					select {
					case <-done:
					case <-time.After(10 * time.Second):
						// Observation outside C05 (a liveness defect, DESIGN 10.6, here reached through a failed lease read):
						// ExpirationManager.restore closes its quit channel on the first worker error; when the distributor
						// goroutine is at that moment between its select and the unconditional `broker <- lease`, all workers
						// leave, the send blocks for good, restore() never returns from wg.Wait() and the unseal never returns.
						w.tc.rec.SetFault(nil)
						rec.Class("unseal-with-read-fault:hung-in-restore", 1)
						w.logf("unseal s/ with a fault on lease read %d, attempt %d/%d -> the unseal call did not return within 10s (restore mode %v); case abandoned", k, a, attempts, w.tc.c.expiration.inRestoreMode())
						w.wedged = true
						return
					}
					hit := fired() != nil
					if hit && uerr != nil {
						// the unseal re-seals the namespace itself AND the restore's error handler seals it once more from a
						// goroutine of its own: wait for that one (3 writes of the namespace entry: unseal, seal, seal), it
						// must not fall into the next unseal
						deadline := time.Now().Add(5 * time.Second)
						for time.Now().Before(deadline) {
							n := 0
							for _, o := range w.tc.rec.OpsSince(seq) {
								if o.Kind == "put" && o.Key == nsKey {
									n++
								}
							}
							if n >= 3 {
								break
							}
							time.Sleep(time.Millisecond)
						}
					}
					if hit && uerr == nil {
						// reported success: an error handler may still seal the namespace asynchronously
						deadline := time.Now().Add(500 * time.Millisecond)
						for !w.tc.c.NamespaceSealed(s.ns) && time.Now().Before(deadline) {
							time.Sleep(time.Millisecond)
						}
					}
					w.tc.rec.SetFault(nil)
					sealedNow := w.tc.c.NamespaceSealed(s.ns)
					outcome := "served"
					switch {
					case !hit:
						outcome = "fault-not-reached"
					case uerr != nil:
						outcome = "unseal-error"
						w.failedUnseals++
					case sealedNow:
						outcome = "sealed-again"
					}
					rec.Class("unseal-with-read-fault:"+outcome, 1)
					w.logf("unseal s/ (%d leases stored) with a fault on lease read %d, attempt %d/%d -> %s (error: %v), s/ sealed afterwards: %v", storedInS, k, a, attempts, outcome, uerr != nil, sealedNow)
					w.floor = w.tc.rec.MutationCount()
					if !sealedNow {
						// it serves: then every stored lease has to be tracked, at once
						s.sealed = false
						if sig, msg := w.invariant(); strings.HasPrefix(sig, "stored-lease-not-tracked") && hit {
							fail(sig+":served-after-unseal-with-failed-lease-read", "s/ serves after an unseal during which a read of one of its lease entries failed, yet "+msg)
						}
					}
				}
				if s.sealed {
					w.tc.c.physicalCache.Purge(w.tc.ctx)
					var uerr error
					for _, key := range s.keys {
						var ok bool
						ok, uerr = TestNamespaceUnseal(w.tc.c, s.ns, key)
						if ok || uerr != nil {
							break
						}
					}
					if uerr != nil || w.tc.c.NamespaceSealed(s.ns) {
						w.logf("unseal s/ with healthy storage after %d failed attempts -> %v", attempts, uerr)
						fail("unseal-fails-after-failed-lease-restore", fmt.Sprintf("with healthy storage the namespace s/ cannot be unsealed after %d unseal attempts during which a lease read failed: %v", attempts, uerr))
						return
					}
					s.sealed = false
					w.logf("unseal s/ with healthy storage after the failed attempts -> ok")
				}
				w.floor = w.tc.rec.MutationCount()
				if w.sExtraAtSeal >= 1 {
					unsealWithLeases++
					rec.Class("unseals-of-s-holding-leases-after-a-failed-restore", 1)
				}
				afterRestore(3)
			},
			"seal-toggle": func(rt *rapid.T) {
				if toggles >= 6 {
					skip(rt, "enough seal transitions")
				}
				s := w.nss[3]
				if s.sealed {
					toggles++
					w.unseal(3)
					w.floor = w.tc.rec.MutationCount()
					w.logf("unseal s/ (generated leases stored in it when it was sealed: %d)", w.sExtraAtSeal)
					if w.sExtraAtSeal >= 1 {
						unsealWithLeases++
					}
					afterRestore(3)
					return
				}
				if !w.settle(5 * time.Second) {
					skip(rt, "a revocation is still running")
				}
				if w.extra(3) == 0 && fairIndex(rt, "sealAnyway", 4) > 0 {
					skip(rt, "s/ holds no generated lease yet")
				}
				toggles++
				w.sExtraAtSeal = w.extra(3)
				if err := w.tc.c.namespaceStore.SealNamespace(w.tc.ctx, "s"); err != nil {
					t.Fatalf("harness: seal namespace: %v", err)
				}
				if !w.tc.c.NamespaceSealed(s.ns) {
					t.Fatalf("harness: namespace not sealed after SealNamespace")
				}
				s.sealed = true
				w.floor = w.tc.rec.MutationCount()
				w.logf("seal s/ holding %d generated leases", w.sExtraAtSeal)
			},
			"delete-namespace": func(rt *rapid.T) {
				i := 2
				if w.nss[2].deleted {
					i = 1
				}
				n := w.nss[i]
				if n.deleted {
					skip(rt, "nothing left to delete")
				}
				held := w.extra(i)
				r := w.reqIn(n.parent, logical.DeleteOperation, "sys/namespaces/"+n.name, w.tc.root, nil)
				if !r.ok() {
					t.Fatalf("harness: delete namespace %s: %v", n.path, r)
				}
				deadline := time.Now().Add(30 * time.Second)
				for {
					st := w.reqIn(n.parent, logical.ReadOperation, "sys/namespaces/"+n.name, w.tc.root, nil)
					if st.ok() && st.resp == nil {
						break
					}
					if time.Now().After(deadline) {
						t.Fatalf("harness: deletion of namespace %s did not finish within 30s: %v; history=%v; goroutines in the deletion: %s", n.path, st, w.log, c05nStacks("amespace"))
					}
					time.Sleep(2 * time.Millisecond)
				}
				n.deleted = true
				w.floor = w.tc.rec.MutationCount()
				w.logf("delete namespace %q holding %d generated leases", n.path, held)
				if held >= 1 {
					deleteWithLeases++
				}
				// its leases: revoked at the backend, gone from storage
				w.hub.mu.Lock()
				mis := append([]string(nil), w.hub.misrouted...)
				var notRevoked []string
				for _, l := range w.leases {
					if l.ns == i && !l.isToken && !l.dead && !l.uncertain && w.hub.revoked[l.secretID] == 0 {
						notRevoked = append(notRevoked, l.id+"="+l.secretID)
					}
				}
				w.hub.mu.Unlock()
				for _, l := range w.leases {
					if l.ns == i {
						l.dead = true
					}
				}
				if len(notRevoked) > 0 {
					// not claimed by the property (it speaks of leases present in storage): counted, not a violation. The
					// namespace's sys/ mount is cleared (with sys/expire/id/*) before the later mounts' leases are revoked.
					rec.Class("observation:lease-of-deleted-namespace-not-revoked-at-backend", int64(len(notRevoked)))
					w.logf("observation: namespace %q deleted, backend never saw a revocation of %v (misrouted: %v)", n.path, notRevoked, mis)
				}
				dump, err := verifx.Dump(context.Background(), w.tc.rec.Inner)
				if err != nil {
					t.Fatalf("harness: dump: %v", err)
				}
				var left []string
				for k := range dump {
					if strings.HasPrefix(k, "namespaces/"+n.ns.UUID+"/") && strings.Contains(k, "/expire/") {
						left = append(left, k)
					}
				}
				sort.Strings(left)
				if len(left) > 0 {
					fail("lease-of-deleted-namespace-left-in-storage", fmt.Sprintf("namespace %q was deleted but %d lease entries remain in physical storage, e.g. %s", n.path, len(left), left[0]))
				}
			},
			"restart": func(rt *rapid.T) {
				if restarts >= 3 {
					skip(rt, "enough restarts")
				}
				outside := 0
				for i := range w.nss {
					if i != 0 {
						outside += w.extra(i)
					}
				}
				if w.nss[3].sealed {
					outside += w.sExtraAtSeal
				} else {
					w.sExtraAtSeal = w.extra(3)
				}
				if outside < 2 && fairIndex(rt, "restartAnyway", 2) > 0 {
					skip(rt, "too few leases outside the root namespace for a telling restart")
				}
				restarts++
				crash := fairIndex(rt, "crash", 4) == 0
				phys := w.tc.phys
				if crash {
					// lose the last 1-3 committed writes (a crash inside the most recent lease operation); writes of the
					// set-up and of namespace seal / unseal / deletion are never lost
					n := w.tc.rec.MutationCount()
					k := 1 + fairIndex(rt, "lost", 3)
					if n-k < w.floor {
						k = n - w.floor
					}
					phys = w.tc.rec.ForkAt(n-k, w.tc.opts.transactional)
					crashes++
				}
				w.tc.shutdown()
				ntc, err := w.tc.restartOn(phys)
				if err != nil {
					fail("restart-failed", fmt.Sprintf("core does not restart (crash=%v): %v", crash, err))
					return
				}
				w.tc = ntc
				w.reload()
				w.logf("restart crash=%v generated-leases-stored-outside-root=%d; s/ sealed=%v", crash, outside, w.nss[3].sealed)
				if crash {
					// the model of individual leases may be ahead of the store: forget it (the tracking invariant is global)
					w.leases = nil
				}
				if outside >= 2 {
					restartWithLeases++
				}
				for i, n := range w.nss {
					if n.usable() {
						afterRestore(i)
					}
				}
			},
			"": func(rt *rapid.T) {
				if sig, msg := w.invariant(); sig != "" {
					fail(sig, msg)
				}
				for i, n := range w.nss {
					if n.sealed && !n.deleted {
						for _, l := range w.leases {
							if l.ns == i && !l.isToken {
								rec.Class("steps-probing-sealed-s-with-model-leases", 1)
								break
							}
						}
						if sig, msg := w.sealedProbes(i); sig != "" {
							fail(sig, msg)
						}
					}
				}
			},
		}
		actions["secret-2"] = actions["secret"] // twice the weight
		for name, act := range actions {
			name, act := name, act
			actions[name] = func(rt *rapid.T) {
				if w.wedged {
					return // the core hangs; the remaining steps of the case do nothing
				}
				act(rt)
			}
		}
		var names []string
		for name := range actions {
			if name != "" {
				names = append(names, name)
			}
		}
		sort.Strings(names)
		inPrelude = true
		for k := 8 + fairIndex(rt, "preludeSteps", 24); k > 0; k-- {
			name := names[fairIndex(rt, "action", len(names))]
			func() {
				defer func() {
					if p := recover(); p != nil {
						if _, ok := p.(c05nSkipStep); !ok {
							panic(p)
						}
					}
				}()
				actions[name](rt)
			}()
			actions[""](rt)
		}
		inPrelude = false
		rt.Repeat(actions)
		// observation (outside the property's claim): leases of a deleted namespace that stay tracked for good
		if !w.wedged && w.tc.c.expiration != nil && !w.tc.c.Sealed() {
			w.settle(2 * time.Second)
			seen, _, _ := c05nTracked(w.tc.c)
			for _, n := range w.nss {
				if !n.deleted {
					continue
				}
				for id := range seen {
					if c05nOwnedBy(id, n) {
						rec.Class("observation:deleted-namespace-lease-still-tracked", 1)
					}
				}
			}
		}
		nontrivial := nonRootLease > 0 && (unsealWithLeases > 0 || restartWithLeases > 0)
		rec.Case(fmt.Sprintf("restarts=%d,unseal-with-leases=%v,ns-deletion-with-leases=%v", restarts, unsealWithLeases > 0, deleteWithLeases > 0),
			nontrivial, verifx.Digest(strings.Join(w.log, "|")), func() any { return map[string]any{"history": w.log} })
		rec.Class("cases-with-unseal-of-s-holding-leases", c05nB(unsealWithLeases > 0))
		rec.Class("cases-with-namespace-deletion-holding-leases", c05nB(deleteWithLeases > 0))
		rec.Class("cases-with-restart-and->=2-leases-outside-root", c05nB(restartWithLeases > 0))
		rec.Class("cases-with-crash-restart", c05nB(crashes > 0))
		rec.Class("unseals-of-s-holding-leases", int64(unsealWithLeases))
		rec.Class("namespace-deletions-holding-leases", int64(deleteWithLeases))
		rec.Class("restarts", int64(restarts))
		rec.Class("leases-in-non-root-namespaces", int64(nonRootLease))
		rec.Class("secrets-obtained-with-a-token-of-a-namespace-above", int64(ancestorIssued))
		rec.Class("renewals-capped", int64(capped))
	})
}

// c05nKeyClass abbreviates a physical key (uuids and ids become "*").
func c05nKeyClass(k string) string {
	parts := strings.Split(k, "/")
	if len(parts) > 5 {
		parts = parts[:5]
	}
	for i, p := range parts {
		if len(p) > 20 {
			parts[i] = "*"
		}
	}
	return strings.Join(parts, "/")
}

// c05nStacks returns the stacks of the goroutines whose stack mentions substr (diagnostics of a stuck operation).
func c05nStacks(substr string) string {
	buf := make([]byte, 8<<20)
	buf = buf[:runtime.Stack(buf, true)]
	var out []string
	for _, g := range strings.Split(string(buf), "\n\n") {
		if strings.Contains(g, substr) && !strings.Contains(g, "c05nStacks") {
			out = append(out, verifx.Trunc(g, 1800))
		}
	}
	if len(out) > 6 {
		out = out[:6]
	}
	return strings.Join(out, "\n---\n")
}

// c05nSkipStep ends a prelude step whose action does not apply.
type c05nSkipStep struct{}

func c05nB(b bool) int64 {
	if b {
		return 1
	}
	return 0
}
