//go:build verif

package barrier

// C01a - barrier record confidentiality, authentication, key binding (package level).
//
// One case = one fresh transactional in-memory physical backend with one AESGCMBarrier on it, a
// generated set of records (key grammar x value classes x format version x write path x number of
// rotations before the write), followed by a tamper program applied to the stored physical bytes of
// the first record. Every verdict compares Get results with the values the harness itself wrote.

import (
	"bytes"
	"context"
	"encoding/binary"
	"fmt"
	"sort"
	"strings"
	"testing"

	hclog "github.com/hashicorp/go-hclog"
	"github.com/openbao/openbao/sdk/v2/helper/verifx"
	"github.com/openbao/openbao/sdk/v2/logical"
	"github.com/openbao/openbao/sdk/v2/physical"
	"github.com/openbao/openbao/sdk/v2/physical/inmem"
	"pgregory.net/rapid"
)

const c01Alphabet = "abcdefghijklmnopqrstuvwxyz0123456789_-"

var c01NullLogger = hclog.NewNullLogger()

// c01Expand turns one drawn 64-bit value into n pseudo-random bytes (splitmix64); used for long
// values/segments so that a 64 KiB value costs one draw instead of 65536.
func c01Expand(seed uint64, n int) []byte {
	out := make([]byte, n)
	x := seed
	for i := 0; i < n; i += 8 {
		x += 0x9e3779b97f4a7c15
		z := x
		z = (z ^ (z >> 30)) * 0xbf58476d1ce4e5b9
		z = (z ^ (z >> 27)) * 0x94d049bb133111eb
		z ^= z >> 31
		for j := 0; j < 8 && i+j < n; j++ {
			out[i+j] = byte(z >> (8 * uint(j)))
		}
	}
	return out
}

func c01Segment(rt *rapid.T, label string) (string, bool) {
	k := rapid.IntRange(0, 19).Draw(rt, label+"Kind")
	n, long := 0, false
	switch {
	case k < 13:
		n = rapid.IntRange(1, 12).Draw(rt, label+"Len")
	case k < 15:
		n = 1
	case k < 18:
		n = rapid.SampledFrom([]int{31, 32, 33, 63, 64, 65, 127, 128, 129, 255, 256, 257}).Draw(rt, label+"Len")
		long = true
	default:
		n = rapid.SampledFrom([]int{511, 512, 1023, 1024, 1025, 4096}).Draw(rt, label+"Len")
		long = true
	}
	b := make([]byte, n)
	if n <= 12 {
		for i := range b {
			b[i] = c01Alphabet[rapid.IntRange(0, len(c01Alphabet)-1).Draw(rt, label+"Ch")]
		}
	} else {
		raw := c01Expand(rapid.Uint64().Draw(rt, label+"Seed"), n)
		for i := range b {
			b[i] = c01Alphabet[int(raw[i])%len(c01Alphabet)]
		}
	}
	return string(b), long
}

func c01NamespaceID(rt *rapid.T, label string) string {
	raw := c01Expand(rapid.Uint64().Draw(rt, label), 16)
	return fmt.Sprintf("%x-%x-%x-%x-%x", raw[0:4], raw[4:6], raw[6:8], raw[8:10], raw[10:16])
}

// c01Key draws a storage key: 1-5 segments of [a-z0-9_-] joined with '/'.
func c01Key(rt *rapid.T, label string) (string, string) {
	depth := rapid.SampledFrom([]int{1, 1, 2, 2, 3, 3, 4, 5}).Draw(rt, label+"Depth")
	segs := make([]string, depth)
	anyLong := false
	for i := range segs {
		s, long := c01Segment(rt, fmt.Sprintf("%sSeg%d", label, i))
		segs[i] = s
		anyLong = anyLong || long
	}
	shape := "nested"
	if depth == 1 {
		shape = "flat"
	}
	if anyLong {
		shape += "-long"
	}
	if rapid.IntRange(0, 4).Draw(rt, label+"InNamespace") == 0 {
		// the storage root of a namespace: namespaces/<uuid>/<the same relative layout as the root namespace>
		return "namespaces/" + c01NamespaceID(rt, label+"NS") + "/" + strings.Join(segs, "/"), shape + "-in-namespace"
	}
	return strings.Join(segs, "/"), shape
}

func c01Value(rt *rapid.T, label string) ([]byte, string) {
	switch k := rapid.IntRange(0, 13).Draw(rt, label+"Kind"); {
	case k == 0:
		return []byte{}, "len0"
	case k == 1:
		return []byte{rapid.Byte().Draw(rt, label+"B")}, "len1"
	case k <= 3:
		n := rapid.IntRange(2, 40).Draw(rt, label+"Len")
		b := make([]byte, n)
		for i := range b {
			b[i] = byte(rapid.IntRange(0x20, 0x7e).Draw(rt, label+"Ch"))
		}
		if n < 16 {
			return b, "ascii<16"
		}
		return b, "ascii16-40"
	case k <= 7:
		return rapid.SliceOfN(rapid.Byte(), 16, 64).Draw(rt, label+"Bytes"), "rand16-64"
	case k <= 10:
		n := rapid.IntRange(65, 1023).Draw(rt, label+"Len")
		return c01Expand(rapid.Uint64().Draw(rt, label+"Seed"), n), "rand65-1023"
	default:
		n := rapid.SampledFrom([]int{1024, 1025, 4095, 4096, 16384, 32768, 65535, 65536, 0}).Draw(rt, label+"Len")
		if n == 0 {
			n = rapid.IntRange(1024, 65536).Draw(rt, label+"LenAny")
		}
		return c01Expand(rapid.Uint64().Draw(rt, label+"Seed"), n), "rand1K-64K"
	}
}

type c01Write struct {
	key      string
	shape    string
	val      []byte
	vclass   string
	ver      byte
	viaTxn   bool
	afterRot int
	reseal   int // before this write: 0 nothing, 1 seal + unseal, 2 reload the keyring (what a new leader does)
}

type c01Final struct {
	val  []byte
	ver  byte
	term uint32
	phys []byte
}

type c01Run struct {
	rt    *rapid.T
	rec   *verifx.Recorder
	ctx   context.Context
	inm   physical.Backend
	b     *TransactionalAESGCMBarrier
	final map[string]*c01Final
	// number of tampered reads whose stored bytes differed from the written record
	changed int
	skipped int
	counts  map[string]int64
}

func c01Copy(b []byte) []byte {
	out := make([]byte, len(b))
	copy(out, b)
	return out
}

func (r *c01Run) physGet(key string) []byte {
	e, err := r.inm.Get(r.ctx, key)
	if err != nil {
		r.rt.Fatalf("harness: physical get %q: %v", verifx.Trunc(key, 60), err)
	}
	if e == nil {
		return nil
	}
	return c01Copy(e.Value)
}

func (r *c01Run) physPut(key string, val []byte) {
	if err := r.inm.Put(r.ctx, &physical.Entry{Key: key, Value: c01Copy(val)}); err != nil {
		r.rt.Fatalf("harness: physical put %q: %v", verifx.Trunc(key, 60), err)
	}
}

func (r *c01Run) physRestore(key string, val []byte) {
	if val == nil {
		if err := r.inm.Delete(r.ctx, key); err != nil {
			r.rt.Fatalf("harness: physical delete: %v", err)
		}
		return
	}
	r.physPut(key, val)
}

type c01Read struct {
	val   []byte
	found bool
	err   error
	pan   any
}

var c01ReadModes = []string{"plain", "rotx", "rwtx"}

// read performs one barrier read on the chosen path: 0 plain Get, 1 Get inside BeginReadOnlyTx, 2 Get inside BeginTx.
func (r *c01Run) read(mode int, key string) (res c01Read) {
	var beginErr error
	gotKey := key
	res.pan = verifx.Try(func() {
		var e *logical.StorageEntry
		var err error
		switch mode {
		case 0:
			e, err = r.b.Get(r.ctx, key)
		default:
			var tx logical.Transaction
			if mode == 1 {
				tx, err = r.b.BeginReadOnlyTx(r.ctx)
			} else {
				tx, err = r.b.BeginTx(r.ctx)
			}
			if err != nil {
				beginErr = err
				return
			}
			defer func() { _ = tx.Rollback(r.ctx) }()
			e, err = tx.Get(r.ctx, key)
		}
		res.err = err
		if e != nil {
			res.found = true
			res.val = e.Value
			gotKey = e.Key
		}
	})
	if beginErr != nil {
		r.rt.Fatalf("harness: cannot begin transaction: %v", beginErr)
	}
	if res.pan == nil && res.err == nil && gotKey != key {
		r.rec.Violation(r.rt, "get-returns-other-key", map[string]any{"asked": verifx.Trunc(key, 80), "got": verifx.Trunc(gotKey, 80)},
			"Get(%q) returned an entry with key %q", verifx.Trunc(key, 80), verifx.Trunc(gotKey, 80))
	}
	return res
}

func c01PosClass(i, n int) string {
	switch {
	case i < 4:
		return "term"
	case i == 4:
		return "version"
	case i < 17:
		return "nonce"
	case i >= n-16:
		return "tag"
	default:
		return "body"
	}
}

func c01Hex(b []byte) string {
	if len(b) <= 96 {
		return fmt.Sprintf("%x", b)
	}
	return fmt.Sprintf("%x…(%d bytes)…%x", b[:40], len(b), b[len(b)-24:])
}

// inPlace stores tampered bytes under the record's own key, reads it back on the given path, restores the
// original bytes, and applies the authentication oracle: the read must fail with an error.
func (r *c01Run) inPlace(kind, detail string, mode int, key string, f *c01Final, tampered []byte) {
	if bytes.Equal(tampered, f.phys) {
		r.skipped++
		return
	}
	r.physPut(key, tampered)
	res := r.read(mode, key)
	r.physPut(key, f.phys)
	r.changed++
	r.counts["tamper:"+kind]++
	d := func() map[string]any {
		return map[string]any{"tamper": kind, "detail": detail, "read_path": c01ReadModes[mode], "key": verifx.Trunc(key, 120),
			"version": f.ver, "term": f.term, "value_len": len(f.val), "record_len": len(f.phys),
			"original_record": c01Hex(f.phys), "tampered_record": c01Hex(tampered)}
	}
	switch {
	case res.pan != nil:
		r.rec.Violation(r.rt, "get-panics:"+kind, d(), "Get panicked on a tampered record (%s %s): %v", kind, detail, res.pan)
	case res.err != nil:
		return
	case !res.found:
		r.rec.Violation(r.rt, "tampered-record-reads-as-absent:"+kind, d(), "Get of a tampered record (%s %s) returned (nil, nil) instead of an error", kind, detail)
	case bytes.Equal(res.val, f.val):
		r.rec.Violation(r.rt, "tamper-not-detected:"+kind, d(), "stored bytes were altered (%s %s) and Get returned the original value without error", kind, detail)
	default:
		r.rec.Violation(r.rt, "tampered-record-yields-other-value:"+kind, d(), "stored bytes were altered (%s %s) and Get returned %s, the value written was %s", kind, detail, c01Hex(res.val), c01Hex(f.val))
	}
}

// moved stores the record of srcKey under dstKey (dstKey != srcKey), reads dstKey on all three paths and
// restores dstKey. v2: must fail. v1 (legacy, relocatable per the statement): error or the value of srcKey.
func (r *c01Run) moved(kind string, srcKey string, src *c01Final, dstKey string) {
	if dstKey == srcKey {
		return
	}
	before := r.physGet(dstKey)
	if bytes.Equal(before, src.phys) {
		r.skipped++
		return
	}
	r.physPut(dstKey, src.phys)
	var results [3]c01Read
	for mode := range c01ReadModes {
		results[mode] = r.read(mode, dstKey)
	}
	r.physRestore(dstKey, before)
	r.changed++
	r.counts["tamper:"+kind]++
	for mode, res := range results {
		d := func() map[string]any {
			m := map[string]any{"tamper": kind, "read_path": c01ReadModes[mode], "source_key": verifx.Trunc(srcKey, 120), "destination_key": verifx.Trunc(dstKey, 120),
				"source_version": src.ver, "source_term": src.term, "source_value": c01Hex(src.val), "record": c01Hex(src.phys)}
			if df, ok := r.final[dstKey]; ok {
				m["destination_value"] = c01Hex(df.val)
			}
			return m
		}
		switch {
		case res.pan != nil:
			r.rec.Violation(r.rt, "get-panics:"+kind, d(), "Get panicked on a relocated record: %v", res.pan)
		case res.err != nil:
			if src.ver == AESGCMVersion1 {
				r.counts["v1-moved-rejected"]++
			}
		case !res.found:
			r.rec.Violation(r.rt, "tampered-record-reads-as-absent:"+kind, d(), "Get of a relocated record returned (nil, nil) instead of an error")
		case src.ver == AESGCMVersion2:
			r.rec.Violation(r.rt, "v2-record-accepted-under-other-key:"+kind, d(),
				"a format-v2 record written under %q was accepted under %q (read path %s) and returned %s", verifx.Trunc(srcKey, 80), verifx.Trunc(dstKey, 80), c01ReadModes[mode], c01Hex(res.val))
		case bytes.Equal(res.val, src.val):
			r.counts["v1-moved-decrypts-to-source-value"]++
		default:
			r.rec.Violation(r.rt, "moved-record-yields-other-value:"+kind, d(),
				"a legacy record moved from %q to %q decrypted to %s which is neither an error nor the source value %s", verifx.Trunc(srcKey, 80), verifx.Trunc(dstKey, 80), c01Hex(res.val), c01Hex(src.val))
		}
	}
}

// c01LeakScan looks for any 8-byte window of plain inside any physical value.
func c01LeakScan(plain []byte, keys []string, dump map[string][]byte) (string, int, bool) {
	if len(plain) < 8 {
		return "", 0, false
	}
	set := make(map[uint64]struct{}, len(plain))
	var w uint64
	for i, c := range plain {
		w = w<<8 | uint64(c)
		if i >= 7 {
			set[w] = struct{}{}
		}
	}
	for _, k := range keys {
		v := dump[k]
		w = 0
		for i, c := range v {
			w = w<<8 | uint64(c)
			if i >= 7 {
				if _, ok := set[w]; ok {
					return k, i - 7, true
				}
			}
		}
	}
	return "", 0, false
}

func c01Prop(rec *verifx.Recorder) func(rt *rapid.T) {
	return func(rt *rapid.T) {
		ctx := context.Background()

		// ---------------------------------------------------------------- generate
		rootKey := rapid.SliceOfN(rapid.Byte(), 32, 32).Draw(rt, "rootKey")
		rotations := rapid.SampledFrom([]int{0, 1, 1, 2, 2, 3, 4}).Draw(rt, "rotations")
		nrec := rapid.SampledFrom([]int{1, 2, 2, 3, 3, 4}).Draw(rt, "records")
		writes := make([]c01Write, nrec)
		for i := range writes {
			w := &writes[i]
			lbl := fmt.Sprintf("r%d", i)
			if i > 0 && rapid.IntRange(0, 5).Draw(rt, lbl+"ReuseKey") == 0 {
				j := rapid.IntRange(0, i-1).Draw(rt, lbl+"ReuseOf")
				w.key, w.shape = writes[j].key, writes[j].shape
			} else {
				w.key, w.shape = c01Key(rt, lbl+"Key")
			}
			w.val, w.vclass = c01Value(rt, lbl+"Val")
			w.ver = AESGCMVersion2
			if rapid.IntRange(0, 9).Draw(rt, lbl+"Legacy") < 3 {
				w.ver = AESGCMVersion1
			}
			w.viaTxn = rapid.Bool().Draw(rt, lbl+"ViaTxn")
			w.afterRot = rapid.IntRange(0, rotations).Draw(rt, lbl+"AfterRot")
			w.reseal = []int{0, 0, 0, 1, 2, 0}[rapid.IntRange(0, 5).Draw(rt, lbl+"ResealBefore")]
		}
		readMode := rapid.IntRange(0, 2).Draw(rt, "readPath")
		extendMode := rapid.SampledFrom([]string{"zeros", "self", "byte"}).Draw(rt, "extendFill")
		extendByte := rapid.Byte().Draw(rt, "extendByte")
		// generated positions for large records (fractions of the record length)
		var fracs [14]int
		for i := range fracs {
			fracs[i] = rapid.IntRange(0, 1<<20).Draw(rt, "posFrac")
		}
		var bits [8]int
		for i := range bits {
			bits[i] = rapid.IntRange(0, 7).Draw(rt, "bit")
		}
		otherNS := c01NamespaceID(rt, "dstNamespace")
		sibling, _ := c01Segment(rt, "dstSibling")
		otherTop, _ := c01Segment(rt, "dstTop")
		child, _ := c01Segment(rt, "dstChild")
		suffixCh := c01Alphabet[rapid.IntRange(0, len(c01Alphabet)-1).Draw(rt, "dstSuffix")]

		// ---------------------------------------------------------------- set up
		inm, err := inmem.NewInmem(nil, c01NullLogger)
		if err != nil {
			rt.Fatalf("harness: inmem: %v", err)
		}
		b := NewAESGCMBarrier(inm, nil).(*TransactionalAESGCMBarrier)
		if err := b.Initialize(ctx, rootKey, nil); err != nil {
			rt.Fatalf("harness: initialize: %v", err)
		}
		if err := b.Unseal(ctx, rootKey); err != nil {
			rt.Fatalf("harness: unseal: %v", err)
		}
		r := &c01Run{rt: rt, rec: rec, ctx: ctx, inm: inm, b: b, final: map[string]*c01Final{}, counts: map[string]int64{}}
		defer func() {
			for k, v := range r.counts {
				rec.Class(k, v)
			}
		}()

		// ---------------------------------------------------------------- write phase (oracles 1b, 2, 5)
		var keyOrder []string
		var plaintexts [][]byte
		putOnce := func(w *c01Write) {
			old := b.currentAESGCMVersionByte
			b.currentAESGCMVersionByte = w.ver
			defer func() { b.currentAESGCMVersionByte = old }()
			entry := &logical.StorageEntry{Key: w.key, Value: c01Copy(w.val)}
			var perr, gerr error
			var inTxn *logical.StorageEntry
			p := verifx.Try(func() {
				if !w.viaTxn {
					perr = b.Put(ctx, entry)
					return
				}
				tx, err := b.BeginTx(ctx)
				if err != nil {
					perr = err
					return
				}
				if perr = tx.Put(ctx, entry); perr != nil {
					_ = tx.Rollback(ctx)
					return
				}
				// read-your-write inside the transaction
				inTxn, gerr = tx.Get(ctx, w.key)
				perr = tx.Commit(ctx)
			})
			if p != nil {
				rec.Violation(rt, "put-panics", map[string]any{"key": verifx.Trunc(w.key, 120), "value_len": len(w.val)}, "Put panicked on a valid entry: %v", p)
				return
			}
			if perr != nil {
				rec.Violation(rt, "put-fails", map[string]any{"key": verifx.Trunc(w.key, 120), "value_len": len(w.val), "txn": w.viaTxn}, "Put of a valid entry failed: %v", perr)
				return
			}
			if w.viaTxn && (gerr != nil || inTxn == nil || !bytes.Equal(inTxn.Value, w.val)) {
				rec.Violation(rt, "roundtrip-in-writing-txn", map[string]any{"key": verifx.Trunc(w.key, 120), "value": c01Hex(w.val), "err": fmt.Sprint(gerr)},
					"Get inside the writing transaction did not return the value just put (err=%v)", gerr)
			}
		}
		// a (term, nonce) pair is used once in the life of the store, reseals and keyring reloads included
		nonces := map[string]string{}
		noteNonce := func(key string, phys []byte) {
			if len(phys) < 17+16 {
				return
			}
			h := string(phys[:17])
			if prev, dup := nonces[h]; dup {
				rec.Violation(rt, "term-and-nonce-repeat", map[string]any{"key": verifx.Trunc(key, 120), "earlier_key": verifx.Trunc(prev, 120), "header_and_nonce": c01Hex(phys[:17])},
					"two stored records start with the same term, version and nonce %x: both are encrypted with the same keystream", phys[:17])
			}
			nonces[h] = key
		}
		rotDone := 0
		for step := 0; step <= rotations; step++ {
			for i := range writes {
				w := &writes[i]
				if w.afterRot != step {
					continue
				}
				switch w.reseal {
				case 1:
					if err := b.Seal(); err != nil {
						rt.Fatalf("harness: seal: %v", err)
					}
					if err := b.Unseal(ctx, rootKey); err != nil {
						rt.Fatalf("harness: unseal after seal: %v", err)
					}
					r.counts["reseal-between-writes"]++
				case 2:
					if err := b.ReloadKeyring(ctx); err != nil {
						rt.Fatalf("harness: reload keyring: %v", err)
					}
					r.counts["keyring-reload-between-writes"]++
				}
				putOnce(w)
				phys1 := r.physGet(w.key)
				noteNonce(w.key, phys1)
				if phys1 == nil {
					rec.Violation(rt, "put-not-stored", map[string]any{"key": verifx.Trunc(w.key, 120)}, "Put succeeded but the physical backend holds nothing under the key")
				}
				wantTerm := uint32(1 + rotDone)
				if len(phys1) < 5 || binary.BigEndian.Uint32(phys1[:4]) != wantTerm || phys1[4] != w.ver {
					rec.Violation(rt, "new-write-header", map[string]any{"key": verifx.Trunc(w.key, 120), "record": c01Hex(phys1), "want_term": wantTerm, "want_version": w.ver, "rotations": rotDone},
						"new write after %d rotations carries header %x, want term %d version %d", rotDone, phys1[:min(5, len(phys1))], wantTerm, w.ver)
				}
				// same (key, value) written again must give a different ciphertext
				if i == 0 || len(w.val) <= 4096 {
					putOnce(w)
					phys2 := r.physGet(w.key)
					noteNonce(w.key, phys2)
					if bytes.Equal(phys1, phys2) {
						rec.Violation(rt, "ciphertext-repeats", map[string]any{"key": verifx.Trunc(w.key, 120), "value": c01Hex(w.val), "record": c01Hex(phys1)},
							"two writes of the same (key, value) produced identical stored bytes")
					}
					phys1 = phys2
				}
				if _, ok := r.final[w.key]; !ok {
					keyOrder = append(keyOrder, w.key)
				}
				r.final[w.key] = &c01Final{val: w.val, ver: w.ver, term: wantTerm, phys: phys1}
				plaintexts = append(plaintexts, w.val)
			}
			if step < rotations {
				nt, err := b.Rotate(ctx)
				if err != nil {
					rt.Fatalf("harness: rotate: %v", err)
				}
				rotDone++
				if nt != uint32(1+rotDone) {
					rec.Violation(rt, "rotate-term", map[string]any{"returned": nt, "rotations": rotDone}, "Rotate number %d returned term %d", rotDone, nt)
				}
			}
		}

		// ---------------------------------------------------------------- oracle 1a: confidentiality
		dump, err := verifx.Dump(ctx, inm)
		if err != nil {
			rt.Fatalf("harness: dump: %v", err)
		}
		dumpKeys := make([]string, 0, len(dump))
		for k := range dump {
			dumpKeys = append(dumpKeys, k)
		}
		sort.Strings(dumpKeys)
		scanned := 0
		for _, p := range plaintexts {
			if len(p) < 16 {
				continue
			}
			scanned++
			if k, off, found := c01LeakScan(p, dumpKeys, dump); found {
				rec.Violation(rt, "plaintext-in-physical-store", map[string]any{"physical_key": verifx.Trunc(k, 120), "offset": off, "plaintext": c01Hex(p), "physical_value": c01Hex(dump[k])},
					"an 8-byte window of a %d-byte plaintext occurs at offset %d of the physical value under %q", len(p), off, verifx.Trunc(k, 80))
			}
		}
		r.counts["confidentiality-scans"] += int64(scanned)

		// ---------------------------------------------------------------- oracle 2: round trip on all paths
		roundTrip := func(stage string) {
			for _, k := range keyOrder {
				f := r.final[k]
				for mode := range c01ReadModes {
					res := r.read(mode, k)
					d := func() map[string]any {
						return map[string]any{"stage": stage, "key": verifx.Trunc(k, 120), "read_path": c01ReadModes[mode], "version": f.ver, "term": f.term,
							"written": c01Hex(f.val), "got": c01Hex(res.val), "found": res.found, "err": fmt.Sprint(res.err), "panic": fmt.Sprint(res.pan)}
					}
					switch {
					case res.pan != nil:
						rec.Violation(rt, "get-panics:untampered", d(), "Get of an untampered record panicked: %v", res.pan)
					case res.err != nil:
						rec.Violation(rt, "roundtrip-error", d(), "Get (%s) of an untampered %d-byte v%d record of term %d failed: %v", c01ReadModes[mode], len(f.val), f.ver, f.term, res.err)
					case !res.found:
						rec.Violation(rt, "roundtrip-absent", d(), "Get (%s) of an untampered record returned nothing", c01ReadModes[mode])
					case !bytes.Equal(res.val, f.val):
						rec.Violation(rt, "roundtrip-other-value", d(), "Get (%s) returned %s, last value written is %s", c01ReadModes[mode], c01Hex(res.val), c01Hex(f.val))
					}
				}
			}
		}
		roundTrip("before-tamper")

		// ---------------------------------------------------------------- tamper program on the first key (oracles 3, 4)
		tkey := keyOrder[0]
		tf := r.final[tkey]
		orig := tf.phys
		n := len(orig)
		small := n <= 256
		flip := func(i, bit int) {
			if i < 0 || i >= n {
				return
			}
			t := c01Copy(orig)
			t[i] ^= 1 << uint(bit)
			cls := c01PosClass(i, n)
			r.inPlace("bitflip-"+cls, fmt.Sprintf("byte %d bit %d", i, bit), readMode, tkey, tf, t)
		}
		flipByte := func(i int) {
			for bit := 0; bit < 8; bit++ {
				flip(i, bit)
			}
		}
		if small {
			for i := 0; i < n; i++ {
				flipByte(i)
			}
		} else {
			for i := 0; i < 17; i++ { // header + nonce
				flipByte(i)
			}
			for i := 17; i < 25; i++ { // first body bytes
				flipByte(i)
			}
			for i := n - 24; i < n; i++ { // last body bytes + tag
				flipByte(i)
			}
			for j := 0; j < 8; j++ { // generated body positions
				body := n - 33
				flip(17+int(int64(fracs[j])*int64(body-1)>>20), bits[j])
			}
		}
		// truncation
		truncTo := func(l int) {
			if l < 0 || l >= n {
				return
			}
			r.inPlace("truncate", fmt.Sprintf("to %d of %d bytes", l, n), readMode, tkey, tf, orig[:l])
		}
		if small {
			for l := 0; l < n; l++ {
				truncTo(l)
			}
		} else {
			for _, l := range []int{0, 1, 2, 3, 4, 5, 6, 7, 16, 17, 18, 21, 32, 33, 34, n - 33, n - 17, n - 16, n - 15, n - 2, n - 1} {
				truncTo(l)
			}
			for j := 8; j < 11; j++ {
				truncTo(int(int64(fracs[j]) * int64(n-1) >> 20))
			}
		}
		// extension
		extendBy := func(k int) {
			t := make([]byte, n+k)
			copy(t, orig)
			switch extendMode {
			case "self":
				for i := 0; i < k; i++ {
					t[n+i] = orig[i%n]
				}
			case "byte":
				for i := 0; i < k; i++ {
					t[n+i] = extendByte
				}
			}
			r.inPlace("extend", fmt.Sprintf("by %d bytes (%s)", k, extendMode), readMode, tkey, tf, t)
		}
		if small {
			for k := 1; k <= n; k++ {
				extendBy(k)
			}
		} else {
			for _, k := range []int{1, 2, 12, 16, 17, 28, 33, n} {
				extendBy(k)
			}
			for j := 11; j < 14; j++ {
				extendBy(1 + int(int64(fracs[j])*int64(n-1)>>20))
			}
		}
		// header re-encoding: every known term, two unknown ones, and every interesting version byte
		terms := []uint32{0, uint32(rotations + 2), 0xffffffff}
		for tm := 1; tm <= rotations+1; tm++ {
			terms = append(terms, uint32(tm))
		}
		for _, tm := range terms {
			for _, ver := range []byte{0, AESGCMVersion1, AESGCMVersion2, 3, 0xff} {
				t := c01Copy(orig)
				binary.BigEndian.PutUint32(t[:4], tm)
				t[4] = ver
				kind := "reheader-term"
				if tm == tf.term {
					kind = "reheader-version"
				} else if ver != tf.ver {
					kind = "reheader-both"
				}
				r.inPlace(kind, fmt.Sprintf("term %d->%d version %d->%d", tf.term, tm, tf.ver, ver), readMode, tkey, tf, t)
			}
		}
		// transplant the record to other keys
		segs := strings.Split(tkey, "/")
		dsts := map[string]string{}
		{
			s := append(append([]string(nil), segs[:len(segs)-1]...), sibling)
			dsts["transplant-sibling"] = strings.Join(s, "/")
			o := append([]string{otherTop}, segs[1:]...)
			if len(segs) == 1 {
				o = []string{otherTop, segs[0]}
			}
			dsts["transplant-other-prefix"] = strings.Join(o, "/")
			dsts["transplant-child"] = tkey + "/" + child
			dsts["transplant-suffix"] = tkey + string(suffixCh)
			if len(segs) > 1 {
				dsts["transplant-parent"] = strings.Join(segs[:len(segs)-1], "/")
			}
			if len(tkey) > 1 {
				dsts["transplant-shorter"] = tkey[:len(tkey)-1]
			}
			// across namespace storage roots: the same relative key in another namespace, in the root namespace, or
			// (for a root-namespace record) below a namespace
			if len(segs) > 2 && segs[0] == "namespaces" {
				rel := strings.Join(segs[2:], "/")
				dsts["transplant-other-namespace"] = "namespaces/" + otherNS + "/" + rel
				dsts["transplant-namespace-to-root"] = rel
				dsts["transplant-nested-namespace"] = "namespaces/" + segs[1] + "/namespaces/" + otherNS + "/" + rel
			} else {
				dsts["transplant-root-to-namespace"] = "namespaces/" + otherNS + "/" + tkey
			}
		}
		dkinds := make([]string, 0, len(dsts))
		for k := range dsts {
			dkinds = append(dkinds, k)
		}
		sort.Strings(dkinds)
		for _, kind := range dkinds {
			r.moved(kind, tkey, tf, dsts[kind])
		}
		// onto / swapped with the other records
		for _, ok := range keyOrder[1:] {
			of := r.final[ok]
			r.moved("transplant-onto-existing", tkey, tf, ok)
			r.moved("transplant-onto-existing", ok, of, tkey)
			// full swap: both records exchanged at once
			r.physPut(tkey, of.phys)
			r.physPut(ok, tf.phys)
			var resA, resB [3]c01Read
			for mode := range c01ReadModes {
				resA[mode] = r.read(mode, tkey)
				resB[mode] = r.read(mode, ok)
			}
			r.physPut(tkey, tf.phys)
			r.physPut(ok, of.phys)
			r.changed++
			r.counts["tamper:swap"]++
			chk := func(res c01Read, mode int, atKey string, src *c01Final, srcKey string) {
				d := func() map[string]any {
					return map[string]any{"tamper": "swap", "read_path": c01ReadModes[mode], "read_key": verifx.Trunc(atKey, 120), "record_written_under": verifx.Trunc(srcKey, 120),
						"record_version": src.ver, "record_value": c01Hex(src.val), "got": c01Hex(res.val), "value_last_written_under_read_key": c01Hex(r.final[atKey].val)}
				}
				switch {
				case res.pan != nil:
					rec.Violation(rt, "get-panics:swap", d(), "Get panicked after two records were swapped: %v", res.pan)
				case res.err != nil:
				case !res.found:
					rec.Violation(rt, "tampered-record-reads-as-absent:swap", d(), "Get after a swap returned (nil, nil)")
				case src.ver == AESGCMVersion2:
					rec.Violation(rt, "v2-record-accepted-under-other-key:swap", d(), "after swapping two records, the v2 record of %q was accepted under %q", verifx.Trunc(srcKey, 80), verifx.Trunc(atKey, 80))
				case bytes.Equal(res.val, src.val):
					r.counts["v1-moved-decrypts-to-source-value"]++
				default:
					rec.Violation(rt, "moved-record-yields-other-value:swap", d(), "after a swap Get returned %s, neither an error nor the value of the swapped-in legacy record", c01Hex(res.val))
				}
			}
			for mode := range c01ReadModes {
				chk(resA[mode], mode, tkey, of, ok)
				chk(resB[mode], mode, ok, tf, tkey)
			}
		}

		// the store was restored after every tamper: everything must read back again
		roundTrip("after-restore")

		// ---------------------------------------------------------------- bookkeeping
		w0 := writes[0]
		for _, w := range writes {
			if w.key == tkey {
				w0 = w // the last write under the tampered key decides its classes
			}
		}
		path := "put"
		if w0.viaTxn {
			path = "txn"
		}
		nontrivial := len(tf.val) >= 16 && r.changed > 0
		r.counts[fmt.Sprintf("rotations:%d", rotations)]++
		r.counts["keyshape:"+w0.shape]++
		r.counts["write:"+path]++
		r.counts["read:"+c01ReadModes[readMode]]++
		r.counts[fmt.Sprintf("target-term:%d", tf.term)]++
		r.counts[fmt.Sprintf("records:%d", len(keyOrder))]++
		r.counts["tampers-skipped-identical"] += int64(r.skipped)
		if small {
			r.counts["record<=256B(all positions)"]++
		} else {
			r.counts["record>256B(stratified)"]++
		}
		rec.Case(fmt.Sprintf("v%d %s", tf.ver, w0.vclass), nontrivial,
			verifx.Digest("c01", w0.shape, len(strings.Split(tkey, "/")), len(tf.val), tf.ver, tf.term, rotations, path, readMode, len(keyOrder), tf.val),
			func() any {
				return map[string]any{"key": verifx.Trunc(tkey, 100), "key_shape": w0.shape, "value_len": len(tf.val), "value_class": w0.vclass, "version": tf.ver, "term": tf.term,
					"rotations": rotations, "write_path": path, "read_path": c01ReadModes[readMode], "records": len(keyOrder), "record_len": n,
					"tampered_reads": r.changed, "record_hex": c01Hex(orig)}
			})
	}
}

func TestVerif_C01_Record(t *testing.T) {
	rec := verifx.NewRecorder("C01", "barrier-record",
		"keys from a [a-z0-9_-] segment grammar (depth 1-5, boundary lengths to 4096), values empty/1 byte/ASCII/16 B-64 KiB random, 0-4 rotations, record format v1|v2, write by Put or BeginTx/Put/Commit, read by Get or Get in a (read-only) transaction; the stored bytes of one record get every bit flip (all positions <=256 B, stratified above), every truncation, extensions, every term/version re-encoding, transplants and swaps; non-trivial = value >= 16 bytes and >= 1 tamper that changed bytes")
	defer rec.Flush()
	rapid.Check(t, c01Prop(rec))
}

func FuzzVerif_C01_Record(f *testing.F) {
	// The recorder only carries violations here (a violation fails the input and becomes a crasher file); it is not
	// flushed: fuzz workers are killed by the coordinator, so their counts would be lost anyway. The driver records execs.
	rec := verifx.NewRecorder("C01", "barrier-record-fuzz", "same property as barrier-record, cases decoded from the native fuzzer's bytes (rapid.MakeFuzz)")
	// rapid consumes 8 input bytes per draw and skips inputs that run out: seed with inputs long enough for a whole case
	for seed := uint64(1); seed <= 12; seed++ {
		f.Add(c01Expand(seed, 6144))
	}
	f.Fuzz(rapid.MakeFuzz(c01Prop(rec)))
}
