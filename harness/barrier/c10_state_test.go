//go:build verif

package barrier

// C10a - seal state and key rotation at the barrier level.
//
// One case = one transactional in-memory physical store with two AESGCMBarrier instances on it (the
// ACTIVE one writes, rotates and rekeys; the STANDBY one follows through the upgrade path), driven by
// a rapid state machine. The reference model is written from the documentation of the
// SecurityBarrier interface: a map of entries, the persisted root key and newest term, and per
// instance {sealed, root key held, highest term held}.

import (
	"bytes"
	"context"
	"encoding/binary"
	"errors"
	"fmt"
	"sort"
	"strings"
	"testing"

	hclog "github.com/hashicorp/go-hclog"
	"github.com/openbao/openbao/sdk/v2/helper/verifx"
	"github.com/openbao/openbao/sdk/v2/logical"
	"github.com/openbao/openbao/sdk/v2/physical"
	"github.com/openbao/openbao/sdk/v2/physical/inmem"
	"pgregory.net/rapid"
)

var c10NullLogger = hclog.NewNullLogger()

var (
	c10Keys     = []string{"d/a", "d/b", "d/c", "d/x/a", "d/x/b", "d/x/y/a", "d/z/a", "e/a"}
	c10Prefixes = []string{"d/", "d/x/", "d/x/y/", "e/", "d/none/"}
)

type c10Node struct {
	name string
	b    *TransactionalAESGCMBarrier
	// model of the instance
	sealed  bool
	rootKey []byte // root key the instance holds
	maxTerm uint32 // the instance holds the keys of terms 1..maxTerm
	// bookkeeping for the non-trivial rule: a seal/unseal, reload or upgrade happened after a rotation
	event bool
}

type c10H struct {
	rt  *rapid.T
	rec *verifx.Recorder
	ctx context.Context
	inm physical.Backend
	act *c10Node
	sby *c10Node

	entries   map[string][]byte
	entryTerm map[string]uint32
	rootKey   []byte            // root key the persisted keyring is encrypted with
	prevRoots [][]byte          // earlier root keys
	term      uint32            // newest term
	keys      map[uint32][]byte // term -> key bytes (captured from the active's Keyring() when the term was created)
	upgrades  map[uint32]bool   // upgrades[t]: the record core/upgrade/<t> (key of term t+1 under term t) exists

	ops                                                          map[string]int64
	fRot, fRootRot, fSealCycle, fUpgrade, fFailover, fNontrivial bool
	oldTermReads                                                 int
}

func c10Copy(b []byte) []byte {
	out := make([]byte, len(b))
	copy(out, b)
	return out
}

func c10Zero(b []byte) bool {
	for _, c := range b {
		if c != 0 {
			return false
		}
	}
	return true
}

func (h *c10H) viol(sig string, detail map[string]any, format string, args ...any) {
	if detail == nil {
		detail = map[string]any{}
	}
	detail["active"] = h.act.name
	detail["active_sealed"] = h.act.sealed
	detail["standby_sealed"] = h.sby.sealed
	detail["newest_term"] = h.term
	detail["active_terms"] = h.act.maxTerm
	detail["standby_terms"] = h.sby.maxTerm
	detail["root_key_rotations"] = len(h.prevRoots)
	h.rec.Violation(h.rt, sig, detail, format, args...)
}

// try runs calls into the barrier; a panic of the code under test on a generated (valid) call is a violation.
func (h *c10H) try(op string, f func()) {
	if p := verifx.Try(f); p != nil {
		h.viol("panic:"+op, map[string]any{"op": op}, "%s panicked: %v", op, p)
	}
}

func (h *c10H) physHeader(key string) (uint32, byte, bool) {
	e, err := h.inm.Get(h.ctx, key)
	if err != nil {
		h.rt.Fatalf("harness: physical get: %v", err)
	}
	if e == nil || len(e.Value) < 5 {
		return 0, 0, false
	}
	return binary.BigEndian.Uint32(e.Value[:4]), e.Value[4], true
}

func (h *c10H) checkNewRecord(op, key string, wantTerm uint32) {
	term, ver, ok := h.physHeader(key)
	if !ok || term != wantTerm || ver != AESGCMVersion2 {
		h.viol("new-record-not-under-newest-term", map[string]any{"op": op, "key": key, "found": ok, "record_term": term, "record_version": ver, "want_term": wantTerm},
			"%s wrote %q with header term %d version %d (present=%v), the newest term is %d", op, key, term, ver, ok, wantTerm)
	}
}

func (h *c10H) modelList(entries map[string][]byte, prefix string) []string {
	seen := map[string]bool{}
	var out []string
	for k := range entries {
		if !strings.HasPrefix(k, prefix) {
			continue
		}
		rest := k[len(prefix):]
		if i := strings.Index(rest, "/"); i >= 0 {
			rest = rest[:i+1]
		}
		if !seen[rest] {
			seen[rest] = true
			out = append(out, rest)
		}
	}
	sort.Strings(out)
	return out
}

func c10SameList(got, want []string) bool {
	g := append([]string(nil), got...)
	sort.Strings(g)
	if len(g) != len(want) {
		return false
	}
	for i := range g {
		if g[i] != want[i] {
			return false
		}
	}
	return true
}

func (h *c10H) sortedEntryKeys() []string {
	ks := make([]string, 0, len(h.entries))
	for k := range h.entries {
		ks = append(ks, k)
	}
	sort.Strings(ks)
	return ks
}

// ------------------------------------------------------------------ sealed instance: nothing is served, nothing is held

type c10Res struct {
	op  string
	err error
	out bool // a result was returned besides the error
}

func (h *c10H) checkSealed(n *c10Node) {
	b := n.b
	ctx := h.ctx
	probeKey := "d/a"
	if ks := h.sortedEntryKeys(); len(ks) > 0 {
		probeKey = ks[0]
	}
	var physBefore []byte
	if e, _ := h.inm.Get(ctx, probeKey); e != nil {
		physBefore = c10Copy(e.Value)
	}
	var res []c10Res
	var sealedFlag bool
	var krErr error
	var kr *Keyring
	add := func(op string, err error, out bool) { res = append(res, c10Res{op, err, out}) }
	h.try("sealed-battery", func() {
		sealedFlag = b.Sealed()
		kr, krErr = b.Keyring()
		e, err := b.Get(ctx, probeKey)
		add("Get", err, e != nil)
		add("Put", b.Put(ctx, &logical.StorageEntry{Key: "d/sealed-probe", Value: []byte("probe-value-0123456789")}), false)
		add("Delete", b.Delete(ctx, probeKey), false)
		l, err := b.List(ctx, "d/")
		add("List", err, l != nil)
		l, err = b.ListPage(ctx, "d/", "", -1)
		add("ListPage", err, l != nil)
		ct, err := b.Encrypt(ctx, probeKey, []byte("plaintext-0123456789"))
		add("Encrypt", err, ct != nil)
		ctProbe := physBefore
		if ctProbe == nil {
			ctProbe = append([]byte{0, 0, 0, 1, 2}, make([]byte, 40)...)
		}
		pt, err := b.Decrypt(ctx, probeKey, ctProbe)
		add("Decrypt", err, pt != nil)
		tx, err := b.BeginTx(ctx)
		if err == nil {
			e, err := tx.Get(ctx, probeKey)
			add("tx.Get", err, e != nil)
			add("tx.Put", tx.Put(ctx, &logical.StorageEntry{Key: "d/sealed-probe", Value: []byte("probe-value-0123456789")}), false)
			add("tx.Delete", tx.Delete(ctx, probeKey), false)
			l, err := tx.List(ctx, "d/")
			add("tx.List", err, l != nil)
			l, err = tx.ListPage(ctx, "d/", "", -1)
			add("tx.ListPage", err, l != nil)
			_ = tx.Rollback(ctx)
		} else {
			add("BeginTx", err, false)
		}
		rtx, err := b.BeginReadOnlyTx(ctx)
		if err == nil {
			e, err := rtx.Get(ctx, probeKey)
			add("rotx.Get", err, e != nil)
			_ = rtx.Rollback(ctx)
		}
		_, err = b.Rotate(ctx)
		add("Rotate", err, false)
		add("CreateUpgrade", b.CreateUpgrade(ctx, 2), false)
		did, _, err := b.CheckUpgrade(ctx)
		add("CheckUpgrade", err, did)
		add("DestroyUpgrade", b.DestroyUpgrade(ctx, 9999), false)
		ki, err := b.ActiveKeyInfo()
		add("ActiveKeyInfo", err, ki != nil)
		add("VerifyRoot", b.VerifyRoot(h.rootKey), false)
		add("RotateRootKey", b.RotateRootKey(ctx, c10Copy(h.rootKey)), false)
		add("SetRootKey", b.SetRootKey(c10Copy(h.rootKey)), false)
		add("ReloadRootKey", b.ReloadRootKey(ctx), false)
	})
	if !sealedFlag {
		h.viol("sealed-flag", map[string]any{"node": n.name}, "%s must be sealed but Sealed() is false", n.name)
	}
	if krErr == nil || kr != nil {
		h.viol("keyring-reachable-while-sealed", map[string]any{"node": n.name}, "Keyring() of the sealed %s returned (%v, %v)", n.name, kr != nil, krErr)
	}
	for _, r := range res {
		if !errors.Is(r.err, ErrBarrierSealed) || r.out {
			h.viol("sealed-op-served:"+r.op, map[string]any{"node": n.name, "op": r.op, "err": fmt.Sprint(r.err), "returned_result": r.out},
				"%s on the sealed %s returned err=%v result=%v, want ErrBarrierSealed and nothing", r.op, n.name, r.err, r.out)
		}
	}
	// in-package: no key material is held
	if b.keyring != nil || len(b.cache) != 0 {
		h.viol("key-material-held-while-sealed", map[string]any{"node": n.name, "keyring_nil": b.keyring == nil, "cached_aeads": len(b.cache)},
			"the sealed %s still holds key material (keyring nil: %v, cached AEADs: %d)", n.name, b.keyring == nil, len(b.cache))
	}
	// nothing reached the store
	if e, _ := h.inm.Get(ctx, "d/sealed-probe"); e != nil {
		h.viol("sealed-write-reached-storage", map[string]any{"node": n.name}, "a Put on the sealed %s reached the physical store", n.name)
	}
	var physAfter []byte
	if e, _ := h.inm.Get(ctx, probeKey); e != nil {
		physAfter = e.Value
	}
	if !bytes.Equal(physBefore, physAfter) {
		h.viol("sealed-delete-reached-storage", map[string]any{"node": n.name, "key": probeKey}, "a Delete on the sealed %s changed the physical record of %q", n.name, probeKey)
	}
}

// ------------------------------------------------------------------ unsealed instance: keyring as modelled, entries read back

func (h *c10H) checkUnsealed(n *c10Node) {
	b := n.b
	var sealedFlag bool
	var kr *Keyring
	var krErr, vrErr, vrPrevErr error
	var info *KeyInfo
	var infoErr error
	var prev []byte
	for i := len(h.prevRoots) - 1; i >= 0; i-- {
		if !bytes.Equal(h.prevRoots[i], n.rootKey) {
			prev = h.prevRoots[i]
			break
		}
	}
	h.try("unsealed-inspection", func() {
		sealedFlag = b.Sealed()
		kr, krErr = b.Keyring()
		vrErr = b.VerifyRoot(n.rootKey)
		if prev != nil {
			vrPrevErr = b.VerifyRoot(prev)
		}
		info, infoErr = b.ActiveKeyInfo()
	})
	if sealedFlag {
		h.viol("unsealed-flag", map[string]any{"node": n.name}, "%s must be unsealed but Sealed() is true", n.name)
	}
	if krErr != nil || kr == nil {
		h.viol("keyring-unavailable", map[string]any{"node": n.name, "err": fmt.Sprint(krErr)}, "Keyring() of the unsealed %s failed: %v", n.name, krErr)
		return
	}
	bad := ""
	switch {
	case kr.ActiveTerm() != n.maxTerm:
		bad = fmt.Sprintf("active term %d, expected %d", kr.ActiveTerm(), n.maxTerm)
	case len(kr.keys) != int(n.maxTerm):
		bad = fmt.Sprintf("%d terms, expected %d", len(kr.keys), n.maxTerm)
	case !bytes.Equal(kr.RootKey(), n.rootKey):
		bad = "root key differs from the one this instance must hold"
	default:
		for t := uint32(1); t <= n.maxTerm; t++ {
			k := kr.TermKey(t)
			if k == nil || !bytes.Equal(k.Value, h.keys[t]) {
				bad = fmt.Sprintf("key of term %d missing or different from the key the active node created", t)
				break
			}
		}
	}
	if bad != "" {
		sig := "keyring-mismatch"
		if n == h.sby {
			sig = "standby-keyring-differs"
		}
		h.viol(sig, map[string]any{"node": n.name, "what": bad}, "keyring of %s: %s", n.name, bad)
	}
	if vrErr != nil {
		h.viol("verify-root-rejects-current", map[string]any{"node": n.name, "err": fmt.Sprint(vrErr)}, "VerifyRoot(root key held by %s) = %v", n.name, vrErr)
	}
	if prev != nil && !errors.Is(vrPrevErr, ErrBarrierInvalidKey) {
		h.viol("verify-root-accepts-other", map[string]any{"node": n.name, "err": fmt.Sprint(vrPrevErr)}, "VerifyRoot(an earlier root key) on %s = %v, want ErrBarrierInvalidKey", n.name, vrPrevErr)
	}
	if infoErr != nil || info == nil || info.Term != int(n.maxTerm) {
		h.viol("active-key-info", map[string]any{"node": n.name, "err": fmt.Sprint(infoErr)}, "ActiveKeyInfo of %s = %+v, %v; expected term %d", n.name, info, infoErr, n.maxTerm)
	}
	h.readBack(n, "invariant")
}

// readBack reads every model entry through n: exact value when n holds the entry's term, an error otherwise.
func (h *c10H) readBack(n *c10Node, stage string) {
	for _, k := range h.sortedEntryKeys() {
		want := h.entries[k]
		et := h.entryTerm[k]
		var e *logical.StorageEntry
		var err error
		h.try("Get", func() { e, err = n.b.Get(h.ctx, k) })
		d := func() map[string]any {
			m := map[string]any{"node": n.name, "stage": stage, "key": k, "entry_term": et, "want": fmt.Sprintf("%x", want), "err": fmt.Sprint(err)}
			if e != nil {
				m["got"] = fmt.Sprintf("%x", e.Value)
			}
			return m
		}
		if pt, pv, ok := h.physHeader(k); !ok || pt != et || pv != AESGCMVersion2 {
			h.viol("stored-record-header-changed", d(), "physical record of %q has header term %d version %d (present=%v), it was written under term %d", k, pt, pv, ok, et)
		}
		if et > n.maxTerm {
			// only possible on an instance that lags behind (standby): it cannot decrypt and must say so
			if err == nil {
				h.viol("read-without-key", d(), "%s does not hold term %d but Get(%q) returned err=nil", n.name, et, k)
			}
			continue
		}
		switch {
		case err != nil:
			h.viol("entry-unreadable", d(), "%s (%s): Get(%q) of an entry written under term %d failed: %v", n.name, stage, k, et, err)
		case e == nil:
			h.viol("entry-lost", d(), "%s (%s): Get(%q) returned nothing, the entry was written under term %d", n.name, stage, k, et)
		case !bytes.Equal(e.Value, want):
			h.viol("entry-changed", d(), "%s (%s): Get(%q) = %x, written %x", n.name, stage, k, e.Value, want)
		default:
			if et < h.term {
				h.oldTermReads++
				if n.event {
					h.fNontrivial = true
				}
			}
		}
	}
}

func (h *c10H) invariant() {
	for _, n := range []*c10Node{h.act, h.sby} {
		if n.sealed {
			h.checkSealed(n)
		} else {
			h.checkUnsealed(n)
		}
	}
}

// ------------------------------------------------------------------ operations

func (h *c10H) drawValue(label string) []byte {
	if rapid.IntRange(0, 9).Draw(h.rt, label+"Big") == 0 {
		n := rapid.IntRange(200, 2000).Draw(h.rt, label+"Len")
		return c10Fill(rapid.Uint64().Draw(h.rt, label+"Seed"), n)
	}
	return rapid.SliceOfN(rapid.Byte(), 0, 24).Draw(h.rt, label)
}

func c10Fill(seed uint64, n int) []byte {
	out := make([]byte, n)
	x := seed
	for i := range out {
		x = x*6364136223846793005 + 1442695040888963407
		out[i] = byte(x >> 56)
	}
	return out
}

func (h *c10H) drawRootKey(label string) []byte {
	n := rapid.SampledFrom([]int{32, 32, 32, 32, 16, 24}).Draw(h.rt, label+"Len")
	return rapid.SliceOfN(rapid.Byte(), n, n).Draw(h.rt, label)
}

func (h *c10H) opPut() {
	key := rapid.SampledFrom(c10Keys).Draw(h.rt, "key")
	val := h.drawValue("val")
	n := h.act
	var err error
	h.try("Put", func() { err = n.b.Put(h.ctx, &logical.StorageEntry{Key: key, Value: c10Copy(val)}) })
	if n.sealed {
		if !errors.Is(err, ErrBarrierSealed) {
			h.viol("sealed-op-served:Put", map[string]any{"key": key, "err": fmt.Sprint(err)}, "Put on the sealed active returned %v", err)
		}
		return
	}
	if err != nil {
		h.viol("put-fails", map[string]any{"key": key, "err": fmt.Sprint(err)}, "Put(%q) on the unsealed active failed: %v", key, err)
		return
	}
	h.entries[key] = val
	h.entryTerm[key] = h.term
	h.checkNewRecord("Put", key, h.term)
}

func (h *c10H) opDelete() {
	key := rapid.SampledFrom(c10Keys).Draw(h.rt, "key")
	n := h.act
	var err error
	h.try("Delete", func() { err = n.b.Delete(h.ctx, key) })
	if n.sealed {
		if !errors.Is(err, ErrBarrierSealed) {
			h.viol("sealed-op-served:Delete", map[string]any{"key": key, "err": fmt.Sprint(err)}, "Delete on the sealed active returned %v", err)
		}
		return
	}
	if err != nil {
		h.viol("delete-fails", map[string]any{"key": key, "err": fmt.Sprint(err)}, "Delete(%q) failed: %v", key, err)
		return
	}
	delete(h.entries, key)
	delete(h.entryTerm, key)
	if _, _, ok := h.physHeader(key); ok {
		h.viol("delete-not-effective", map[string]any{"key": key}, "Delete(%q) succeeded but the physical record is still there", key)
	}
}

func (h *c10H) opGet(n *c10Node, viaTxn bool) {
	key := rapid.SampledFrom(c10Keys).Draw(h.rt, "key")
	var e *logical.StorageEntry
	var err error
	h.try("Get", func() {
		if !viaTxn {
			e, err = n.b.Get(h.ctx, key)
			return
		}
		tx, terr := n.b.BeginReadOnlyTx(h.ctx)
		if terr != nil {
			err = terr
			return
		}
		defer func() { _ = tx.Rollback(h.ctx) }()
		e, err = tx.Get(h.ctx, key)
	})
	d := map[string]any{"node": n.name, "key": key, "txn": viaTxn, "err": fmt.Sprint(err)}
	if n.sealed {
		if !errors.Is(err, ErrBarrierSealed) || e != nil {
			h.viol("sealed-op-served:Get", d, "Get on the sealed %s returned (%v, %v)", n.name, e != nil, err)
		}
		return
	}
	want, exists := h.entries[key]
	switch {
	case !exists:
		if err != nil || e != nil {
			h.viol("get-absent-key", d, "Get(%q) of a key that holds nothing returned (%v, %v)", key, e != nil, err)
		}
	case h.entryTerm[key] > n.maxTerm:
		if err == nil {
			h.viol("read-without-key", d, "%s does not hold term %d but Get(%q) returned err=nil", n.name, h.entryTerm[key], key)
		}
	case err != nil || e == nil:
		h.viol("entry-unreadable", d, "%s: Get(%q) of an entry written under term %d returned (%v, %v)", n.name, key, h.entryTerm[key], e != nil, err)
	case !bytes.Equal(e.Value, want):
		d["got"], d["want"] = fmt.Sprintf("%x", e.Value), fmt.Sprintf("%x", want)
		h.viol("entry-changed", d, "%s: Get(%q) = %x, written %x", n.name, key, e.Value, want)
	}
}

func (h *c10H) opList(n *c10Node) {
	prefix := rapid.SampledFrom(c10Prefixes).Draw(h.rt, "prefix")
	var l, lp []string
	var err, errp error
	h.try("List", func() {
		l, err = n.b.List(h.ctx, prefix)
		lp, errp = n.b.ListPage(h.ctx, prefix, "", -1)
	})
	if n.sealed {
		if !errors.Is(err, ErrBarrierSealed) || !errors.Is(errp, ErrBarrierSealed) || l != nil || lp != nil {
			h.viol("sealed-op-served:List", map[string]any{"node": n.name, "err": fmt.Sprint(err), "err_page": fmt.Sprint(errp)}, "List on the sealed %s returned (%v, %v)", n.name, l, err)
		}
		return
	}
	want := h.modelList(h.entries, prefix)
	if err != nil || errp != nil || !c10SameList(l, want) || !c10SameList(lp, want) {
		h.viol("list-differs", map[string]any{"node": n.name, "prefix": prefix, "got": fmt.Sprint(l), "got_page": fmt.Sprint(lp), "want": fmt.Sprint(want), "err": fmt.Sprint(err)},
			"%s: List(%q) = %v (err %v), ListPage = %v (err %v), model has %v", n.name, prefix, l, err, lp, errp, want)
	}
}

// opTxn runs a transaction on the active: puts, deletes, reads, lists, optionally a rotation or a seal in the
// middle, then Commit or Rollback.
func (h *c10H) opTxn() {
	n := h.act
	nops := rapid.IntRange(1, 4).Draw(h.rt, "txnOps")
	commit := rapid.IntRange(0, 4).Draw(h.rt, "txnCommit") > 0
	var tx logical.Transaction
	var err error
	h.try("BeginTx", func() { tx, err = n.b.BeginTx(h.ctx) })
	if err != nil {
		if n.sealed && errors.Is(err, ErrBarrierSealed) {
			return
		}
		h.viol("begin-tx-fails", map[string]any{"err": fmt.Sprint(err)}, "BeginTx failed: %v", err)
		return
	}
	finished := false
	defer func() {
		if !finished {
			_ = tx.Rollback(h.ctx)
		}
	}()
	pend := map[string][]byte{}
	pendTerm := map[string]uint32{}
	for k, v := range h.entries {
		pend[k] = v
		pendTerm[k] = h.entryTerm[k]
	}
	wrote := map[string]bool{}
	sealedInside := false
	for i := 0; i < nops; i++ {
		kind := rapid.SampledFrom([]string{"put", "put", "put", "delete", "get", "get", "list", "rotate", "seal"}).Draw(h.rt, "txnOp")
		key := rapid.SampledFrom(c10Keys).Draw(h.rt, "key")
		switch kind {
		case "put":
			val := h.drawValue("val")
			h.try("tx.Put", func() { err = tx.Put(h.ctx, &logical.StorageEntry{Key: key, Value: c10Copy(val)}) })
			if n.sealed {
				if !errors.Is(err, ErrBarrierSealed) {
					h.viol("sealed-op-served:tx.Put", map[string]any{"err": fmt.Sprint(err)}, "Put in a transaction of the sealed active returned %v", err)
				}
				continue
			}
			if err != nil {
				h.viol("put-fails", map[string]any{"key": key, "txn": true, "err": fmt.Sprint(err)}, "Put(%q) in a transaction failed: %v", key, err)
				continue
			}
			pend[key], pendTerm[key], wrote[key] = val, h.term, true
		case "delete":
			h.try("tx.Delete", func() { err = tx.Delete(h.ctx, key) })
			if n.sealed {
				if !errors.Is(err, ErrBarrierSealed) {
					h.viol("sealed-op-served:tx.Delete", map[string]any{"err": fmt.Sprint(err)}, "Delete in a transaction of the sealed active returned %v", err)
				}
				continue
			}
			if err != nil {
				h.viol("delete-fails", map[string]any{"key": key, "txn": true, "err": fmt.Sprint(err)}, "Delete(%q) in a transaction failed: %v", key, err)
				continue
			}
			delete(pend, key)
			delete(pendTerm, key)
			delete(wrote, key)
		case "get":
			var e *logical.StorageEntry
			h.try("tx.Get", func() { e, err = tx.Get(h.ctx, key) })
			if n.sealed {
				if !errors.Is(err, ErrBarrierSealed) || e != nil {
					h.viol("sealed-op-served:tx.Get", map[string]any{"err": fmt.Sprint(err)}, "Get in a transaction of the sealed active returned (%v, %v)", e != nil, err)
				}
				continue
			}
			want, exists := pend[key]
			if err != nil || (e != nil) != exists || (exists && !bytes.Equal(e.Value, want)) {
				h.viol("txn-read-differs", map[string]any{"key": key, "err": fmt.Sprint(err), "want_present": exists}, "Get(%q) inside the transaction returned (%v, %v), the transaction's view has present=%v", key, e != nil, err, exists)
			}
		case "list":
			prefix := rapid.SampledFrom(c10Prefixes).Draw(h.rt, "prefix")
			var l []string
			h.try("tx.List", func() { l, err = tx.List(h.ctx, prefix) })
			if n.sealed {
				if !errors.Is(err, ErrBarrierSealed) || l != nil {
					h.viol("sealed-op-served:tx.List", map[string]any{"err": fmt.Sprint(err)}, "List in a transaction of the sealed active returned (%v, %v)", l, err)
				}
				continue
			}
			if want := h.modelList(pend, prefix); err != nil || !c10SameList(l, want) {
				h.viol("list-differs", map[string]any{"txn": true, "prefix": prefix, "got": fmt.Sprint(l), "want": fmt.Sprint(want), "err": fmt.Sprint(err)}, "List(%q) inside the transaction = %v (err %v), its view has %v", prefix, l, err, want)
			}
		case "rotate":
			if rapid.IntRange(0, 2).Draw(h.rt, "txnRotate") == 0 {
				h.rotate(false)
			}
		case "seal":
			if !n.sealed && rapid.IntRange(0, 3).Draw(h.rt, "txnSeal") == 0 {
				h.seal(n)
				sealedInside = true
			}
		}
	}
	if sealedInside || n.sealed || !commit {
		// Commit after a seal is not part of the statement (the physical commit does not go through the barrier): roll back.
		h.try("tx.Rollback", func() { err = tx.Rollback(h.ctx) })
		finished = true
		if err != nil {
			h.viol("rollback-fails", map[string]any{"err": fmt.Sprint(err)}, "Rollback failed: %v", err)
		}
		return
	}
	h.try("tx.Commit", func() { err = tx.Commit(h.ctx) })
	finished = true
	if err != nil {
		h.viol("commit-fails", map[string]any{"err": fmt.Sprint(err)}, "Commit of a transaction without concurrent writers failed: %v", err)
		return
	}
	h.entries, h.entryTerm = pend, pendTerm
	wk := make([]string, 0, len(wrote))
	for k := range wrote {
		wk = append(wk, k)
	}
	sort.Strings(wk)
	for _, k := range wk {
		h.checkNewRecord("tx.Put+Commit", k, pendTerm[k])
	}
}

func (h *c10H) opCrypt() {
	key := rapid.SampledFrom(c10Keys).Draw(h.rt, "key")
	pt := h.drawValue("plaintext")
	a, s := h.act, h.sby
	var ct, back, backS []byte
	var err, derr, serr error
	h.try("Encrypt/Decrypt", func() {
		ct, err = a.b.Encrypt(h.ctx, key, pt)
		if err == nil {
			back, derr = a.b.Decrypt(h.ctx, key, ct)
			backS, serr = s.b.Decrypt(h.ctx, key, ct)
		}
	})
	if a.sealed {
		if !errors.Is(err, ErrBarrierSealed) || ct != nil {
			h.viol("sealed-op-served:Encrypt", map[string]any{"err": fmt.Sprint(err)}, "Encrypt on the sealed active returned (%v, %v)", ct != nil, err)
		}
		return
	}
	if err != nil || len(ct) < 5 || binary.BigEndian.Uint32(ct[:4]) != h.term {
		h.viol("encrypt-not-under-newest-term", map[string]any{"err": fmt.Sprint(err), "ciphertext": fmt.Sprintf("%x", ct)}, "Encrypt returned %x, %v; the newest term is %d", ct, err, h.term)
		return
	}
	if derr != nil || !bytes.Equal(back, pt) {
		h.viol("decrypt-roundtrip", map[string]any{"err": fmt.Sprint(derr)}, "Decrypt(Encrypt(x)) on the active = %x, %v; x = %x", back, derr, pt)
	}
	switch {
	case s.sealed:
		if !errors.Is(serr, ErrBarrierSealed) || backS != nil {
			h.viol("sealed-op-served:Decrypt", map[string]any{"err": fmt.Sprint(serr)}, "Decrypt on the sealed standby returned (%v, %v)", backS != nil, serr)
		}
	case s.maxTerm >= h.term:
		if serr != nil || !bytes.Equal(backS, pt) {
			h.viol("standby-decrypt", map[string]any{"err": fmt.Sprint(serr)}, "the standby holds term %d but Decrypt returned %x, %v", h.term, backS, serr)
		}
	default:
		if serr == nil {
			h.viol("read-without-key", map[string]any{}, "the standby does not hold term %d but Decrypt succeeded", h.term)
		}
	}
}

func (h *c10H) rotate(withUpgrade bool) {
	n := h.act
	var nt uint32
	var err error
	h.try("Rotate", func() { nt, err = n.b.Rotate(h.ctx) })
	if n.sealed {
		if !errors.Is(err, ErrBarrierSealed) {
			h.viol("sealed-op-served:Rotate", map[string]any{"err": fmt.Sprint(err)}, "Rotate on the sealed active returned %v", err)
		}
		return
	}
	if err != nil || nt != h.term+1 {
		h.viol("rotate-fails", map[string]any{"err": fmt.Sprint(err), "returned_term": nt}, "Rotate returned (%d, %v), expected term %d", nt, err, h.term+1)
		return
	}
	h.term++
	n.maxTerm = h.term
	h.fRot = true
	var kr *Keyring
	h.try("Keyring", func() { kr, err = n.b.Keyring() })
	if err != nil || kr == nil || kr.TermKey(h.term) == nil {
		h.viol("rotate-key-missing", map[string]any{"err": fmt.Sprint(err)}, "after Rotate the active's keyring has no key for term %d (%v)", h.term, err)
		return
	}
	h.keys[h.term] = c10Copy(kr.TermKey(h.term).Value)
	for t := uint32(1); t < h.term; t++ {
		if bytes.Equal(h.keys[t], h.keys[h.term]) {
			h.viol("rotate-reuses-key", map[string]any{"term": t}, "the key of the new term %d equals the key of term %d", h.term, t)
		}
	}
	if pt, _, ok := h.physHeader(RootKeyPath); !ok || pt != h.term {
		h.viol("root-key-record-not-under-newest-term", map[string]any{"record_term": pt, "present": ok}, "after Rotate the %s record is under term %d, newest is %d", RootKeyPath, pt, h.term)
	}
	if withUpgrade {
		h.createUpgrade(h.term)
	}
}

func (h *c10H) createUpgrade(term uint32) {
	n := h.act
	var err error
	h.try("CreateUpgrade", func() { err = n.b.CreateUpgrade(h.ctx, term) })
	if n.sealed {
		if !errors.Is(err, ErrBarrierSealed) {
			h.viol("sealed-op-served:CreateUpgrade", map[string]any{"err": fmt.Sprint(err)}, "CreateUpgrade on the sealed active returned %v", err)
		}
		return
	}
	if err != nil {
		h.viol("create-upgrade-fails", map[string]any{"term": term, "err": fmt.Sprint(err)}, "CreateUpgrade(%d) failed: %v", term, err)
		return
	}
	h.upgrades[term-1] = true
	path := fmt.Sprintf("%s%d", KeyringUpgradePrefix, term-1)
	if pt, _, ok := h.physHeader(path); !ok || pt != term-1 {
		h.viol("upgrade-record-term", map[string]any{"term": term, "record_term": pt, "present": ok}, "CreateUpgrade(%d) left %q under term %d (present=%v), standbys at term %d cannot read anything else", term, path, pt, ok, term-1)
	}
}

func (h *c10H) destroyUpgrade(term uint32) {
	n := h.act
	var err error
	h.try("DestroyUpgrade", func() { err = n.b.DestroyUpgrade(h.ctx, term) })
	if n.sealed {
		if !errors.Is(err, ErrBarrierSealed) {
			h.viol("sealed-op-served:DestroyUpgrade", map[string]any{"err": fmt.Sprint(err)}, "DestroyUpgrade on the sealed active returned %v", err)
		}
		return
	}
	if err != nil {
		h.viol("destroy-upgrade-fails", map[string]any{"term": term, "err": fmt.Sprint(err)}, "DestroyUpgrade(%d) failed: %v", term, err)
		return
	}
	delete(h.upgrades, term-1)
}

func (h *c10H) rotateRoot() {
	n := h.act
	var newKey []byte
	valid := true
	if rapid.IntRange(0, 5).Draw(h.rt, "badRootKeySize") == 0 {
		sz := rapid.SampledFrom([]int{0, 1, 8, 15, 17, 20, 31, 33, 64}).Draw(h.rt, "rootKeySize")
		newKey = rapid.SliceOfN(rapid.Byte(), sz, sz).Draw(h.rt, "newRootKey")
		valid = false
	} else {
		newKey = h.drawRootKey("newRootKey")
	}
	var err error
	h.try("RotateRootKey", func() { err = n.b.RotateRootKey(h.ctx, c10Copy(newKey)) })
	if n.sealed {
		if !errors.Is(err, ErrBarrierSealed) {
			h.viol("sealed-op-served:RotateRootKey", map[string]any{"err": fmt.Sprint(err)}, "RotateRootKey on the sealed active returned %v", err)
		}
		return
	}
	if !valid {
		if err == nil {
			h.viol("root-key-bad-size-accepted", map[string]any{"size": len(newKey)}, "RotateRootKey accepted a %d-byte key", len(newKey))
		}
		return // nothing may have changed: the invariant checks the keyring, the next unseal checks the store
	}
	if err != nil {
		h.viol("rotate-root-fails", map[string]any{"err": fmt.Sprint(err), "size": len(newKey)}, "RotateRootKey with a %d-byte key failed: %v", len(newKey), err)
		return
	}
	h.prevRoots = append(h.prevRoots, h.rootKey)
	h.rootKey = c10Copy(newKey)
	n.rootKey = h.rootKey
	h.fRootRot = true
	if pt, _, ok := h.physHeader(RootKeyPath); !ok || pt != h.term {
		h.viol("root-key-record-not-under-newest-term", map[string]any{"record_term": pt, "present": ok}, "after RotateRootKey the %s record is under term %d, newest is %d", RootKeyPath, pt, h.term)
	}
}

func (h *c10H) seal(n *c10Node) {
	held := n.b.keyring // in-package: the keyring object in use right before the seal
	var err error
	h.try("Seal", func() { err = n.b.Seal() })
	if err != nil {
		h.viol("seal-fails", map[string]any{"node": n.name, "err": fmt.Sprint(err)}, "Seal of %s failed: %v", n.name, err)
		return
	}
	wasUnsealed := !n.sealed
	n.sealed, n.rootKey, n.maxTerm = true, nil, 0
	if wasUnsealed && held != nil {
		left := !c10Zero(held.rootKey)
		for _, k := range held.keys {
			if !c10Zero(k.Value) {
				left = true
			}
		}
		if left {
			h.viol("keys-not-zeroized-on-seal", map[string]any{"node": n.name}, "after Seal the keyring object %s used still contains key bytes", n.name)
		}
	}
	h.checkSealed(n)
}

// unseal tries one key on n; the expected outcome is computed from the key bytes alone.
func (h *c10H) unseal(n *c10Node, kind string, key []byte) {
	var err error
	h.try("Unseal", func() { err = n.b.Unseal(h.ctx, c10Copy(key)) })
	d := map[string]any{"node": n.name, "key_kind": kind, "key_len": len(key), "err": fmt.Sprint(err)}
	if !n.sealed {
		if err != nil {
			h.viol("unseal-of-unsealed-fails", d, "Unseal on the already unsealed %s returned %v", n.name, err)
		}
		return
	}
	right := bytes.Equal(key, h.rootKey)
	validSize := len(key) == 16 || len(key) == 24 || len(key) == 32
	switch {
	case right:
		if err != nil {
			h.viol("unseal-with-current-root-key-fails", d, "Unseal of %s with the current root key failed: %v", n.name, err)
			return
		}
		n.sealed, n.rootKey, n.maxTerm = false, h.rootKey, h.term
		n.event = h.term > 1
		h.fSealCycle = true
		h.checkUnsealed(n) // every entry reads back exactly, keyring complete
	case err == nil:
		h.viol("unseal-accepts-wrong-key:"+kind, d, "Unseal of %s succeeded with a %s key of %d bytes that is not the current root key", n.name, kind, len(key))
	default:
		if validSize && !errors.Is(err, ErrBarrierInvalidKey) {
			h.viol("unseal-wrong-key-error", d, "Unseal of %s with a %s key returned %v, want ErrBarrierInvalidKey", n.name, kind, err)
		}
		var sealedFlag bool
		h.try("Sealed", func() { sealedFlag = n.b.Sealed() })
		if !sealedFlag {
			h.viol("unsealed-after-failed-unseal:"+kind, d, "%s is unsealed after Unseal failed with %v", n.name, err)
		}
		h.checkSealed(n)
	}
}

func (h *c10H) drawUnsealKey(rightWeight int) (string, []byte) {
	kinds := []string{"wrong", "truncated", "previous", "extended"}
	for i := 0; i < rightWeight; i++ {
		kinds = append(kinds, "right")
	}
	kind := rapid.SampledFrom(kinds).Draw(h.rt, "unsealKind")
	switch kind {
	case "right":
		return kind, h.rootKey
	case "truncated":
		l := rapid.SampledFrom([]int{0, 1, 8, 15, 16, 16, 24, 24, 31}).Draw(h.rt, "truncLen")
		if l >= len(h.rootKey) {
			l = len(h.rootKey) - 1
		}
		return kind, h.rootKey[:l]
	case "extended":
		return kind, append(c10Copy(h.rootKey), rapid.Byte().Draw(h.rt, "extByte"))
	case "previous":
		if len(h.prevRoots) > 0 {
			return kind, h.prevRoots[rapid.IntRange(0, len(h.prevRoots)-1).Draw(h.rt, "prevIdx")]
		}
		fallthrough
	default:
		if rapid.Bool().Draw(h.rt, "oneBitOff") {
			k := c10Copy(h.rootKey)
			k[rapid.IntRange(0, len(k)-1).Draw(h.rt, "flipAt")] ^= 1 << uint(rapid.IntRange(0, 7).Draw(h.rt, "flipBit"))
			return "wrong", k
		}
		return "wrong", h.drawRootKey("wrongKey")
	}
}

func (h *c10H) opSeal(n *c10Node) {
	if rapid.IntRange(0, 3).Draw(h.rt, "stayLong") == 0 {
		h.seal(n)
		return
	}
	// seal, a few unseal attempts, usually ending with the right key
	h.seal(n)
	for i, k := 0, rapid.IntRange(0, 3).Draw(h.rt, "attempts"); i < k && n.sealed; i++ {
		kind, key := h.drawUnsealKey(1)
		h.unseal(n, kind, key)
	}
	if n.sealed && rapid.IntRange(0, 4).Draw(h.rt, "finishRight") > 0 {
		h.unseal(n, "right", h.rootKey)
	}
}

func (h *c10H) opUnseal(n *c10Node) {
	kind, key := h.drawUnsealKey(6)
	h.unseal(n, kind, key)
}

func (h *c10H) reloadKeyring(n *c10Node) bool {
	if n.sealed {
		return false // ReloadKeyring on a sealed barrier is not part of the statement and not generated
	}
	var err error
	h.try("ReloadKeyring", func() { err = n.b.ReloadKeyring(h.ctx) })
	d := map[string]any{"node": n.name, "err": fmt.Sprint(err)}
	if bytes.Equal(n.rootKey, h.rootKey) {
		if err != nil {
			h.viol("reload-keyring-fails", d, "ReloadKeyring on %s, which holds the current root key, failed: %v", n.name, err)
			return false
		}
		if n.maxTerm < h.term || h.term > 1 {
			n.event = true
		}
		n.maxTerm = h.term
		return true
	}
	if !errors.Is(err, ErrBarrierInvalidKey) {
		h.viol("reload-keyring-with-stale-root-key", d, "ReloadKeyring on %s, which holds an outdated root key, returned %v, want ErrBarrierInvalidKey", n.name, err)
	}
	return false
}

func (h *c10H) reloadRootKey(n *c10Node) bool {
	var err error
	h.try("ReloadRootKey", func() { err = n.b.ReloadRootKey(h.ctx) })
	d := map[string]any{"node": n.name, "err": fmt.Sprint(err)}
	if n.sealed {
		if !errors.Is(err, ErrBarrierSealed) {
			h.viol("sealed-op-served:ReloadRootKey", d, "ReloadRootKey on the sealed %s returned %v", n.name, err)
		}
		return false
	}
	// the root-key record is always written under the newest term
	if n.maxTerm >= h.term {
		if err != nil {
			h.viol("reload-root-key-fails", d, "ReloadRootKey on %s, which holds the newest term, failed: %v", n.name, err)
			return false
		}
		n.rootKey = h.rootKey
		return true
	}
	if err == nil {
		h.viol("read-without-key", d, "ReloadRootKey on %s succeeded although it does not hold term %d of the root-key record", n.name, h.term)
	}
	return false
}

// walk is the standby's upgrade loop (Core.checkKeyringUpgrade): CheckUpgrade until it reports nothing.
func (h *c10H) walk(n *c10Node) bool {
	if n.sealed {
		var err error
		h.try("CheckUpgrade", func() { _, _, err = n.b.CheckUpgrade(h.ctx) })
		if !errors.Is(err, ErrBarrierSealed) {
			h.viol("sealed-op-served:CheckUpgrade", map[string]any{"node": n.name, "err": fmt.Sprint(err)}, "CheckUpgrade on the sealed %s returned %v", n.name, err)
		}
		return false
	}
	installed := 0
	for guard := 0; guard < 64; guard++ {
		var did bool
		var nt uint32
		var err error
		h.try("CheckUpgrade", func() { did, nt, err = n.b.CheckUpgrade(h.ctx) })
		want := h.upgrades[n.maxTerm]
		d := map[string]any{"node": n.name, "at_term": n.maxTerm, "upgrade_record_present": want, "did": did, "new_term": nt, "err": fmt.Sprint(err)}
		if err != nil {
			h.viol("check-upgrade-fails", d, "CheckUpgrade on %s at term %d failed: %v", n.name, n.maxTerm, err)
			return false
		}
		if did != want || (did && nt != n.maxTerm+1) {
			h.viol("check-upgrade-result", d, "CheckUpgrade on %s at term %d returned (%v, %d); upgrade record core/upgrade/%d present: %v", n.name, n.maxTerm, did, nt, n.maxTerm, want)
			return false
		}
		if !did {
			break
		}
		n.maxTerm++
		installed++
	}
	if installed > 0 {
		n.event = true
		if n == h.sby {
			h.fUpgrade = true
		}
	}
	h.checkUnsealed(n) // keyring equals the model (and through it the active's) up to the term reached
	return true
}

// follow is Core.performKeyUpgrades: upgrade walk, ReloadRootKey, ReloadKeyring.
func (h *c10H) follow(n *c10Node) bool {
	if !h.walk(n) {
		return false
	}
	if !h.reloadRootKey(n) {
		return false
	}
	if !h.reloadKeyring(n) {
		return false
	}
	// the statement: a standby following the upgrade path ends with the same keyring as the active node
	if n != h.act && !h.act.sealed {
		var a, s *Keyring
		var ea, es error
		h.try("Keyring", func() { a, ea = h.act.b.Keyring(); s, es = n.b.Keyring() })
		same := ea == nil && es == nil && a.ActiveTerm() == s.ActiveTerm() && len(a.keys) == len(s.keys) && bytes.Equal(a.RootKey(), s.RootKey())
		if same {
			for t, k := range a.keys {
				if sk := s.TermKey(t); sk == nil || !bytes.Equal(sk.Value, k.Value) {
					same = false
				}
			}
		}
		if !same {
			h.viol("standby-keyring-differs", map[string]any{"err_active": fmt.Sprint(ea), "err_standby": fmt.Sprint(es)}, "after the upgrade walk, ReloadRootKey and ReloadKeyring the standby's keyring differs from the active's")
		}
	}
	h.checkUnsealed(n)
	return true
}

func (h *c10H) opFailover() {
	if h.sby.sealed {
		// a sealed standby cannot take over; it is unsealed by an operator first
		h.unseal(h.sby, "right", h.rootKey)
		if h.sby.sealed {
			return
		}
	}
	if !h.follow(h.sby) {
		return // the model predicted (and the checks above confirmed) that this standby cannot catch up
	}
	h.act, h.sby = h.sby, h.act
	h.fFailover = true
	// the new active must serve everything and write under the newest term
	h.readBack(h.act, "after-failover")
}

// ------------------------------------------------------------------ the property

func c10Prop(rec *verifx.Recorder) func(rt *rapid.T) {
	return func(rt *rapid.T) {
		ctx := context.Background()
		inm, err := inmem.NewInmem(nil, c10NullLogger)
		if err != nil {
			rt.Fatalf("harness: inmem: %v", err)
		}
		h := &c10H{rt: rt, rec: rec, ctx: ctx, inm: inm,
			entries: map[string][]byte{}, entryTerm: map[string]uint32{}, keys: map[uint32][]byte{}, upgrades: map[uint32]bool{}, ops: map[string]int64{}}
		h.act = &c10Node{name: "node1", b: NewAESGCMBarrier(inm, nil).(*TransactionalAESGCMBarrier), sealed: true}
		h.sby = &c10Node{name: "node2", b: NewAESGCMBarrier(inm, nil).(*TransactionalAESGCMBarrier), sealed: true}
		h.rootKey = h.drawRootKey("rootKey")
		h.term = 1

		// before initialisation nothing can be unsealed
		var uerr error
		h.try("Unseal", func() { uerr = h.act.b.Unseal(ctx, c10Copy(h.rootKey)) })
		if !errors.Is(uerr, ErrBarrierNotInit) || !h.act.b.Sealed() {
			h.viol("unseal-before-init", map[string]any{"err": fmt.Sprint(uerr)}, "Unseal of an uninitialised barrier returned %v", uerr)
		}
		if err := h.act.b.Initialize(ctx, c10Copy(h.rootKey), nil); err != nil {
			rt.Fatalf("harness: initialize: %v", err)
		}
		h.checkSealed(h.act)
		h.checkSealed(h.sby)
		for _, n := range []*c10Node{h.act, h.sby} {
			var err error
			h.try("Unseal", func() { err = n.b.Unseal(ctx, c10Copy(h.rootKey)) })
			if err != nil {
				h.viol("unseal-with-current-root-key-fails", map[string]any{"node": n.name, "err": fmt.Sprint(err)}, "first Unseal of %s failed: %v", n.name, err)
			}
			n.sealed, n.rootKey, n.maxTerm = false, h.rootKey, 1
		}
		kr, err := h.act.b.Keyring()
		if err != nil || kr.TermKey(1) == nil {
			rt.Fatalf("harness: keyring after init: %v", err)
		}
		h.keys[1] = c10Copy(kr.TermKey(1).Value)
		h.fSealCycle = false

		count := func(name string, f func()) func(*rapid.T) {
			return func(*rapid.T) {
				h.ops[name]++
				f()
			}
		}
		actions := map[string]func(*rapid.T){
			"":                 func(*rapid.T) { h.invariant() },
			"01-put":              count("put", h.opPut),
			"24-put-again":        count("put", h.opPut),
			"03-txn":              count("txn", h.opTxn),
			"25-txn-again":        count("txn", h.opTxn),
			"14-delete":           count("delete", h.opDelete),
			"04-get":              count("get", func() { h.opGet(h.act, rapid.Bool().Draw(rt, "viaTxn")) }),
			"08-get-standby":      count("get-standby", func() { h.opGet(h.sby, rapid.Bool().Draw(rt, "viaTxn")) }),
			"15-list":             count("list", func() { h.opList(h.act) }),
			"21-list-standby":     count("list", func() { h.opList(h.sby) }),
			"16-crypt":            count("encrypt-decrypt", h.opCrypt),
			"02-rotate":           count("rotate", func() { h.rotate(rapid.IntRange(0, 9).Draw(rt, "withUpgrade") < 7) }),
			"26-rotate-again":     count("rotate", func() { h.rotate(rapid.IntRange(0, 9).Draw(rt, "withUpgrade") < 7) }),
			"09-rotate-root-key":  count("rotate-root-key", h.rotateRoot),
			"05-seal-active":      count("seal-active", func() { h.opSeal(h.act) }),
			"10-seal-standby":     count("seal-standby", func() { h.opSeal(h.sby) }),
			"06-unseal-active":    count("unseal-active", func() { h.opUnseal(h.act) }),
			"11-unseal-standby":   count("unseal-standby", func() { h.opUnseal(h.sby) }),
			"17-reload-keyring":   count("reload-keyring", func() { h.reloadKeyring(h.act); h.reloadKeyring(h.sby) }),
			"18-reload-root-key":  count("reload-root-key", func() { h.reloadRootKey(h.act); h.reloadRootKey(h.sby) }),
			"19-create-upgrade": count("create-upgrade", func() {
				if h.term < 2 {
					h.rotate(true)
					return
				}
				h.createUpgrade(uint32(rapid.IntRange(2, int(h.term)).Draw(rt, "upgradeTerm")))
			}),
			"20-destroy-upgrade": count("destroy-upgrade", func() {
				h.destroyUpgrade(uint32(rapid.IntRange(2, int(h.term)+1).Draw(rt, "upgradeTerm")))
			}),
			"13-standby-walk":   count("standby-walk", func() { h.walk(h.sby) }),
			"22-active-walk":    count("active-walk", func() { h.walk(h.act) }),
			"07-standby-follow": count("standby-follow", func() { h.follow(h.sby) }),
			"12-failover":       count("failover", h.opFailover),
			"23-autorotate-check": count("autorotate-check", func() {
				n := h.act
				var reason string
				var err error
				h.try("CheckBarrierAutoRotate", func() { reason, err = n.b.CheckBarrierAutoRotate(ctx) })
				if err != nil || reason != "" {
					h.viol("autorotate-check", map[string]any{"err": fmt.Sprint(err), "reason": reason}, "CheckBarrierAutoRotate returned (%q, %v) with the default rotation config", reason, err)
				}
			}),
		}
		defer func() {
			for k, v := range h.ops {
				rec.Class("op:"+k, v)
			}
			rec.Class("reads-of-entries-under-older-term", int64(h.oldTermReads))
		}()
		rt.Repeat(actions)

		// end of the history: whoever is sealed is unsealed with the current root key and must serve everything
		for _, n := range []*c10Node{h.act, h.sby} {
			if n.sealed {
				h.unseal(n, "right", h.rootKey)
			}
		}
		h.readBack(h.act, "final")

		flag := func(b bool, s string) string {
			if b {
				return s
			}
			return "-"
		}
		class := "rotate:" + flag(h.fRot, "y") + " rootkey:" + flag(h.fRootRot, "y") + " seal-cycle:" + flag(h.fSealCycle, "y") + " standby-upgrade:" + flag(h.fUpgrade, "y") + " failover:" + flag(h.fFailover, "y")
		opsSorted := make([]string, 0, len(h.ops))
		for k, v := range h.ops {
			opsSorted = append(opsSorted, fmt.Sprintf("%s=%d", k, v))
		}
		sort.Strings(opsSorted)
		rec.Case(class, h.fNontrivial, verifx.Digest("c10", class, h.term, len(h.prevRoots), opsSorted, len(h.entries)), func() any {
			return map[string]any{"class": class, "newest_term": h.term, "root_key_rotations": len(h.prevRoots), "entries": len(h.entries), "ops": strings.Join(opsSorted, " "),
				"reads_of_entries_under_older_term": h.oldTermReads}
		})
	}
}

func TestVerif_C10_State(t *testing.T) {
	rec := verifx.NewRecorder("C10", "barrier-state",
		"rapid state machine over two AESGCMBarrier instances (active, standby) on one in-memory store: put/get/delete/list plain and transactional, Encrypt/Decrypt, Rotate (+CreateUpgrade), RotateRootKey (valid and bad sizes), Seal, Unseal with right/wrong/one-bit-off/truncated/extended/previous root key, ReloadKeyring, ReloadRootKey, Create/DestroyUpgrade, standby CheckUpgrade walk, performKeyUpgrades sequence, failover; non-trivial = >= 1 rotation, then a seal+unseal, keyring reload or standby upgrade on an instance, then that instance returns the exact value of an entry written under an older term")
	defer rec.Flush()
	rapid.Check(t, c10Prop(rec))
}
